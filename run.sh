#!/bin/bash
# usage: ./run.sh <Cnn|all> <quick|thorough> [--repo DIR]
# Builds the checker if stale and runs it against /repo's current working tree.
set -u
cd "$(dirname "$0")"
export PATH=/opt/veriftools/go1.26.8/bin:$PATH GOTOOLCHAIN=local GOFLAGS=-mod=mod GOPROXY=off GOSUMDB=off CGO_ENABLED=0
unset GOWORK GOARCH GOOS
PROP=${1:?property}; TIER=${2:-quick}; shift; shift || true
REPO=/repo; EVDIR=
while [ $# -gt 0 ]; do case "$1" in --repo) REPO=$2; shift 2;; --evdir) EVDIR=$2; shift 2;; *) shift;; esac; done
BIN=bin/fgcheck
if [ ! -x $BIN ] || [ -n "$(find fgcheck -newer $BIN -name '*.go' -print -quit 2>/dev/null)" ] || [ fgcheck/go.mod -nt $BIN ]; then
  mkdir -p bin
  (cd fgcheck && go build -o ../bin/fgcheck.tmp.$$ . ) || { echo "UNDECIDED: checker build failed"; echo "VIOLATION property=$PROP replay=/verif/fgcheck"; rm -f bin/fgcheck.tmp.$$; exit 1; }
  mv bin/fgcheck.tmp.$$ $BIN
fi
exec $BIN -prop "$PROP" -tier "$TIER" -repo "$REPO" -verif "$(pwd)" ${EVDIR:+-evdir "$EVDIR"}
