#!/bin/bash
# Builds the checker offline from files on disk and warms the Go build cache
# for the analysed modules (export data for dependencies).
set -e
cd "$(dirname "$0")"
export PATH=/opt/veriftools/go1.26.8/bin:$PATH GOTOOLCHAIN=local GOFLAGS=-mod=mod GOPROXY=off GOSUMDB=off CGO_ENABLED=0
unset GOWORK GOARCH GOOS
mkdir -p bin evidence
(cd fgcheck && go build -o ../bin/fgcheck .)
for m in . pkg/kmsg pkg/kfake pkg/kadm pkg/sr plugin/kotel; do
  (cd /repo/$m && go build ./... >/dev/null 2>&1 || true)
  # the extra build configurations analysed by the thorough tier
  (cd /repo/$m && GOARCH=386 go build ./... >/dev/null 2>&1 || true)
  (cd /repo/$m && go build -tags synctests ./... >/dev/null 2>&1 || true)
done
echo setup done
