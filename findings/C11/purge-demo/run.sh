#!/bin/bash
# usage: run.sh <worktree>
# Builds and runs the demonstration against the franz-go sources in <worktree>.
# Exit 0 = property holds (clean tree), non-zero = the bug manifested.
set -u
WT=${1:?usage: run.sh <worktree>}
HERE=$(cd "$(dirname "$0")" && pwd)
TMP=$(mktemp -d /tmp/f12-demo.XXXXXX)
trap 'rm -rf "$TMP"' EXIT
cp "$HERE/main.go" "$TMP/main.go"
cat > "$TMP/go.mod" <<MOD
module f12demo

go 1.25.0

require (
	github.com/twmb/franz-go v1.21.1
	github.com/twmb/franz-go/pkg/kfake v0.0.0
	github.com/twmb/franz-go/pkg/kmsg v1.13.1
)

replace github.com/twmb/franz-go => $WT

replace github.com/twmb/franz-go/pkg/kfake => $WT/pkg/kfake

replace github.com/twmb/franz-go/pkg/kmsg => $WT/pkg/kmsg
MOD
cat "$WT/go.sum" "$WT/pkg/kfake/go.sum" "$WT/pkg/kadm/go.sum" 2>/dev/null | sort -u > "$TMP/go.sum"
cd "$TMP" || exit 3
export GOFLAGS=-mod=mod GOPROXY=off
go build -o demo . || { echo "BUILD FAILED"; exit 3; }
./demo
