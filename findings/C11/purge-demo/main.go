// Demonstration for finding F12 (C11): a topic purged inside an open
// transaction made EndTransaction(TryAbort) return nil without sending EndTxn
// (classic transaction protocol), so the "aborted" record became visible when
// the next transaction committed.
package main

import (
	"context"
	"fmt"
	"os"
	"time"

	"github.com/twmb/franz-go/pkg/kfake"
	"github.com/twmb/franz-go/pkg/kgo"
	"github.com/twmb/franz-go/pkg/kversion"
)

func die(f string, a ...any) { fmt.Printf("DEMO-ERROR: "+f+"\n", a...); os.Exit(2) }

func main() {
	c, err := kfake.NewCluster(kfake.NumBrokers(1), kfake.SeedTopics(1, "t1", "t2"), kfake.MaxVersions(kversion.V3_8_0()))
	if err != nil {
		die("cluster: %v", err)
	}
	defer c.Close()
	cl, err := kgo.NewClient(kgo.SeedBrokers(c.ListenAddrs()...), kgo.TransactionalID("f12"), kgo.ProducerBatchCompression(kgo.NoCompression()))
	if err != nil {
		die("client: %v", err)
	}
	defer cl.Close()
	ctx, cancel := context.WithTimeout(context.Background(), 60*time.Second)
	defer cancel()

	if err := cl.BeginTransaction(); err != nil {
		die("begin: %v", err)
	}
	if err := cl.ProduceSync(ctx, &kgo.Record{Topic: "t1", Value: []byte("r1")}).FirstErr(); err != nil {
		die("r1: %v", err)
	}
	cl.PurgeTopicsFromClient("t1")
	abortErr := cl.EndTransaction(ctx, kgo.TryAbort)
	fmt.Println("abort returned:", abortErr)
	if err := cl.BeginTransaction(); err != nil {
		die("begin2: %v", err)
	}
	// the next transaction writes to another topic (producing to the purged
	// topic again is documented as hazardous and is not part of this finding)
	if err := cl.ProduceSync(ctx, &kgo.Record{Topic: "t2", Value: []byte("r2")}).FirstErr(); err != nil {
		die("r2: %v", err)
	}
	if err := cl.EndTransaction(ctx, kgo.TryCommit); err != nil {
		die("commit: %v", err)
	}
	pl, err := kgo.NewClient(kgo.SeedBrokers(c.ListenAddrs()...))
	if err != nil {
		die("plain: %v", err)
	}
	defer pl.Close()
	if err := pl.ProduceSync(ctx, &kgo.Record{Topic: "t1", Value: []byte("SENTINEL")}).FirstErr(); err != nil {
		die("sentinel: %v", err)
	}
	co, err := kgo.NewClient(kgo.SeedBrokers(c.ListenAddrs()...), kgo.ConsumeTopics("t1"), kgo.ConsumeResetOffset(kgo.NewOffset().AtStart()), kgo.FetchIsolationLevel(kgo.ReadCommitted()))
	if err != nil {
		die("consumer: %v", err)
	}
	defer co.Close()
	var visible []string
	cctx, ccancel := context.WithTimeout(ctx, 15*time.Second)
	defer ccancel()
	for done := false; !done; {
		fs := co.PollFetches(cctx)
		if cctx.Err() != nil {
			die("sentinel never visible (LSO stuck behind an open transaction?) visible=%v", visible)
		}
		fs.EachRecord(func(r *kgo.Record) {
			if string(r.Value) == "SENTINEL" {
				done = true
				return
			}
			visible = append(visible, string(r.Value))
		})
	}
	fmt.Println("read_committed view of t1 before the sentinel:", visible)
	if abortErr == nil && len(visible) > 0 {
		fmt.Println("FAIL: EndTransaction(TryAbort) reported success but the aborted record is visible")
		os.Exit(1)
	}
	fmt.Println("PASS")
}
