package kfake

import (
	"context"
	"os"
	"path/filepath"
	"testing"
	"time"

	"github.com/twmb/franz-go/pkg/kgo"
	"github.com/twmb/franz-go/pkg/kmsg"
	"github.com/twmb/franz-go/pkg/kversion"
)

func f13commit(t *testing.T, c *Cluster, off int64) {
	cl, err := kgo.NewClient(kgo.SeedBrokers(c.ListenAddrs()...), kgo.MaxVersions(kversion.V3_5_0()))
	if err != nil {
		t.Fatal(err)
	}
	defer cl.Close()
	ctx, cancel := context.WithTimeout(context.Background(), 10*time.Second)
	defer cancel()
	req := kmsg.NewPtrOffsetCommitRequest()
	req.Group = "g"
	req.Generation = -1
	req.Version = 8
	rt := kmsg.NewOffsetCommitRequestTopic()
	rt.Topic = "t"
	rp := kmsg.NewOffsetCommitRequestTopicPartition()
	rp.Partition = 0
	rp.Offset = off
	rt.Partitions = append(rt.Partitions, rp)
	req.Topics = append(req.Topics, rt)
	resp, err := req.RequestWith(ctx, cl)
	if err != nil {
		t.Fatal(err)
	}
	if ec := resp.Topics[0].Partitions[0].ErrorCode; ec != 0 {
		t.Fatalf("commit %d not acknowledged: error code %d", off, ec)
	}
}

func f13fetch(t *testing.T, c *Cluster) int64 {
	cl, err := kgo.NewClient(kgo.SeedBrokers(c.ListenAddrs()...), kgo.MaxVersions(kversion.V3_5_0()))
	if err != nil {
		t.Fatal(err)
	}
	defer cl.Close()
	ctx, cancel := context.WithTimeout(context.Background(), 10*time.Second)
	defer cancel()
	req := kmsg.NewPtrOffsetFetchRequest()
	req.Version = 7
	req.Group = "g"
	rt := kmsg.NewOffsetFetchRequestTopic()
	rt.Topic = "t"
	rt.Partitions = []int32{0}
	req.Topics = append(req.Topics, rt)
	resp, err := req.RequestWith(ctx, cl)
	if err != nil {
		t.Fatal(err)
	}
	return resp.Topics[0].Partitions[0].Offset
}

// Crash 1 tears the tail of groups.log; restart; an offset commit is
// acknowledged (SyncWrites); crash 2; restart must still know that commit.
func TestF13AckedCommitAfterTornTailSurvives(t *testing.T) {
	dir := t.TempDir()
	c, err := NewCluster(DataDir(dir), SyncWrites(), NumBrokers(1), SeedTopics(1, "t"))
	if err != nil {
		t.Fatal(err)
	}
	f13commit(t, c, 5)
	// crash 1 (no Close) in the middle of appending the next entry: a partial frame is on disk
	p := filepath.Join(dir, "groups.log")
	f, err := os.OpenFile(p, os.O_APPEND|os.O_WRONLY, 0o644)
	if err != nil {
		t.Fatal(err)
	}
	f.Write([]byte{0, 0, 0, 40, 1, 2, 3, 4, '{', '"'})
	f.Close()

	c2, err := NewCluster(DataDir(dir), SyncWrites(), NumBrokers(1))
	if err != nil {
		t.Fatalf("restart 1: %v", err)
	}
	if got := f13fetch(t, c2); got != 5 {
		t.Fatalf("after restart 1: committed offset %d, want 5", got)
	}
	f13commit(t, c2, 9) // acknowledged with SyncWrites
	// crash 2 (no Close)
	c3, err := NewCluster(DataDir(dir), SyncWrites(), NumBrokers(1))
	if err != nil {
		t.Fatalf("restart 2: %v", err)
	}
	defer c3.Close()
	if got := f13fetch(t, c3); got != 9 {
		t.Fatalf("after restart 2: committed offset %d, want 9 (acknowledged commit lost behind the torn tail)", got)
	}
}
