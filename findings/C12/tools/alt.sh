#!/bin/bash
# usage: alt.sh <base: repo|wt> <name> <python-replace-script>
BASE=$1; NAME=$2; PY=$3
SRC=/repo; [ "$BASE" = wt ] && SRC=/tmp/agw/x12/wt
W=/tmp/fgmut/x12alt$$
rm -rf $W; mkdir -p $W/ev
rsync -a --exclude .git $SRC/ $W/repo/
( cd $W/repo && python3 "$PY" "$NAME" ) || { echo "EDIT-FAILED $NAME"; rm -rf $W; exit 2; }
( cd $W/repo/pkg/kgo && GOFLAGS=-mod=mod go build . && GOFLAGS=-mod=mod go vet . ) >/dev/null 2>$W/err || { echo "NOCOMPILE $NAME: $(tail -3 $W/err)"; rm -rf $W; exit 2; }
OUT=$(/tmp/agw/x12/verif/run.sh C12 quick --repo $W/repo --evdir $W/ev 2>&1); RC=$?
echo "== $BASE/$NAME exit $RC: $(echo "$OUT" | grep '^VIOLATED\|^UNDECIDED' | sed -e 's/ at pkg[^:]*:[0-9]*//' | cut -c1-330 | tr '\n' '|')"
rm -rf $W
