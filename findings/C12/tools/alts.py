import sys
name=sys.argv[1]
p='pkg/kgo/consumer_share.go'
s=open(p).read()
def rep(old,new,cnt=1):
    global s
    assert s.count(old)==cnt,(name,s.count(old),old)
    s=s.replace(old,new)
TAIL="\tfor _, g := range gaps {\n\t\tranges = coalesceAppendRange(ranges, g)\n\t}\n\treturn\n}\n"
SORT="slices.SortFunc(ranges, func(a, b shareAckRange) int {\n\t\treturn cmp.Compare(a.firstOffset, b.firstOffset)\n\t})\n"
if name=="alt-sort-result":
    rep(TAIL,"\tfor _, g := range gaps {\n\t\tranges = coalesceAppendRange(ranges, g)\n\t}\n\t"+SORT+"\treturn\n}\n")
elif name=="alt-sort-result-conditional":
    rep(TAIL,"\tfor _, g := range gaps {\n\t\tranges = coalesceAppendRange(ranges, g)\n\t}\n\tif len(gaps) > 0 {\n\t\t"+SORT.replace("\n\t","\n\t\t")+"\t}\n\treturn\n}\n")
elif name=="alt-sort-result-explicit-return":
    rep(TAIL,"\tfor _, g := range gaps {\n\t\tranges = coalesceAppendRange(ranges, g)\n\t}\n\t"+SORT+"\treturn ranges, hasRenew\n}\n")
elif name=="bad-sort-descending":
    rep(TAIL,"\tfor _, g := range gaps {\n\t\tranges = coalesceAppendRange(ranges, g)\n\t}\n\t"+SORT.replace("a.firstOffset, b.firstOffset","b.firstOffset, a.firstOffset")+"\treturn\n}\n")
elif name=="bad-sort-before-gaps":
    rep(TAIL,"\t"+SORT+"\tfor _, g := range gaps {\n\t\tranges = coalesceAppendRange(ranges, g)\n\t}\n\treturn\n}\n")
elif name=="bad-sort-by-last-type":
    rep(TAIL,"\tfor _, g := range gaps {\n\t\tranges = coalesceAppendRange(ranges, g)\n\t}\n\t"+SORT.replace("a.firstOffset, b.firstOffset","a.ackType, b.ackType")+"\treturn\n}\n")
elif name=="alt-index-merge":
    rep("\tvar lastOffset int64 = -1\n\tfor _, e := range entries {","\tvar lastOffset int64 = -1\n\tgi := 0\n\tfor _, e := range entries {")
    rep("\t\tranges = coalesceAppendRange(ranges, shareAckRange{\n\t\t\tfirstOffset:  e.offset,","\t\tfor gi < len(gaps) && gaps[gi].firstOffset <= e.offset {\n\t\t\tranges = coalesceAppendRange(ranges, gaps[gi])\n\t\t\tgi++\n\t\t}\n\t\tranges = coalesceAppendRange(ranges, shareAckRange{\n\t\t\tfirstOffset:  e.offset,")
    rep(TAIL,"\tfor ; gi < len(gaps); gi++ {\n\t\tranges = coalesceAppendRange(ranges, gaps[gi])\n\t}\n\treturn\n}\n")
elif name=="alt-index-merge-range-tail":
    rep("\tvar lastOffset int64 = -1\n\tfor _, e := range entries {","\tvar lastOffset int64 = -1\n\tvar gi int\n\tfor _, e := range entries {")
    rep("\t\tranges = coalesceAppendRange(ranges, shareAckRange{\n\t\t\tfirstOffset:  e.offset,","\t\tfor gi < len(gaps) && e.offset > gaps[gi].firstOffset {\n\t\t\tranges = coalesceAppendRange(ranges, gaps[gi])\n\t\t\tgi++\n\t\t}\n\t\tranges = coalesceAppendRange(ranges, shareAckRange{\n\t\t\tfirstOffset:  e.offset,")
    rep(TAIL,"\tfor _, g := range gaps[gi:] {\n\t\tranges = coalesceAppendRange(ranges, g)\n\t}\n\treturn\n}\n")
elif name=="bad-index-merge-tail-from-start":
    rep("\tvar lastOffset int64 = -1\n\tfor _, e := range entries {","\tvar lastOffset int64 = -1\n\tgi := 0\n\tfor _, e := range entries {")
    rep("\t\tranges = coalesceAppendRange(ranges, shareAckRange{\n\t\t\tfirstOffset:  e.offset,","\t\tfor gi < len(gaps) && gaps[gi].firstOffset <= e.offset {\n\t\t\tranges = coalesceAppendRange(ranges, gaps[gi])\n\t\t\tgi++\n\t\t}\n\t\tranges = coalesceAppendRange(ranges, shareAckRange{\n\t\t\tfirstOffset:  e.offset,")
elif name=="bad-index-merge-no-tail":
    rep("\tvar lastOffset int64 = -1\n\tfor _, e := range entries {","\tvar lastOffset int64 = -1\n\tgi := 0\n\tfor _, e := range entries {")
    rep("\t\tranges = coalesceAppendRange(ranges, shareAckRange{\n\t\t\tfirstOffset:  e.offset,","\t\tfor gi < len(gaps) && gaps[gi].firstOffset <= e.offset {\n\t\t\tranges = coalesceAppendRange(ranges, gaps[gi])\n\t\t\tgi++\n\t\t}\n\t\tranges = coalesceAppendRange(ranges, shareAckRange{\n\t\t\tfirstOffset:  e.offset,")
    rep(TAIL,"\treturn\n}\n")
elif name=="bad-gaps-first":
    rep("\tvar lastOffset int64 = -1\n\tfor _, e := range entries {","\tfor _, g := range gaps {\n\t\tranges = coalesceAppendRange(ranges, g)\n\t}\n\tvar lastOffset int64 = -1\n\tfor _, e := range entries {")
    rep(TAIL,"\treturn\n}\n")
else:
    raise SystemExit("unknown "+name)
open(p,'w').write(s)
