#!/bin/bash
# like tools/mutrun.sh but on top of the fixed worktree /tmp/agw/x12/wt; prints all violation lines' rule+construct
PATCH=$(readlink -f "$1"); PROP=C12
VERIF=/tmp/agw/x12/verif
W=/tmp/fgmut/x12w$$
rm -rf $W; mkdir -p $W
rsync -a --exclude .git /tmp/agw/x12/wt/ $W/repo/
if ! (cd $W/repo && patch -p1 -s --no-backup-if-mismatch < "$PATCH" >/dev/null 2>&1); then rm -rf $W; echo "SKIP (does not apply): $PATCH"; exit 3; fi
mkdir -p $W/ev
OUT=$($VERIF/run.sh $PROP quick --repo $W/repo --evdir $W/ev 2>&1); RC=$?
rm -rf $W
if [ $RC -eq 1 ] && echo "$OUT" | grep -q "^VIOLATION property=$PROP"; then
  echo "CAUGHT $(basename $PATCH): $(echo "$OUT" | grep '^VIOLATED\|^UNDECIDED' | sed -e 's/ at pkg.*//' | cut -c1-160 | tr '\n' '|')"
  exit 0
fi
echo "MISSED $PATCH (exit $RC)"; echo "$OUT" | tail -3; exit 4
