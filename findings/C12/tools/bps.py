import sys
name=sys.argv[1]
p='pkg/kgo/consumer_share.go'
s=open(p).read()
def rep(old,new,cnt=1):
    global s
    assert s.count(old)==cnt,(name,s.count(old),old)
    s=s.replace(old,new)
if name=="bp-rename-build":
    i=s.index("func buildAckRanges("); j=s.index("// coalesceAppendRange appends")
    body=s[i:j]
    body=body.replace("ranges","out").replace("lastOffset int64","prevOff int64").replace("== lastOffset {","== prevOff {").replace("\t\tlastOffset = e.offset","\t\tprevOff = e.offset")
    import re
    body=re.sub(r"\be\b","ent",body)
    s=s[:i]+body+s[j:]
elif name=="bp-tryack-positive-guard":
    rep("\t\tif cur != 0 && cur != int32(AckRenew) {\n\t\t\treturn false\n\t\t}\n\t\tif st.status.CompareAndSwap(cur, int32(status)) {\n\t\t\treturn true\n\t\t}\n",
        "\t\tif cur == 0 || cur == int32(AckRenew) {\n\t\t\tif st.status.CompareAndSwap(cur, int32(status)) {\n\t\t\t\treturn true\n\t\t\t}\n\t\t\tcontinue\n\t\t}\n\t\treturn false\n")
elif name=="bp-requeue-amount-local":
    rep("\t\t\t\t\tdrained.requeue(sc)\n\t\t\t\t\trequeued += int64(len(drained.entries))\n","\t\t\t\t\tn := int64(len(drained.entries))\n\t\t\t\t\tdrained.requeue(sc)\n\t\t\t\t\tsc.cfg.logger.Log(LogLevelDebug, \"requeued\", \"n\", n)\n\t\t\t\t\trequeued += n\n")
elif name=="bp-flush-rename":
    i=s.index("func (cl *Client) FlushAcks("); j=s.index("// leave performs the graceful")
    body=s[i:j].replace("quit","stop").replace("done","waited")
    s=s[:i]+body+s[j:]
elif name=="bp-poll-extra-stmt":
    rep("\tsc.c.mu.Lock()\n\tsc.finalizePreviousPoll()\n","\tsc.c.mu.Lock()\n\tsc.cfg.logger.Log(LogLevelDebug, \"share poll\")\n\tsc.finalizePreviousPoll()\n")
elif name=="bp-enqueueall-swap":
    rep("\t\tcursor.pendingAcks = append(cursor.pendingAcks, entries...)\n\t\tsc.pendingAcks.Add(int64(len(entries)))\n","\t\tsc.pendingAcks.Add(int64(len(entries)))\n\t\tcursor.pendingAcks = append(cursor.pendingAcks, entries...)\n")
elif name=="bp-close-split-loops":
    rep("\tfor _, d := range drains {\n\t\tfor _, st := range d.entries {\n\t\t\tst.status.CompareAndSwap(int32(AckRenew), int32(AckRelease))\n\t\t}\n\t\tnAcks += int64(len(d.entries))\n\t}\n",
        "\tfor _, d := range drains {\n\t\tnAcks += int64(len(d.entries))\n\t}\n\tfor i := range drains {\n\t\tfor _, st := range drains[i].entries {\n\t\t\tst.status.CompareAndSwap(int32(AckRenew), int32(AckRelease))\n\t\t}\n\t}\n")
elif name=="bp-shareack-early-stale":
    rep("\t\tif !liveGaps {\n\t\t\treturn // everything was stale\n\t\t}\n","\t\tif !liveGaps {\n\t\t\tsc.cfg.logger.Log(LogLevelDebug, \"all stale\")\n\t\t\treturn // everything was stale\n\t\t}\n")
elif name=="bp-coalesce-reorder-conds":
    rep("if last.ackType == r.ackType && last.source == r.source &&\n\t\t\tlast.sessionEpoch == r.sessionEpoch && last.lastOffset+1 == r.firstOffset {","if r.firstOffset == last.lastOffset+1 && r.ackType == last.ackType &&\n\t\t\tlast.source == r.source && last.sessionEpoch == r.sessionEpoch {")
elif name=="bp-ack-range-positive":
    p2='pkg/kgo/record_and_fetch.go'
    t=open(p2).read()
    old="\tif status < AckAccept || status > AckRenew {\n\t\treturn\n\t}\n\tst := shareAckFromCtx(r)\n\tif st == nil || !st.tryAck(status, false) {\n\t\treturn\n\t}\n"
    assert t.count(old)==1
    t=t.replace(old,"\tif status >= AckAccept && status <= AckRenew {\n\t\tst := shareAckFromCtx(r)\n\t\tif st != nil && st.tryAck(status, false) {\n\t\t\tst.appendAck()\n\t\t}\n\t}\n\treturn\n")
    t=t.replace("\t// Every successful CAS appends an entry and increments\n\t// pendingAcks. Multiple calls on the same record (e.g.\n\t// renew then accept) produce multiple entries that coalesce\n\t// at request-build time.\n\tst.appendAck()\n","")
    open(p2,'w').write(t)
else:
    raise SystemExit("unknown "+name)
open(p,'w').write(s)
