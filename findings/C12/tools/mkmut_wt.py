#!/usr/bin/env python3
"""Create negative-corpus mutants from string replacements.

usage: tools/mkmut.py spec.json
spec: [{"prop":"C10","name":"x","file":"pkg/kgo/txn.go","old":"...","new":"...", "count":1}]
Each mutant is applied to a scratch copy of /repo (under /tmp, removed at the
end), compiled (go build + go vet of the package directory), and written as
/verif/mutants/<prop>/<name>.patch when it compiles.
"""
import json, os, subprocess, sys, shutil, difflib

VERIF = "/tmp/agw/x12/verif"
W = "/tmp/fgmut/mk%d" % os.getpid()

def main():
    specs = json.load(open(sys.argv[1]))
    os.makedirs(W, exist_ok=True)
    subprocess.check_call(["rsync", "-a", "--exclude", ".git", "/tmp/agw/x12/wt/", W + "/repo/"])
    env = dict(os.environ, GOFLAGS="-mod=mod", GOPROXY="off")
    env.pop("GOWORK", None)
    rc = 0
    try:
        for sp in specs:
            path = os.path.join(W, "repo", sp["file"])
            orig = open(path).read()
            cnt = orig.count(sp["old"])
            if cnt != sp.get("count", 1):
                print("SKIP %s/%s: old text occurs %d times" % (sp["prop"], sp["name"], cnt)); rc = 1; continue
            mut = orig.replace(sp["old"], sp["new"])
            open(path, "w").write(mut)
            pkgdir = os.path.dirname(path)
            r = subprocess.run(["go", "build", "."], cwd=pkgdir, env=env, capture_output=True, text=True)
            if r.returncode == 0:
                r = subprocess.run(["go", "vet", "."], cwd=pkgdir, env=env, capture_output=True, text=True)
            open(path, "w").write(orig)
            if r.returncode != 0:
                print("NOCOMPILE %s/%s: %s" % (sp["prop"], sp["name"], (r.stderr or r.stdout).strip().splitlines()[-3:])); rc = 1; continue
            diff = "".join(difflib.unified_diff(orig.splitlines(True), mut.splitlines(True), "a/" + sp["file"], "b/" + sp["file"]))
            d = os.path.join(VERIF, "mutants", sp["prop"]); os.makedirs(d, exist_ok=True)
            open(os.path.join(d, sp["name"] + ".patch"), "w").write(diff)
            print("OK %s/%s" % (sp["prop"], sp["name"]))
    finally:
        shutil.rmtree(W, ignore_errors=True)
    sys.exit(rc)

main()
