package main

import (
	"fmt"
	"go/ast"
	"go/token"
	"go/types"
	"sort"
	"strings"
)

// Round-3 rules of C39.
//
//	selection-add-unconditional        every requested topic / partition is added to the
//	                                   selection mirror directConsumer.m: no per-item guard,
//	                                   no guard on the direct consumer's own bookkeeping
//	                                   (tps, using, ps, reSeen, m), no early loop exit, and
//	                                   the metadata set tps is primed on the same path.
//	unset-restores-never-consumed      cursor.unset stores a constant negative
//	                                   lastConsumedEpoch unconditionally (whole-struct store
//	                                   through setOffset, or a field store).
//	never-consumed-sentinel-agreement  the reader side: migrateCursorTo re-validates (and
//	                                   thereby re-enables) a cursor only under a test of
//	                                   lastConsumedEpoch that excludes every constant
//	                                   sentinel written by unset / cursor creation / direct
//	                                   offset assignment; every cursorOffset literal gives
//	                                   the epoch explicitly (an omitted epoch is 0 = consumed).
//	invalidate-unsets-cursor           assignPartitions unsets the used cursor in the
//	                                   invalidate-all and invalidate-matching arms.
func c39round3(c *Ctx, m *Module) {
	c39selectionAdds(c, m)
	sent, ok := c39unsetSentinel(c, m)
	c39sentinelReaders(c, m, sent, ok)
	c39invalidateUnsets(c, m)
}

// ---------------------------------------------------------------- selection adds

// c39enclosingRanges returns the range statements of body enclosing n, outermost first
// (function literals are not crossed).
func c39enclosingRanges(body ast.Node, n ast.Node) []*ast.RangeStmt {
	var out []*ast.RangeStmt
	ast.Inspect(body, func(x ast.Node) bool {
		if x == nil {
			return false
		}
		if x.Pos() > n.Pos() || x.End() < n.End() {
			return false
		}
		if rs, ok := x.(*ast.RangeStmt); ok && rs.Body.Pos() <= n.Pos() && n.End() <= rs.Body.End() {
			out = append(out, rs)
		}
		return true
	})
	return out
}

// c39taint computes the local variables of f whose value is derived from one of
// the given fields (fixpoint over assignments and declarations).
func c39taint(f *Func, banned func(*types.Var) bool) map[types.Object]bool {
	info := f.Info()
	t := map[types.Object]bool{}
	mentions := func(e ast.Node) bool {
		return containsNode(e, true, func(x ast.Node) bool {
			switch y := x.(type) {
			case *ast.SelectorExpr:
				if v := fieldOfSel(info, y); v != nil && banned(v) {
					return true
				}
			case *ast.Ident:
				if o := info.Uses[y]; o != nil && t[o] {
					return true
				}
			}
			return false
		})
	}
	for changed := true; changed; {
		changed = false
		mark := func(lhs ast.Expr) {
			id, ok := unparen(lhs).(*ast.Ident)
			if !ok {
				return
			}
			o := info.Defs[id]
			if o == nil {
				o = info.Uses[id]
			}
			if o != nil && !t[o] {
				t[o] = true
				changed = true
			}
		}
		ast.Inspect(f.Decl.Body, func(x ast.Node) bool {
			switch s := x.(type) {
			case *ast.AssignStmt:
				for i, l := range s.Lhs {
					var r ast.Expr
					if len(s.Rhs) == len(s.Lhs) {
						r = s.Rhs[i]
					} else if len(s.Rhs) == 1 {
						r = s.Rhs[0]
					}
					if r != nil && mentions(r) {
						mark(l)
					}
				}
			case *ast.ValueSpec:
				for i, nm := range s.Names {
					var r ast.Expr
					if len(s.Values) == len(s.Names) {
						r = s.Values[i]
					} else if len(s.Values) == 1 {
						r = s.Values[0]
					}
					if r != nil && mentions(r) {
						mark(nm)
					}
				}
			case *ast.RangeStmt:
				if mentions(s.X) {
					if s.Key != nil {
						mark(s.Key)
					}
					if s.Value != nil {
						mark(s.Value)
					}
				}
			}
			return true
		})
	}
	return t
}

func c39factStr(ft Fact) string {
	s := exprStr(ft.Cond)
	if ft.Tag != nil {
		s = exprStr(ft.Tag) + " == " + s
	}
	if !ft.Val {
		s = "!(" + s + ")"
	}
	return s
}

// c39extraFacts: facts holding at `at` that do not hold at `base`.
func c39extraFacts(g *Graph, at, base Loc) []Fact {
	type k struct {
		e ast.Expr
		v bool
	}
	have := map[k]bool{}
	for _, ft := range g.FactsAt(base) {
		have[k{ft.Cond, ft.Val}] = true
	}
	var out []Fact
	for _, ft := range g.FactsAt(at) {
		if !have[k{ft.Cond, ft.Val}] {
			out = append(out, ft)
		}
	}
	return out
}

// c39loopExits lists break / goto / return statements that can leave the loop rs early.
func c39loopExits(rs *ast.RangeStmt) []ast.Node {
	var out []ast.Node
	var walk func(n ast.Node, breakable bool)
	walk = func(n ast.Node, inner bool) {
		ast.Inspect(n, func(x ast.Node) bool {
			switch s := x.(type) {
			case nil:
				return false
			case *ast.FuncLit:
				return false
			case *ast.ReturnStmt:
				out = append(out, s)
			case *ast.BranchStmt:
				switch s.Tok {
				case token.GOTO:
					out = append(out, s)
				case token.BREAK:
					if !inner || s.Label != nil {
						out = append(out, s)
					}
				}
			case *ast.ForStmt:
				if x != n {
					walk(s.Body, true)
					return false
				}
			case *ast.RangeStmt:
				if x != n {
					walk(s.Body, true)
					return false
				}
			case *ast.SwitchStmt:
				walk(s.Body, true)
				return false
			case *ast.TypeSwitchStmt:
				walk(s.Body, true)
				return false
			case *ast.SelectStmt:
				walk(s.Body, true)
				return false
			}
			return true
		})
	}
	walk(rs.Body, false)
	return out
}

func c39selectionAdds(c *Ctx, m *Module) {
	rule := "selection-add-unconditional"
	mField := fieldMust(c, m, "directConsumer", "m")
	tpsField := fieldMust(c, m, "directConsumer", "tps")
	cfgField := fieldMust(c, m, "directConsumer", "cfg")
	if mField == nil || tpsField == nil || cfgField == nil {
		return
	}
	addM, addtM, storeTopics := m.Method("kgo", "mtmps", "add"), m.Method("kgo", "mtmps", "addt"), m.Method("kgo", "topicsPartitions", "storeTopics")
	if addM == nil || addtM == nil || storeTopics == nil {
		c.Undecided("anchor", "kgo.mtmps.add/addt, kgo.topicsPartitions.storeTopics", token.NoPos, m, "method not found")
		return
	}
	// the direct consumer's own bookkeeping: everything but the configuration pointer
	banned := func(v *types.Var) bool {
		if sameField(v, cfgField) {
			return false
		}
		for _, nm := range []string{"tps", "using", "m", "ps", "reSeen"} {
			if sameField(v, m.Field("kgo", "directConsumer", nm)) {
				return true
			}
		}
		return false
	}
	nSites := 0
	for _, f := range m.FuncsIn("kgo") {
		info := f.Info()
		var sites []*ast.CallExpr
		ast.Inspect(f.Decl.Body, func(x ast.Node) bool {
			call, ok := x.(*ast.CallExpr)
			if !ok {
				return true
			}
			o := calleeObj(info, call)
			if o == nil || !(sameObj(o, addM) || sameObj(o, addtM)) {
				return true
			}
			sel, ok := unparen(call.Fun).(*ast.SelectorExpr)
			if ok && sameField(fieldOfSel(info, sel.X), mField) {
				sites = append(sites, call)
			}
			return true
		})
		if len(sites) == 0 {
			continue
		}
		c.Touch(f)
		taint := c39taint(f, banned)
		mentionsBook := func(e ast.Node) (string, bool) {
			what := ""
			containsNode(e, true, func(x ast.Node) bool {
				switch y := x.(type) {
				case *ast.SelectorExpr:
					if v := fieldOfSel(info, y); v != nil && banned(v) {
						what = "directConsumer." + v.Name()
						return true
					}
				case *ast.Ident:
					if o := info.Uses[y]; o != nil && taint[o] {
						what = y.Name + " (derived from the direct consumer's bookkeeping)"
						return true
					}
				}
				return false
			})
			return what, what != ""
		}
		params := map[types.Object]bool{}
		for _, fl := range f.Decl.Type.Params.List {
			for _, nm := range fl.Names {
				params[info.Defs[nm]] = true
			}
		}
		assigned := map[types.Object]bool{} // parameters re-assigned anywhere
		ast.Inspect(f.Decl.Body, func(x ast.Node) bool {
			if as, ok := x.(*ast.AssignStmt); ok {
				for _, l := range as.Lhs {
					if id, ok := unparen(l).(*ast.Ident); ok {
						if o := info.Uses[id]; o != nil && params[o] {
							assigned[o] = true
						}
					}
				}
			}
			return true
		})
		var outerLocs []Loc
		for i, call := range sites {
			nSites++
			name := fmt.Sprintf("%s: %s#%d", f.Key, nosp(exprStr(call.Fun)), i+1)
			if innermostLit(f, call) != nil {
				c.Undecided(rule, name, call.Pos(), m, "selection update inside a function literal: not classified")
				continue
			}
			g := f.Graph()
			loops := c39enclosingRanges(f.Decl.Body, call)
			if len(loops) == 0 {
				c.Undecided(rule, name, call.Pos(), m, "selection update outside a range loop over the request: not classified")
				continue
			}
			outer := loops[0]
			lo, ok1 := g.LocOf(outer.X)
			lc, ok2 := g.LocOf(call)
			if !ok1 || !ok2 {
				c.Undecided(rule, name, call.Pos(), m, "call not located in the control-flow graph")
				continue
			}
			outerLocs = append(outerLocs, lo)
			var bad []string
			if !g.Reachable(lc) {
				bad = append(bad, "the call is unreachable")
			}
			// (a) no per-item guard
			for _, ft := range c39extraFacts(g, lc, lo) {
				bad = append(bad, "the item is selected only when "+c39factStr(ft))
			}
			// (b) the loop itself is not gated by the direct consumer's bookkeeping
			for _, ft := range g.FactsAt(lo) {
				if w, yes := mentionsBook(ft.Cond); yes {
					bad = append(bad, "the whole update is gated by "+c39factStr(ft)+", a test of "+w)
				}
			}
			// (c) no early exit from the loops
			for _, rs := range loops {
				for _, ex := range c39loopExits(rs) {
					bad = append(bad, "the loop can be left early by `"+strings.TrimSpace(nodeStr(ex))+"`")
				}
			}
			// (d) the loops walk the request itself; the arguments are the loop's items
			loopVars := map[types.Object]bool{}
			for k, rs := range loops {
				okX := false
				switch x := unparen(rs.X).(type) {
				case *ast.Ident:
					o := info.Uses[x]
					okX = o != nil && ((k == 0 && params[o] && !assigned[o]) || loopVars[o])
				case *ast.SelectorExpr:
					// configuration (d.cfg.topics / d.cfg.partitions)
					if v := fieldOfSel(info, x); v != nil && k == 0 {
						okX = sameField(fieldOfSel(info, x.X), cfgField)
					}
				}
				if !okX {
					bad = append(bad, "the loop ranges over `"+exprStr(rs.X)+"`, not over the requested set itself")
				}
				for _, kv := range []ast.Expr{rs.Key, rs.Value} {
					if id, ok := kv.(*ast.Ident); ok && id.Name != "_" {
						if o := info.Defs[id]; o != nil {
							loopVars[o] = true
						}
					}
				}
			}
			for _, a := range call.Args {
				id, ok := unparen(a).(*ast.Ident)
				if !ok || !loopVars[info.Uses[id]] {
					bad = append(bad, "argument `"+exprStr(a)+"` is not the loop's item")
				}
			}
			sort.Strings(bad)
			c.Check(len(bad) == 0, rule, name, call.Pos(), m, "every requested item is added to the selection, unguarded",
				"the selection mirror directConsumer.m is not updated for every requested item: "+strings.Join(bad, "; ")+
					" (m is what the user selected, tps is what metadata is loaded for: RemoveConsumePartitions keeps a topic in tps but drops it from m, so an item skipped here is selected by the caller yet never consumed)")
		}
		// the metadata set is primed on the same path
		if len(outerLocs) > 0 {
			g := f.Graph()
			okStore := false
			var pos token.Pos = f.Pos()
			for _, call := range callsTo(f.Decl.Body, info, storeTopics, false) {
				sel, ok := unparen(call.Fun).(*ast.SelectorExpr)
				if !ok || !sameField(fieldOfSel(info, sel.X), tpsField) {
					continue
				}
				l, ok := g.LocOf(call)
				if !ok || !g.Reachable(l) {
					continue
				}
				for _, lo := range outerLocs {
					if len(c39extraFacts(g, l, lo)) == 0 {
						okStore = true
						pos = call.Pos()
					}
				}
			}
			c.Check(okStore, rule, f.Key+"#tps-primed", pos, m, "tps.storeTopics on the path of the selection update",
				"the selection is updated without storing the topics into directConsumer.tps on the same path: metadata is never loaded for the newly selected topics")
		}
	}
	c.Floor(rule, nSites, 4)
}

// ---------------------------------------------------------------- unset sentinel

func c39cursorOffsetFields(m *Module) (st *types.Struct, named types.Type) {
	o := m.Object("kgo", "cursorOffset")
	if o == nil {
		return nil, nil
	}
	st, _ = o.Type().Underlying().(*types.Struct)
	return st, o.Type()
}

// c39litField returns the value expression a cursorOffset literal gives for the
// field (nil, true when omitted = zero value); ok=false when the literal cannot be read.
func c39litField(info *types.Info, st *types.Struct, lit *ast.CompositeLit, field string) (ast.Expr, bool) {
	for i, e := range lit.Elts {
		if kv, ok := e.(*ast.KeyValueExpr); ok {
			if id, ok := kv.Key.(*ast.Ident); ok && id.Name == field {
				return kv.Value, true
			}
			continue
		}
		if i < st.NumFields() && st.Field(i).Name() == field {
			return e, true
		}
	}
	return nil, true
}

// c39unsetSentinel decides the writer side and returns the constant epoch unset stores.
func c39unsetSentinel(c *Ctx, m *Module) (int64, bool) {
	rule := "unset-restores-never-consumed"
	f := c.NeedFunc(m, "kgo.cursor.unset")
	set := c.NeedFunc(m, "kgo.cursor.setOffset")
	st, coType := c39cursorOffsetFields(m)
	epochF := fieldMust(c, m, "cursorOffset", "lastConsumedEpoch")
	embedded := fieldMust(c, m, "cursor", "cursorOffset")
	useState := fieldMust(c, m, "cursor", "useState")
	if f == nil || set == nil || st == nil || epochF == nil || embedded == nil || useState == nil {
		return 0, false
	}
	// setOffset is a whole-struct store of its parameter
	{
		info := set.Info()
		whole := false
		if len(set.Decl.Body.List) == 1 && set.Decl.Type.Params.NumFields() == 1 {
			if as, ok := set.Decl.Body.List[0].(*ast.AssignStmt); ok && as.Tok == token.ASSIGN && len(as.Lhs) == 1 && len(as.Rhs) == 1 {
				id, isID := unparen(as.Rhs[0]).(*ast.Ident)
				if isID && sameField(fieldOfSel(info, as.Lhs[0]), embedded) {
					p := set.Decl.Type.Params.List[0]
					whole = len(p.Names) == 1 && info.Uses[id] == info.Defs[p.Names[0]]
				}
			}
		}
		c.Check(whole, rule, set.Key+"#whole-struct-store", set.Pos(), m, "c.cursorOffset = o",
			"cursor.setOffset no longer replaces the whole cursorOffset with its argument: fields of the previous consumption (lastConsumedEpoch, lastConsumedTime) survive an unset / re-assignment")
	}
	info := f.Info()
	g := f.Graph()
	var recv types.Object
	if f.Decl.Recv != nil && len(f.Decl.Recv.List) == 1 && len(f.Decl.Recv.List[0].Names) == 1 {
		recv = info.Defs[f.Decl.Recv.List[0].Names[0]]
	}
	onRecv := func(e ast.Expr) bool { // c or c.cursorOffset
		e = unparen(e)
		if sel, ok := e.(*ast.SelectorExpr); ok && sameField(fieldOfSel(info, sel), embedded) {
			e = unparen(sel.X)
		}
		id, ok := e.(*ast.Ident)
		return ok && recv != nil && info.Uses[id] == recv
	}
	const (
		unknown = iota
		konst
	)
	state, val, why := unknown, int64(0), "the epoch of the previous consumption is kept"
	var at token.Pos = f.Pos()
	fromLit := func(e ast.Expr) {
		at = e.Pos()
		lit, ok := unparen(e).(*ast.CompositeLit)
		if !ok || !types.Identical(info.TypeOf(lit), coType) {
			state, why = unknown, "the stored cursorOffset `"+exprStr(e)+"` is not a literal"
			return
		}
		v, _ := c39litField(info, st, lit, "lastConsumedEpoch")
		if v == nil {
			state, val, why = konst, 0, "the cursorOffset literal omits lastConsumedEpoch, i.e. stores epoch 0"
			return
		}
		if k, ok := constInt(info, v); ok {
			state, val = konst, k
		} else {
			state, why = unknown, "lastConsumedEpoch is set to the non-constant `"+exprStr(v)+"`"
		}
	}
	setObj := set.Obj
	for _, s := range f.Decl.Body.List {
		handled := false
		switch x := s.(type) {
		case *ast.ExprStmt:
			if call, ok := x.X.(*ast.CallExpr); ok && sameObj(calleeObj(info, call), setObj) && len(call.Args) == 1 {
				if sel, ok := unparen(call.Fun).(*ast.SelectorExpr); ok && onRecv(sel.X) {
					fromLit(call.Args[0])
					handled = true
				}
			}
		case *ast.AssignStmt:
			if x.Tok == token.ASSIGN && len(x.Lhs) == len(x.Rhs) {
				for i, l := range x.Lhs {
					sel, ok := unparen(l).(*ast.SelectorExpr)
					if !ok || !onRecv(sel.X) {
						continue
					}
					switch fv := fieldOfSel(info, sel); {
					case sameField(fv, embedded):
						fromLit(x.Rhs[i])
						handled = true
					case sameField(fv, epochF):
						at = x.Pos()
						if k, ok := constInt(info, x.Rhs[i]); ok {
							state, val = konst, k
						} else {
							state, why = unknown, "lastConsumedEpoch is set to the non-constant `"+exprStr(x.Rhs[i])+"`"
						}
						handled = true
					}
				}
			}
		}
		if handled {
			continue
		}
		// any other (nested / conditional) write of the epoch or the whole struct
		if len(storesTo(s, info, epochF, true))+len(storesTo(s, info, embedded, true))+len(callsTo(s, info, setObj, true)) > 0 {
			state, why = unknown, "lastConsumedEpoch is written only conditionally (`"+strings.SplitN(strings.TrimSpace(nodeStr(s)), "\n", 2)[0]+"`)"
			at = s.Pos()
		}
	}
	_ = g
	good := state == konst && val < 0
	if state == konst && val >= 0 {
		why = fmt.Sprintf("%s: unset stores lastConsumedEpoch = %d, a valid epoch", why, val)
	}
	c.Check(good, rule, f.Key+"#epoch-sentinel", at, m, fmt.Sprintf("lastConsumedEpoch = %d on every path", val),
		"cursor.unset does not put the cursor back into the never-consumed state: "+why+
			". topicPartition.migrateCursorTo re-validates and re-enables every cursor of the consumer's tps whose lastConsumedEpoch is >= 0 when the partition's leader moves, so a partition removed with RemoveConsumePartitions (or revoked / invalidated) is fetched and returned again after a leader change")
	// unset also makes the cursor unusable
	okUse := false
	for _, stt := range storesTo(f.Decl.Body, info, useState, false) {
		if stt.Kind == "atomic:Store" && stt.RHS != nil {
			if b, ok := constBool(info, stt.RHS); ok && !b {
				if l, ok := g.LocOf(stt.Node); ok && len(g.FactsAt(l)) == 0 {
					okUse = true
				}
			}
		}
	}
	c.Check(okUse, rule, f.Key+"#not-usable", f.Pos(), m, "useState.Store(false)", "cursor.unset does not unconditionally mark the cursor unusable: a removed partition stays eligible for fetch requests")
	return val, good
}

// c39cmp evaluates `v op k` (or `k op v` when the field is on the right).
func c39cmp(op token.Token, fieldLeft bool, v, k int64) (bool, bool) {
	a, b := v, k
	if !fieldLeft {
		a, b = k, v
	}
	switch op {
	case token.EQL:
		return a == b, true
	case token.NEQ:
		return a != b, true
	case token.LSS:
		return a < b, true
	case token.LEQ:
		return a <= b, true
	case token.GTR:
		return a > b, true
	case token.GEQ:
		return a >= b, true
	}
	return false, false
}

// c39epochCmp recognises a comparison of lastConsumedEpoch with a constant.
func c39epochCmp(info *types.Info, epochF *types.Var, e ast.Expr) (op token.Token, fieldLeft bool, k int64, ok bool) {
	be, isBin := unparen(e).(*ast.BinaryExpr)
	if !isBin {
		return
	}
	if sameField(fieldOfSel(info, be.X), epochF) {
		if k, ok = constInt(info, be.Y); ok {
			return be.Op, true, k, true
		}
	}
	if sameField(fieldOfSel(info, be.Y), epochF) {
		if k, ok = constInt(info, be.X); ok {
			return be.Op, false, k, true
		}
	}
	return 0, false, 0, false
}

func c39sentinelReaders(c *Ctx, m *Module, unsetVal int64, unsetOK bool) {
	rule := "never-consumed-sentinel-agreement"
	epochF := fieldMust(c, m, "cursorOffset", "lastConsumedEpoch")
	st, coType := c39cursorOffsetFields(m)
	if epochF == nil || st == nil {
		return
	}
	funcs := m.FuncsIn("kgo")
	// constant sentinels written anywhere (unset, cursor creation, direct offset assignment)
	sentinels := map[int64][]string{}
	nConst := 0
	perFn := map[string]int{}
	for _, ss := range StoreSites(funcs, epochF) {
		if ss.RHS == nil {
			continue
		}
		if k, ok := constInt(ss.Fn.Info(), ss.RHS); ok {
			nConst++
			perFn[ss.Fn.Key]++
			sentinels[k] = append(sentinels[k], ss.Fn.Key)
			c.Touch(ss.Fn)
			c.Check(k < 0, rule, ss.Fn.Key+": constant lastConsumedEpoch is a negative sentinel#"+fmt.Sprint(perFn[ss.Fn.Key]), ss.Node.Pos(), m, fmt.Sprint(k),
				fmt.Sprintf("lastConsumedEpoch is set to the constant %d, which reads as `records of epoch %d were consumed`: the cursor is epoch-validated and re-enabled on the next leader move although nothing was consumed / the partition is not selected", k, k))
		}
	}
	c.Floor(rule+"#constant-writers", nConst, 3)
	if unsetOK {
		if _, ok := sentinels[unsetVal]; !ok {
			sentinels[unsetVal] = []string{"kgo.cursor.unset"}
		}
	}
	var svals []int64
	for k := range sentinels {
		svals = append(svals, k)
	}
	sort.Slice(svals, func(i, j int) bool { return svals[i] < svals[j] })
	// every cursorOffset literal gives the epoch explicitly
	nLit := 0
	for _, f := range funcs {
		info := f.Info()
		idx := 0
		ast.Inspect(f.Decl.Body, func(x ast.Node) bool {
			lit, ok := x.(*ast.CompositeLit)
			if !ok || !types.Identical(info.TypeOf(lit), coType) {
				return true
			}
			nLit++
			idx++
			v, _ := c39litField(info, st, lit, "lastConsumedEpoch")
			c.Check(v != nil, rule, fmt.Sprintf("%s: cursorOffset literal #%d gives lastConsumedEpoch", f.Key, idx), lit.Pos(), m, exprStr(v),
				"a cursorOffset literal omits lastConsumedEpoch: the zero value 0 is a valid epoch, so a cursor that never consumed (also the cursors of partitions the consumer does not select) is epoch-validated and re-enabled by migrateCursorTo on a leader move")
			return true
		})
	}
	c.Floor(rule+"#cursorOffset-literals", nLit, 6)
	// every comparison of the epoch with a constant puts all sentinels on the same side
	nCmp := 0
	for _, f := range funcs {
		info := f.Info()
		idx := 0
		ast.Inspect(f.Decl.Body, func(x ast.Node) bool {
			e, ok := x.(*ast.BinaryExpr)
			if !ok {
				return true
			}
			op, left, k, ok := c39epochCmp(info, epochF, e)
			if !ok {
				return true
			}
			nCmp++
			idx++
			c.Touch(f)
			res := map[bool][]string{}
			for _, s := range svals {
				r, _ := c39cmp(op, left, s, k)
				res[r] = append(res[r], fmt.Sprint(s))
			}
			c.Check(len(res) <= 1, rule, fmt.Sprintf("%s: `%s`#%d treats every sentinel alike", f.Key, nosp(exprStr(e)), idx), e.Pos(), m, "",
				fmt.Sprintf("the never-consumed sentinels written in the package (%v) fall on different sides of `%s`", svals, exprStr(e)))
			return true
		})
	}
	c.Floor(rule+"#comparisons", nCmp, 2)
	// the leader-move path re-validates / re-enables only consumed cursors
	if f := c.NeedFunc(m, "kgo.topicPartition.migrateCursorTo"); f != nil {
		info := f.Info()
		g := f.Graph()
		use := m.Method("kgo", "cursor", "use")
		addLoad := m.Method("kgo", "listOrEpochLoads", "addLoad")
		if use == nil || addLoad == nil {
			c.Undecided("anchor", "kgo.cursor.use / kgo.listOrEpochLoads.addLoad", token.NoPos, m, "method not found")
			return
		}
		var sites []*ast.CallExpr
		sites = append(sites, callsTo(f.Decl.Body, info, use, true)...)
		sites = append(sites, callsTo(f.Decl.Body, info, addLoad, true)...)
		for i, call := range sites {
			name := fmt.Sprintf("%s: %s#%d", f.Key, nosp(exprStr(call.Fun)), i+1)
			if innermostLit(f, call) != nil {
				c.Undecided(rule, name, call.Pos(), m, "re-validation inside a function literal: not classified")
				continue
			}
			l, _ := g.LocOf(call)
			var notExcluded []string
			guarded := false
			if len(svals) == 0 {
				notExcluded = append(notExcluded, "no constant sentinel known")
			}
			for _, s := range svals {
				ex := false
				for _, ft := range g.FactsAt(l) {
					op, left, k, ok := c39epochCmp(info, epochF, ft.Cond)
					if !ok {
						continue
					}
					guarded = true
					if r, ok := c39cmp(op, left, s, k); ok && r != ft.Val {
						ex = true
					}
				}
				if !ex {
					notExcluded = append(notExcluded, fmt.Sprint(s))
				}
			}
			detail := "the epoch validation that re-enables the moved cursor is not guarded by a test of lastConsumedEpoch"
			if guarded {
				detail = "the lastConsumedEpoch guard of the epoch validation does not exclude the never-consumed sentinel(s) " + strings.Join(notExcluded, ", ")
			}
			c.Check(len(notExcluded) == 0, rule, name, call.Pos(), m, fmt.Sprintf("guard excludes sentinels %v", svals),
				detail+": migrateCursorTo runs for every partition of the consumer's tps, so unset cursors (removed / unselected partitions) are loaded, set usable and fetched after a leader move")
		}
		c.Floor(rule+"#migrate-sites", len(sites), 2)
	}
}

// ---------------------------------------------------------------- invalidation

func c39invalidateUnsets(c *Ctx, m *Module) {
	rule := "invalidate-unsets-cursor"
	f := c.NeedFunc(m, "kgo.consumer.assignPartitions")
	unset := m.Method("kgo", "cursor", "unset")
	if f == nil {
		return
	}
	if unset == nil {
		c.Undecided("anchor", "kgo.cursor.unset", token.NoPos, m, "method not found")
		return
	}
	info := f.Info()
	g := f.Graph()
	calls := callsTo(f.Decl.Body, info, unset, false)
	for _, mode := range []string{"assignInvalidateAll", "assignInvalidateMatching"} {
		mo := m.Object("kgo", mode)
		if mo == nil {
			c.Undecided("anchor", "kgo."+mode, token.NoPos, m, "constant not found")
			continue
		}
		found := false
		var pos token.Pos = f.Pos()
		for _, call := range calls {
			l, ok := g.LocOf(call)
			if !ok || !g.Reachable(l) {
				continue
			}
			// receiver is the cursor walked from usingCursors
			loops := c39enclosingRanges(f.Decl.Body, call)
			if len(loops) == 0 {
				continue
			}
			sel, _ := unparen(call.Fun).(*ast.SelectorExpr)
			if sel == nil {
				continue
			}
			rid, _ := unparen(sel.X).(*ast.Ident)
			kid, _ := loops[len(loops)-1].Key.(*ast.Ident)
			if rid == nil || kid == nil || info.Uses[rid] != info.Defs[kid] {
				continue
			}
			for _, ft := range g.FactsAt(l) {
				be, ok := unparen(ft.Cond).(*ast.BinaryExpr)
				if !ok || be.Op != token.EQL || !ft.Val {
					continue
				}
				for _, side := range []ast.Expr{be.X, be.Y} {
					if id, ok := unparen(side).(*ast.Ident); ok && info.Uses[id] == mo {
						found = true
						pos = call.Pos()
					}
				}
			}
		}
		c.Check(found, rule, f.Key+"#"+mode, pos, m, "usedCursor.unset() under how == "+mode,
			"assignPartitions does not call cursor.unset for the used cursors in the "+mode+" arm: the cursor keeps its usable flag / consumed epoch and the removed partition keeps being fetched (or is resurrected by the next leader move)")
	}
}
