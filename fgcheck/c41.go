package main

import (
	"go/ast"
	"go/token"
	"go/types"
	"os"
	"sort"
	"strings"
)

func init() {
	register(&Prop{
		ID:        "C41",
		Level:     "other",
		Technique: "must-lockset (guarded-by) analysis over an explicit field<-mutex table confirmed by hand (about 90 fields incl. cross-struct guards), call-site verification of every \"called with X held\" assumption incl. higher-order lockers, type-level lock-order graph (interprocedural may-acquire summaries to a fixpoint) without 2-cycles, struct-comment driven table completeness, copy-on-write sharing rules for the published paused set and for producer.topics, publish-last / stop-first CFG dominance rules for cursor migration",
		Explanation: "(1) guarded-by: every read and write of each table field (producer counters/unknownTopics/txn flags, ring, sink backoff and recBufs, every recBuf field below mu, recBatch.records and load-error flags, source and sourceShare cursor lists, shareCursor ack state, shareConsumer, consumer ready/poll-wait/deferred-hook state, directConsumer assignment maps under the owning consumer.mu, consumerSession workers and list/epoch loads, groupConsumer mu block, GroupTransactSession flags, Client broker/coordinator/controller/sinksAndSources/metadata-cache maps, broker connection slots, brokerCxn parking, metawait, topicPartitions partitioner) holds the sibling mutex in the must-lockset at the access (writes need the write lock of an RWMutex); every deviation is a per-site exemption with a reason (constructor before publication, single-goroutine ownership, session already dead, documented protocol) and an exemption that no longer matches an unguarded access is reported; the store of a new broker connection through the slot pointer holds reapMu; every republish of producer.topics holds topicsMu (a deferred publish is registered after the deferred unlock); " +
			"(2) locked-entry: every function the table assumes to be entered with a lock held (documented \"must be called with X held\", *Locked helpers, seqRecBatch.appendTo under batch.mu, the take/discard-buffered chain under sourcesReadyMu) is called only at sites whose must-lockset contains that lock (receiver / argument substituted into the path, embedded-field promotion and per-client singleton structs normalised), is never started with go, and is used as a function value only when handed to a higher-order locker that takes exactly that lock; the higher-order lockers (eachOwnerLocked) call their callback only with the element's owner locked; " +
			"(3) lock-order: for every pair of mutex fields (A,B) of kgo, if some site acquires B (directly or through statically resolved synchronous callees) while A is in the must-lockset, no site acquires A while B is held; both sites are reported; re-locking a mutex already in the must-lockset through the same path is reported; " +
			"(4) documented-guarded: every kgo struct field whose declaration comment says it is guarded (\"guards the following\", \"guards the below\", \"all fields below\", a \"mu block\" banner, \"X guards a/b\", \"guarded by X\") is in the guarded-by table with that mutex, is an atomic/cond, or is listed with the reason it is ordered differently; " +
			"(5) copy-on-write paused set: snapshots published through consumer.paused are never written: pausedTopics mutators run only on a local defined once from clonePaused()/make (or on the mutator's own receiver), clonePaused returns clone(), clonePaused/storePaused run under pausedMu, every store into pausedPartitions.m is a fresh make(), every element store into a pausedTopics map is a value loaded from that same map or a fresh literal, and paused sets are never handed to functions outside kgo/sync/atomic (maps.Copy/Clone copy the struct values and share every inner partition map with the published snapshot); " +
			"(5b) published copy-on-write maps are never mutated in place (type resolved, origin based): a map obtained from an atomic.Value Load() type assertion or from a loader (topicsPartitions.load, loadPaused, id2tMap, amtps.read, ensureTopics ...; fixpoint) must not reach, along a CFG path without re-assignment, a map mutation (element store/update, delete, clear, maps.Copy/Insert/DeleteFunc destination, hand-off to a kgo function or closure that mutates that parameter, hand-off to an unknown function value); mutation after a non-deferred publish of the same local is reported; callbacks run over the loaded map (groupExternal.fn) are analysed with a published parameter; the lazy-clone flag idiom (if !cloned { m = t.clone(); cloned = true }) is accepted only with its full protocol; values of the named published types (topicsPartitionsData, pausedTopics) may only be mutated when every reaching definition is fresh (clone/make/literal) or the function's own parameter (call sites checked); clone functions must return only freshly made maps; " +
			"(6) publish-last / stop-first: migrateCursorTo stops the consumer session before any cursor field access and touches no cursor field after addCursor, cursorOffsetPreferred.move touches no cursor field after addCursor republishes it, cursor.allowUsable reads no cursor field after the useState swap that republishes the cursor.",
		NotDecided: "race freedom in general: state protected by session exclusivity (cursor offsets, usingCursors, nowAssigned), by single-goroutine ownership (drain loop, metadata loop, manage goroutine, handleReqs), by atomics or by channel happens-before is outside the table and is not decided; exemption reasons are reviewed text, not checked; the lockset is a must-analysis per function plus the verified locked-entry table (no alias analysis across different instances of one struct, function literals passed to unknown callees are assumed to run at the call); lock-order is decided for 2-cycles on mutex fields only (not longer cycles, not instance order of one field, callbacks invoked through function values are not followed); local-variable mutexes and the metrics maps (accessed through pointers) are not covered; races between internal goroutines and user callbacks/promises on the user's own record memory are covered only through the recBatch.mu / recBuf.mu critical sections around serialisation and failAllRecords.",
		Run:        runC41,
	})
}

func runC41(c *Ctx) {
	m := c.Load("")
	if m == nil {
		return
	}
	if os.Getenv("FGCHECK_C41_STATS") != "" {
		c41stats(m)
	}
	// user promises and the unbuffered hooks run on the single promise worker only
	// (C01 clauses 1 and 3, re-derived here): a promise invoked inline on a caller's
	// goroutine races the worker running other promises (ProduceSync's result slice)
	c01once(c, m)
	c01who(c, m)
	c41resolveEntries(c, m)
	litArgLocks = func(f *Func, call *ast.CallExpr, lit *ast.FuncLit) []string {
		o := calleeObj(f.Info(), call)
		fn, ok := o.(*types.Func)
		if !ok || len(lit.Type.Params.List) == 0 || len(lit.Type.Params.List[0].Names) == 0 {
			return nil
		}
		if tmpl, ok := c41hoLockers[keyOfObj(fn)]; ok {
			return []string{strings.Replace(tmpl, "$1", lit.Type.Params.List[0].Names[0].Name, 1)}
		}
		return nil
	}
	defer func() { litArgLocks = nil }()
	c41guardedTable(c, m)
	c41guardedNested(c, m)
	c41cxnStore(c, m)
	c41producerTopics(c, m)
	c41hoLockerRule(c, m)
	c41lockedEntry(c, m)
	c41lockOrder(c, m)
	c41documented(c, m)
	c41cow(c, m)
	c41cowPublished(c, m)
	c41publish(c, m)
}

// ---------------------------------------------------------------------------
// (1) guarded-by table

// c41resolveEntries replaces $r / $pN in the locked-entry table by the
// declared receiver / parameter names.
func c41resolveEntries(c *Ctx, m *Module) {
	for _, key := range sortedKeys(c41entry) {
		f := m.Func(key)
		if f == nil {
			continue // reported by locked-entry (NeedFunc)
		}
		var params []string
		for _, p := range f.Decl.Type.Params.List {
			if len(p.Names) == 0 {
				params = append(params, "_")
			}
			for _, nm := range p.Names {
				params = append(params, nm.Name)
			}
		}
		es := c41entry[key]
		for i := range es {
			head, rest, _ := strings.Cut(es[i].Path, ".")
			switch {
			case head == "$r":
				if f.Decl.Recv != nil && len(f.Decl.Recv.List) == 1 && len(f.Decl.Recv.List[0].Names) == 1 {
					es[i].Path = f.Decl.Recv.List[0].Names[0].Name + "." + rest
				} else {
					c.Undecided("locked-entry", key+" entered with "+es[i].Path, f.Pos(), m, "the function has no named receiver")
				}
			case strings.HasPrefix(head, "$p"):
				idx := int(head[2] - '0')
				if idx >= 0 && idx < len(params) {
					es[i].Path = params[idx] + "." + rest
				} else {
					c.Undecided("locked-entry", key+" entered with "+es[i].Path, f.Pos(), m, "no such parameter")
				}
			}
		}
	}
}

func c41entryPaths() map[string][]string {
	out := map[string][]string{}
	for fn, es := range c41entry {
		for _, e := range es {
			out[fn] = append(out[fn], e.Path)
		}
	}
	return out
}

func c41guardedTable(c *Ctx, m *Module) {
	rule := "guarded-by"
	entry := c41entryPaths()
	n := 0
	for _, g := range c41table {
		ex := map[string]string{}
		for k, v := range g.Exempt {
			ex[k] = v
		}
		spec := GuardSpec{Rule: rule, Type: g.Type, Field: g.Field, Mutex: g.Mutex, EntryLocks: entry, RecvAcquire: c41recv,
			Exempt: ex, ReadsToo: !g.WritesOnly, SkipFuncs: g.Skip}
		n += guardedByRule(c, m, "kgo", spec)
		// stale constructor entries
		fv := m.Field("kgo", g.Type, g.Field)
		for _, k := range sortedKeys(g.Skip) {
			f := m.Func(k)
			if f == nil || fv == nil || len(accessesOf(f, fv)) == 0 {
				c.Undecided(rule, k+": "+g.Type+"."+g.Field+" (skip entry)", token.NoPos, m, "exempt function does not exist or does not access the field (stale table entry)")
			}
		}
		if g.WritesOnly && g.Why == "" {
			c.Undecided(rule, g.Type+"."+g.Field, token.NoPos, m, "table entry checks writes only but gives no reason for lock-free reads")
		}
	}
	c.Floor(rule, n, c41floorGuarded)
	c.Set("guarded_fields", len(c41table))
}

// ---------------------------------------------------------------------------
// (2) locked-entry: call sites of functions assumed to be entered locked

// c41subst rewrites the callee-relative lock path (first component = receiver
// or parameter name) into the caller's canonical path.
func c41subst(caller *Func, callee *Func, call *ast.CallExpr, path string) (string, bool) {
	head, rest, _ := strings.Cut(path, ".")
	fd := callee.Decl
	if fd.Recv != nil && len(fd.Recv.List) == 1 && len(fd.Recv.List[0].Names) == 1 && fd.Recv.List[0].Names[0].Name == head {
		sel, ok := unparen(call.Fun).(*ast.SelectorExpr)
		if !ok {
			return "", false
		}
		// method expression (*T).m(x, ...): receiver is the first argument
		if _, isType := caller.Info().Types[sel.X]; isType && caller.Info().Types[sel.X].IsType() {
			if len(call.Args) == 0 {
				return "", false
			}
			return canonPath(caller, call.Args[0]) + "." + rest, true
		}
		return canonPath(caller, sel.X) + "." + rest, true
	}
	idx := 0
	for _, p := range fd.Type.Params.List {
		for _, nm := range p.Names {
			if nm.Name == head {
				if idx < len(call.Args) {
					return canonPath(caller, call.Args[idx]) + "." + rest, true
				}
				return "", false
			}
			idx++
		}
		if len(p.Names) == 0 {
			idx++
		}
	}
	return "", false
}

func c41lockedEntry(c *Ctx, m *Module) {
	rule := "locked-entry"
	funcs := m.FuncsIn("kgo")
	entry := c41entryPaths()
	owners := c41fieldOwners(m)
	emb := c41embedded(m)
	n := 0
	for _, key := range sortedKeys(c41entry) {
		callee := c.NeedFunc(m, key)
		if callee == nil {
			continue
		}
		for _, e := range c41entry[key] {
			if e.Trust != "" {
				n++
				c.OK(rule, key+" entered with "+e.Path+" (trusted)", callee.Pos(), m, "not call-site checked: "+e.Trust)
				continue
			}
			sites := 0
			for _, caller := range funcs {
				info := caller.Info()
				var env *lockEnv
				pm := map[ast.Node]ast.Node(nil)
				seen := map[string]int{}
				ast.Inspect(caller.Decl.Body, func(x ast.Node) bool {
					id, ok := x.(*ast.Ident)
					if !ok || info.Uses[id] == nil || origin(info.Uses[id]) != origin(types.Object(callee.Obj)) {
						return true
					}
					if pm == nil {
						pm = parentMap(caller.Decl.Body)
						env = newLockEnv(caller, entry[caller.Key], c41recv[caller.Key])
					}
					// find the call this identifier is the callee of
					var cur ast.Node = id
					if s, ok := pm[cur].(*ast.SelectorExpr); ok && s.Sel == id {
						cur = s
					}
					for {
						if p, ok := pm[cur].(*ast.ParenExpr); ok {
							cur = p
							continue
						}
						break
					}
					call, isCall := pm[cur].(*ast.CallExpr)
					cons := caller.Key + " -> " + key + " holds " + e.Path
					seen[cons]++
					if seen[cons] > 1 {
						cons += "#" + string(rune('0'+seen[cons]))
					}
					sites++
					n++
					if !isCall || call.Fun != cur.(ast.Expr) {
						// method expression handed to a higher-order locker that takes exactly this lock
						if isCall {
							if o, ok := calleeObj(info, call).(*types.Func); ok {
								if tmpl, ok := c41hoLockers[keyOfObj(o)]; ok && callee.Decl.Recv != nil && len(callee.Decl.Recv.List[0].Names) == 1 &&
									strings.Replace(tmpl, "$1", callee.Decl.Recv.List[0].Names[0].Name, 1) == e.Path {
									c.OK(rule, cons, id.Pos(), m, "passed to "+keyOfObj(o)+" which calls it with "+tmpl+" held")
									return true
								}
							}
						}
						// method value / function value: allowed only when the table names the consumer
						if why, ok := e.Values[caller.Key]; ok {
							c.OK(rule, cons, id.Pos(), m, "function value use accepted: "+why)
						} else {
							c.Fail(rule, cons, id.Pos(), m, key+" is assumed to be entered with "+e.Path+" held but is used as a function value here (callers cannot be checked)")
						}
						return true
					}
					switch pm[call].(type) {
					case *ast.GoStmt:
						c.Fail(rule, cons, call.Pos(), m, key+" must be entered with "+e.Path+" held but is started on a new goroutine")
						return true
					}
					want, ok := c41subst(caller, callee, call, e.Path)
					if !ok {
						c.Undecided(rule, cons, call.Pos(), m, "cannot map lock path "+e.Path+" to the call's receiver/arguments")
						return true
					}
					var held LockSet
					if _, isDefer := pm[call].(*ast.DeferStmt); isDefer {
						held = c41heldAtExit(env, call)
					} else {
						h, ok := env.HeldAtNode(call)
						if !ok {
							c.Undecided(rule, cons, call.Pos(), m, "call not located in a CFG")
							return true
						}
						held = h
					}
					if c41holds(held, want, e.Read, emb) {
						c.OK(rule, cons, call.Pos(), m, "holds "+want)
					} else if p := c41singletonHeld(m, owners, caller, held, e.Mutex); p != "" {
						c.OK(rule, cons, call.Pos(), m, "holds "+p+" which is the per-client singleton "+e.Mutex)
					} else if why, ok := e.CallerExempt[caller.Key]; ok {
						c.OK(rule, cons, call.Pos(), m, "exempt: "+why)
					} else {
						c.Fail(rule, cons, call.Pos(), m, key+" reads/writes guarded state assuming "+e.Path+" is held, but this caller does not hold "+want+" (must-lockset here: "+held.String()+")")
					}
					return true
				})
			}
			if sites == 0 {
				c.Undecided(rule, key+" entered with "+e.Path, callee.Pos(), m, "no call site found for a function assumed to be entered locked")
			}
		}
	}
	c.Floor(rule, n, c41floorEntry)
}

// c41embedded lists the names of embedded struct fields of kgo (promoted
// selections: batch.recBatch.owner and batch.owner are the same path).
func c41embedded(m *Module) map[string]bool {
	out := map[string]bool{}
	p := m.Pkg("kgo")
	if p == nil {
		return out
	}
	sc := p.Types.Scope()
	for _, n := range sc.Names() {
		if tn, ok := sc.Lookup(n).(*types.TypeName); ok {
			if st, ok := tn.Type().Underlying().(*types.Struct); ok {
				for i := 0; i < st.NumFields(); i++ {
					if st.Field(i).Embedded() {
						out[st.Field(i).Name()] = true
					}
				}
			}
		}
	}
	return out
}

func c41norm(path string, emb map[string]bool) string {
	parts := strings.Split(c41normUp(path), ".")
	out := parts[:1]
	for _, p := range parts[1:] {
		if !emb[p] {
			out = append(out, p)
		}
	}
	return strings.Join(out, ".")
}

func c41holds(held LockSet, want string, read bool, emb map[string]bool) bool {
	if held.Holds(want, !read) {
		return true
	}
	w := c41norm(want, emb)
	for p := range held {
		if rd := strings.HasSuffix(p, ":r"); rd && !read {
			continue
		}
		if c41norm(strings.TrimSuffix(p, ":r"), emb) == w {
			return true
		}
	}
	return false
}

// c41singletonHeld: for mutexes of structs that exist once per client the
// access path does not matter (s.cl.consumer.mu and c.mu are the same lock):
// returns the held path that names the same mutex field.
func c41singletonHeld(m *Module, owners map[*types.Var]string, caller *Func, held LockSet, mutex string) string {
	if !c41singletons[mutex] {
		return ""
	}
	pn := c41pathNames(m, owners, caller)
	for p := range held {
		if strings.HasSuffix(p, ":r") {
			continue
		}
		if pn[p] == mutex {
			return p
		}
	}
	return ""
}

// c41pathNames maps the canonical lock paths used in f to mutex field names.
func c41pathNames(m *Module, owners map[*types.Var]string, f *Func) map[string]string {
	pn := map[string]string{}
	for _, e := range c41entry[f.Key] {
		pn[e.Path] = e.Mutex
	}
	ast.Inspect(f.Decl.Body, func(x ast.Node) bool {
		if call, ok := x.(*ast.CallExpr); ok {
			if p, _, ok := lockOp(f, call); ok {
				if name := c41mutexName(m, owners, f, unparen(call.Fun).(*ast.SelectorExpr).X); name != "" {
					pn[p] = name
				}
			}
		}
		return true
	})
	return pn
}

// c41hoLockerRule: a higher-order locker calls its function argument only with
// the promised lock held on the element it passes.
func c41hoLockerRule(c *Ctx, m *Module) {
	rule := "ho-locker"
	for _, key := range sortedKeys(c41hoLockers) {
		f := c.NeedFunc(m, key)
		if f == nil {
			continue
		}
		tmpl := c41hoLockers[key]
		// the function-typed parameter
		var param types.Object
		for _, p := range f.Decl.Type.Params.List {
			for _, nm := range p.Names {
				if _, ok := f.Info().Defs[nm].Type().Underlying().(*types.Signature); ok {
					param = f.Info().Defs[nm]
				}
			}
		}
		env := newLockEnv(f, nil, nil)
		n := 0
		ast.Inspect(f.Decl.Body, func(x ast.Node) bool {
			id, ok := x.(*ast.Ident)
			if !ok || param == nil || f.Info().Uses[id] != param {
				return true
			}
			n++
			cons := key + ": use of " + id.Name
			if n > 1 {
				cons += "#" + string(rune('0'+n))
			}
			call, _ := enclosingCallOf(f.Decl.Body, id)
			if call == nil || len(call.Args) == 0 {
				c.Fail(rule, cons, id.Pos(), m, "the callback of a higher-order locker escapes (not called directly with an element): literals passed to "+key+" are analysed as holding "+tmpl)
				return true
			}
			want := strings.Replace(tmpl, "$1", canonPath(f, call.Args[0]), 1)
			held, ok := env.HeldAtNode(call)
			if ok && held.Holds(want, true) {
				c.OK(rule, cons, call.Pos(), m, "callback runs with "+want+" held")
			} else {
				c.Fail(rule, cons, call.Pos(), m, key+" calls its callback without "+want+" held; every literal passed to it accesses recBuf state assuming the owner is locked")
			}
			return true
		})
		if n == 0 {
			c.Undecided(rule, key, f.Pos(), m, "no use of the callback parameter found")
		}
	}
}

// enclosingCallOf returns the call whose callee is exactly the identifier.
func enclosingCallOf(root ast.Node, id *ast.Ident) (*ast.CallExpr, bool) {
	var out *ast.CallExpr
	ast.Inspect(root, func(x ast.Node) bool {
		if call, ok := x.(*ast.CallExpr); ok && unparen(call.Fun) == ast.Expr(id) {
			out = call
		}
		return out == nil
	})
	return out, out != nil
}

// c41heldAtExit: must-lockset when a deferred call runs (intersection over normal exits).
func c41heldAtExit(env *lockEnv, n ast.Node) LockSet {
	body, lit := env.enclosingBody(n)
	li := env.compute(body, lit)
	var res LockSet
	for _, b := range li.g.C.Blocks {
		if k, ok := li.g.exitOf(int(b.Index)); ok && k != ExitPanic {
			st := heldAtHook(li, Loc{int(b.Index), len(b.Nodes)}, env.recvAcquire)
			// deferred unlocks registered earlier run after later defers: keep as held
			if res == nil {
				res = st
			} else {
				res = intersect(res, st)
			}
		}
	}
	if res == nil {
		res = LockSet{}
	}
	return res
}

// ---------------------------------------------------------------------------
// (3) lock order

type c41edge struct {
	a, b string // mutex field names "Type.field"
	fn   *Func
	pos  token.Pos
	via  string
}

// c41mutexName names the mutex a lock call operates on by its declaring
// struct field ("recBuf.mu") or local variable ("func:name").
func c41mutexName(m *Module, owners map[*types.Var]string, f *Func, x ast.Expr) string {
	x = unparen(x)
	if u, ok := x.(*ast.UnaryExpr); ok && u.Op == token.AND {
		x = unparen(u.X)
	}
	if fv := fieldOfSel(f.Info(), x); fv != nil {
		if o, ok := owners[fv.Origin()]; ok {
			return o + "." + fv.Name()
		}
		return "?." + fv.Name()
	}
	if id, ok := x.(*ast.Ident); ok {
		return f.Key + ":" + id.Name
	}
	return ""
}

func c41fieldOwners(m *Module) map[*types.Var]string {
	owners := map[*types.Var]string{}
	p := m.Pkg("kgo")
	if p == nil {
		return owners
	}
	var visit func(name string, st *types.Struct)
	visit = func(name string, st *types.Struct) {
		for i := 0; i < st.NumFields(); i++ {
			f := st.Field(i)
			owners[f] = name
			if _, named := types.Unalias(f.Type()).(*types.Named); !named {
				if sub, ok := f.Type().Underlying().(*types.Struct); ok {
					visit(name+"."+f.Name(), sub)
				}
			}
		}
	}
	sc := p.Types.Scope()
	for _, n := range sc.Names() {
		if tn, ok := sc.Lookup(n).(*types.TypeName); ok && !tn.IsAlias() {
			if st, ok := tn.Type().Underlying().(*types.Struct); ok {
				visit(n, st)
			}
		}
	}
	return owners
}

func c41lockOrder(c *Ctx, m *Module) {
	rule := "lock-order"
	funcs := m.FuncsIn("kgo")
	owners := c41fieldOwners(m)
	byObj := map[types.Object]*Func{}
	for _, f := range funcs {
		byObj[origin(f.Obj)] = f
	}
	// pass 1: direct acquisitions and static callees per function (the body of
	// the declaration and of literals that are not started with go; literals
	// run later or elsewhere are attributed to the function conservatively
	// only for the may-acquire summary of *synchronous* calls, see below).
	type fnInfo struct {
		direct  map[string]token.Pos // mutex name -> a position
		callees map[*Func]bool
	}
	infos := map[*Func]*fnInfo{}
	pathName := map[*Func]map[string]string{} // canonical path -> mutex name
	for _, f := range funcs {
		fi := &fnInfo{direct: map[string]token.Pos{}, callees: map[*Func]bool{}}
		infos[f] = fi
		pn := map[string]string{}
		pathName[f] = pn
		for _, e := range c41entry[f.Key] {
			pn[e.Path] = e.Mutex
		}
		var walk func(n ast.Node, sync bool)
		walk = func(n ast.Node, sync bool) {
			ast.Inspect(n, func(x ast.Node) bool {
				switch s := x.(type) {
				case *ast.GoStmt:
					// arguments are evaluated synchronously, the call is not
					for _, a := range s.Call.Args {
						walk(a, sync)
					}
					if lit, ok := unparen(s.Call.Fun).(*ast.FuncLit); ok {
						walk(lit.Body, false)
					}
					return false
				case *ast.FuncLit:
					// a literal that is not immediately called or deferred may run anywhere
					walk(s.Body, false)
					return false
				case *ast.CallExpr:
					if lit, ok := unparen(s.Fun).(*ast.FuncLit); ok {
						for _, a := range s.Args {
							walk(a, sync)
						}
						walk(lit.Body, sync)
						return false
					}
					if p, op, ok := lockOp(f, s); ok {
						name := c41mutexName(m, owners, f, unparen(s.Fun).(*ast.SelectorExpr).X)
						if name != "" {
							pn[p] = name
							if sync && (op == "Lock" || op == "RLock") {
								if _, dup := fi.direct[name]; !dup {
									fi.direct[name] = s.Pos()
								}
							}
						}
						return true
					}
					if sync {
						if o := calleeObj(f.Info(), s); o != nil {
							if cf := byObj[origin(o)]; cf != nil {
								fi.callees[cf] = true
							}
						}
					}
				}
				return true
			})
		}
		walk(f.Decl.Body, true)
	}
	// pass 2: may-acquire summaries to a fixpoint
	acq := map[*Func]map[string]string{} // mutex -> via (function key where acquired)
	for _, f := range funcs {
		acq[f] = map[string]string{}
		for k := range infos[f].direct {
			acq[f][k] = f.Key
		}
	}
	for changed := true; changed; {
		changed = false
		for _, f := range funcs {
			for cf := range infos[f].callees {
				for k, via := range acq[cf] {
					if _, ok := acq[f][k]; !ok {
						acq[f][k] = via
						changed = true
					}
				}
			}
		}
	}
	// pass 3: edges
	edges := map[[2]string]c41edge{}
	entry := c41entryPaths()
	add := func(a, b string, f *Func, pos token.Pos, via string) {
		k := [2]string{a, b}
		if old, ok := edges[k]; ok {
			// prefer direct edges, then stable order
			if !(old.via != "" && via == "") {
				return
			}
		}
		edges[k] = c41edge{a, b, f, pos, via}
	}
	nAcq := 0
	for _, f := range funcs {
		if len(infos[f].direct) == 0 && len(infos[f].callees) == 0 {
			continue
		}
		env := newLockEnv(f, entry[f.Key], c41recv[f.Key])
		pn := pathName[f]
		heldNames := func(n ast.Node) (map[string]string, bool) {
			held, ok := env.HeldAtNode(n)
			if !ok {
				return nil, false
			}
			out := map[string]string{}
			for p := range held {
				p0 := strings.TrimSuffix(p, ":r")
				if nm, ok := pn[p0]; ok {
					out[nm] = p0
				}
			}
			return out, true
		}
		pm := parentMap(f.Decl.Body)
		ast.Inspect(f.Decl.Body, func(x ast.Node) bool {
			call, ok := x.(*ast.CallExpr)
			if !ok {
				return true
			}
			if _, isGo := pm[call].(*ast.GoStmt); isGo {
				return true
			}
			if p, op, ok := lockOp(f, call); ok {
				if op != "Lock" && op != "RLock" {
					return true
				}
				if _, isDefer := pm[call].(*ast.DeferStmt); isDefer {
					return true
				}
				nAcq++
				name := pn[p]
				held, ok := heldNames(call)
				if !ok || name == "" {
					return true
				}
				for a, ap := range held {
					if a == name {
						if ap == p {
							c.Fail(rule, f.Key+": re-lock "+p, call.Pos(), m, "mutex "+name+" ("+p+") is locked while already in the must-lockset: self-deadlock")
						}
						continue
					}
					add(a, name, f, call.Pos(), "")
				}
				return true
			}
			o := calleeObj(f.Info(), call)
			if o == nil {
				return true
			}
			cf := byObj[origin(o)]
			if cf == nil || len(acq[cf]) == 0 {
				return true
			}
			if _, isDefer := pm[call].(*ast.DeferStmt); isDefer {
				return true
			}
			held, ok := heldNames(call)
			if !ok || len(held) == 0 {
				return true
			}
			for a := range held {
				for b, via := range acq[cf] {
					if a != b {
						add(a, b, f, call.Pos(), cf.Key+" .. "+via)
					}
				}
			}
			return true
		})
	}
	keys := make([][2]string, 0, len(edges))
	for k := range edges {
		keys = append(keys, k)
	}
	sort.Slice(keys, func(i, j int) bool {
		if keys[i][0] != keys[j][0] {
			return keys[i][0] < keys[j][0]
		}
		return keys[i][1] < keys[j][1]
	})
	n := 0
	desc := func(e c41edge) string {
		s := e.fn.Key + " at " + m.Position(e.pos)
		if e.via != "" {
			s += " (through " + e.via + ")"
		}
		return s
	}
	var order []string
	for _, k := range keys {
		e := edges[k]
		n++
		cons := k[0] + " -> " + k[1]
		order = append(order, cons)
		if rev, ok := edges[[2]string{k[1], k[0]}]; ok {
			if why, ok := c41orderExempt[cons]; ok {
				c.OK(rule, cons, e.pos, m, "reverse edge accepted: "+why)
				continue
			}
			c.Fail(rule, cons, e.pos, m, k[1]+" is acquired while "+k[0]+" is held in "+desc(e)+", and "+k[0]+" is acquired while "+k[1]+" is held in "+desc(rev)+": lock-order inversion (deadlock between the two paths)")
			continue
		}
		c.OK(rule, cons, e.pos, m, "no site acquires "+k[0]+" while holding "+k[1]+"; witnessed in "+desc(e))
	}
	for _, k := range sortedKeys(c41orderExempt) {
		a, b, _ := strings.Cut(k, " -> ")
		_, fw := edges[[2]string{a, b}]
		_, bw := edges[[2]string{b, a}]
		if !fw || !bw {
			c.Undecided(rule, k+" (exemption)", token.NoPos, m, "lock-order exemption matches no inversion (stale table entry)")
		}
	}
	c.Set("lock_order_edges", order)
	c.Floor(rule, n, c41floorOrder)
	c.Floor(rule+"/acquisitions", nAcq, c41floorAcq)
}

// ---------------------------------------------------------------------------
// (1b) nested anonymous struct fields (Client.metaCache.*), same verdict logic
// as guardedByRule but for a field object that Module.Field cannot name.

func c41nestedField(m *Module, path string) *types.Var {
	parts := strings.Split(path, ".")
	p := m.Pkg("kgo")
	if p == nil || len(parts) < 2 {
		return nil
	}
	obj := p.Types.Scope().Lookup(parts[0])
	if obj == nil {
		return nil
	}
	t := obj.Type()
	var fv *types.Var
	for _, name := range parts[1:] {
		st, ok := t.Underlying().(*types.Struct)
		if !ok {
			return nil
		}
		fv = nil
		for i := 0; i < st.NumFields(); i++ {
			if st.Field(i).Name() == name {
				fv = st.Field(i)
			}
		}
		if fv == nil {
			return nil
		}
		t = fv.Type()
	}
	return fv
}

// c41up strips n trailing components from a base path (the guard lives in an
// enclosing struct: c.d.using is guarded by c.mu).  When the base is shorter
// (d.using inside a directConsumer method) the parent is written "d.^".
func c41up(base string, n int) string {
	for ; n > 0; n-- {
		if i := strings.LastIndex(base, "."); i >= 0 && !strings.HasSuffix(base, "^") {
			base = base[:i]
		} else {
			base += ".^"
		}
	}
	return base
}

// c41normUp resolves "X.f.^" to "X".
func c41normUp(p string) string {
	parts := strings.Split(p, ".")
	var out []string
	for _, s := range parts {
		if s == "^" && len(out) > 1 && out[len(out)-1] != "^" {
			out = out[:len(out)-1]
			continue
		}
		out = append(out, s)
	}
	return strings.Join(out, ".")
}

func c41guardedNested(c *Ctx, m *Module) {
	rule := "guarded-by"
	entry := c41entryPaths()
	n := 0
	usedEx := map[string]bool{}
	for _, g := range c41nested {
		fv := c41nestedField(m, g.Type+"."+g.Field)
		if fv == nil {
			c.Undecided("anchor", "kgo."+g.Type+"."+g.Field, token.NoPos, m, "field not found")
			continue
		}
		for _, f := range m.FuncsIn("kgo") {
			accs := accessesOf(f, fv)
			if len(accs) == 0 {
				continue
			}
			if why, ok := g.Skip[f.Key]; ok {
				usedEx[g.Type+"."+g.Field+"|skip:"+f.Key] = true
				c.OK(rule, f.Key+": "+g.Type+"."+g.Field, f.Pos(), m, "exempt function: "+why)
				continue
			}
			c.Touch(f)
			env := newLockEnv(f, entry[f.Key], c41recv[f.Key])
			seen := map[string]int{}
			for _, a := range accs {
				n++
				want := c41up(a.Base, g.Up) + "." + g.Mutex
				cons := f.Key + ": " + exprStr(a.Node)
				if a.Write {
					cons += " (write)"
				}
				seen[cons]++
				if seen[cons] > 1 {
					cons += "#" + string(rune('0'+seen[cons]))
				}
				held, ok := env.HeldAtNode(a.Node)
				if !ok {
					c.Undecided(rule, cons, a.Node.Pos(), m, "access not located in a CFG")
					continue
				}
				if held.Holds(want, true) {
					c.OK(rule, cons, a.Node.Pos(), m, "holds "+want)
					continue
				}
				base := cons
				if i := strings.LastIndex(cons, "#"); i > 0 {
					base = cons[:i]
				}
				if why, ok := g.Exempt[base]; ok {
					usedEx[g.Type+"."+g.Field+"|"+base] = true
					c.OK(rule, cons, a.Node.Pos(), m, "exempt: "+why)
					continue
				}
				c.Fail(rule, cons, a.Node.Pos(), m, g.Type+"."+g.Field+" is accessed without "+want+" held (must-lockset here: "+held.String()+")")
			}
		}
	}
	for _, g := range c41nested {
		for _, k := range sortedKeys(g.Exempt) {
			if !usedEx[g.Type+"."+g.Field+"|"+k] {
				c.Undecided(rule, k, token.NoPos, m, "exemption matches no unguarded access (stale table entry)")
			}
		}
		for _, k := range sortedKeys(g.Skip) {
			if !usedEx[g.Type+"."+g.Field+"|skip:"+k] {
				c.Undecided(rule, k+": "+g.Type+"."+g.Field+" (skip entry)", token.NoPos, m, "exempt function does not access the field (stale table entry)")
			}
		}
	}
	c.Floor(rule+"/nested", n, c41floorNested)
}

// (1c) broker.cxn*: loadConnection stores the new connection through a
// pointer to the field; that store must hold reapMu (stopForever and the
// reaper read the fields under reapMu).
func c41cxnStore(c *Ctx, m *Module) {
	rule := "cxn-store-under-reapMu"
	f := c.NeedFunc(m, "kgo.broker.loadConnection")
	if f == nil {
		return
	}
	bt := m.Object("kgo", "brokerCxn")
	env := newLockEnv(f, nil, nil)
	n := 0
	ast.Inspect(f.Decl.Body, func(x ast.Node) bool {
		as, ok := x.(*ast.AssignStmt)
		if !ok {
			return true
		}
		for _, l := range as.Lhs {
			st, ok := unparen(l).(*ast.StarExpr)
			if !ok || bt == nil {
				continue
			}
			tv := f.Info().Types[st]
			pt, isPtr := tv.Type.(*types.Pointer)
			if !isPtr || !types.Identical(pt.Elem(), bt.Type()) {
				continue
			}
			n++
			cons := f.Key + ": " + exprStr(l) + " (write)"
			if n > 1 {
				cons += "#" + string(rune('0'+n))
			}
			held, ok := env.HeldAtNode(as)
			c.Check(ok && held.Holds("b.reapMu", true), rule, cons, as.Pos(), m, "holds b.reapMu",
				"the broker's connection slot is stored without b.reapMu: stopForever/reapConnections read the slots under reapMu on other goroutines")
		}
		return true
	})
	c.Floor(rule, n, 1)
}

// (1d) producer.topics is an atomically loaded copy-on-write map: "topicsMu:
// locked to prevent concurrent updates; reads are always atomic".  Every
// publishing call (storeData / storeTopics / purgeTopics) on producer.topics
// holds the sibling topicsMu; a deferred publish must be registered after the
// deferred unlock so that it runs before it.
func c41producerTopics(c *Ctx, m *Module) {
	rule := "producer-topics-store-under-topicsMu"
	fv := m.Field("kgo", "producer", "topics")
	if fv == nil {
		c.Undecided("anchor", "kgo.producer.topics", token.NoPos, m, "field not found")
		return
	}
	pubs := map[string]bool{"storeData": true, "storeTopics": true, "purgeTopics": true}
	n := 0
	for _, f := range m.FuncsIn("kgo") {
		var env *lockEnv
		var pm map[ast.Node]ast.Node
		seen := map[string]int{}
		ast.Inspect(f.Decl.Body, func(x ast.Node) bool {
			call, ok := x.(*ast.CallExpr)
			if !ok {
				return true
			}
			sel, ok := unparen(call.Fun).(*ast.SelectorExpr)
			if !ok || !pubs[sel.Sel.Name] || !sameField(fieldOfSel(f.Info(), sel.X), fv) {
				return true
			}
			if env == nil {
				env = newLockEnv(f, nil, c41recv[f.Key])
				pm = parentMap(f.Decl.Body)
			}
			n++
			base := unparen(sel.X).(*ast.SelectorExpr).X
			want := canonPath(f, base) + ".topicsMu"
			cons := f.Key + ": " + exprStr(call.Fun)
			seen[cons]++
			if seen[cons] > 1 {
				cons += "#" + string(rune('0'+seen[cons]))
			}
			fail := "producer.topics is republished without " + want + ": two concurrent updaters (first produce to a topic, purge, failBufferedRecords) each clone-modify-store and one update is lost"
			if ds, isDefer := pm[call].(*ast.DeferStmt); isDefer {
				held := c41heldAtExit(env, call)
				// the deferred unlock must be registered before this defer (LIFO: publish runs first)
				unlockFirst := false
				g := f.GraphFor(ds)
				dl, _ := g.LocOf(ds)
				ast.Inspect(f.Decl.Body, func(y ast.Node) bool {
					d2, ok := y.(*ast.DeferStmt)
					if !ok || d2 == ds {
						return true
					}
					if p, op, ok := lockOp(f, d2.Call); ok && op == "Unlock" && p == want {
						if l2, ok := g.LocOf(d2); ok && g.DominatesReg(l2, dl) {
							unlockFirst = true
						}
					}
					return true
				})
				c.Check(held.Holds(want, true) && unlockFirst, rule, cons, call.Pos(), m, "deferred publish runs before the deferred unlock of "+want, fail)
				return true
			}
			held, ok := env.HeldAtNode(call)
			c.Check(ok && held.Holds(want, true), rule, cons, call.Pos(), m, "holds "+want, fail)
			return true
		})
	}
	c.Floor(rule, n, 3)
}

// ---------------------------------------------------------------------------
// (4) documented-guarded: struct comments name the guard

type c41doc struct {
	typ, field, mutex string
	pos               token.Pos
	how               string
}

func c41documentedPairs(m *Module) []c41doc {
	p := m.Pkg("kgo")
	if p == nil {
		return nil
	}
	var out []c41doc
	line := func(pos token.Pos) int { return m.Fset.Position(pos).Line }
	for _, file := range p.Syntax {
		ast.Inspect(file, func(x ast.Node) bool {
			ts, ok := x.(*ast.TypeSpec)
			if !ok {
				return true
			}
			st, ok := ts.Type.(*ast.StructType)
			if !ok {
				return true
			}
			type fld struct {
				name       string
				f          *ast.Field
				start, end int // lines incl. doc and trailing comment
				isMutex    bool
				text       string // doc + trailing comment
				banner     string // free comments between the previous field and this one
			}
			var fs []fld
			prevEnd := st.Fields.Opening
			for _, f := range st.Fields.List {
				start, end := f.Pos(), f.End()
				text := ""
				if f.Doc != nil {
					start = f.Doc.Pos()
					text += f.Doc.Text()
				}
				if f.Comment != nil {
					end = f.Comment.End()
					text += " " + f.Comment.Text()
				}
				banner := ""
				for _, cg := range file.Comments {
					if cg.Pos() > prevEnd && cg.End() < f.Pos() && cg != f.Doc {
						banner += cg.Text()
					}
				}
				isMu := false
				if tv, ok := p.TypesInfo.Types[f.Type]; ok {
					isMu = c41isMutexType(tv.Type)
				}
				names := f.Names
				if len(names) == 0 {
					// embedded
					switch t := f.Type.(type) {
					case *ast.Ident:
						names = []*ast.Ident{t}
					case *ast.StarExpr:
						if id, ok := t.X.(*ast.Ident); ok {
							names = []*ast.Ident{id}
						}
					}
				}
				for _, nm := range names {
					fs = append(fs, fld{nm.Name, f, line(start), line(end), isMu, strings.Join(strings.Fields(text), " "), strings.Join(strings.Fields(banner), " ")})
				}
				prevEnd = end
			}
			isField := func(n string) bool {
				for _, f := range fs {
					if f.name == n && !f.isMutex {
						return true
					}
				}
				return false
			}
			for i, f := range fs {
				if f.isMutex {
					lt := strings.ToLower(f.text)
					lb := strings.ToLower(f.banner)
					switch {
					case strings.Contains(lt, "all fields below") || strings.Contains(lb, f.name+" block") || strings.Contains(lt, f.name+" block"):
						for _, g := range fs[i+1:] {
							if !g.isMutex {
								out = append(out, c41doc{ts.Name.Name, g.name, f.name, g.f.Pos(), "all fields below " + f.name})
							}
						}
					case strings.Contains(lt, "guards the following") || strings.Contains(lt, "guards the below"):
						prev := f
						for _, g := range fs[i+1:] {
							if g.isMutex || g.start-prev.end > 1 {
								break
							}
							out = append(out, c41doc{ts.Name.Name, g.name, f.name, g.f.Pos(), f.name + " guards the following"})
							prev = g
						}
					}
					// "<mu> guards a/b", "<mu> guards a, b and c"
					if k := strings.Index(f.text, f.name+" guards "); k >= 0 {
						rest := f.text[k+len(f.name+" guards "):]
						if e := strings.IndexAny(rest, ".;"); e >= 0 {
							rest = rest[:e]
						}
						for _, w := range strings.FieldsFunc(rest, func(r rune) bool { return r == '/' || r == ',' || r == ' ' }) {
							if isField(w) {
								out = append(out, c41doc{ts.Name.Name, w, f.name, f.f.Pos(), f.name + " guards " + w})
							}
						}
					}
					continue
				}
				// "f, guarded by X" / "guarded by X" in the field's own comment
				if k := strings.Index(strings.ToLower(f.text), "guarded by "); k >= 0 {
					w := strings.FieldsFunc(f.text[k+len("guarded by "):], func(r rune) bool {
						return !(r == '_' || r >= '0' && r <= '9' || r >= 'a' && r <= 'z' || r >= 'A' && r <= 'Z')
					})
					if len(w) > 0 {
						for _, g := range fs {
							if g.isMutex && g.name == w[0] {
								out = append(out, c41doc{ts.Name.Name, f.name, g.name, f.f.Pos(), "field comment: guarded by " + g.name})
							}
						}
					}
				}
			}
			return true
		})
	}
	return out
}

func c41documented(c *Ctx, m *Module) {
	rule := "documented-guarded"
	inTable := map[string]string{}
	for _, g := range c41table {
		inTable[g.Type+"."+g.Field] = g.Mutex
	}
	used := map[string]bool{}
	n := 0
	for _, d := range c41documentedPairs(m) {
		n++
		k := d.typ + "." + d.field
		cons := k + " <- " + d.mutex
		if fv := m.Field("kgo", d.typ, d.field); fv != nil && (c41isAtomicType(fv.Type()) || c41isCondOrMutex(fv.Type())) {
			c.OK(rule, cons, d.pos, m, "atomic / synchronisation object: needs no guard ("+d.how+")")
			continue
		}
		if mu, ok := inTable[k]; ok && mu == d.mutex {
			c.OK(rule, cons, d.pos, m, "checked by guarded-by ("+d.how+")")
			continue
		}
		if why, ok := c41docOther[cons]; ok {
			used[cons] = true
			c.OK(rule, cons, d.pos, m, "documented guard not checked mechanically: "+why)
			continue
		}
		c.Undecided(rule, cons, d.pos, m, "the struct comment documents this field as guarded ("+d.how+") but the C41 table has no entry for it: confirm the discipline and add it")
	}
	for _, k := range sortedKeys(c41docOther) {
		if !used[k] {
			// a struct comment that was reworded or removed is not a defect of the code:
			// the exception is simply unused on this tree
			c.OK(rule, k+" (table)", token.NoPos, m, "listed exception has no matching struct comment on this tree (unused)")
		}
	}
	c.Floor(rule, n, c41floorDoc)
}

func c41isCondOrMutex(t types.Type) bool {
	s := types.Unalias(t).String()
	return c41isMutexType(t) || s == "*sync.Cond" || s == "sync.Cond"
}

// ---------------------------------------------------------------------------
// (5) copy-on-write paused set

func c41cow(c *Ctx, m *Module) {
	funcs := m.FuncsIn("kgo")
	ptObj := m.Object("kgo", "pausedTopics")
	ppObj := m.Object("kgo", "pausedPartitions")
	inner := m.Field("kgo", "pausedPartitions", "m")
	if ptObj == nil || ppObj == nil || inner == nil {
		c.Undecided("anchor", "kgo.pausedTopics / pausedPartitions.m", token.NoPos, m, "type not found")
		return
	}
	isPT := func(t types.Type) bool { return t != nil && types.Identical(t, ptObj.Type()) }
	isPP := func(t types.Type) bool { return t != nil && types.Identical(t, ppObj.Type()) }

	// R1: the inner map is always fresh
	rule := "cow-inner-map-fresh"
	n1 := 0
	for _, st := range StoreSites(funcs, inner) {
		if st.Kind == "addr" {
			c.Fail(rule, st.Fn.Key+": &pausedPartitions.m", st.Node.Pos(), m, "address of the inner partition map escapes")
			continue
		}
		n1++
		fresh := false
		if call, ok := unparen(st.RHS).(*ast.CallExpr); ok {
			if id, ok := unparen(call.Fun).(*ast.Ident); ok && id.Name == "make" {
				if _, isB := st.Fn.Info().Uses[id].(*types.Builtin); isB {
					fresh = true
				}
			}
		}
		cons := st.Fn.Key + ": pausedPartitions.m = " + exprStr(st.RHS)
		c.Check(fresh, rule, cons, st.Node.Pos(), m, "fresh map",
			"pausedPartitions.m is set to an existing map: two paused sets then share the partition map, and the copy-on-write writer mutates a map that fetch/poll goroutines read lock-free from the published snapshot")
	}
	c.Floor(rule, n1, 2)

	// R2: element stores into a pausedTopics map keep values inside the same map
	rule2 := "cow-element-from-same-map"
	// R3: no generic copy helpers on paused sets
	rule3 := "cow-no-shallow-copy"
	// mutators: pausedTopics methods that store into / delete from the receiver
	mutators := map[types.Object]bool{}
	n2, n3 := 0, 0
	for _, f := range funcs {
		info := f.Info()
		var recv types.Object
		if f.Decl.Recv != nil && len(f.Decl.Recv.List) == 1 && len(f.Decl.Recv.List[0].Names) == 1 {
			if o := info.Defs[f.Decl.Recv.List[0].Names[0]]; o != nil && isPT(o.Type()) {
				recv = o
			}
		}
		ast.Inspect(f.Decl.Body, func(x ast.Node) bool {
			switch s := x.(type) {
			case *ast.AssignStmt:
				for i, l := range s.Lhs {
					ix, ok := unparen(l).(*ast.IndexExpr)
					if !ok || !isPT(info.Types[ix.X].Type) {
						continue
					}
					if id, ok := unparen(ix.X).(*ast.Ident); ok && recv != nil && info.Uses[id] == recv {
						mutators[f.Obj] = true
					}
					n2++
					var rhs ast.Expr
					if len(s.Rhs) == len(s.Lhs) {
						rhs = s.Rhs[i]
					}
					cons := f.Key + ": " + exprStr(l) + " = " + exprStr(rhs)
					ok2, why := c41sameMapValue(f, ix.X, rhs, isPP)
					c.Check(ok2, rule2, cons, s.Pos(), m, why,
						"a pausedPartitions value (which carries a reference to its partition map) is stored into a paused set from somewhere else ("+why+"): the two sets share the inner map, so mutating the private clone writes the published snapshot")
				}
			case *ast.CallExpr:
				if id, ok := unparen(s.Fun).(*ast.Ident); ok {
					if _, isB := info.Uses[id].(*types.Builtin); isB {
						if (id.Name == "delete" || id.Name == "clear") && len(s.Args) > 0 && isPT(info.Types[s.Args[0]].Type) {
							if a, ok := unparen(s.Args[0]).(*ast.Ident); ok && recv != nil && info.Uses[a] == recv {
								mutators[f.Obj] = true
							}
						}
						return true
					}
				}
				if tv, ok := info.Types[s.Fun]; ok && tv.IsType() {
					return true
				}
				o := calleeObj(info, s)
				// kgo's own functions are analysed by the other cow rules; sync/atomic only publishes the reference
				inKgo := o != nil && o.Pkg() != nil && (o.Pkg().Name() == "kgo" || o.Pkg().Path() == "sync/atomic")
				for _, a := range s.Args {
					t := info.Types[a].Type
					if !isPT(t) && !isPP(t) {
						continue
					}
					n3++
					cons := f.Key + ": " + exprStr(s.Fun) + "(" + exprStr(a) + ")"
					c.Check(inKgo, rule3, cons, s.Pos(), m, "passed to a kgo function / atomic publish",
						"a paused set is handed to "+exprStr(s.Fun)+", a generic helper that copies pausedPartitions values by assignment: the copy shares every inner partition map with the original (shallow clone of a copy-on-write snapshot)")
				}
			}
			return true
		})
	}
	c.Floor(rule2, n2, 3)

	// R4: mutators only on a private copy; R5: clone..store under pausedMu
	rule4 := "cow-mutate-private-copy"
	cloneFn := m.Func("kgo.consumer.clonePaused")
	storeFn := m.Func("kgo.consumer.storePaused")
	cloneM := m.Method("kgo", "pausedTopics", "clone")
	if cloneFn == nil || storeFn == nil || cloneM == nil {
		c.Undecided("anchor", "kgo.consumer.clonePaused/storePaused, pausedTopics.clone", token.NoPos, m, "function not found")
		return
	}
	// clonePaused returns a clone of the loaded snapshot
	okClone := false
	ast.Inspect(cloneFn.Decl.Body, func(x ast.Node) bool {
		if r, ok := x.(*ast.ReturnStmt); ok && len(r.Results) == 1 {
			if call, ok := unparen(r.Results[0]).(*ast.CallExpr); ok && sameObj(calleeObj(cloneFn.Info(), call), cloneM) {
				okClone = true
			}
		}
		return true
	})
	c.Check(okClone, rule4, "kgo.consumer.clonePaused returns clone()", cloneFn.Pos(), m, "", "clonePaused no longer returns pausedTopics.clone() of the snapshot: writers would mutate the published set")
	n4 := 0
	for _, f := range funcs {
		info := f.Info()
		ast.Inspect(f.Decl.Body, func(x ast.Node) bool {
			call, ok := x.(*ast.CallExpr)
			if !ok {
				return true
			}
			o := calleeObj(info, call)
			if o == nil || !mutators[origin(o)] && !c41hasObj(mutators, o) {
				return true
			}
			sel, ok := unparen(call.Fun).(*ast.SelectorExpr)
			if !ok {
				return true
			}
			n4++
			cons := f.Key + ": " + exprStr(call.Fun)
			id, isId := unparen(sel.X).(*ast.Ident)
			if !isId {
				c.Fail(rule4, cons, call.Pos(), m, "a paused-set mutator is called on "+exprStr(sel.X)+", not on a local private copy: the published snapshot is read lock-free by fetch and poll goroutines")
				return true
			}
			v, _ := info.Uses[id].(*types.Var)
			// the method's own receiver inside another pausedTopics method
			if f.Decl.Recv != nil && len(f.Decl.Recv.List[0].Names) == 1 && info.Defs[f.Decl.Recv.List[0].Names[0]] == types.Object(v) {
				c.OK(rule4, cons, call.Pos(), m, "mutator on the method's own receiver")
				return true
			}
			def := singleDef(f, v)
			private := false
			if dc, ok := unparen(def).(*ast.CallExpr); ok && def != nil {
				if sameObj(calleeObj(info, dc), cloneFn.Obj) {
					private = true
				}
				if mk, ok := unparen(dc.Fun).(*ast.Ident); ok && mk.Name == "make" {
					private = true
				}
			}
			c.Check(private, rule4, cons, call.Pos(), m, "receiver is a private copy ("+exprStr(def)+")",
				"a paused-set mutator is called on "+id.Name+", which is not defined once from clonePaused()/make in this function: mutating a loaded snapshot races the lock-free readers in source.createReq / takeBuffered")
			return true
		})
	}
	c.Floor(rule4, n4, 6)
	rule5 := "cow-update-under-pausedMu"
	n5 := 0
	for _, fn := range []*Func{cloneFn, storeFn} {
		for _, site := range CallSites(funcs, fn.Obj) {
			n5++
			sel, ok := unparen(site.Node.(*ast.CallExpr).Fun).(*ast.SelectorExpr)
			if !ok {
				continue
			}
			want := canonPath(site.Fn, sel.X) + ".pausedMu"
			held, ok := newLockEnv(site.Fn, nil, nil).HeldAtNode(site.Node)
			c.Check(ok && held.Holds(want, true), rule5, site.Fn.Key+": "+exprStr(sel), site.Node.Pos(), m, "holds "+want,
				"the paused set is cloned/published without "+want+": two concurrent Pause/Resume calls lose an update or publish a set that another writer still mutates")
		}
	}
	c.Floor(rule5, n5, 8)
	_ = n3
}

func c41hasObj(set map[types.Object]bool, o types.Object) bool {
	for k := range set {
		if sameObj(k, o) {
			return true
		}
	}
	return false
}

// c41sameMapValue: rhs is a composite literal, or a local whose every
// definition is a load from the same map expression or a composite literal.
func c41sameMapValue(f *Func, mapExpr ast.Expr, rhs ast.Expr, isPP func(types.Type) bool) (bool, string) {
	if rhs == nil {
		return false, "value not identified"
	}
	info := f.Info()
	if _, ok := unparen(rhs).(*ast.CompositeLit); ok {
		return true, "fresh literal"
	}
	id, ok := unparen(rhs).(*ast.Ident)
	if !ok {
		return false, "value " + exprStr(rhs) + " is not a local loaded from the same map"
	}
	v, _ := info.Uses[id].(*types.Var)
	if v == nil {
		return false, "value not a variable"
	}
	mp := canonPath(f, mapExpr)
	good, bad := 0, ""
	ast.Inspect(f.Decl.Body, func(x ast.Node) bool {
		switch s := x.(type) {
		case *ast.AssignStmt:
			for i, l := range s.Lhs {
				lid, ok := unparen(l).(*ast.Ident)
				if !ok || (info.Defs[lid] != types.Object(v) && info.Uses[lid] != types.Object(v)) {
					continue
				}
				var r ast.Expr
				if len(s.Rhs) == len(s.Lhs) {
					r = s.Rhs[i]
				} else if len(s.Rhs) == 1 && i == 0 {
					r = s.Rhs[0]
				}
				switch e := unparen(r).(type) {
				case *ast.CompositeLit:
					good++
					continue
				case *ast.IndexExpr:
					if canonPath(f, e.X) == mp {
						good++
						continue
					}
				}
				bad = exprStr(l) + " := " + exprStr(r)
			}
		case *ast.RangeStmt:
			for _, l := range []ast.Expr{s.Key, s.Value} {
				if lid, ok := l.(*ast.Ident); ok && info.Defs[lid] == types.Object(v) {
					if canonPath(f, s.X) == mp {
						good++
					} else {
						bad = "range over " + exprStr(s.X)
					}
				}
			}
		}
		return true
	})
	if bad != "" {
		return false, id.Name + " comes from " + bad
	}
	if good == 0 {
		return false, id.Name + " has no recognised definition"
	}
	return true, id.Name + " is loaded from " + mp + " or a fresh literal"
}

// ---------------------------------------------------------------------------
// (6) publish-last / stop-first

// c41cursorFieldAccess: a selection of a field (not method) on a value of
// type cursor / *cursor.
func c41cursorFieldAccess(f *Func, cur types.Type, n ast.Node, except string) ast.Node {
	var found ast.Node
	ast.Inspect(n, func(x ast.Node) bool {
		if found != nil {
			return false
		}
		if _, ok := x.(*ast.FuncLit); ok {
			return false
		}
		sel, ok := x.(*ast.SelectorExpr)
		if !ok {
			return true
		}
		s := f.Info().Selections[sel]
		if s == nil || s.Kind() != types.FieldVal || sel.Sel.Name == except {
			return true
		}
		t := f.Info().Types[sel.X].Type
		if p, ok := t.(*types.Pointer); ok {
			t = p.Elem()
		}
		if types.Identical(t, cur) {
			found = sel
		}
		return true
	})
	return found
}

func c41publish(c *Ctx, m *Module) {
	curObj := m.Object("kgo", "cursor")
	if curObj == nil {
		c.Undecided("anchor", "kgo.cursor", token.NoPos, m, "type not found")
		return
	}
	cur := curObj.Type()
	callNamed := func(n ast.Node, name string) bool {
		return containsNode(n, false, func(y ast.Node) bool {
			call, ok := y.(*ast.CallExpr)
			if !ok {
				return false
			}
			sel, ok := unparen(call.Fun).(*ast.SelectorExpr)
			return ok && sel.Sel.Name == name
		})
	}
	// stop-first
	if f := c.NeedFunc(m, "kgo.topicPartition.migrateCursorTo"); f != nil {
		rule := "migrate-stop-first"
		g := f.Graph()
		stopM := m.Method("kgo", "consumerSessionStopper", "stop")
		var stopLoc *Loc
		for _, call := range callsTo(f.Decl.Body, f.Info(), stopM, false) {
			if l, ok := g.LocOf(call); ok {
				stopLoc = &l
			}
		}
		if stopM == nil || stopLoc == nil {
			c.Fail(rule, f.Key+": css.stop()", f.Pos(), m, "migrateCursorTo no longer stops the consumer session: the cursor is rewritten while a fetch may be using it")
		} else {
			n := 0
			for _, b := range g.C.Blocks {
				for i, nd := range b.Nodes {
					acc := c41cursorFieldAccess(f, cur, nd, "")
					if acc == nil {
						continue
					}
					n++
					cons := f.Key + ": " + exprStr(acc)
					if n > 1 {
						cons += "#" + string(rune('0'+n%40))
					}
					c.Check(g.Dominates(*stopLoc, Loc{int(b.Index), i}) && !(stopLoc.B == int(b.Index) && stopLoc.I == i), rule, cons, nd.Pos(), m, "after css.stop()",
						"a cursor field is accessed before the consumer session is stopped: fetch goroutines of the live session read and write the cursor concurrently")
				}
			}
			c.Floor(rule, n, 5)
		}
		// publish-last: nothing touches the cursor after addCursor
		c41nothingAfterAdd(c, m, f, cur, "migrate-add-last")
	}
	if f := c.NeedFunc(m, "kgo.cursorOffsetPreferred.move"); f != nil {
		c41nothingAfterAdd(c, m, f, cur, "move-add-last")
	}
	if f := c.NeedFunc(m, "kgo.cursor.allowUsable"); f != nil {
		rule := "allow-usable-source-first"
		g := f.Graph()
		var swap *Loc
		for _, b := range g.C.Blocks {
			for i, nd := range b.Nodes {
				if callNamed(nd, "Swap") || callNamed(nd, "Store") {
					if swap == nil {
						swap = &Loc{int(b.Index), i}
					}
				}
			}
		}
		if swap == nil {
			c.Undecided(rule, f.Key+": useState swap", f.Pos(), m, "the useState publish was not found")
		} else {
			_, found := g.FindPath(*swap, SearchOpts{GoalNode: func(n ast.Node) bool { return c41cursorFieldAccess(f, cur, n, "useState") != nil }})
			c.Check(!found, rule, f.Key+": no cursor field read after useState.Swap(true)", f.Pos(), m, "c.source is captured before the swap",
				"a cursor field is read after useState.Swap(true): the swap makes the cursor eligible for a fetch whose move() rewrites c.source concurrently")
		}
	}
}

func c41nothingAfterAdd(c *Ctx, m *Module, f *Func, cur types.Type, rule string) {
	g := f.Graph()
	addM := m.Method("kgo", "source", "addCursor")
	n := 0
	for _, call := range callsTo(f.Decl.Body, f.Info(), addM, false) {
		l, ok := g.LocOf(call)
		if !ok {
			continue
		}
		n++
		path, found := g.FindPath(l, SearchOpts{GoalNode: func(nd ast.Node) bool { return c41cursorFieldAccess(f, cur, nd, "") != nil }})
		pos := call.Pos()
		if found && len(path) > 0 {
			pos = path[len(path)-1].Pos()
		}
		c.Check(!found, rule, f.Key+": no cursor access after addCursor", pos, m, "addCursor is the last use of the cursor",
			"a cursor field is accessed after addCursor republished the cursor on its new source: from that point a fetch on the new source can use, and even move, the cursor concurrently (remove, modify, add; never modify after add)")
	}
	if n == 0 {
		c.Undecided(rule, f.Key+": addCursor", f.Pos(), m, "no addCursor call found")
	}
}
