package main

import (
	"fmt"
	"go/ast"
	"go/token"
	"go/types"
	"strings"

	"golang.org/x/tools/go/cfg"
)

type cfgBlock = cfg.Block

// (4) hand-off of drained ack batches and the count that travels with them.

type c12counts struct {
	live  map[types.Object]bool // deliverable count (filterStaleEntries result 0 / createShareReq result 4)
	stale map[types.Object]bool // pre-filtered count
	sres  map[types.Object]bool // pre-filter results
	total map[types.Object]bool // sum of len(entries) before the filter
	accs  map[types.Object]bool // verified requeue accumulators
}

func (e *c12env) ruleHandoff() {
	c, m := e.c, e.m
	rule := "ack-handoff"
	enqCB := m.Method("kgo", "shareConsumer", "enqueueCallback")
	enqErr := m.Method("kgo", "shareConsumer", "enqueueAckErrors")
	requeue := m.Method("kgo", "cursorAckDrain", "requeue")
	filter := m.Object("kgo", "filterStaleEntries")
	createReq := m.Method("kgo", "source", "createShareReq")
	entriesF := m.Field("kgo", "cursorAckDrain", "entries")
	requeuedF := m.Field("kgo", "shareFetchResult", "ackRequeued")
	closedF := m.Field("kgo", "shareCursor", "closed")
	shareAck := e.need("kgo.source.shareAck")
	closeS := e.need("kgo.source.closeShareSession")
	shareFetch := e.need("kgo.source.shareFetch")
	filterFn := e.need("kgo.filterStaleEntries")
	createFn := e.need("kgo.source.createShareReq")
	if enqCB == nil || enqErr == nil || requeue == nil || filter == nil || createReq == nil || entriesF == nil || requeuedF == nil || closedF == nil {
		c.Undecided("anchor", "kgo enqueueCallback/enqueueAckErrors/requeue/filterStaleEntries/createShareReq/cursorAckDrain.entries/shareFetchResult.ackRequeued", token.NoPos, m, "not found")
		return
	}
	if shareAck == nil || closeS == nil || shareFetch == nil || filterFn == nil || createFn == nil {
		return
	}

	// --- per function: classify the count variables
	counts := map[*Func]*c12counts{}
	cnt := func(f *Func) *c12counts {
		if k, ok := counts[f]; ok {
			return k
		}
		k := &c12counts{live: map[types.Object]bool{}, stale: map[types.Object]bool{}, sres: map[types.Object]bool{}, total: map[types.Object]bool{}, accs: map[types.Object]bool{}}
		counts[f] = k
		info := f.Info()
		ast.Inspect(f.Decl.Body, func(x ast.Node) bool {
			as, ok := x.(*ast.AssignStmt)
			if !ok || len(as.Rhs) != 1 {
				return true
			}
			call, ok := unparen(as.Rhs[0]).(*ast.CallExpr)
			if !ok {
				return true
			}
			switch {
			case isCallTo(info, call, filter) && len(as.Lhs) == 3:
				k.live[c12obj(info, as.Lhs[0])] = true
				k.stale[c12obj(info, as.Lhs[1])] = true
				k.sres[c12obj(info, as.Lhs[2])] = true
			case isCallTo(info, call, createReq) && len(as.Lhs) == 8:
				k.live[c12obj(info, as.Lhs[4])] = true
				k.sres[c12obj(info, as.Lhs[5])] = true
				k.stale[c12obj(info, as.Lhs[6])] = true
			}
			return true
		})
		delete(k.live, nil)
		delete(k.stale, nil)
		delete(k.sres, nil)
		// totals: locals whose only writes are `v += int64(len(X.entries))`
		cand := map[types.Object]int{}
		ast.Inspect(f.Decl.Body, func(x ast.Node) bool {
			switch s := x.(type) {
			case *ast.AssignStmt:
				for i, l := range s.Lhs {
					o := c12obj(info, l)
					if o == nil || info.Defs[c12id(l)] != nil {
						continue
					}
					if s.Tok == token.ADD_ASSIGN && len(s.Rhs) == len(s.Lhs) && e.isLenEntries(info, s.Rhs[i], entriesF) != nil {
						if cand[o] >= 0 {
							cand[o]++
						}
					} else {
						cand[o] = -1
					}
				}
			case *ast.IncDecStmt:
				if o := c12obj(info, s.X); o != nil {
					cand[o] = -1
				}
			}
			return true
		})
		for o, n := range cand {
			if n > 0 {
				k.total[o] = true
			}
		}
		return k
	}

	// --- (4c) requeue accounting
	nRq := 0
	for _, site := range CallSites(e.funcs, requeue) {
		f := site.Fn
		c.Touch(f)
		info := f.Info()
		call := site.Node.(*ast.CallExpr)
		nRq++
		cons := e.cons(f.Key + "#requeue accounted")
		recv := c12obj(info, call.Fun.(*ast.SelectorExpr).X)
		stmt, _ := c12enclosing[*ast.ExprStmt](f.Decl.Body, call)
		blk, _ := c12enclosing[*ast.BlockStmt](f.Decl.Body, call)
		if recv == nil || stmt == nil || blk == nil {
			c.Undecided(rule, cons, call.Pos(), m, "requeue is not a statement on a local drain variable")
			continue
		}
		// requeue-all loop
		if rs, ok := c12enclosing[*ast.RangeStmt](f.Decl.Body, call); ok && rs.Body == blk && len(blk.List) == 1 && c12obj(info, rs.Value) == recv {
			c.Check(f.Key == shareFetch.Key, rule, cons, call.Pos(), m, "whole batch re-queued, nothing subtracted (settle automaton of shareFetch)",
				"a whole batch is re-queued outside shareFetch: whether its count is also settled is not covered by a rule")
			continue
		}
		// in the same statement list: acc += int64(len(recv.entries)) (the amount may go through a local)
		var acc types.Object
		okAmount := false
		var next ast.Stmt
		for i, st := range blk.List {
			if st == ast.Stmt(stmt) && i+1 < len(blk.List) {
				next = blk.List[i+1]
			}
			as, ok := st.(*ast.AssignStmt)
			if !ok || as.Tok != token.ADD_ASSIGN || len(as.Lhs) != 1 || len(as.Rhs) != 1 {
				continue
			}
			amount := as.Rhs[0]
			if o := c12obj(info, c12strip(info, amount)); o != nil {
				if def := singleDef(f, o); def != nil {
					amount = def
				}
			}
			if e.isLenEntries(info, amount, entriesF) == recv {
				acc, okAmount = c12obj(info, as.Lhs[0]), true
			}
		}
		if acc == nil || !okAmount {
			got := "nothing"
			if next != nil {
				got = "`" + nodeStr(next) + "`"
			}
			c.Fail(rule, cons, call.Pos(), m, "the "+recv.Name()+".requeue puts len("+recv.Name()+".entries) acks back on the cursor (still pending, to be re-sent) but the requeued total is not increased by `int64(len("+recv.Name()+".entries))` in the same branch (next statement: "+got+"): the difference is subtracted from sc.pendingAcks now and again when the re-sent acks are answered, the counter goes negative and FlushAcks returns before the callbacks of later acknowledgements have run")
			continue
		}
		// the accumulator reaches the settled count
		flows := false
		onlyAdds := true
		ast.Inspect(f.Decl.Body, func(x ast.Node) bool {
			switch s := x.(type) {
			case *ast.CallExpr:
				if isCallTo(info, s, enqCB) && len(s.Args) == 2 {
					if be, ok := unparen(s.Args[1]).(*ast.BinaryExpr); ok && be.Op == token.SUB && c12obj(info, be.Y) == acc {
						flows = true
					}
				}
			case *ast.KeyValueExpr:
				if id, ok := s.Key.(*ast.Ident); ok {
					if fv, _ := info.Uses[id].(*types.Var); sameField(fv, requeuedF) && c12obj(info, s.Value) == acc {
						flows = true
					}
				}
			case *ast.AssignStmt:
				for _, l := range s.Lhs {
					if c12obj(info, l) == acc && info.Defs[c12id(l)] == nil && s.Tok != token.ADD_ASSIGN {
						onlyAdds = false
					}
				}
			case *ast.IncDecStmt:
				if c12obj(info, s.X) == acc {
					onlyAdds = false
				}
			}
			return true
		})
		if flows && onlyAdds {
			cnt(f).accs[acc] = true
		}
		c.Check(flows && onlyAdds, rule, cons, call.Pos(), m, "followed by "+acc.Name()+" += int64(len("+recv.Name()+".entries)); "+acc.Name()+" is subtracted from the settled count",
			"the requeued total `"+acc.Name()+"` does not reach the settled count (nAcks - "+acc.Name()+") or is also written otherwise")
	}
	c.Floor(rule+"/requeue-sites", nRq, 4)
	// shareFetchResult.ackRequeued is read only as the subtrahend of the settled count
	nRead := 0
	for _, f := range e.funcs {
		pm := parentMap(f.Decl.Body)
		for _, r := range readsOf(f.Decl.Body, f.Info(), requeuedF, true) {
			nRead++
			be, ok := pm[r].(*ast.BinaryExpr)
			okUse := ok && be.Op == token.SUB && be.Y == r.(ast.Expr)
			if okUse {
				call, ok := pm[be].(*ast.CallExpr)
				okUse = ok && isCallTo(f.Info(), call, enqCB)
			}
			c.Check(okUse, rule, e.cons(f.Key+"#ackRequeued subtracted"), r.Pos(), m, "", "shareFetchResult.ackRequeued is not used as `nAcks - res.ackRequeued` in the settling enqueueCallback")
		}
	}
	c.Floor(rule+"/ackRequeued-reads", nRead, 1)

	// --- (4d) filterStaleEntries counts every entry once
	e.checkFilter(filterFn, entriesF)

	// --- (4e) the count passed with every callback entry
	nSites := 0
	for _, target := range []*types.Func{enqCB, enqErr} {
		for _, site := range CallSites(e.funcs, target) {
			f := site.Fn
			c.Touch(f)
			info := f.Info()
			call := site.Node.(*ast.CallExpr)
			nSites++
			arg := unparen(call.Args[len(call.Args)-1])
			res := call.Args[0]
			cons := e.cons(f.Key + "#" + target.Name() + "(" + nosp(exprStr(arg)) + ")")
			k := cnt(f)
			g := f.GraphFor(call)
			loc, _ := g.LocOf(call)
			inner := c12strip(info, arg)
			switch {
			case e.isParam(f, arg) && f.Key == "kgo.shareConsumer.enqueueAckErrors":
				c.OK(rule, cons, call.Pos(), m, "forwards its own count")
			case func() bool { v, isC := constInt(info, arg); return isC && v == 0 }():
				okZ := false
				if ro := c12obj(info, res); ro != nil {
					okZ = true
					nApp := 0
					ast.Inspect(f.Decl.Body, func(x ast.Node) bool {
						as, ok := x.(*ast.AssignStmt)
						if !ok || len(as.Lhs) != 1 || c12obj(info, as.Lhs[0]) != ro || info.Defs[c12id(as.Lhs[0])] != nil {
							return true
						}
						nApp++
						al, _ := g.LocOf(as)
						if !c12factField(f, g.FactsAt(al), closedF, "", true) {
							okZ = false
						}
						return true
					})
					okZ = okZ && nApp > 0
				} else {
					okZ = c12factField(f, g.FactsAt(loc), closedF, "", true)
				}
				c.Check(okZ, rule, cons, call.Pos(), m, "count 0: results only for closed cursors, where nothing was added to sc.pendingAcks",
					"a callback entry with count 0 is used for acks that were counted in sc.pendingAcks: the counter never returns to 0 and FlushAcks hangs")
			case e.isLenEntries(info, arg, entriesF) != nil || e.lenOfDrained(f, inner) != "":
				// dropped entries: closed cursor (requeue) or closing drain (purge)
				okL := c12factField(f, g.FactsAt(loc), closedF, "", true) || e.lenOfDrained(f, inner) == "drainAcks(true)"
				c.Check(okL, rule, cons, call.Pos(), m, "the dropped entries of a closed cursor", "len(entries) is settled although the entries stay queued (cursor not closed): they are subtracted twice")
			case k.stale[c12obj(info, arg)]:
				c.Check(k.sres[c12obj(info, res)], rule, cons, call.Pos(), m, "pre-filtered (stale) results with the pre-filtered count", "the stale count is settled with results that are not the stale results of the same filter pass")
			default:
				verdict, detail := e.classifyLive(info, arg, k, requeuedF)
				switch verdict {
				case "ok":
					c.OK(rule, cons, call.Pos(), m, detail)
				case "fail":
					c.Fail(rule, cons, call.Pos(), m, detail)
				default:
					c.Undecided(rule, cons, call.Pos(), m, detail)
				}
			}
		}
	}
	c.Floor(rule+"/settle-sites", nSites, 20)

	// --- (4a) exactly once in shareAck / closeShareSession (core_oblig)
	for _, f := range []*Func{shareAck, closeS} {
		info := f.Info()
		k := cnt(f)
		g := f.Graph()
		mentionsLive := func(x ast.Expr) bool {
			return containsNode(x, false, func(y ast.Node) bool {
				id, ok := y.(*ast.Ident)
				return ok && (k.live[info.Uses[id]] || k.total[info.Uses[id]])
			})
		}
		spec := OnceSpec{
			Call: func(call *ast.CallExpr) Event {
				switch {
				case isCallTo(info, call, enqErr):
					return Event{Kind: EvOnce, Label: "enqueueAckErrors"}
				case isCallTo(info, call, enqCB) && len(call.Args) == 2 && mentionsLive(call.Args[1]):
					return Event{Kind: EvOnce, Label: "enqueueCallback"}
				}
				return Event{}
			},
			Expect: func(ret *ast.ReturnStmt) int {
				if ret == nil {
					return 1
				}
				l, ok := g.LocOf(ret)
				if !ok {
					return 1
				}
				for _, ft := range g.FactsAt(l) {
					be, ok := unparen(ft.Cond).(*ast.BinaryExpr)
					if !ok || be.Op != token.EQL || !ft.Val {
						continue
					}
					v, isC := constInt(info, unparen(be.Y))
					if !isC || v != 0 {
						continue
					}
					if k.live[c12obj(info, be.X)] {
						return -1 // nothing deliverable: nothing to settle
					}
					if lc, ok := unparen(be.X).(*ast.CallExpr); ok && exprStr(lc.Fun) == "len" && len(lc.Args) == 1 {
						if t := info.TypeOf(lc.Args[0]); t != nil && strings.Contains(t.String(), "cursorAckDrain") {
							return -1 // nothing drained
						}
					}
				}
				return 1
			},
		}
		min := 3
		if f == closeS {
			spec.NilGuard = "resp"
			min = 4
		}
		onceRule(c, m, rule, f, f.Decl.Body, g, f.Key+"#drained batch settled exactly once", spec, min)
	}

	// --- (4b) shareFetch: reset-aware settle automaton
	e.checkShareFetch(shareFetch, createFn, cnt(shareFetch), enqCB, enqErr, requeue, shareAck.Obj, createReq)
}

// isLenEntries: x is int64(len(X.entries)) (conversion optional): returns X's object.
func (e *c12env) isLenEntries(info *types.Info, x ast.Expr, entriesF *types.Var) types.Object {
	lc, ok := c12strip(info, x).(*ast.CallExpr)
	if !ok || exprStr(lc.Fun) != "len" || len(lc.Args) != 1 {
		return nil
	}
	fv, base := c12selOn(info, lc.Args[0])
	if fv == nil || !sameField(fv, entriesF) {
		return nil
	}
	return base
}

// lenOfDrained: x is a local n := int64(len(entries)) with entries, _ := cursor.drainAcks(true).
func (e *c12env) lenOfDrained(f *Func, x ast.Expr) string {
	info := f.Info()
	o := c12obj(info, x)
	if o == nil {
		return ""
	}
	def := singleDef(f, o)
	if def == nil {
		return ""
	}
	lc, ok := c12strip(info, def).(*ast.CallExpr)
	if !ok || exprStr(lc.Fun) != "len" || len(lc.Args) != 1 {
		return ""
	}
	eo := c12obj(info, lc.Args[0])
	if eo == nil {
		return ""
	}
	out := "?"
	ast.Inspect(f.Decl.Body, func(y ast.Node) bool {
		as, ok := y.(*ast.AssignStmt)
		if !ok || len(as.Rhs) != 1 || len(as.Lhs) < 1 || c12obj(info, as.Lhs[0]) != eo {
			return true
		}
		if dc, ok := unparen(as.Rhs[0]).(*ast.CallExpr); ok && calleeName(info, dc) == "kgo.shareCursor.drainAcks" && len(dc.Args) == 1 {
			if v, isC := constBool(info, dc.Args[0]); isC && v {
				out = "drainAcks(true)"
			}
		}
		return true
	})
	return out
}

func (e *c12env) classifyLive(info *types.Info, arg ast.Expr, k *c12counts, requeuedF *types.Var) (string, string) {
	o := c12obj(info, arg)
	switch {
	case o != nil && k.live[o]:
		return "ok", "the deliverable count of the drained batch"
	case o != nil && k.total[o]:
		return "fail", "the batch is settled with the total `" + o.Name() + "` that still includes the pre-filtered (stale) acks, which were already settled with their own callback: they are subtracted twice, sc.pendingAcks goes negative and FlushAcks returns before the callbacks of later acknowledgements have run"
	}
	be, ok := unparen(arg).(*ast.BinaryExpr)
	if !ok || be.Op != token.SUB {
		return "undecided", "count `" + exprStr(arg) + "` is not one of the confirmed forms (live, live - requeued, total - stale, stale, len(dropped entries), 0)"
	}
	x, y := c12obj(info, be.X), c12obj(info, be.Y)
	yReq := y != nil && k.accs[y]
	if sel, ok := unparen(be.Y).(*ast.SelectorExpr); ok && sameField(fieldOfSel(info, sel), requeuedF) {
		yReq = true
	}
	switch {
	case x != nil && k.live[x] && yReq:
		return "ok", "deliverable count minus the re-queued acks"
	case x != nil && k.total[x] && y != nil && k.stale[y]:
		return "ok", "total minus the pre-filtered acks (= deliverable count)"
	case x != nil && k.live[x] && y != nil && k.stale[y]:
		return "fail", "the stale acks are subtracted from the deliverable count, which already excludes them: the counter never returns to 0 and FlushAcks hangs"
	case x != nil && k.total[x] && yReq:
		return "fail", "the total (including stale acks settled separately) minus requeued is settled: stale acks are subtracted twice"
	}
	return "undecided", "count `" + exprStr(arg) + "` is not one of the confirmed forms"
}

func (e *c12env) checkFilter(f *Func, entriesF *types.Var) {
	c, m := e.c, e.m
	rule := "ack-handoff"
	info := f.Info()
	cons := f.Key + "#every entry counted once"
	res := f.Decl.Type.Results
	if res == nil || len(res.List) == 0 || len(res.List[0].Names) < 2 {
		c.Undecided(rule, cons, f.Pos(), m, "unexpected result list")
		return
	}
	live, stale := info.Defs[res.List[0].Names[0]], info.Defs[res.List[0].Names[1]]
	var loop *ast.RangeStmt
	ast.Inspect(f.Decl.Body, func(x ast.Node) bool {
		if rs, ok := x.(*ast.RangeStmt); ok && sameField(fieldOfSel(info, rs.X), entriesF) {
			loop = rs
		}
		return true
	})
	if loop == nil || len(loop.Body.List) != 1 {
		c.Undecided(rule, cons, f.Pos(), m, "traversal of d.entries not found or not a single switch")
		return
	}
	sw, ok := loop.Body.List[0].(*ast.SwitchStmt)
	if !ok || sw.Tag != nil {
		c.Undecided(rule, cons, loop.Pos(), m, "traversal of d.entries is not a tagless switch")
		return
	}
	ev := c12obj(info, loop.Value)
	var probs []string
	hasDefault := false
	var kept types.Object
	for _, cl := range sw.Body.List {
		cc := cl.(*ast.CaseClause)
		if cc.List == nil {
			hasDefault = true
		}
		nLive, nStale, nKeep := 0, 0, 0
		for _, st := range cc.Body {
			switch s := st.(type) {
			case *ast.IncDecStmt:
				if s.Tok == token.INC && c12obj(info, s.X) == live {
					nLive++
				} else if s.Tok == token.INC && c12obj(info, s.X) == stale {
					nStale++
				} else if o := c12obj(info, s.X); o == live || o == stale {
					probs = append(probs, "`"+nodeStr(s)+"`")
				}
			case *ast.AssignStmt:
				if len(s.Lhs) == 1 && len(s.Rhs) == 1 {
					if ac, ok := unparen(s.Rhs[0]).(*ast.CallExpr); ok && exprStr(ac.Fun) == "append" && len(ac.Args) == 2 && c12obj(info, ac.Args[1]) == ev && c12obj(info, ac.Args[0]) == c12obj(info, s.Lhs[0]) {
						nKeep++
						kept = c12obj(info, s.Lhs[0])
					}
				}
				for _, l := range s.Lhs {
					if o := c12obj(info, l); o == live || o == stale {
						probs = append(probs, "`"+nodeStr(s)+"`")
					}
				}
			}
		}
		name := "default"
		if cc.List != nil {
			name = "case " + exprStr(cc.List[0])
		}
		switch {
		case nLive+nStale != 1:
			probs = append(probs, fmt.Sprintf("%s counts the entry %d times (live %d, stale %d)", name, nLive+nStale, nLive, nStale))
		case nLive == 1 && nKeep != 1:
			probs = append(probs, name+" counts the entry as deliverable but does not keep it")
		case nStale == 1 && nKeep != 0:
			probs = append(probs, name+" counts the entry as stale but keeps it in the batch")
		}
	}
	if !hasDefault {
		probs = append(probs, "no default clause: an entry can be neither counted nor kept")
	}
	// counters are written nowhere else; the kept list replaces d.entries
	ast.Inspect(f.Decl.Body, func(x ast.Node) bool {
		if c12within(sw, x) {
			return false
		}
		switch s := x.(type) {
		case *ast.IncDecStmt:
			if o := c12obj(info, s.X); o == live || o == stale {
				probs = append(probs, "`"+nodeStr(s)+"` outside the per-entry switch")
			}
		case *ast.AssignStmt:
			for _, l := range s.Lhs {
				if o := c12obj(info, l); o != nil && (o == live || o == stale) {
					probs = append(probs, "`"+nodeStr(s)+"` outside the per-entry switch")
				}
			}
		}
		return true
	})
	stored := false
	for _, s := range storesTo(f.Decl.Body, info, entriesF, false) {
		if kept != nil && c12obj(info, s.RHS) == kept && s.Node.Pos() > loop.End() {
			stored = true
		}
	}
	if !stored {
		probs = append(probs, "the kept entries are not stored back into d.entries after the traversal")
	}
	c.Check(len(probs) == 0, rule, cons, loop.Pos(), m, "each entry: exactly one of nUserAcks++ (kept) / nStaleUserAcks++ (dropped)",
		"filterStaleEntries miscounts: "+strings.Join(probs, "; ")+": the settled counts no longer add up to what was added to sc.pendingAcks (FlushAcks early or never)")
}

// checkShareFetch runs the settle automaton: the pair (piggybackAcks, nAcks) is
// LIVE (drained, unsettled), DONE (settled, variables still set) or ZERO
// (variables reset / nothing drained).
func (e *c12env) checkShareFetch(f, createFn *Func, k *c12counts, enqCB, enqErr, requeue *types.Func, shareAckObj *types.Func, createReq *types.Func) {
	c, m := e.c, e.m
	rule := "ack-handoff"
	info := f.Info()
	g := f.Graph()
	cons := f.Key + "#piggybacked batch settled exactly once"
	const (
		LIVE = 1 << iota
		DONE
		ZERO
	)
	// variables
	var piggy, reqObj types.Object
	ast.Inspect(f.Decl.Body, func(x ast.Node) bool {
		as, ok := x.(*ast.AssignStmt)
		if !ok || len(as.Rhs) != 1 || len(as.Lhs) != 8 {
			return true
		}
		if call, ok := unparen(as.Rhs[0]).(*ast.CallExpr); ok && isCallTo(info, call, createReq) {
			reqObj, piggy = c12obj(info, as.Lhs[0]), c12obj(info, as.Lhs[2])
		}
		return true
	})
	if piggy == nil || reqObj == nil || len(k.live) != 1 {
		c.Undecided(rule, cons, f.Pos(), m, "createShareReq result variables not identified")
		return
	}
	var live types.Object
	for o := range k.live {
		live = o
	}
	mentionsLive := func(x ast.Expr) bool {
		return containsNode(x, false, func(y ast.Node) bool {
			id, ok := y.(*ast.Ident)
			return ok && info.Uses[id] == live
		})
	}
	// requeue-all loops over piggy
	requeueAll := map[ast.Node]bool{}
	ast.Inspect(f.Decl.Body, func(x ast.Node) bool {
		rs, ok := x.(*ast.RangeStmt)
		if !ok || c12obj(info, rs.X) != piggy || len(rs.Body.List) != 1 {
			return true
		}
		if es, ok := rs.Body.List[0].(*ast.ExprStmt); ok {
			if call, ok := es.X.(*ast.CallExpr); ok && isCallTo(info, call, requeue) && c12obj(info, call.Fun.(*ast.SelectorExpr).X) == c12obj(info, rs.Value) {
				requeueAll[rs.X] = true
			}
		}
		return true
	})
	var problems []string
	nEvents := 0
	addProb := func(s string) {
		for _, p := range problems {
			if p == s {
				return
			}
		}
		problems = append(problems, s)
	}
	settle := func(st int, what string, pos token.Pos) int {
		out := 0
		if st&LIVE != 0 {
			out |= DONE
		}
		if st&DONE != 0 {
			addProb("the batch is settled a second time by " + what + " (" + m.Position(pos) + "): its count is subtracted from sc.pendingAcks twice")
			out |= DONE
		}
		if st&ZERO != 0 {
			out |= ZERO
		}
		return out
	}
	transfer := func(n ast.Node, st int, count bool) int {
		if requeueAll[n] {
			if count {
				nEvents++
			}
			return settle(st, "re-queueing it", n.Pos())
		}
		switch n.(type) {
		case *ast.DeferStmt, *ast.GoStmt:
			return st
		}
		if as, ok := n.(*ast.AssignStmt); ok && len(as.Rhs) == 1 {
			if call, ok := unparen(as.Rhs[0]).(*ast.CallExpr); ok && isCallTo(info, call, createReq) && len(call.Args) == 1 {
				if count {
					nEvents++
				}
				skip, isC := constBool(info, call.Args[0])
				if st&LIVE != 0 {
					addProb("createShareReq overwrites a drained batch that was not settled (" + m.Position(call.Pos()) + "): its acks are neither sent nor re-queued and FlushAcks waits forever")
				}
				if isC && skip {
					return ZERO
				}
				return LIVE
			}
		}
		if as, ok := n.(*ast.AssignStmt); ok && as.Tok == token.ASSIGN {
			for i, l := range as.Lhs {
				if c12obj(info, l) == live && len(as.Rhs) == len(as.Lhs) {
					v, isC := constInt(info, unparen(as.Rhs[i]))
					if !isC || v != 0 {
						addProb("the live count is overwritten by `" + nodeStr(as) + "`")
						continue
					}
					out := ZERO
					if st&LIVE != 0 {
						addProb("the count of an unsettled batch is reset to 0 (" + m.Position(as.Pos()) + ")")
					}
					return out
				}
			}
		}
		ast.Inspect(n, func(x ast.Node) bool {
			if _, ok := x.(*ast.FuncLit); ok {
				return false
			}
			call, ok := x.(*ast.CallExpr)
			if !ok {
				return true
			}
			switch {
			case isCallTo(info, call, enqErr) && len(call.Args) == 3 && c12obj(info, call.Args[0]) == piggy:
				if count {
					nEvents++
				}
				st = settle(st, "enqueueAckErrors", call.Pos())
			case isCallTo(info, call, enqCB) && len(call.Args) == 2 && mentionsLive(call.Args[1]):
				if count {
					nEvents++
				}
				st = settle(st, "enqueueCallback", call.Pos())
			case isCallTo(info, call, shareAckObj) && len(call.Args) == 1 && c12obj(info, call.Args[0]) == piggy:
				if count {
					nEvents++
				}
				st = settle(st, "handing it to shareAck", call.Pos())
			}
			return true
		})
		return st
	}
	edge := func(b *cfg.Block, kIdx int, st int) int {
		cond, tag, ok := g.condOf(b)
		if !ok || tag != nil {
			return st
		}
		for _, ft := range decompose(cond, kIdx == 0, nil) {
			be, ok := unparen(ft.Cond).(*ast.BinaryExpr)
			if !ok || exprStr(be.Y) != "nil" || c12obj(info, be.X) != reqObj {
				continue
			}
			if (be.Op == token.EQL) == ft.Val { // req == nil: nothing was drained
				if st&LIVE != 0 {
					st = st&^LIVE | ZERO
				}
			}
		}
		return st
	}
	nb := len(g.C.Blocks)
	in := make([]int, nb)
	in[0] = ZERO
	for iter := 0; iter < 60; iter++ {
		changed := false
		problems = nil
		nEvents = 0
		for _, b := range g.C.Blocks {
			bi := int(b.Index)
			if !g.live[bi] || in[bi] == 0 {
				continue
			}
			st := in[bi]
			for _, n := range b.Nodes {
				st = transfer(n, st, true)
			}
			if _, isExit := g.exitOf(bi); isExit && st&LIVE != 0 {
				where := "end of function"
				if len(b.Nodes) > 0 {
					where = "`" + nodeStr(b.Nodes[len(b.Nodes)-1]) + "` (" + m.Position(b.Nodes[len(b.Nodes)-1].Pos()) + ")"
				}
				addProb("exit " + where + " is reachable with a drained batch that was neither sent and settled, nor re-queued, nor reported: its acks are lost and FlushAcks waits forever")
			}
			for kIdx, s := range b.Succs {
				si := int(s.Index)
				feasible := false
				for _, ps := range g.succs[bi] {
					if ps == si {
						feasible = true
					}
				}
				if !feasible {
					continue
				}
				ns := edge(b, kIdx, st)
				if in[si]|ns != in[si] {
					in[si] |= ns
					changed = true
				}
			}
		}
		if !changed {
			break
		}
	}
	if nEvents < 6 {
		c.Undecided(rule, cons, f.Pos(), m, fmt.Sprintf("only %d settle/drain events recognised in shareFetch (expected at least 6)", nEvents))
	} else {
		c.Check(len(problems) == 0, rule, cons, f.Pos(), m, fmt.Sprintf("%d settle/drain events; every exit has the batch settled or empty", nEvents), strings.Join(problems, "; "))
	}
	// reset of the count comes with the reset of the batch
	ast.Inspect(f.Decl.Body, func(x ast.Node) bool {
		as, ok := x.(*ast.AssignStmt)
		if !ok || as.Tok != token.ASSIGN || len(as.Lhs) != 1 || c12obj(info, as.Lhs[0]) != live {
			return true
		}
		blk, _ := c12enclosing[*ast.BlockStmt](f.Decl.Body, as)
		okPair := false
		if blk != nil {
			for _, st := range blk.List {
				if a2, ok := st.(*ast.AssignStmt); ok && len(a2.Lhs) == 1 && c12obj(info, a2.Lhs[0]) == piggy && exprStr(a2.Rhs[0]) == "nil" {
					okPair = true
				}
			}
		}
		c.Check(okPair, rule, e.cons(f.Key+"#count and batch reset together"), as.Pos(), m, "", "nAcks is reset without piggybackAcks = nil: the settled batch's results are reported again")
		return true
	})
	// createShareReq: req == nil implies nothing drained; the drain is skipped for skipAckDrain
	{
		ci := createFn.Info()
		cg := createFn.Graph()
		consC := createFn.Key + "#drain only when a request is built"
		var drainAs *ast.AssignStmt
		ast.Inspect(createFn.Decl.Body, func(x ast.Node) bool {
			as, ok := x.(*ast.AssignStmt)
			if ok && len(as.Rhs) == 1 && len(as.Lhs) == 1 {
				if call, ok := unparen(as.Rhs[0]).(*ast.CallExpr); ok && calleeName(ci, call) == "kgo.source.drainAllShareAcks" {
					drainAs = as
				}
			}
			return true
		})
		if drainAs == nil || createFn.Decl.Type.Results == nil || len(createFn.Decl.Type.Results.List) < 1 || len(createFn.Decl.Type.Results.List[0].Names) < 1 {
			c.Undecided(rule, consC, createFn.Pos(), m, "drain of the piggybacked acks not found")
			return
		}
		reqRes := ci.Defs[createFn.Decl.Type.Results.List[0].Names[0]]
		dl, _ := cg.LocOf(drainAs)
		_, early := cg.FindPath(dl, SearchOpts{
			Stop: func(n ast.Node) bool {
				as, ok := n.(*ast.AssignStmt)
				if !ok {
					return false
				}
				for _, l := range as.Lhs {
					if c12obj(ci, l) == reqRes {
						return true
					}
				}
				return false
			},
			GoalExit: func(ExitKind, ast.Node) bool { return true },
		})
		skipGuard := false
		for _, ft := range cg.FactsAt(dl) {
			if o := c12obj(ci, ft.Cond); o != nil && !ft.Val && createFn.Decl.Type.Params != nil && e.isParam(createFn, ft.Cond) {
				skipGuard = true
			}
		}
		c.Check(!early && skipGuard, rule, consC, drainAs.Pos(), m, "no return between the drain and `req = ...`; drain skipped when skipAckDrain",
			"createShareReq can return a nil request after draining acks (shareFetch then drops them), or drains although skipAckDrain is set")
	}
}
