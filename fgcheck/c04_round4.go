package main

import (
	"go/ast"
	"go/types"
)

// A list-offsets / epoch load that failed must stay registered with its
// consumer session: only a load that is in the session's waiting set is
// carried over by stopSession to the next session, and only a completed load
// re-enables its (unusable) cursor. Necessary structural conditions on
// consumerSession.listOrEpoch's reload goroutine.

func (x *c04x) failedLoads() {
	c, m := x.c, x.m
	rule := "failed-loads-reregistered"
	f := x.fn("kgo.consumerSession.listOrEpoch")
	if f == nil {
		return
	}
	info := f.Info()
	isReload := func(call *ast.CallExpr) (types.Object, bool) {
		switch calleeName(info, call) {
		case "kgo.listOrEpochLoads.loadWithSession", "kgo.listOrEpochLoads.loadWithSessionNow":
		default:
			return nil, false
		}
		sel, ok := unparen(call.Fun).(*ast.SelectorExpr)
		if !ok || len(call.Args) < 1 {
			return nil, false
		}
		return c04obj(info, sel.X), true
	}
	// the set of failed loads: the local merged from handleListOrEpochResults
	var reloads types.Object
	ast.Inspect(f.Decl.Body, func(y ast.Node) bool {
		call, ok := y.(*ast.CallExpr)
		if !ok || calleeName(info, call) != "kgo.listOrEpochLoads.mergeFrom" || len(call.Args) != 1 {
			return true
		}
		if in, ok := unparen(call.Args[0]).(*ast.CallExpr); ok && calleeName(info, in) == "kgo.consumerSession.handleListOrEpochResults" {
			reloads = c04obj(info, unparen(call.Fun).(*ast.SelectorExpr).X)
		}
		return true
	})
	if reloads == nil {
		c.Undecided(rule, f.Key+"#failed-set", f.Pos(), m, "`reloads.mergeFrom(s.handleListOrEpochResults(...))` not found")
		return
	}
	recv := ""
	if len(f.Decl.Recv.List[0].Names) == 1 {
		recv = f.Decl.Recv.List[0].Names[0].Name
	}
	// the goroutine that re-registers them
	var lit *ast.FuncLit
	var goStmt *ast.GoStmt
	ast.Inspect(f.Decl.Body, func(y ast.Node) bool {
		gs, ok := y.(*ast.GoStmt)
		if !ok {
			return true
		}
		l, ok := gs.Call.Fun.(*ast.FuncLit)
		if !ok {
			return true
		}
		if containsNode(l.Body, true, func(z ast.Node) bool {
			call, ok := z.(*ast.CallExpr)
			if !ok {
				return false
			}
			o, ok := isReload(call)
			return ok && o == reloads
		}) {
			lit, goStmt = l, gs
		}
		return true
	})
	if lit == nil {
		c.Fail(rule, f.Key+"#reload-goroutine", f.Pos(), m, "failed list / epoch loads are never handed back to the session (no goroutine calling reloads.loadWithSession): their cursors stay unusable forever")
		return
	}
	lg := f.LitGraph(lit)
	reg := func(n ast.Node) bool {
		var call *ast.CallExpr
		switch s := n.(type) {
		case *ast.DeferStmt:
			call = s.Call
		case *ast.GoStmt:
			return false
		default:
			ast.Inspect(n, func(z ast.Node) bool {
				if _, isLit := z.(*ast.FuncLit); isLit {
					return false
				}
				if cc, ok := z.(*ast.CallExpr); ok && call == nil {
					if o, ok := isReload(cc); ok && o == reloads {
						call = cc
					}
				}
				return true
			})
		}
		if call == nil {
			return false
		}
		o, ok := isReload(call)
		return ok && o == reloads && exprStr(call.Args[0]) == recv
	}
	p, found := lg.FindPath(Loc{-1, 0}, SearchOpts{Stop: reg, GoalExit: func(k ExitKind, _ ast.Node) bool { return k != ExitPanic }})
	c.Check(!found, rule, f.Key+"#reload-goroutine: every exit re-registers", lit.Pos(), m, "every path of the reload goroutine (timer fired or session context cancelled) hands the failed loads back to the session",
		"the reload goroutine can exit without reloads.loadWithSession(s, ...) ("+pathStr(p)+"): when the session context is cancelled before the back-off timer fires the failed loads are dropped instead of being put back into the session's waiting set, so stopSession cannot carry them to the next session; their cursors were marked used for the load and nothing ever re-enables them - the partitions are never fetched again")
	// the hand-back happens before the worker count is released (stopSession waits for workers == 0 before it collects the waiting loads)
	var decDefer, loadDefer *ast.DeferStmt
	decNow := false
	for _, st := range lit.Body.List {
		d, ok := st.(*ast.DeferStmt)
		if !ok {
			if es, ok := st.(*ast.ExprStmt); ok {
				if call, ok := es.X.(*ast.CallExpr); ok && calleeName(info, call) == "kgo.consumerSession.decWorker" {
					decNow = true
				}
			}
			continue
		}
		if calleeName(info, d.Call) == "kgo.consumerSession.decWorker" && decDefer == nil {
			decDefer = d
		}
		if o, ok := isReload(d.Call); ok && o == reloads && loadDefer == nil {
			loadDefer = d
		}
	}
	okOrder := decDefer != nil && !decNow
	if okOrder && loadDefer != nil {
		okOrder = decDefer.Pos() < loadDefer.Pos() // deferred calls run last-in first-out
	}
	if okOrder && loadDefer == nil {
		// not deferred: then it must complete on every path before the function returns, which the rule above established; decWorker deferred first runs last
		okOrder = len(lit.Body.List) > 0 && lit.Body.List[0] == ast.Stmt(decDefer)
	}
	c.Check(okOrder, rule, f.Key+"#reload-goroutine: before decWorker", lit.Pos(), m, "s.decWorker() is deferred first, so it runs after the loads were handed back", "the worker count can be released before the failed loads are back in the session's waiting set: a concurrent stopSession sees workers == 0, collects the waiting loads without them, and the loads (and their cursors) are lost")
	// spawned whenever there is something to reload, after incWorker
	og := f.GraphFor(goStmt)
	gl, okl := og.LocOf(goStmt)
	okSpawn := false
	if okl {
		facts := og.FactsAt(gl)
		okSpawn = len(facts) == 1 && !facts[0].Val && facts[0].Tag == nil && c04str(facts[0].Cond) == reloads.Name()+".isEmpty()"
		inc := false
		for i := 0; i < gl.I; i++ {
			if c04has(og.C.Blocks[gl.B].Nodes[i], info, "kgo.consumerSession.incWorker") {
				inc = true
			}
		}
		okSpawn = okSpawn && inc
	}
	c.Check(okSpawn, rule, f.Key+"#reload-goroutine: spawned", goStmt.Pos(), m, "spawned (after incWorker) whenever some load failed", "the reload goroutine is not spawned for every non-empty set of failed loads, or without incWorker")
	// ... from a defer of listOrEpoch registered before the results are drained
	outer := innermostLit(f, goStmt)
	okDefer := false
	if outer != nil {
		ast.Inspect(f.Decl.Body, func(y ast.Node) bool {
			if d, ok := y.(*ast.DeferStmt); ok && d.Call.Fun == ast.Expr(outer) {
				g := f.Graph()
				dl, ok1 := g.LocOf(d)
				var ml Loc
				ok2 := false
				ast.Inspect(f.Decl.Body, func(z ast.Node) bool {
					if call, ok := z.(*ast.CallExpr); ok && calleeName(info, call) == "kgo.listOrEpochLoads.mergeFrom" && innermostLit(f, call) == nil {
						if o := c04obj(info, unparen(call.Fun).(*ast.SelectorExpr).X); o == reloads {
							ml, ok2 = g.LocOf(call)
						}
					}
					return true
				})
				okDefer = ok1 && ok2 && g.DominatesReg(dl, ml)
			}
			return true
		})
	}
	c.Check(okDefer, rule, f.Key+"#reload-defer", f.Pos(), m, "the hand-back is deferred before any result is collected", "the failed loads are collected before the deferred hand-back is registered (or it is not deferred): a return in between drops them")
}
