package main

import (
	"go/ast"
	"go/token"
	"strings"
)

func init() {
	register(&Prop{
		ID:        "C37",
		Level:     "other",
		Technique: "sibling agreement of the carrier's Get/Set scans (direction, match test, first-match action), field map of Set's two arms and of Keys, wiring rules of the producer/consumer hooks, capacity-cap rule for fetched header slices; forward may-dataflow (origin/stale bits of slice-typed locals over the CFG) proving that the kmsg decoders reslice a reused slice to [:0] on every path before storing it back",
		Explanation: "(1) RecordCarrier.Get and Set both scan record.Headers with an ascending range loop and act on the first element whose Key == key: Get returns its value, Set overwrites Headers[i].Value with []byte(val) and returns; Set appends {Key: key, Value: []byte(val)} only after the loop found nothing, and touches no other header; Keys returns one entry per header in order; " +
			"(2) wiring: Tracer.OnProduceRecordBuffered injects with t.propagators.Inject(ctx, NewRecordCarrier(r)) and Tracer.OnFetchRecordBuffered extracts with t.propagators.Extract(r.Context, NewRecordCarrier(r)) on the hook's own record, NewRecordCarrier wraps exactly the record it is given; " +
			"(3) a fetched record's header slice is carved from the per-batch slab with its capacity capped to its length ((*hslab)[:n:n]), so that Set's append on one fetched record cannot overwrite the next record's header; " +
			"(4) rule decoder-truncates-reused-slice (pkg/kmsg): in every kmsg function that stores a slice into a struct field, a value derived through local variables from reading a slice field (the reused destination slice: `v := s.Headers; a := v`) must have passed a reslice-to-zero `x[:0]` on EVERY path before it is stored back (`s.Headers = v`); append() and non-zero reslices propagate staleness, fresh values (make, nil, literals, calls) clear it. Record.readFrom's store to Record.Headers is an explicit obligation (kgo recycles kmsg.Records through PoolKRecords with full-length Headers and relies on this truncation, so a header-less record must decode to no headers for carrier.Keys/Get), the same obligation is checked for all ~425 array fields of the generated decoders.",
		NotDecided: "that header bytes survive produce/fetch unchanged (C06/C18) and the propagator's own behaviour; decoders that resize the destination slice in place to the wire count without a local alias (hand-written StickyMemberMetadata.readFrom: 4 stores, counted in the evidence as in_place_resize_stores_not_covered) are outside rule (4); a reused slice resliced with a non-constant bound (a[:l]) is reported undecided, not proven; functions containing closures are skipped by rule (4) (none today; undecided if it is the record decoder); that every element of the re-grown slice is overwritten is C15/C16's concern.",
		Run:        runC37,
	})
}

func runC37(c *Ctx) {
	m := c.Load("plugin/kotel")
	if m != nil {
		c37carrier(c, m)
	}
	r := c.Load("")
	if r != nil {
		if f := c.NeedFunc(r, "kgo.recordToRecord"); f != nil {
			n := 0
			ast.Inspect(f.Decl.Body, func(x ast.Node) bool {
				as, ok := x.(*ast.AssignStmt)
				if !ok {
					return true
				}
				for i, l := range as.Lhs {
					if exprStr(l) != "h" || i >= len(as.Rhs) {
						continue
					}
					se, ok := unparen(as.Rhs[i]).(*ast.SliceExpr)
					if !ok {
						continue
					}
					n++
					capped := se.Slice3 && se.Max != nil && se.High != nil && exprStr(se.Max) == exprStr(se.High)
					c.Check(capped, "fetched-headers-capacity-capped", f.Key+": h = "+exprStr(se), as.Pos(), r, "cap == len", "a fetched record's header slice keeps spare capacity into the shared slab: appending a header to one record overwrites the next record's first header")
				}
				return true
			})
			c.Check(n == 1, "fetched-headers-capacity-capped", f.Key+"#slab-carve", f.Pos(), r, "", "header slab carve not found")
		}
	}
	c37kmsgDecoder(c)
}

func c37carrier(c *Ctx, m *Module) {
	rule := "carrier-first-match"
	type scan struct {
		rs  *ast.RangeStmt
		ifs *ast.IfStmt
		f   *Func
	}
	get := c.NeedFunc(m, "kotel.RecordCarrier.Get")
	set := c.NeedFunc(m, "kotel.RecordCarrier.Set")
	find := func(f *Func) *scan {
		if f == nil {
			return nil
		}
		var out *scan
		nLoops := 0
		ast.Inspect(f.Decl.Body, func(x ast.Node) bool {
			switch s := x.(type) {
			case *ast.ForStmt:
				nLoops++
			case *ast.RangeStmt:
				nLoops++
				if nosp(exprStr(s.X)) == "c.record.Headers" && len(s.Body.List) == 1 {
					if ifs, ok := s.Body.List[0].(*ast.IfStmt); ok && ifs.Else == nil {
						out = &scan{s, ifs, f}
					}
				}
			}
			return true
		})
		if nLoops != 1 {
			return nil
		}
		return out
	}
	gs, ss := find(get), find(set)
	c.Check(gs != nil, rule, "kotel.RecordCarrier.Get#scan", posOf(get), m, "single ascending range over record.Headers", "Get does not scan record.Headers with a single ascending range loop (Set acts on the first match: scanning in another direction reads a different header when a key is duplicated)")
	c.Check(ss != nil, rule, "kotel.RecordCarrier.Set#scan", posOf(set), m, "single ascending range over record.Headers", "Set does not scan record.Headers with a single ascending range loop")
	if gs != nil {
		v := exprStr(gs.rs.Value)
		okc := nosp(exprStr(gs.ifs.Cond)) == v+".Key==key"
		okb := len(gs.ifs.Body.List) == 1 && nosp(nodeStr(gs.ifs.Body.List[0])) == "returnstring("+v+".Value)"
		last := nosp(nodeStr(get.Decl.Body.List[len(get.Decl.Body.List)-1]))
		c.Check(okc && okb && last == `return""`, rule, get.Key, get.Pos(), m, "first header with Key == key, else \"\"", "Get does not return the value of the first header whose Key == key")
	}
	if ss != nil {
		v := exprStr(ss.rs.Value)
		i := exprStr(ss.rs.Key)
		okc := nosp(exprStr(ss.ifs.Cond)) == v+".Key==key"
		okb := len(ss.ifs.Body.List) == 2 && nosp(nodeStr(ss.ifs.Body.List[0])) == "c.record.Headers["+i+"].Value=[]byte(val)" && nosp(nodeStr(ss.ifs.Body.List[1])) == "return"
		c.Check(okc && okb, rule, set.Key+"#update", ss.ifs.Pos(), m, "overwrite the first match and stop", "Set's update arm does not overwrite Headers[i].Value of the first match and return")
		// append only after the loop
		var stmts []string
		for _, s := range set.Decl.Body.List {
			stmts = append(stmts, nosp(nodeStr(s)))
		}
		okApp := len(stmts) == 2 && strings.HasPrefix(stmts[1], "c.record.Headers=append(c.record.Headers,kgo.RecordHeader{")
		kv := map[string]string{}
		ast.Inspect(set.Decl.Body.List[len(set.Decl.Body.List)-1], func(x ast.Node) bool {
			if e, ok := x.(*ast.KeyValueExpr); ok {
				kv[exprStr(e.Key)] = nosp(exprStr(e.Value))
			}
			return true
		})
		c.Check(okApp && kv["Key"] == "key" && kv["Value"] == "[]byte(val)", rule, set.Key+"#append", set.Pos(), m, "append {key, val} only when absent", "Set does not append exactly {Key: key, Value: []byte(val)} after the scan found nothing")
		// no other writes to headers
		nW := 0
		ast.Inspect(set.Decl.Body, func(x ast.Node) bool {
			if as, ok := x.(*ast.AssignStmt); ok {
				for _, l := range as.Lhs {
					if strings.Contains(exprStr(l), "Headers") {
						nW++
					}
				}
			}
			return true
		})
		c.Check(nW == 2, rule, set.Key+"#no-other-writes", set.Pos(), m, "", "Set writes headers at other places than the first match / the append")
	}
	if k := c.NeedFunc(m, "kotel.RecordCarrier.Keys"); k != nil {
		got := nows(printNode(m.Fset, k.Decl.Body))
		c.Check(got == "{out:=make([]string,len(c.record.Headers))fori,h:=rangec.record.Headers{out[i]=h.Key}returnout}", rule, k.Key, k.Pos(), m, "one entry per header", "Keys is `"+got+"`")
	}
	if n := c.NeedFunc(m, "kotel.NewRecordCarrier"); n != nil {
		got := nows(printNode(m.Fset, n.Decl.Body))
		c.Check(got == "{returnRecordCarrier{record:record}}", rule, n.Key, n.Pos(), m, "", "NewRecordCarrier does not wrap its argument")
	}
	// wiring
	rule2 := "propagation-wiring"
	for _, t := range [][3]string{{"kotel.Tracer.OnProduceRecordBuffered", "t.propagators.Inject", "ctx"}, {"kotel.Tracer.OnFetchRecordBuffered", "t.propagators.Extract", "r.Context"}} {
		f := c.NeedFunc(m, t[0])
		if f == nil {
			continue
		}
		n := 0
		ast.Inspect(f.Decl.Body, func(x ast.Node) bool {
			call, ok := x.(*ast.CallExpr)
			if !ok || nosp(exprStr(call.Fun)) != t[1] {
				return true
			}
			n++
			okA := len(call.Args) == 2 && nosp(exprStr(call.Args[0])) == t[2] && nosp(exprStr(call.Args[1])) == "NewRecordCarrier(r)"
			c.Check(okA, rule2, t[0]+": "+exprStr(call), call.Pos(), m, "", "the hook does not "+t[1]+" with ("+t[2]+", NewRecordCarrier(r)) on its own record")
			return true
		})
		c.Check(n == 1, rule2, t[0]+"#calls-propagator", f.Pos(), m, "", "expected exactly one "+t[1]+" call")
	}
}

func posOf(f *Func) token.Pos {
	if f == nil {
		return token.NoPos
	}
	return f.Pos()
}
