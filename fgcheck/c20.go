package main

import (
	"fmt"
	"go/ast"
	"go/constant"
	"go/token"
	"go/types"
	"sort"
	"strings"
)

func init() {
	register(&Prop{
		ID:        "C20",
		Level:     "other",
		Technique: "zero-extension rule for the fixed-width decoders; sibling agreement between the writer tables of NewRecordFormatter/parseNumWriteLayout and the reader tables of parseReadLayout/parseReadSize (name sets, byte counts, byte order, radix, verb -> Record field, text encoding objects); sign-reinterpretation rule for the reader's number stores; ownership rule for RecordReader.buf; assume/guarantee bounds proof of the fixed-width parsers against the guard in RecordReader.next; branch-fact rules for the io.EOF boundary",
		Explanation: "(1) num-layout-agree: for every number layout name accepted by both parseNumWriteLayout and parseReadSize the writer function's emitted byte count (arity of its single append) equals the reader's readKind.size, big/little agree (descending/ascending 8-bit shifts of uint64(n) <-> binary.BigEndian/LittleEndian of the same width; single byte <-> b[0]), hexN writes N/4 nibbles with descending 4-bit shifts through a 16 digit hex alphabet and is read as N/4 bytes with ParseUint base 16, ascii is AppendInt base 10 <-> digit condition + ParseUint/ParseInt base 10 and, because AppendInt prints a sign, the reader must accept a leading '-' and parse signed (violated on the pinned tree: recorded finding), bool is \"true\"/\"false\" on both sides; names of one writer case clause map to one reader class; the accepted name sets differ only by the documented writer-only `hex` (variable width); " +
			"(1b) zero-extend: every fixed-width reader case stores to the shared 64-bit destination the unsigned decode of exactly the layout's width (binary.{Big,Little}Endian.UintN / b[0] / strconv.ParseUint base 16 with a sufficient bit size), widened only through unsigned conversions at least as wide as the layout - no intermediate signed or narrower conversion, no arithmetic - matching the writer, which emits the low N bits of uint64(n) unchanged (a writer that first passes the value through a helper that branches on it or takes min/max of it - saturation - is a violation); the sign is reinterpreted only where the consumer converts *dst to the field's signed type (rule 3); a writer that delegates to a width-parameterised helper is classified only for the recognised mask + pad-loop + strconv.AppendUint shape and must clamp the significant-digit count to >= 1 (exactly `width` digits for every value including 0); " +
			"(2) verb-field-agree: the number/text verbs of NewRecordFormatter and parseReadLayout are compared: the Record field the writer reads for a verb is the field the reader stores for it (T/K/V: the length of the field that the lower-case verb reads with that size variable; H/h: Headers with Key/Value mapped to Key/Value on both sides and the loop bounded by the %H variable; p Partition, o Offset, e LeaderEpoch, x ProducerID, y ProducerEpoch, d Timestamp in milliseconds with the same scale constant); verb sets differ only by the documented writer-only verbs; the reader's size/value bit constants pair up (size bit == value bit << 1); " +
			"(3) signed-reinterpret: in every reader number store the raw uint64 is converted to a signed integer type before any arithmetic (the writer emits the two's complement of a signed value); " +
			"(4) text-encoding-agree: text modifiers accepted on both sides map to inverse functions of the same encoding object (base64.StdEncoding Encode/Decode, encoding/hex Encode/Decode, plain append / no decoder); the name sets differ only by the documented base64raw/unpack (writer) and json/re (reader); " +
			"(5) buf-owned: every store to RecordReader.buf is a reslice of or append to r.buf itself or the fresh result of io.ReadAll, never a view into the bufio.Reader (Peek) or caller memory; key/value bytes leave the reader only through a copy (dupslice/string), dupslice copies into a fresh slice; " +
			"(6) parse-guard: each fixed-width parser of parseReadSize is proven in bounds assuming len(b) >= its own readKind.size, and RecordReader.next calls fn.parse(r.buf, _) only where len(r.buf) < fn.read.size has been excluded for fn.read.size > 0, reading exactly fn.read.size bytes with readSize; " +
			"(7) eof-boundary: next returns io.EOF only inside the EOF arm with nothing buffered at the first reading field, marks the reader done first, otherwise returns io.ErrUnexpectedEOF for a non-final field; readSize turns a partial field into io.ErrUnexpectedEOF; ReadRecordInto returns io.EOF once done; " +
			"(8) reader-bounds: every index/slice/make in next, readSize, readExact, readCondition, dupslice, decodeBase64 and decodeHex is proven in bounds (bufio.Peek, io.ReadFull, append growth and DecodedLen contracts are used as named side arguments after their statement pattern has been recognised).",
		NotDecided: "value-level round trips (that the bytes read back equal the record written), delimiter based and regular-expression/json layouts, the reader state machines for ascii/bool conditions beyond their accepted alphabet, go/strftime timestamp formats, %a attributes, interaction of literal text with field contents, values that do not fit the chosen layout width (the writer truncates), and whether io.EOF is produced at exactly the right record (only the structural conditions of the boundary test are checked).",
		Assumptions: []string{
			"library contracts: bufio.Reader.Peek(n) returns n bytes when err == nil; io.ReadFull returns 0 <= n <= len(buf); append never shrinks; base64/hex DecodedLen(n) <= n and Decode returns n <= len(dst); strconv.ParseUint(s, b, 64) inverts AppendUint/hex digits",
		},
		Run: runC20,
	})
}

type c20env struct {
	c    *Ctx
	m    *Module
	info *types.Info
	rec  *types.Named
}

func runC20(c *Ctx) {
	m := c.Load("")
	if m == nil {
		return
	}
	e := &c20env{c: c, m: m, info: m.Pkg("kgo").TypesInfo}
	if o := m.Object("kgo", "Record"); o != nil {
		e.rec, _ = o.Type().(*types.Named)
	}
	if e.rec == nil {
		c.Undecided("anchor", "kgo.Record", token.NoPos, m, "type not found")
		return
	}
	e.ruleNumLayouts()
	e.ruleVerbs()
	e.ruleText()
	e.ruleBuf()
	e.ruleParseGuard()
	e.ruleEOF()
	e.ruleBounds()
	c19dump(c)
}

// ---------- helpers ----------

func c20str(info *types.Info, x ast.Expr) (string, bool) {
	tv, ok := info.Types[x]
	if !ok || tv.Value == nil || tv.Value.Kind() != constant.String {
		return "", false
	}
	return constant.StringVal(tv.Value), true
}

// c20stringSwitch returns the tag switch over a string typed tag in the function body (the one with most cases).
func c20stringSwitch(f *Func) *ast.SwitchStmt {
	var best *ast.SwitchStmt
	for _, x := range findNodes(f.Decl.Body, false, func(x ast.Node) bool {
		s, ok := x.(*ast.SwitchStmt)
		if !ok || s.Tag == nil {
			return false
		}
		t := f.Info().TypeOf(s.Tag)
		b, ok := t.Underlying().(*types.Basic)
		return ok && b.Info()&types.IsString != 0
	}) {
		s := x.(*ast.SwitchStmt)
		if best == nil || len(s.Body.List) > len(best.Body.List) {
			best = s
		}
	}
	return best
}

// ---------- (1) number layouts ----------

type c20w struct { // writer class
	kind  string // bin, hex, ascii, varhex, bool
	n     int    // bytes emitted (bin, hex)
	order string // big, little, byte (bin)
	fn    string
	pos   token.Pos
	err   string
	viol  string // decided violation found while classifying
}

type c20r struct { // reader class
	kind          string // bin, hex, ascii, bool, noread
	n             int
	order         string
	pos           token.Pos
	err           string
	lit           *ast.FuncLit
	size          ast.Expr
	signed, minus bool       // ascii: parsed as signed / condition accepts '-'
	stores        []ast.Expr // right-hand sides stored to *dst by the parser
	parseBits     int64      // bitSize argument of strconv.ParseUint/ParseInt
}

func (e *c20env) ruleNumLayouts() {
	c, m := e.c, e.m
	rule := "num-layout-agree"
	fw := c.NeedFunc(m, "kgo.parseNumWriteLayout")
	fr := c.NeedFunc(m, "kgo.RecordReader.parseReadSize")
	if fw == nil || fr == nil {
		return
	}
	sw, sr := c20stringSwitch(fw), c20stringSwitch(fr)
	if sw == nil || sr == nil {
		c.Undecided(rule, "tables", fw.Pos(), m, "string switch not found in parseNumWriteLayout / parseReadSize")
		return
	}
	wnames := map[string]*c20w{}
	wclause := map[string]int{}
	for ci, st := range sw.Body.List {
		cc := st.(*ast.CaseClause)
		if cc.List == nil {
			continue
		}
		var cls *c20w
		for _, x := range findNodes(cc, false, func(x ast.Node) bool { _, ok := x.(*ast.ReturnStmt); return ok }) {
			rs := x.(*ast.ReturnStmt)
			if len(rs.Results) == 3 {
				if fn, ok := c19objOf(e.info, rs.Results[0]).(*types.Func); ok {
					cls = e.writerClass(fn)
				}
			}
		}
		for _, ce := range cc.List {
			if s, ok := c20str(e.info, ce); ok {
				if cls == nil {
					cls = &c20w{err: "case does not return a named writer function", pos: cc.Pos()}
				}
				wnames[s] = cls
				wclause[s] = ci
			}
		}
	}
	rnames := map[string]*c20r{}
	for _, st := range sr.Body.List {
		cc := st.(*ast.CaseClause)
		if cc.List == nil {
			continue
		}
		cls := e.readerClass(fr, cc)
		for _, ce := range cc.List {
			if s, ok := c20str(e.info, ce); ok {
				rnames[s] = cls
			}
		}
	}
	n := 0
	for _, name := range sortedKeys(wnames) {
		w := wnames[name]
		r, both := rnames[name]
		cons := "layout " + name
		n++
		if w.err != "" {
			c.Undecided(rule, cons, w.pos, m, "writer function not classified: "+w.err)
			continue
		}
		if w.viol != "" {
			c.Fail(rule, cons, w.pos, m, w.viol)
			continue
		}
		if !both {
			c.Check(name == "hex", rule, cons, w.pos, m, "writer-only (documented: variable width)", "number layout `"+name+"` is accepted by the formatter but not by the reader: a stream written with it cannot be read back with the same layout")
			continue
		}
		if r.err != "" {
			c.Undecided(rule, cons, r.pos, m, "reader case not classified: "+r.err)
			continue
		}
		var bad []string
		switch w.kind {
		case "bin":
			if r.kind != "bin" {
				bad = append(bad, "writer emits raw bytes but the reader parses "+r.kind)
				break
			}
			if w.n != r.n {
				bad = append(bad, fmt.Sprintf("%s emits %d bytes but the reader reads %d", w.fn, w.n, r.n))
			}
			if w.order != r.order && !(w.n == 1 && r.n == 1) {
				bad = append(bad, fmt.Sprintf("%s writes %s endian but the reader decodes %s endian", w.fn, w.order, r.order))
			}
			wantOrder := ""
			switch {
			case strings.HasPrefix(name, "big"):
				wantOrder = "big"
			case strings.HasPrefix(name, "little"):
				wantOrder = "little"
			}
			if wantOrder != "" && w.n > 1 && w.order != wantOrder {
				bad = append(bad, fmt.Sprintf("layout %s is written %s endian", name, w.order))
			}
			if d := strings.TrimLeft(name, "abcdefghijklmnopqrstuvwxyz"); d != "" {
				var bits int
				fmt.Sscanf(d, "%d", &bits)
				if bits != 8*w.n {
					bad = append(bad, fmt.Sprintf("layout %s is written with %d bytes", name, w.n))
				}
			}
		case "hex":
			if r.kind != "hex" {
				bad = append(bad, "writer emits hex digits but the reader parses "+r.kind)
				break
			}
			if w.n != r.n {
				bad = append(bad, fmt.Sprintf("%s emits %d hex digits but the reader reads %d bytes", w.fn, w.n, r.n))
			}
			var bits int
			fmt.Sscanf(strings.TrimPrefix(name, "hex"), "%d", &bits)
			if bits != 4*w.n {
				bad = append(bad, fmt.Sprintf("layout %s is written with %d hex digits", name, w.n))
			}
		case "ascii", "bool":
			if r.kind != w.kind {
				bad = append(bad, "writer emits "+w.kind+" but the reader parses "+r.kind)
			}
		default:
			bad = append(bad, "writer class "+w.kind+" has no reader counterpart")
		}
		c.Check(len(bad) == 0, rule, cons, r.pos, m, fmt.Sprintf("%s <-> %s/%d/%s", w.fn, r.kind, r.n, r.order), strings.Join(bad, "; ")+": a number written with this layout reads back as a different value or desynchronises the stream")
	}
	// the ascii writer prints a sign; the reader must accept it
	if w, r := wnames["ascii"], rnames["ascii"]; w != nil && r != nil && w.kind == "ascii" && r.kind == "ascii" {
		n++
		c.Check(r.signed && r.minus, rule, "layout ascii#sign", r.pos, m, "signed on both sides",
			"the ascii writer is strconv.AppendInt (prints a leading '-' for negative values) but the ascii reader accepts only the digits '0'..'9' and parses with ParseUint: a record with LeaderEpoch/ProducerID/ProducerEpoch/Offset -1 or a pre-1970 timestamp formatted with the default %e/%x/%y/%o/%d{ascii} cannot be read back (ParseUint: parsing \"\": invalid syntax)")
	}
	for _, name := range sortedKeys(rnames) {
		if _, ok := wnames[name]; !ok {
			n++
			c.Fail(rule, "layout "+name, rnames[name].pos, m, "number layout `"+name+"` is accepted by the reader but not by the formatter (undocumented asymmetry)")
		}
	}
	// zero extension of fixed-width reads (the consumer reinterprets the sign, see signed-reinterpret)
	nz := 0
	for _, name := range sortedKeys(rnames) {
		r := rnames[name]
		if r.err != "" || (r.kind != "bin" && r.kind != "hex") {
			continue
		}
		nz++
		why := e.zeroExtended(r)
		c.Check(why == "", "zero-extend", "layout "+name, r.pos, m, fmt.Sprintf("stored as the zero-extended %d-bit unsigned value", e.widthBits(r)),
			why+": the formatter writes the low "+fmt.Sprint(e.widthBits(r))+" bits of the number and every value in [0, 2^"+fmt.Sprint(e.widthBits(r))+") is within the layout's width, but values with the top bit set read back as huge/negative numbers (sizes fail with `invalid negative read size`, partitions/offsets come back negative)")
	}
	c.Floor("zero-extend", nz, 12)
	// aliases of one writer clause map to one reader class
	byClause := map[int][]string{}
	for nme, ci := range wclause {
		byClause[ci] = append(byClause[ci], nme)
	}
	for _, names := range byClause {
		sort.Strings(names)
		for _, a := range names[1:] {
			ra, rb := rnames[names[0]], rnames[a]
			if ra == nil || rb == nil {
				continue
			}
			n++
			c.Check(ra.kind == rb.kind && ra.n == rb.n && ra.order == rb.order, rule, "alias "+names[0]+"/"+a, rb.pos, m, "aliases read alike", "aliases of one writer layout are read differently")
		}
	}
	c.Floor(rule, n, 19)
}

// writerClass classifies a writeNum* function by its body.
func (e *c20env) writerClass(fn *types.Func) *c20w {
	f := e.m.Func(keyOfObj(fn))
	w := &c20w{fn: fn.Name(), pos: fn.Pos()}
	if f == nil {
		w.err = "no body"
		return w
	}
	e.c.Touch(f)
	info := f.Info()
	var nParam types.Object
	k := 0
	for _, fl := range f.Decl.Type.Params.List {
		for _, id := range fl.Names {
			if k == 1 {
				nParam = info.Defs[id]
			}
			k++
		}
	}
	isU := func(x ast.Expr) bool { // uint64(n) or a variable defined as uint64(n)
		x = unparen(x)
		if id, ok := x.(*ast.Ident); ok {
			if d := singleDef(f, info.Uses[id]); d != nil {
				x = unparen(d)
			}
		}
		call, ok := x.(*ast.CallExpr)
		if !ok || len(call.Args) != 1 {
			return false
		}
		tv, ok := info.Types[call.Fun]
		if !ok || !tv.IsType() {
			return false
		}
		b, ok := tv.Type.Underlying().(*types.Basic)
		return ok && b.Kind() == types.Uint64 && c19objOf(info, call.Args[0]) == nParam
	}
	// clampedBy: the shifted operand is n passed through a kgo helper whose
	// result depends on a comparison / min / max of the value (saturation).
	clampedBy := func(x ast.Expr) string {
		x = unparen(x)
		if be, ok := x.(*ast.BinaryExpr); ok && be.Op == token.SHR {
			x = unparen(be.X)
		}
		if id, ok := x.(*ast.Ident); ok {
			if d := singleDef(f, info.Uses[id]); d != nil {
				x = unparen(d)
			}
		}
		call, ok := x.(*ast.CallExpr)
		if !ok || len(call.Args) < 1 || c19objOf(info, call.Args[0]) != nParam {
			return ""
		}
		hf, _ := calleeObj(info, call).(*types.Func)
		if hf == nil || hf.Pkg() == nil || hf.Pkg().Name() != "kgo" {
			return ""
		}
		h := e.m.Func(keyOfObj(hf))
		if h == nil || len(h.Decl.Type.Params.List) == 0 || len(h.Decl.Type.Params.List[0].Names) == 0 {
			return ""
		}
		e.c.Touch(h)
		hi := h.Info()
		v := hi.Defs[h.Decl.Type.Params.List[0].Names[0]]
		how := ""
		ast.Inspect(h.Decl.Body, func(y ast.Node) bool {
			switch s := y.(type) {
			case *ast.IfStmt:
				if mentionsObj(s.Cond, hi, v, false) {
					how = "branches on `" + exprStr(s.Cond) + "`"
				}
			case *ast.CallExpr:
				if id, ok := unparen(s.Fun).(*ast.Ident); ok && (id.Name == "min" || id.Name == "max") {
					if _, isB := hi.Uses[id].(*types.Builtin); isB && mentionsObj(s, hi, v, false) {
						how = "computes `" + exprStr(s) + "`"
					}
				}
			}
			return true
		})
		if how == "" {
			return ""
		}
		return "the value is passed through " + hf.Name() + ", which " + how + " (saturation) before the bytes are taken: the layout must carry the low bytes of uint64(n) unchanged, because the reader zero-extends and the consumer reinterprets the sign - a clamped -1 epoch / producer id reads back as 0 and oversized lengths desynchronise the stream silently"
	}
	shiftOf := func(x ast.Expr) (int64, bool) { // u>>s or u
		x = unparen(x)
		if be, ok := x.(*ast.BinaryExpr); ok && be.Op == token.SHR {
			s, okc := constInt(info, be.Y)
			return s, okc && isU(be.X)
		}
		if isU(x) {
			return 0, true
		}
		return 0, false
	}
	var rets []*ast.ReturnStmt
	for _, x := range findNodes(f.Decl.Body, false, func(x ast.Node) bool { _, ok := x.(*ast.ReturnStmt); return ok }) {
		rets = append(rets, x.(*ast.ReturnStmt))
	}
	if len(rets) == 2 {
		// bool: if n == 0 { "false" } "true"
		lits := []string{}
		for _, r := range rets {
			if call, ok := unparen(r.Results[0]).(*ast.CallExpr); ok && exprStr(call.Fun) == "append" && len(call.Args) == 2 {
				if s, ok := c20str(info, call.Args[1]); ok {
					lits = append(lits, s)
				}
			}
		}
		g := f.Graph()
		l0, _ := g.LocOf(rets[0])
		zero := factMatches(g.FactsAt(l0), func(ft Fact) bool {
			be, ok := unparen(ft.Cond).(*ast.BinaryExpr)
			if !ok || !ft.Val || be.Op != token.EQL || c19objOf(info, be.X) != nParam {
				return false
			}
			v, okc := constInt(info, be.Y)
			return okc && v == 0
		})
		if len(lits) == 2 && lits[0] == "false" && lits[1] == "true" && zero {
			w.kind = "bool"
			return w
		}
		w.err = "two returns but not the bool shape (n == 0 -> \"false\", else \"true\")"
		return w
	}
	if len(rets) != 1 || len(rets[0].Results) != 1 {
		w.err = "unexpected number of returns"
		return w
	}
	call, ok := unparen(rets[0].Results[0]).(*ast.CallExpr)
	if !ok {
		w.err = "return is not a call"
		return w
	}
	if cf, ok := calleeObj(info, call).(*types.Func); ok {
		switch keyOfObj(cf) {
		case "strconv.AppendInt":
			if b, okc := constInt(info, call.Args[2]); okc && b == 10 && c19objOf(info, call.Args[1]) == nParam {
				w.kind = "ascii"
				return w
			}
		case "strconv.AppendUint":
			if b, okc := constInt(info, call.Args[2]); okc && b == 16 && isU(call.Args[1]) {
				w.kind = "varhex"
				return w
			}
		}
		// delegation to a width-parameterised helper: return H(b, n, K)
		if cf.Pkg() != nil && cf.Pkg().Name() == "kgo" && len(call.Args) == 3 && c19objOf(info, call.Args[1]) == nParam {
			if k, okc := constInt(info, call.Args[2]); okc && k > 0 && k <= 16 {
				if h := e.m.Func(keyOfObj(cf)); h != nil {
					e.c.Touch(h)
					kind, viol, why := e.hexHelper(h)
					switch {
					case viol:
						w.viol = "fixed-width helper " + cf.Name() + ": " + why
						w.kind, w.n, w.order = "hex", int(k), "big"
					case kind == "hex":
						w.kind, w.n, w.order = "hex", int(k), "big"
					default:
						w.err = "helper " + cf.Name() + " not classified: " + why
					}
					return w
				}
			}
		}
		w.err = "unrecognised call " + exprStr(call.Fun)
		return w
	}
	if exprStr(call.Fun) != "append" || len(call.Args) < 2 || call.Ellipsis.IsValid() {
		w.err = "not a fixed-arity append"
		return w
	}
	var shifts []int64
	kind := ""
	for i, a := range call.Args[1:] {
		a = unparen(a)
		if arg, ok := convArg(a, "byte"); ok {
			s, oks := shiftOf(arg)
			if !oks {
				if why := clampedBy(arg); why != "" {
					w.viol = why
					w.kind, w.n, w.order = "bin", len(call.Args)-1, "?"
					return w
				}
				w.err = fmt.Sprintf("byte %d is `%s`, not byte(uint64(n)>>k)", i, exprStr(a))
				return w
			}
			if kind != "" && kind != "bin" {
				w.err = "mixed byte/hex arguments"
				return w
			}
			kind = "bin"
			shifts = append(shifts, s)
			continue
		}
		if ix, ok := a.(*ast.IndexExpr); ok {
			// hexc[(u>>s)&0xf]
			alpha, oka := c20str(info, ix.X)
			and, okb := unparen(ix.Index).(*ast.BinaryExpr)
			if !oka || !okb || and.Op != token.AND || strings.ToLower(alpha) != "0123456789abcdef" {
				w.err = fmt.Sprintf("digit %d is `%s`, not alphabet[(u>>k)&0xf] over a 16 digit hex alphabet", i, exprStr(a))
				return w
			}
			mask, okm := constInt(info, and.Y)
			s, oks := shiftOf(and.X)
			if !okm || mask != 0xf || !oks {
				w.err = fmt.Sprintf("digit %d is `%s`: mask/shift not recognised", i, exprStr(a))
				return w
			}
			if kind != "" && kind != "hex" {
				w.err = "mixed byte/hex arguments"
				return w
			}
			kind = "hex"
			shifts = append(shifts, s)
			continue
		}
		w.err = fmt.Sprintf("argument %d `%s` not recognised", i, exprStr(a))
		return w
	}
	w.kind, w.n = kind, len(shifts)
	step := int64(8)
	if kind == "hex" {
		step = 4
	}
	desc, asc := true, true
	for i, s := range shifts {
		if s != step*int64(len(shifts)-1-i) {
			desc = false
		}
		if s != step*int64(i) {
			asc = false
		}
	}
	switch {
	case len(shifts) == 1 && desc:
		w.order = "byte"
		if kind == "hex" {
			w.order = "big"
		}
	case desc:
		w.order = "big"
	case asc && kind == "bin":
		w.order = "little"
	default:
		w.err = fmt.Sprintf("shifts %v are neither descending nor ascending multiples of %d: bytes are emitted in a scrambled order", shifts, step)
	}
	return w
}

// readerClass classifies one case clause of parseReadSize.
func (e *c20env) readerClass(f *Func, cc *ast.CaseClause) *c20r {
	info := f.Info()
	r := &c20r{pos: cc.Pos()}
	var lit *ast.CompositeLit
	for _, x := range findNodes(cc, false, func(x ast.Node) bool { _, ok := x.(*ast.ReturnStmt); return ok }) {
		rs := x.(*ast.ReturnStmt)
		if len(rs.Results) == 3 && c19isNil(info, rs.Results[2]) {
			lit, _ = unparen(rs.Results[0]).(*ast.CompositeLit)
		}
	}
	if lit == nil || len(lit.Elts) != 2 {
		r.err = "no `return readParse{readKind{..}, func..}, end, nil`"
		return r
	}
	kindLit, _ := unparen(lit.Elts[0]).(*ast.CompositeLit)
	if kv, ok := lit.Elts[0].(*ast.KeyValueExpr); ok {
		kindLit, _ = unparen(kv.Value).(*ast.CompositeLit)
	}
	parse, _ := unparen(lit.Elts[1]).(*ast.FuncLit)
	if kv, ok := lit.Elts[1].(*ast.KeyValueExpr); ok {
		parse, _ = unparen(kv.Value).(*ast.FuncLit)
	}
	if kindLit == nil || parse == nil || len(kindLit.Elts) != 1 {
		r.err = "readParse literal shape"
		return r
	}
	r.lit = parse
	kv, ok := kindLit.Elts[0].(*ast.KeyValueExpr)
	if !ok {
		r.err = "readKind literal is not keyed"
		return r
	}
	field := exprStr(kv.Key)
	// what the parse closure does
	var calls []string
	var base int64 = -1
	idx0 := false
	strCases := map[string]int64{}
	ast.Inspect(parse.Body, func(x ast.Node) bool {
		switch n := x.(type) {
		case *ast.CallExpr:
			if fn, ok := calleeObj(info, n).(*types.Func); ok {
				k := keyOfObj(fn)
				calls = append(calls, k)
				if (k == "strconv.ParseUint" || k == "strconv.ParseInt") && len(n.Args) == 3 {
					base, _ = constInt(info, n.Args[1])
					r.parseBits, _ = constInt(info, n.Args[2])
					r.signed = k == "strconv.ParseInt"
				}
			}
		case *ast.AssignStmt:
			for i, l := range n.Lhs {
				st, ok := unparen(l).(*ast.StarExpr)
				if !ok {
					continue
				}
				if b, ok := info.TypeOf(st).Underlying().(*types.Basic); !ok || b.Kind() != types.Uint64 {
					continue
				}
				if len(n.Rhs) == len(n.Lhs) {
					r.stores = append(r.stores, n.Rhs[i])
				} else {
					r.stores = append(r.stores, n.Rhs[0])
				}
			}
		case *ast.IndexExpr:
			if v, ok := constInt(info, n.Index); ok && v == 0 {
				idx0 = true
			}
		case *ast.CaseClause:
			for _, ce := range n.List {
				if s, ok := c20str(info, ce); ok && len(n.Body) == 1 {
					if as, ok := n.Body[0].(*ast.AssignStmt); ok && len(as.Rhs) == 1 {
						if v, ok := constInt(info, as.Rhs[0]); ok {
							strCases[s] = v
						}
					}
				}
			}
		}
		return true
	})
	has := func(k string) bool {
		for _, c := range calls {
			if c == k {
				return true
			}
		}
		return false
	}
	switch field {
	case "size":
		v, okc := constInt(info, kv.Value)
		if !okc {
			r.err = "non-constant size"
			return r
		}
		r.n = int(v)
		r.size = kv.Value
		switch {
		case base == 16:
			r.kind, r.order = "hex", "big"
		case idx0 && len(calls) == 0:
			r.kind, r.order = "bin", "byte"
		default:
			for _, w := range []struct {
				k     string
				n     int
				order string
			}{{"binary.bigEndian.Uint64", 8, "big"}, {"binary.bigEndian.Uint32", 4, "big"}, {"binary.bigEndian.Uint16", 2, "big"},
				{"binary.littleEndian.Uint64", 8, "little"}, {"binary.littleEndian.Uint32", 4, "little"}, {"binary.littleEndian.Uint16", 2, "little"}} {
				if has(w.k) {
					if r.kind != "" {
						r.err = "several decoders in one parser"
						return r
					}
					r.kind, r.order = "bin", w.order
					if w.n != r.n {
						r.err = fmt.Sprintf("readKind.size %d but the parser decodes %d bytes", r.n, w.n)
						return r
					}
				}
			}
			if r.kind == "" {
				r.err = "fixed size parser not recognised"
			}
		}
	case "condition":
		switch {
		case base == 10:
			// the accepted alphabet is exactly '0'..'9'
			cl, _ := unparen(kv.Value).(*ast.FuncLit)
			lo, hi := false, false
			if cl != nil {
				ast.Inspect(cl.Body, func(x ast.Node) bool {
					if be, ok := x.(*ast.BinaryExpr); ok {
						if v, okc := constInt(info, be.Y); okc {
							if be.Op == token.LSS && v == '0' {
								lo = true
							}
							if be.Op == token.GTR && v == '9' {
								hi = true
							}
						}
						for _, side := range []ast.Expr{be.X, be.Y} {
							if v, okc := constInt(info, side); okc && v == '-' && (be.Op == token.EQL || be.Op == token.NEQ) {
								r.minus = true
							}
						}
					}
					return true
				})
			}
			if lo && hi {
				r.kind = "ascii"
			} else {
				r.err = "ascii condition does not stop outside '0'..'9'"
			}
		case strCases["true"] == 1 && len(strCases) == 2:
			if v, ok := strCases["false"]; ok && v == 0 {
				r.kind = "bool"
			} else {
				r.err = "bool parser does not map \"false\" to 0"
			}
		default:
			r.err = "condition parser not recognised (expected ParseUint base 10 or \"true\"->1/\"false\"->0)"
		}
	case "noread":
		r.kind = "noread"
	default:
		r.err = "readKind field " + field
	}
	return r
}

func (e *c20env) widthBits(r *c20r) int {
	if r.kind == "hex" {
		return 4 * r.n
	}
	return 8 * r.n
}

func c20uintBits(t types.Type) (bits int, unsigned, isInt bool) {
	b, ok := t.Underlying().(*types.Basic)
	if !ok || b.Info()&types.IsInteger == 0 {
		return 0, false, false
	}
	switch b.Kind() {
	case types.Int8, types.Uint8:
		bits = 8
	case types.Int16, types.Uint16:
		bits = 16
	case types.Int32, types.Uint32, types.Int, types.Uint, types.Uintptr: // int/uint are 32 bits on 386
		bits = 32
	case types.Int64, types.Uint64:
		bits = 64
	}
	return bits, b.Info()&types.IsUnsigned != 0, true
}

// zeroExtended checks that a fixed-width parser stores the unsigned decode of
// exactly the layout's width, widened to uint64 only through unsigned types
// at least as wide as the layout.  Returns "" or the reason.
func (e *c20env) zeroExtended(r *c20r) string {
	info := e.info
	if len(r.stores) != 1 {
		return fmt.Sprintf("the parser stores the number %d times", len(r.stores))
	}
	width := e.widthBits(r)
	x := unparen(r.stores[0])
	if r.kind == "hex" {
		if r.signed {
			return "hex digits are parsed with the signed strconv.ParseInt (a value with the top bit set is out of range)"
		}
		call, ok := x.(*ast.CallExpr)
		if !ok {
			return "hex value is not stored directly from strconv.ParseUint"
		}
		fn, _ := calleeObj(info, call).(*types.Func)
		if fn == nil || keyOfObj(fn) != "strconv.ParseUint" {
			return "hex digits are parsed with `" + exprStr(call.Fun) + "`, not the unsigned strconv.ParseUint (a value with the top bit set is out of range for a signed parse)"
		}
		if r.parseBits < int64(width) {
			return fmt.Sprintf("ParseUint bit size %d is smaller than the %d bits of the layout", r.parseBits, width)
		}
		return ""
	}
	for {
		call, ok := x.(*ast.CallExpr)
		if !ok || len(call.Args) != 1 {
			break
		}
		tv, ok := info.Types[call.Fun]
		if !ok || !tv.IsType() {
			break
		}
		bits, unsigned, isInt := c20uintBits(tv.Type)
		if !isInt {
			return "conversion to non-integer type " + tv.Type.String()
		}
		if !unsigned {
			return "`" + exprStr(call) + "` converts the decoded value to the signed type " + tv.Type.String() + " before it is widened (sign extension)"
		}
		if bits < width {
			return fmt.Sprintf("`%s` narrows the decoded value to %d bits", exprStr(call), bits)
		}
		x = unparen(call.Args[0])
	}
	switch d := x.(type) {
	case *ast.IndexExpr:
		bits, unsigned, isInt := c20uintBits(info.TypeOf(d))
		if isInt && unsigned && bits == width {
			return ""
		}
	case *ast.CallExpr:
		if fn, _ := calleeObj(info, d).(*types.Func); fn != nil {
			if req, ok := lenRequiringCalls[keyOfObj(fn)]; ok && int(req)*8 == width && strings.Contains(fn.Name(), "Uint") && !strings.HasPrefix(fn.Name(), "Put") {
				return ""
			}
		}
	}
	return "the stored value `" + exprStr(r.stores[0]) + "` is not a plain unsigned decode of the layout's width (arithmetic or another decoder in between)"
}

// hexHelper classifies a helper  func H(b []byte, n int64, digits int) []byte
// of the shape
//
//	u := uint64(n) & (1<<(4*uint(digits)) - 1)
//	for pad := digits - SIG; pad > 0; pad-- { b = append(b, '0') }
//	return strconv.AppendUint(b, u, 16)
//
// strconv.AppendUint emits max(1, ceil(bitlen(u)/4)) digits, so the total is
// exactly `digits` for every u (including 0) iff SIG is
// max(1, (bits.Len64(u)+3)/4).  With the unclamped SIG = (bits.Len64(u)+3)/4
// the value 0 is written with digits+1 characters: a decided violation.
// Other shapes are not classified.
func (e *c20env) hexHelper(h *Func) (kind string, viol bool, why string) {
	info := h.Info()
	var ps []types.Object
	for _, fl := range h.Decl.Type.Params.List {
		for _, id := range fl.Names {
			ps = append(ps, info.Defs[id])
		}
	}
	body := h.Decl.Body.List
	if len(ps) != 3 || len(body) != 3 {
		return "", false, "expected `u := masked n; pad loop; return strconv.AppendUint(b, u, 16)`"
	}
	nP, dP := ps[1], ps[2]
	// u := uint64(n) & (1<<(4*uint(digits)) - 1)
	as, ok := body[0].(*ast.AssignStmt)
	if !ok || len(as.Lhs) != 1 || len(as.Rhs) != 1 {
		return "", false, "first statement is not the masked value"
	}
	u := c19objOf(info, as.Lhs[0])
	and, ok := unparen(as.Rhs[0]).(*ast.BinaryExpr)
	if !ok || and.Op != token.AND || c19objOf(info, c19strip(info, and.X)) != nP {
		return "", false, "value is not uint64(n) & mask"
	}
	mask := nosp(exprStr(and.Y))
	d := dP.Name()
	if mask != "(1<<(4*uint("+d+"))-1)" && mask != "1<<(4*uint("+d+"))-1" && mask != "(1<<(4*uint64("+d+"))-1)" && mask != "(1<<uint(4*"+d+")-1)" {
		return "", false, "mask `" + exprStr(and.Y) + "` is not 1<<(4*digits) - 1"
	}
	// return strconv.AppendUint(b, u, 16)
	rs, ok := body[2].(*ast.ReturnStmt)
	if !ok || len(rs.Results) != 1 {
		return "", false, "no final return"
	}
	ac, ok := unparen(rs.Results[0]).(*ast.CallExpr)
	if !ok || len(ac.Args) != 3 {
		return "", false, "final return is not strconv.AppendUint(b, u, 16)"
	}
	if fn, _ := calleeObj(info, ac).(*types.Func); fn == nil || keyOfObj(fn) != "strconv.AppendUint" || c19objOf(info, ac.Args[0]) != ps[0] || c19objOf(info, ac.Args[1]) != u {
		return "", false, "final return is not strconv.AppendUint(b, u, 16)"
	}
	if base, okc := constInt(info, ac.Args[2]); !okc || base != 16 {
		return "", false, "AppendUint base is not 16"
	}
	// pad loop
	fs, ok := body[1].(*ast.ForStmt)
	if !ok || fs.Init == nil || fs.Cond == nil || fs.Post == nil || len(fs.Body.List) != 1 {
		return "", false, "second statement is not the padding loop"
	}
	init, ok := fs.Init.(*ast.AssignStmt)
	if !ok || len(init.Lhs) != 1 || len(init.Rhs) != 1 {
		return "", false, "padding loop init"
	}
	pad := c19objOf(info, init.Lhs[0])
	cond, ok := unparen(fs.Cond).(*ast.BinaryExpr)
	post, ok2 := fs.Post.(*ast.IncDecStmt)
	if !ok || !ok2 || cond.Op != token.GTR || c19objOf(info, cond.X) != pad || post.Tok != token.DEC || c19objOf(info, post.X) != pad {
		return "", false, "padding loop is not `for pad := ..; pad > 0; pad--`"
	}
	if z, okc := constInt(info, cond.Y); !okc || z != 0 {
		return "", false, "padding loop bound"
	}
	ba, ok := fs.Body.List[0].(*ast.AssignStmt)
	if !ok || len(ba.Rhs) != 1 || c19objOf(info, ba.Lhs[0]) != ps[0] {
		return "", false, "padding loop body is not b = append(b, '0')"
	}
	ap, ok := unparen(ba.Rhs[0]).(*ast.CallExpr)
	if !ok || exprStr(ap.Fun) != "append" || len(ap.Args) != 2 || c19objOf(info, ap.Args[0]) != ps[0] {
		return "", false, "padding loop body is not b = append(b, '0')"
	}
	if z, okc := constInt(info, ap.Args[1]); !okc || z != '0' {
		return "", false, "padding character is not '0'"
	}
	sub, ok := unparen(init.Rhs[0]).(*ast.BinaryExpr)
	if !ok || sub.Op != token.SUB || c19objOf(info, sub.X) != dP {
		return "", false, "pad count is not digits - significant digits"
	}
	sigOf := func(x ast.Expr) bool { // (bits.Len64(u)+3)/4
		q, ok := unparen(x).(*ast.BinaryExpr)
		if !ok || q.Op != token.QUO {
			return false
		}
		if v, okc := constInt(info, q.Y); !okc || v != 4 {
			return false
		}
		a, ok := unparen(q.X).(*ast.BinaryExpr)
		if !ok || a.Op != token.ADD {
			return false
		}
		if v, okc := constInt(info, a.Y); !okc || v != 3 {
			return false
		}
		lc, ok := unparen(a.X).(*ast.CallExpr)
		if !ok || len(lc.Args) != 1 || c19objOf(info, lc.Args[0]) != u {
			return false
		}
		fn, _ := calleeObj(info, lc).(*types.Func)
		return fn != nil && keyOfObj(fn) == "bits.Len64"
	}
	sig := unparen(sub.Y)
	if sigOf(sig) {
		return "hex", true, "the pad count `" + exprStr(init.Rhs[0]) + "` counts 0 significant digits for the value 0, but strconv.AppendUint still writes one digit: the field is digits+1 characters wide for 0 and every following field is shifted (the reader consumes exactly digits characters)"
	}
	if mc, ok := sig.(*ast.CallExpr); ok && exprStr(mc.Fun) == "max" && len(mc.Args) == 2 {
		if _, isB := info.Uses[mc.Fun.(*ast.Ident)].(*types.Builtin); isB {
			for i := 0; i < 2; i++ {
				if v, okc := constInt(info, mc.Args[i]); okc && v == 1 && sigOf(mc.Args[1-i]) {
					return "hex", false, ""
				}
			}
		}
	}
	return "", false, "significant digit count `" + exprStr(sub.Y) + "` not recognised"
}
