package main

import (
	"fmt"
	"go/ast"
	"go/token"
	"go/types"
	"path/filepath"
	"strings"
)

func init() {
	register(&Prop{
		ID:        "C16",
		Level:     "other",
		Technique: "effect whitelist over every decoder of pkg/kmsg (all input access goes through kbin.Reader), allocation-source rule (every make() size in a decoder derives from a length reader that is bounded by the remaining input, after the reader's failure test), loop/index idiom rule for decoded arrays, guard rule on the bounded length readers of both kbin copies, dominating-guard bounds proof of the kbin reader copy inside pkg/kmsg, idiom rules (grow-or-truncate to the decoded length, counted loop below that length, range loop) for every index/slice of the hand-written decoders, field-width agreement of the hand-written Record codec, definite-assignment (must-pass-through on the CFG) of zero-declared interface/pointer/func locals before each dereference in pkg/kgo/source.go",
		Explanation: "(1) no decoder of pkg/kmsg (every readFrom, the ReadFrom/UnsafeReadFrom wrappers, ReadTags/SkipTags/internalReadTags) indexes or slices its input: src is only wrapped into kbin.Reader{Src: src} and every byte is obtained through a kbin.Reader method (whose bounds C17 proves); " +
			"(2) every make() in a decoder (readFrom, the wrappers and the tag readers) has a size that derives only from kbin.Reader.ArrayLen / CompactArrayLen / VarintArrayLen (possibly clamped at zero, possibly minus an existing capacity); in generated decoders the allocation is under `l > 0` and after the `if !b.Ok() { return b.Complete() }` bail-out that follows the length read; " +
			"(3) those three readers return a non-zero length r only when len(b.Src) >= r and otherwise poison the reader (bad = true, Src = nil), in pkg/kbin and in pkg/kmsg/internal/kbin; so each allocation is at most (remaining input) elements, and after a failed read no further allocation happens; " +
			"(3b) every index/slice/binary.BigEndian access of pkg/kmsg/internal/kbin (the reader the decoders use) is proven in bounds from dominating guards; " +
			"(4) every index into a decoded array is `a[i]` inside `for i := 0; i < l; i++` directly after `a = a[:0]; if l > 0 { a = append(a, make(T, l)...) }` with the same a, l, i (or a range loop over the array itself); " +
			"(5) every index/slice in the hand-written decoders of pkg/kmsg (api.go, record.go) is one of: the idiom of (4); `S[:cap(S)]` / `S[:N]` inside `need := N - cap(S); if need > 0 { S = append(S[:cap(S)], make(T, need)...) } else { S = S[:N] }` with N clamped at zero (afterwards len(S) == N); `S[i]` in a loop `i < N` following that idiom; `S[i]` in `for i := range S`; " +
			"(6) Record: the field written as the timestamp delta varlong is the full-width field the reader stores the varlong into (the narrow int32 copy is only the zero-fallback), so re-encoding a decoded record does not truncate; " +
			"(7) in every function of pkg/kgo/source.go (the fetch / legacy message-set / record-batch decoding file) and in the hand-written kmsg decoders, a local declared without a value whose type is an interface, pointer or func (e.g. `var msg readerFrom` chosen by the switch on the magic byte) is assigned on every control-flow path from its declaration to each dereferencing use (method call/value through the interface, field access or * through the pointer, call of the func); edges that need the variable to be non-nil are not followed; uses inside function literals are decided inside the literal or at the literal's calls/creation. A path without assignment (such as a bare `break` in a switch arm that only leaves the switch) is a nil-dereference panic on the input that drives it.",
		NotDecided:  "CPU time on hostile tag counts (SkipTags/ReadTags loop up to 2^32 times on an exhausted reader, allocating nothing); the constant of the memory bound (element sizes); re-encode/decode equality beyond writer==reader schema agreement, which C15 validates for generated types; kgo's own batch decoders beyond clause 7 (C06); clause 7 is path-insensitive apart from nil tests of the variable itself (correlated conditions would be reported, none exist on the pinned tree), treats `&x` and any assignment of a non-nil-literal value as making x non-nil, and does not cover locals initialised to a possibly-nil value, struct fields or results of map lookups / type assertions.",
		Assumptions: []string{"kbin.Reader methods never read out of bounds and Span(n) fails without allocating when n exceeds the remaining input (C17 clause 5)"},
		Run:         runC16,
	})
}

var c16lenReaders = map[string]bool{"ArrayLen": true, "CompactArrayLen": true, "VarintArrayLen": true}

func c16isReaderType(t types.Type) bool {
	if p, ok := t.(*types.Pointer); ok {
		t = p.Elem()
	}
	n, ok := t.(*types.Named)
	return ok && n.Obj().Name() == "Reader" && n.Obj().Pkg() != nil && n.Obj().Pkg().Name() == "kbin"
}

func runC16(c *Ctx) {
	m := c.Load("pkg/kmsg")
	if m == nil {
		return
	}
	var decoders []*Func
	for _, f := range m.FuncsIn("kmsg") {
		switch f.Decl.Name.Name {
		case "readFrom", "ReadFrom", "UnsafeReadFrom", "ReadTags", "SkipTags", "internalReadTags":
			decoders = append(decoders, f)
		}
	}
	c.Floor("decoders", len(decoders), 600)
	nMake, nIdx, nSrc := 0, 0, 0
	for _, f := range decoders {
		c16decoder(c, m, f, &nMake, &nIdx, &nSrc)
	}
	c.Floor("decoder-allocation-source/make-sites", nMake, 400)
	c.Floor("decoded-array-index/index-sites", nIdx, 400)
	c.Floor("decoder-reads-through-reader/src-uses", nSrc, 200)
	c.Set("decoders", len(decoders))
	// (3) bounded length readers, both copies
	root := c.Load("")
	for _, mm := range []*Module{root, m} {
		if mm == nil {
			continue
		}
		for name := range c16lenReaders {
			key := "kbin.Reader." + name
			f := c.NeedFunc(mm, key)
			if f == nil {
				continue
			}
			c16lenReader(c, mm, f)
		}
	}
	// (3b) the reader the decoders actually use (pkg/kmsg/internal/kbin): every
	// index/slice of it is proven in bounds from dominating guards (C17 proves
	// the same for pkg/kbin and that the two files are identical)
	var kkeys []string
	for _, f := range m.FuncsIn("kbin") {
		kkeys = append(kkeys, f.Key)
	}
	nk := boundsRule(c, m, "reader-bounds", kkeys, kbinSummaries, nil)
	c.Floor("reader-bounds/sinks", nk, 45)
	// (5) hand-written decoders: every slice index / slice expression is one of the recognised idioms
	nHand := 0
	for _, f := range decoders {
		file := filepath.Base(m.Fset.Position(f.Decl.Pos()).Filename)
		if file != "api.go" && file != "record.go" {
			continue
		}
		nHand++
		c16handwritten(c, m, f)
	}
	c.Floor("handwritten-decoders", nHand, 9)
	c16record(c, m)
	// re-encoding a decoded value keeps every unknown tag (C15 clause 8, re-derived
	// here for the round-trip clause): Tags.Set/Len/Each/AppendEach and the tag readers
	c15Tags(c, m)
	c16arrayConversions(c, m, root)
	c16round4(c, m, root)
}

// c16arrayConversions: a slice-to-array (or array pointer) conversion panics
// when the slice is shorter than the array; Reader.Span returns nil on short
// input.  In both kbin copies and in pkg/kmsg such a conversion must be
// dominated by a length test of its operand.
func c16arrayConversions(c *Ctx, m, root *Module) {
	rule := "no-unchecked-slice-to-array"
	n := 0
	check := func(mm *Module, pkgs ...string) {
		if mm == nil {
			return
		}
		for _, pk := range pkgs {
			for _, f := range mm.FuncsIn(pk) {
				info := f.Info()
				ast.Inspect(f.Decl.Body, func(x ast.Node) bool {
					call, ok := x.(*ast.CallExpr)
					if !ok || len(call.Args) != 1 {
						return true
					}
					tv, ok := info.Types[call.Fun]
					if !ok || !tv.IsType() {
						return true
					}
					var arr *types.Array
					switch t := tv.Type.Underlying().(type) {
					case *types.Array:
						arr = t
					case *types.Pointer:
						arr, _ = t.Elem().Underlying().(*types.Array)
					}
					if arr == nil {
						return true
					}
					at := info.Types[call.Args[0]].Type
					if at == nil {
						return true
					}
					if _, isSlice := at.Underlying().(*types.Slice); !isSlice {
						return true
					}
					n++
					// a dominating fact len(arg) >= N (or !(len(arg) < N))
					g := f.GraphFor(call)
					l, okl := g.LocOf(call)
					if !okl {
						if st := enclosingStmt(f.Decl.Body, call); st != nil {
							l, okl = g.LocOf(st)
						}
					}
					arg := nosp(exprStr(call.Args[0]))
					proven := false
					if okl {
						for _, ft := range g.FactsAt(l) {
							be, isB := unparen(ft.Cond).(*ast.BinaryExpr)
							if !isB || nosp(exprStr(be.X)) != "len("+arg+")" {
								continue
							}
							v, isC := constInt(info, be.Y)
							if !isC {
								continue
							}
							if (be.Op == token.GEQ && ft.Val && v >= arr.Len()) || (be.Op == token.LSS && !ft.Val && v >= arr.Len()) || (be.Op == token.EQL && ft.Val && v == arr.Len()) {
								proven = true
							}
						}
					}
					c.Check(proven, rule, f.Key+": "+exprStr(call), call.Pos(), mm, "operand length checked", "a slice is converted to an array of "+fmt.Sprint(arr.Len())+" elements without a dominating length test (Span returns nil on short input): a truncated message panics the decoder instead of returning an error")
					return true
				})
			}
		}
	}
	check(m, "kmsg", "kbin")
	check(root, "kbin")
	c.Set("slice_to_array_conversions", n)
}

func c16decoder(c *Ctx, m *Module, f *Func, nMake, nIdx, nSrc *int) {
	info := f.Info()
	c.Touch(f)
	rule1 := "decoder-reads-through-reader"
	// the src parameter
	var src types.Object
	for _, fl := range f.Decl.Type.Params.List {
		for _, nm := range fl.Names {
			if t, ok := info.Defs[nm].Type().(*types.Slice); ok {
				if b, ok := t.Elem().(*types.Basic); ok && b.Kind() == types.Byte {
					src = info.Defs[nm]
				}
			}
		}
	}
	pm := parentMap(f.Decl.Body)
	bad := ""
	ast.Inspect(f.Decl.Body, func(x ast.Node) bool {
		switch n := x.(type) {
		case *ast.Ident:
			if src != nil && info.Uses[n] == src {
				*nSrc++
				ok := false
				switch p := pm[n].(type) {
				case *ast.KeyValueExpr:
					if k, isId := p.Key.(*ast.Ident); isId && k.Name == "Src" && p.Value == ast.Expr(n) {
						if cl, isCl := pm[p].(*ast.CompositeLit); isCl && c16isReaderType(info.Types[cl].Type) {
							ok = true
						}
					}
				case *ast.CallExpr:
					// forwarded unchanged to the sibling decoder (ReadFrom -> readFrom)
					if fn, isFn := calleeObj(info, p).(*types.Func); isFn && (fn.Name() == "readFrom" || fn.Name() == "ReadFrom") {
						ok = true
					}
				}
				if !ok && bad == "" {
					bad = "the input slice is used directly (" + nodeStr(pm[n]) + ") instead of through kbin.Reader"
				}
			}
		case *ast.IndexExpr, *ast.SliceExpr:
			var base ast.Expr
			if ix, ok := n.(*ast.IndexExpr); ok {
				base = ix.X
			} else {
				base = n.(*ast.SliceExpr).X
			}
			if tv, ok := info.Types[base]; ok && tv.Type != nil {
				isBytes := false
				switch t := tv.Type.Underlying().(type) {
				case *types.Slice:
					if b, ok := t.Elem().Underlying().(*types.Basic); ok && b.Kind() == types.Byte {
						isBytes = true
					}
				case *types.Basic:
					isBytes = t.Info()&types.IsString != 0
				}
				if isBytes && bad == "" {
					bad = "raw bytes are indexed/sliced in a decoder (" + nodeStr(n) + ")"
				}
			}
		}
		return true
	})
	c.Check(bad == "", rule1, f.Key, f.Pos(), m, "input only through kbin.Reader", bad)
	generated := f.Decl.Name.Name == "readFrom" && (filepath.Base(m.Fset.Position(f.Decl.Pos()).Filename) == "generated.go" || f.Key == "kmsg.Record.readFrom")
	g := f.Graph()
	// (2) allocation sources
	rule2 := "decoder-allocation-source"
	k := 0
	ast.Inspect(f.Decl.Body, func(x ast.Node) bool {
		call, ok := x.(*ast.CallExpr)
		if !ok {
			return true
		}
		id, ok := call.Fun.(*ast.Ident)
		if !ok || id.Name != "make" || len(call.Args) < 2 {
			return true
		}
		if _, isB := info.Uses[id].(*types.Builtin); !isB {
			return true
		}
		*nMake++
		k++
		cons := fmt.Sprintf("%s: %s #%d", f.Key, exprStr(call), k)
		why := ""
		for _, sz := range call.Args[1:] {
			if _, isC := constInt(info, sz); isC {
				continue
			}
			if w := c16sizeSource(f, sz, 0); w != "" {
				why = w
			}
		}
		if why != "" {
			c.Fail(rule2, cons, call.Pos(), m, "allocation size "+why+": a hostile length can force an allocation unrelated to the input size")
			return true
		}
		if generated {
			l, okl := g.LocOf(call)
			if !okl {
				l, okl = g.LocOf(enclosingStmt(f.Decl.Body, call))
			}
			facts := g.FactsAt(l)
			pos := factMatches(facts, func(ft Fact) bool {
				be, ok := unparen(ft.Cond).(*ast.BinaryExpr)
				return ft.Val && ok && be.Op == token.GTR && exprStr(be.X) == exprStr(call.Args[1]) && exprStr(be.Y) == "0"
			})
			okFact := factMatches(facts, func(ft Fact) bool {
				return !ft.Val && strings.HasSuffix(nosp(exprStr(ft.Cond)), "!b.Ok()") || ft.Val && nosp(exprStr(ft.Cond)) == "b.Ok()"
			})
			c.Check(okl && pos && okFact, rule2, cons, call.Pos(), m, "from a bounded length reader, after the b.Ok() bail-out, under l > 0", "the allocation is not guarded by `l > 0` and the `!b.Ok()` bail-out: after a failed read the loop would allocate for a garbage length")
			return true
		}
		c.OK(rule2, cons, call.Pos(), m, "size derives from a bounded length reader")
		return true
	})
	if f.Decl.Name.Name != "readFrom" {
		return
	}
	// (4) index idiom
	rule4 := "decoded-array-index"
	k = 0
	ast.Inspect(f.Decl.Body, func(x ast.Node) bool {
		ix, ok := x.(*ast.IndexExpr)
		if !ok {
			return true
		}
		tv, ok := info.Types[ix.X]
		if !ok || tv.Type == nil {
			return true
		}
		if _, isSlice := tv.Type.Underlying().(*types.Slice); !isSlice {
			return true
		}
		if !generated {
			return true // hand-written: rule 5
		}
		*nIdx++
		k++
		cons := fmt.Sprintf("%s: %s #%d", f.Key, exprStr(ix), k)
		c.Check(c16indexIdiom(f, pm, ix), rule4, cons, ix.Pos(), m, "a[i] with i < l right after a was sized to l", "index into a decoded array outside the `a = a[:0]; if l > 0 { a = append(a, make(T, l)...) }; for i := 0; i < l; i++` idiom: may be out of range")
		return true
	})
}

// c16sizeSource explains why the size expression is not derived from a
// bounded length reader ("" when it is).
func c16sizeSource(f *Func, sz ast.Expr, depth int) string {
	info := f.Info()
	sz = unparen(sz)
	if depth > 4 {
		return "`" + exprStr(sz) + "` has too deep a definition chain"
	}
	if _, ok := constInt(info, sz); ok {
		return ""
	}
	switch n := sz.(type) {
	case *ast.CallExpr:
		// conversion
		if tv, ok := info.Types[n.Fun]; ok && tv.IsType() && len(n.Args) == 1 {
			return c16sizeSource(f, n.Args[0], depth+1)
		}
		if sel, ok := n.Fun.(*ast.SelectorExpr); ok && c16lenReaders[sel.Sel.Name] {
			if tv, ok := info.Types[sel.X]; ok && c16isReaderType(tv.Type) {
				return ""
			}
		}
		return "`" + exprStr(sz) + "` is not a bounded length reader (ArrayLen / CompactArrayLen / VarintArrayLen)"
	case *ast.BinaryExpr:
		if n.Op == token.SUB {
			// bounded - (cap/len of an existing slice): still bounded
			if c16nonNeg(info, n.Y) {
				return c16sizeSource(f, n.X, depth+1)
			}
		}
		return "`" + exprStr(sz) + "` is computed arithmetically"
	case *ast.Ident:
		obj := info.Uses[n]
		if obj == nil {
			obj = info.Defs[n]
		}
		rhss := assignsTo(f, obj)
		if len(rhss) == 0 {
			return "`" + n.Name + "` has no visible definition"
		}
		for _, r := range rhss {
			if r == nil {
				return "`" + n.Name + "` is assigned from a multi-value expression"
			}
			if w := c16sizeSource(f, r, depth+1); w != "" {
				return w
			}
		}
		// increments / compound assignments
		bad := ""
		ast.Inspect(f.Decl.Body, func(x ast.Node) bool {
			switch s := x.(type) {
			case *ast.IncDecStmt:
				if id, ok := s.X.(*ast.Ident); ok && info.Uses[id] == obj {
					bad = "`" + n.Name + "` is incremented"
				}
			case *ast.AssignStmt:
				if s.Tok != token.ASSIGN && s.Tok != token.DEFINE {
					for _, l := range s.Lhs {
						if id, ok := l.(*ast.Ident); ok && info.Uses[id] == obj {
							bad = "`" + n.Name + "` is modified by " + s.Tok.String()
						}
					}
				}
			}
			return true
		})
		return bad
	}
	return "`" + exprStr(sz) + "` is not derived from a bounded length reader"
}

func c16nonNeg(info *types.Info, e ast.Expr) bool {
	e = unparen(e)
	if call, ok := e.(*ast.CallExpr); ok {
		if tv, ok := info.Types[call.Fun]; ok && tv.IsType() && len(call.Args) == 1 {
			return c16nonNeg(info, call.Args[0])
		}
		if id, ok := call.Fun.(*ast.Ident); ok && (id.Name == "cap" || id.Name == "len") {
			_, isB := info.Uses[id].(*types.Builtin)
			return isB
		}
	}
	return false
}

// c16indexIdiom recognises `a[i]` in the generated array loop.
func c16indexIdiom(f *Func, pm map[ast.Node]ast.Node, ix *ast.IndexExpr) bool {
	info := f.Info()
	aID, ok1 := ix.X.(*ast.Ident)
	iID, ok2 := ix.Index.(*ast.Ident)
	if !ok1 || !ok2 {
		return false
	}
	aObj, iObj := info.Uses[aID], info.Uses[iID]
	// the loop that defines i
	var loop ast.Stmt
	for p := pm[ix]; p != nil; p = pm[p] {
		switch s := p.(type) {
		case *ast.ForStmt:
			if as, ok := s.Init.(*ast.AssignStmt); ok && len(as.Lhs) == 1 {
				if id, ok := as.Lhs[0].(*ast.Ident); ok && info.Defs[id] == iObj {
					loop = s
				}
			}
		case *ast.RangeStmt:
			if id, ok := s.Key.(*ast.Ident); ok && info.Defs[id] == iObj {
				loop = s
			}
		}
		if loop != nil {
			break
		}
	}
	if loop == nil {
		return false
	}
	assignedIn := func(root ast.Node, obj types.Object) bool {
		return containsNode(root, true, func(y ast.Node) bool {
			switch s := y.(type) {
			case *ast.AssignStmt:
				for _, l := range s.Lhs {
					if id, ok := l.(*ast.Ident); ok && info.Uses[id] == obj {
						return true
					}
				}
			case *ast.IncDecStmt:
				if id, ok := s.X.(*ast.Ident); ok && info.Uses[id] == obj {
					return true
				}
			}
			return false
		})
	}
	switch s := loop.(type) {
	case *ast.RangeStmt:
		// for i := range a { a[i] }
		id, ok := s.X.(*ast.Ident)
		return ok && info.Uses[id] == aObj && !assignedIn(s.Body, aObj) && !assignedIn(s.Body, iObj)
	case *ast.ForStmt:
		init := s.Init.(*ast.AssignStmt)
		if v, ok := constInt(info, unparenConv(info, init.Rhs[0])); !ok || v != 0 {
			return false
		}
		cond, ok := s.Cond.(*ast.BinaryExpr)
		if !ok || cond.Op != token.LSS {
			return false
		}
		ci, ok1 := cond.X.(*ast.Ident)
		lID, ok2 := cond.Y.(*ast.Ident)
		if !ok1 || !ok2 || info.Uses[ci] != iObj {
			return false
		}
		lObj := info.Uses[lID]
		post, ok := s.Post.(*ast.IncDecStmt)
		if !ok || post.Tok != token.INC || exprStr(post.X) != iID.Name {
			return false
		}
		if assignedIn(s.Body, aObj) || assignedIn(s.Body, iObj) || assignedIn(s.Body, lObj) {
			return false
		}
		// the two statements before the loop
		var list []ast.Stmt
		switch b := pm[s].(type) {
		case *ast.BlockStmt:
			list = b.List
		case *ast.CaseClause:
			list = b.Body
		default:
			return false
		}
		idx := -1
		for i, st := range list {
			if st == ast.Stmt(s) {
				idx = i
			}
		}
		if idx < 2 {
			return false
		}
		trunc, ok := list[idx-2].(*ast.AssignStmt)
		if !ok || len(trunc.Lhs) != 1 || exprStr(trunc.Lhs[0]) != aID.Name || nosp(exprStr(trunc.Rhs[0])) != aID.Name+"[:0]" {
			return false
		}
		if o := info.Uses[trunc.Lhs[0].(*ast.Ident)]; o != aObj {
			return false
		}
		ifs, ok := list[idx-1].(*ast.IfStmt)
		if !ok || ifs.Else != nil || len(ifs.Body.List) != 1 {
			return false
		}
		gc, ok := ifs.Cond.(*ast.BinaryExpr)
		if !ok || gc.Op != token.GTR || exprStr(gc.Y) != "0" {
			return false
		}
		if id, ok := gc.X.(*ast.Ident); !ok || info.Uses[id] != lObj {
			return false
		}
		grow, ok := ifs.Body.List[0].(*ast.AssignStmt)
		if !ok || len(grow.Lhs) != 1 || len(grow.Rhs) != 1 {
			return false
		}
		if id, ok := grow.Lhs[0].(*ast.Ident); !ok || info.Uses[id] != aObj {
			return false
		}
		app, ok := grow.Rhs[0].(*ast.CallExpr)
		if !ok || exprStr(app.Fun) != "append" || len(app.Args) != 2 || app.Ellipsis == token.NoPos {
			return false
		}
		if id, ok := app.Args[0].(*ast.Ident); !ok || info.Uses[id] != aObj {
			return false
		}
		mk, ok := app.Args[1].(*ast.CallExpr)
		if !ok || exprStr(mk.Fun) != "make" || len(mk.Args) != 2 {
			return false
		}
		if id, ok := mk.Args[1].(*ast.Ident); !ok || info.Uses[id] != lObj {
			return false
		}
		return true
	}
	return false
}

func unparenConv(info *types.Info, e ast.Expr) ast.Expr {
	e = unparen(e)
	if call, ok := e.(*ast.CallExpr); ok && len(call.Args) == 1 {
		if tv, ok := info.Types[call.Fun]; ok && tv.IsType() {
			return unparenConv(info, call.Args[0])
		}
	}
	return e
}

// c16lenReader: the only non-zero return is under len(b.Src) >= r; the failure arm poisons the reader.
func c16lenReader(c *Ctx, m *Module, f *Func) {
	rule := "bounded-length-reader"
	g := f.Graph()
	pkgPath := f.Pkg.PkgPath
	cons := pkgPath + ": " + f.Key
	nRet := 0
	okAll := true
	var failIf *ast.IfStmt
	ast.Inspect(f.Decl.Body, func(x ast.Node) bool {
		switch s := x.(type) {
		case *ast.IfStmt:
			if nosp(exprStr(s.Cond)) == "len(b.Src)<int(r)" {
				failIf = s
			}
		case *ast.ReturnStmt:
			nRet++
			if len(s.Results) != 1 {
				okAll = false
				return true
			}
			if v, isC := constInt(f.Info(), s.Results[0]); isC && v == 0 {
				return true
			}
			l, _ := g.LocOf(s)
			guarded := factMatches(g.FactsAt(l), func(ft Fact) bool { return !ft.Val && nosp(exprStr(ft.Cond)) == "len(b.Src)<int(r)" })
			if !guarded || exprStr(s.Results[0]) != "r" {
				okAll = false
			}
		}
		return true
	})
	poison := false
	if failIf != nil {
		body := nows(printNode(m.Fset, failIf.Body))
		poison = strings.Contains(body, "b.bad=true") && strings.Contains(body, "b.Src=nil") && strings.Contains(body, "return0")
	}
	// r is not modified between the guard and the return
	rObj := localObj(f, "r")
	nDef := len(assignsTo(f, rObj))
	c.Check(okAll && nRet >= 2 && poison && nDef == 1, rule, cons, f.Pos(), m, "returns r only when len(b.Src) >= r, else poisons the reader", "the length reader can return a length larger than the remaining input (or does not poison the reader on failure): decoders allocate that many elements")
}

func c16record(c *Ctx, m *Module) {
	rule := "record-timestamp-width"
	rf := c.NeedFunc(m, "kmsg.Record.readFrom")
	wf := c.NeedFunc(m, "kmsg.Record.AppendTo")
	if rf == nil || wf == nil {
		return
	}
	// reader: the field that receives the varlong unconverted
	wide, narrow := "", ""
	ast.Inspect(rf.Decl.Body, func(x ast.Node) bool {
		blk, ok := x.(*ast.BlockStmt)
		if !ok || len(blk.List) < 2 {
			return true
		}
		first, ok := blk.List[0].(*ast.AssignStmt)
		if !ok || len(first.Rhs) != 1 || nosp(exprStr(first.Rhs[0])) != "b.Varlong()" {
			return true
		}
		v := exprStr(first.Lhs[0])
		for _, st := range blk.List[1:] {
			as, ok := st.(*ast.AssignStmt)
			if !ok || len(as.Lhs) != 1 {
				continue
			}
			sel, ok := as.Lhs[0].(*ast.SelectorExpr)
			if !ok {
				continue
			}
			switch nosp(exprStr(as.Rhs[0])) {
			case v:
				wide = sel.Sel.Name
			case "int32(" + v + ")":
				narrow = sel.Sel.Name
			}
		}
		return true
	})
	if wide == "" {
		c.Undecided(rule, rf.Key, rf.Pos(), m, "the varlong timestamp delta store was not found")
		return
	}
	// writer: AppendVarlong(dst, d): d's primary definition is v.<wide>; the narrow field only under d == 0
	okW := false
	detail := ""
	for _, call := range callsNamed(wf.Decl.Body, wf.Info(), "AppendVarlong", false) {
		id, ok := call.Args[1].(*ast.Ident)
		if !ok {
			if sel, ok := call.Args[1].(*ast.SelectorExpr); ok && sel.Sel.Name == wide {
				okW = true
			}
			continue
		}
		obj := wf.Info().Uses[id]
		g := wf.Graph()
		prim, fallbackOK := "", true
		ast.Inspect(wf.Decl.Body, func(x ast.Node) bool {
			as, ok := x.(*ast.AssignStmt)
			if !ok || len(as.Lhs) != 1 {
				return true
			}
			lid, ok := as.Lhs[0].(*ast.Ident)
			if !ok || (wf.Info().Defs[lid] != obj && wf.Info().Uses[lid] != obj) {
				return true
			}
			rhs := unparenConv(wf.Info(), as.Rhs[0])
			sel, _ := rhs.(*ast.SelectorExpr)
			if as.Tok == token.DEFINE {
				if sel != nil {
					prim = sel.Sel.Name
				}
				return true
			}
			l, _ := g.LocOf(as)
			zero := factMatches(g.FactsAt(l), func(ft Fact) bool { return ft.Val && nosp(exprStr(ft.Cond)) == id.Name+"==0" })
			if !zero || sel == nil || sel.Sel.Name != narrow {
				fallbackOK = false
			}
			return true
		})
		okW = prim == wide && fallbackOK
		detail = "AppendVarlong writes `" + id.Name + "`, primarily " + prim
	}
	c.Check(okW, rule, wf.Key+": timestamp delta written from "+wide, wf.Pos(), m, "the decoded 64-bit delta is what is re-encoded", "Record.AppendTo does not write the full-width "+wide+" the decoder stores ("+detail+"): re-encoding a decoded record with a delta beyond int32 truncates it")
}

// c16handwritten classifies every index/slice expression on a slice in a hand-written decoder.
func c16handwritten(c *Ctx, m *Module, f *Func) {
	rule := "handwritten-decoder-index"
	info := f.Info()
	pm := parentMap(f.Decl.Body)
	if f.Key == "kmsg.Record.readFrom" {
		return // generated shape: checked by decoded-array-index
	}
	// grow-or-truncate idiom instances: slice text -> length variable object
	type grow struct {
		ifs *ast.IfStmt
		n   types.Object
	}
	grows := map[string]grow{}
	ast.Inspect(f.Decl.Body, func(x ast.Node) bool {
		ifs, ok := x.(*ast.IfStmt)
		if !ok || ifs.Else == nil || len(ifs.Body.List) != 1 {
			return true
		}
		cond, ok := ifs.Cond.(*ast.BinaryExpr)
		if !ok || cond.Op != token.GTR || exprStr(cond.Y) != "0" {
			return true
		}
		needID, ok := cond.X.(*ast.Ident)
		if !ok {
			return true
		}
		needDef := singleDef(f, info.Uses[needID])
		if needDef == nil {
			return true
		}
		sub, ok := unparen(needDef).(*ast.BinaryExpr)
		if !ok || sub.Op != token.SUB {
			return true
		}
		nID, ok := unparen(sub.X).(*ast.Ident)
		if !ok {
			return true
		}
		capCall, ok := unparenConv(info, sub.Y).(*ast.CallExpr)
		if !ok || exprStr(capCall.Fun) != "cap" || len(capCall.Args) != 1 {
			return true
		}
		S := nosp(exprStr(capCall.Args[0]))
		thenAs, ok := ifs.Body.List[0].(*ast.AssignStmt)
		if !ok || len(thenAs.Lhs) != 1 || nosp(exprStr(thenAs.Lhs[0])) != S {
			return true
		}
		rhs := nosp(exprStr(thenAs.Rhs[0]))
		if !strings.HasPrefix(rhs, "append("+S+"[:cap("+S+")],make(") || !strings.HasSuffix(rhs, ","+needID.Name+")...)") {
			return true
		}
		eb, ok := ifs.Else.(*ast.BlockStmt)
		if !ok || len(eb.List) != 1 {
			return true
		}
		elseAs, ok := eb.List[0].(*ast.AssignStmt)
		if !ok || len(elseAs.Lhs) != 1 || nosp(exprStr(elseAs.Lhs[0])) != S || nosp(exprStr(elseAs.Rhs[0])) != S+"[:"+nID.Name+"]" {
			return true
		}
		// N is clamped at zero before
		nObj := info.Uses[nID]
		clamped := false
		ast.Inspect(f.Decl.Body, func(y ast.Node) bool {
			ci, ok := y.(*ast.IfStmt)
			if !ok || ci.Pos() > ifs.Pos() || ci.Else != nil || len(ci.Body.List) != 1 {
				return true
			}
			if nosp(exprStr(ci.Cond)) == nID.Name+"<0" && nosp(nodeStr(ci.Body.List[0])) == nID.Name+"=0" {
				if id, ok := ci.Cond.(*ast.BinaryExpr).X.(*ast.Ident); ok && info.Uses[id] == nObj {
					clamped = true
				}
			}
			return true
		})
		if clamped {
			grows[S] = grow{ifs, nObj}
		}
		return true
	})
	k := 0
	ast.Inspect(f.Decl.Body, func(x ast.Node) bool {
		var base ast.Expr
		switch n := x.(type) {
		case *ast.IndexExpr:
			base = n.X
		case *ast.SliceExpr:
			base = n.X
		default:
			return true
		}
		tv, ok := info.Types[base]
		if !ok || tv.Type == nil {
			return true
		}
		if _, isSlice := tv.Type.Underlying().(*types.Slice); !isSlice {
			return true
		}
		k++
		cons := fmt.Sprintf("%s: %s #%d", f.Key, exprStr(x.(ast.Expr)), k)
		S := nosp(exprStr(base))
		okIdiom := false
		switch n := x.(type) {
		case *ast.SliceExpr:
			if gr, ok := grows[S]; ok && n.Pos() >= gr.ifs.Pos() && n.End() <= gr.ifs.End() {
				okIdiom = true // S[:cap(S)] / S[:N] of the idiom itself (shape matched above)
			}
		case *ast.IndexExpr:
			iID, isID := n.Index.(*ast.Ident)
			if !isID {
				break
			}
			iObj := info.Uses[iID]
			for p := pm[n]; p != nil && !okIdiom; p = pm[p] {
				switch lp := p.(type) {
				case *ast.RangeStmt:
					if id, ok := lp.Key.(*ast.Ident); ok && info.Defs[id] == iObj && nosp(exprStr(lp.X)) == S {
						okIdiom = true
					}
				case *ast.ForStmt:
					init, ok := lp.Init.(*ast.AssignStmt)
					if !ok || len(init.Lhs) != 1 {
						continue
					}
					if id, ok := init.Lhs[0].(*ast.Ident); !ok || info.Defs[id] != iObj {
						continue
					}
					if v, ok := constInt(info, unparenConv(info, init.Rhs[0])); !ok || v != 0 {
						continue
					}
					cond, ok := lp.Cond.(*ast.BinaryExpr)
					if !ok || cond.Op != token.LSS || exprStr(cond.X) != iID.Name {
						continue
					}
					nID, ok := cond.Y.(*ast.Ident)
					gr, has := grows[S]
					if ok && has && info.Uses[nID] == gr.n && lp.Pos() > gr.ifs.End() {
						// S and N not reassigned between the idiom and the use
						reassigned := false
						ast.Inspect(f.Decl.Body, func(y ast.Node) bool {
							as, ok := y.(*ast.AssignStmt)
							if !ok || as.Pos() < gr.ifs.End() || as.Pos() > n.Pos() {
								return true
							}
							for _, l := range as.Lhs {
								if nosp(exprStr(l)) == S {
									reassigned = true
								}
								if id, ok := l.(*ast.Ident); ok && info.Uses[id] == gr.n {
									reassigned = true
								}
							}
							return true
						})
						okIdiom = !reassigned
					}
				}
			}
		}
		c.Check(okIdiom, rule, cons, x.Pos(), m, "recognised length idiom", "index/slice in a hand-written decoder that is not covered by a recognised length idiom: may panic on hostile input")
		return true
	})
}
