package main

// C15, part 5: the container of unknown tagged fields (kmsg.Tags, hand-written
// in pkg/kmsg/api.go). Every generated decoder stores unknown tags through
// Tags.Set (directly in the default arm of a tag switch, or through
// internalReadTags) and every encoder counts them with Tags.Len and writes
// them with Tags.AppendEach. The structural clauses decided here:
//
//	(a) Set stores every (key, val) it is given, unconditionally;
//	(b) Len is the number of stored tags; Each visits every stored tag once in
//	    ascending key order; AppendEach writes uvarint key, uvarint len(val), val;
//	(c) internalReadTags / ReadTags read `count` x (key, size, size bytes) and
//	    store each under its key with exactly the bytes read.

import (
	"fmt"
	"go/ast"
	"go/token"
	"go/types"
	"strings"
)

type c15T struct {
	c    *Ctx
	m    *Module
	f    *Func
	info *types.Info
	fld  *types.Var   // the map field of Tags
	recv types.Object // receiver of the method under analysis
}

func (t *c15T) isObj(e ast.Expr, o types.Object) bool {
	id, ok := unparen(e).(*ast.Ident)
	return ok && o != nil && (t.info.Uses[id] == o || t.info.Defs[id] == o)
}

// isMap matches recv.<map field>.
func (t *c15T) isMap(e ast.Expr) bool {
	sel, ok := unparen(e).(*ast.SelectorExpr)
	return ok && sameField(fieldOfSel(t.info, sel), t.fld) && t.isObj(sel.X, t.recv)
}

// isLenMap matches len(recv.<map field>).
func (t *c15T) isLenMap(e ast.Expr) bool {
	c, ok := unparen(e).(*ast.CallExpr)
	if !ok || len(c.Args) != 1 {
		return false
	}
	b, ok := calleeObj(t.info, c).(*types.Builtin)
	return ok && b.Name() == "len" && t.isMap(c.Args[0])
}

func (t *c15T) stripConv(e ast.Expr) ast.Expr {
	x := &c15X{info: t.info}
	return x.stripConv(e)
}

func c15Params(f *Func) (recv types.Object, params []types.Object) {
	info := f.Info()
	if f.Decl.Recv != nil && len(f.Decl.Recv.List) == 1 && len(f.Decl.Recv.List[0].Names) == 1 {
		recv = info.Defs[f.Decl.Recv.List[0].Names[0]]
	}
	if f.Decl.Type.Params != nil {
		for _, fl := range f.Decl.Type.Params.List {
			for _, n := range fl.Names {
				params = append(params, info.Defs[n])
			}
		}
	}
	return
}

func c15Tags(c *Ctx, m *Module) {
	rule := "tags-container"
	pkg := m.Pkg("kmsg")
	var fld *types.Var
	if tn, _ := pkg.Types.Scope().Lookup("Tags").(*types.TypeName); tn != nil {
		if st, ok := tn.Type().Underlying().(*types.Struct); ok {
			for i := 0; i < st.NumFields(); i++ {
				if mp, ok := st.Field(i).Type().Underlying().(*types.Map); ok && types.TypeString(mp, nil) == "map[uint32][]byte" {
					if fld != nil {
						fld = nil
						break
					}
					fld = st.Field(i)
				}
			}
			if fld != nil && st.NumFields() != 1 {
				fld = nil // other state could shadow the map: not modelled
			}
		}
	}
	if fld == nil {
		c.Undecided(rule, "kmsg.Tags", token.NoPos, m, "Tags is not a struct holding exactly one map[uint32][]byte")
		return
	}
	mk := func(key string) *c15T {
		f := c.NeedFunc(m, key)
		if f == nil {
			return nil
		}
		t := &c15T{c: c, m: m, f: f, info: f.Info(), fld: fld}
		t.recv, _ = c15Params(f)
		return t
	}
	if t := mk("kmsg.Tags.Set"); t != nil {
		t.checkSet(rule)
	}
	if t := mk("kmsg.Tags.Len"); t != nil {
		t.checkLen(rule)
	}
	if t := mk("kmsg.Tags.Each"); t != nil {
		t.checkEach(rule)
	}
	if t := mk("kmsg.Tags.AppendEach"); t != nil {
		t.checkAppendEach(rule)
	}
	for _, k := range []string{"kmsg.internalReadTags", "kmsg.ReadTags"} {
		if t := mk(k); t != nil {
			t.checkReadTags(rule)
		}
	}
	c.Floor(rule, c.ruleCnt[rule], 6)
}

func (t *c15T) verdict(rule string, probs, unk []string, pos token.Pos, ok string, why string) {
	switch {
	case len(probs) > 0:
		t.c.Fail(rule, t.f.Key, pos, t.m, strings.Join(probs, "; ")+": "+why)
	case len(unk) > 0:
		t.c.Undecided(rule, t.f.Key, pos, t.m, "body is not the recognised shape: "+strings.Join(unk, "; "))
	default:
		t.c.OK(rule, t.f.Key, t.f.Pos(), t.m, ok)
	}
}

// (a) Set: [if t.m == nil { t.m = make(map...) }]* ; t.m[key] = val
func (t *c15T) checkSet(rule string) {
	_, ps := c15Params(t.f)
	var probs, unk []string
	pos := t.f.Pos()
	if len(ps) != 2 || t.recv == nil {
		t.c.Undecided(rule, t.f.Key, pos, t.m, "Set does not take (key, val)")
		return
	}
	key, val := ps[0], ps[1]
	mentions := func(n ast.Node, o types.Object) bool { return mentionsObj(n, t.info, o, true) }
	ast.Inspect(t.f.Decl.Body, func(n ast.Node) bool {
		switch s := n.(type) {
		case *ast.ReturnStmt:
			probs = append(probs, fmt.Sprintf("a path returns without storing the tag (%s)", t.m.Position(s.Pos())))
			pos = s.Pos()
		case *ast.CallExpr:
			if b, ok := calleeObj(t.info, s).(*types.Builtin); ok && (b.Name() == "delete" || b.Name() == "clear" || b.Name() == "panic") {
				probs = append(probs, fmt.Sprintf("%s(...) in Set (%s)", b.Name(), t.m.Position(s.Pos())))
				pos = s.Pos()
			}
		case *ast.IfStmt:
			if mentions(s.Cond, val) || mentions(s.Cond, key) || (s.Init != nil && (mentions(s.Init, val) || mentions(s.Init, key))) {
				probs = append(probs, fmt.Sprintf("condition `%s` depends on the tag being stored (%s)", exprStr(s.Cond), t.m.Position(s.Pos())))
				pos = s.Pos()
			}
		}
		return true
	})
	list := t.f.Decl.Body.List
	isStore := func(s ast.Stmt) bool {
		as, ok := s.(*ast.AssignStmt)
		if !ok || as.Tok != token.ASSIGN || len(as.Lhs) != 1 || len(as.Rhs) != 1 {
			return false
		}
		ix, ok := unparen(as.Lhs[0]).(*ast.IndexExpr)
		return ok && t.isMap(ix.X) && t.isObj(ix.Index, key) && t.isObj(as.Rhs[0], val)
	}
	isAlloc := func(s ast.Stmt) bool {
		is, ok := s.(*ast.IfStmt)
		if !ok || is.Init != nil || is.Else != nil || len(is.Body.List) != 1 {
			return false
		}
		be, ok := unparen(is.Cond).(*ast.BinaryExpr)
		if !ok || be.Op != token.EQL || !t.isMap(be.X) {
			return false
		}
		if id, ok := unparen(be.Y).(*ast.Ident); !ok || t.info.Uses[id] != types.Universe.Lookup("nil") {
			return false
		}
		as, ok := is.Body.List[0].(*ast.AssignStmt)
		if !ok || as.Tok != token.ASSIGN || len(as.Lhs) != 1 || !t.isMap(as.Lhs[0]) {
			return false
		}
		mc, ok := unparen(as.Rhs[0]).(*ast.CallExpr)
		if !ok {
			return false
		}
		b, ok := calleeObj(t.info, mc).(*types.Builtin)
		return ok && b.Name() == "make"
	}
	if len(list) == 0 || !isStore(list[len(list)-1]) {
		stored := false
		for _, s := range list {
			stored = stored || isStore(s)
		}
		if !stored {
			probs = append(probs, "no unconditional `map[key] = val` store")
		} else {
			unk = append(unk, "the store is not the last statement")
		}
	}
	for i := 0; i+1 < len(list); i++ {
		if !isAlloc(list[i]) && !isStore(list[i]) {
			unk = append(unk, fmt.Sprintf("statement `%s` before the store is not the allocate-on-demand idiom", nodeStr(list[i])))
		}
	}
	t.verdict(rule, probs, unk, pos, "stores every (key, val) unconditionally, allocating the map on demand",
		"every decoder keeps unknown tags through Tags.Set, so a tag Set does not store is dropped by ReadFrom and not re-encoded")
}

// (b) Len: return len(t.m)
func (t *c15T) checkLen(rule string) {
	e := c15SingleReturn(t.f)
	var probs, unk []string
	switch {
	case e == nil:
		unk = append(unk, "not a single return")
	case t.isLenMap(e):
	default:
		probs = append(probs, fmt.Sprintf("Len returns `%s`, not the number of stored tags", exprStr(e)))
	}
	t.verdict(rule, probs, unk, t.f.Pos(), "returns the number of stored tags",
		"AppendTo writes UnknownTags.Len() as part of the tag count, which must equal the number of tags AppendEach writes")
}

// (b) Each: [if len(t.m) == 0 { return }]; keys := make(...); for k := range t.m { keys = append(keys, k) }; sort ascending; for _, k := range keys { fn(k, t.m[k]) }
func (t *c15T) checkEach(rule string) {
	_, ps := c15Params(t.f)
	var probs, unk []string
	pos := t.f.Pos()
	if len(ps) != 1 {
		t.c.Undecided(rule, t.f.Key, pos, t.m, "Each does not take (fn)")
		return
	}
	fn := ps[0]
	list := t.f.Decl.Body.List
	i := 0
	// optional early exit on an empty map
	if i < len(list) {
		if is, ok := list[i].(*ast.IfStmt); ok {
			okExit := false
			if is.Init == nil && is.Else == nil && len(is.Body.List) == 1 {
				if rs, ok := is.Body.List[0].(*ast.ReturnStmt); ok && len(rs.Results) == 0 {
					if be, ok := unparen(is.Cond).(*ast.BinaryExpr); ok && be.Op == token.EQL && t.isLenMap(be.X) {
						if n, ok := constInt(t.info, be.Y); ok && n == 0 {
							okExit = true
						}
					}
					if !okExit {
						probs = append(probs, fmt.Sprintf("early return under `%s` skips stored tags", exprStr(is.Cond)))
						pos = is.Pos()
						okExit = true
					}
				}
			}
			if !okExit {
				unk = append(unk, "leading if is not the empty-map early return")
			}
			i++
		}
	}
	// keys := make([]uint32, 0, n)
	var keys types.Object
	if i < len(list) {
		if as, ok := list[i].(*ast.AssignStmt); ok && as.Tok == token.DEFINE && len(as.Lhs) == 1 {
			if mc, ok := unparen(as.Rhs[0]).(*ast.CallExpr); ok && len(mc.Args) >= 2 {
				if b, ok := calleeObj(t.info, mc).(*types.Builtin); ok && b.Name() == "make" {
					if n, ok := constInt(t.info, mc.Args[1]); ok && n == 0 {
						keys = t.info.Defs[as.Lhs[0].(*ast.Ident)]
					}
				}
			}
		}
	}
	if keys == nil {
		t.verdict(rule, probs, append(unk, "key slice `keys := make([]uint32, 0, n)` expected"), pos, "", "")
		return
	}
	i++
	// for k := range t.m { keys = append(keys, k) }
	okCollect := false
	if i < len(list) {
		if rs, ok := list[i].(*ast.RangeStmt); ok && rs.Tok == token.DEFINE && rs.Value == nil && t.isMap(rs.X) && len(rs.Body.List) == 1 {
			kid, _ := rs.Key.(*ast.Ident)
			if as, ok := rs.Body.List[0].(*ast.AssignStmt); ok && kid != nil && as.Tok == token.ASSIGN && len(as.Lhs) == 1 && t.isObj(as.Lhs[0], keys) {
				if ac, ok := unparen(as.Rhs[0]).(*ast.CallExpr); ok && len(ac.Args) == 2 && !ac.Ellipsis.IsValid() {
					if b, ok := calleeObj(t.info, ac).(*types.Builtin); ok && b.Name() == "append" && t.isObj(ac.Args[0], keys) && t.isObj(ac.Args[1], t.info.Defs[kid]) {
						okCollect = true
					}
				}
			}
			if !okCollect {
				// a range over the map whose body is conditional or different
				cond := false
				ast.Inspect(rs.Body, func(n ast.Node) bool {
					switch n.(type) {
					case *ast.IfStmt, *ast.BranchStmt, *ast.SwitchStmt:
						cond = true
					}
					return true
				})
				if cond {
					probs = append(probs, "the key collection loop skips some stored keys")
					pos = rs.Pos()
					okCollect = true
				}
			}
		}
	}
	if !okCollect {
		unk = append(unk, "`for k := range map { keys = append(keys, k) }` expected")
	}
	i++
	// sort ascending
	sorted := false
	if i < len(list) {
		if es, ok := list[i].(*ast.ExprStmt); ok {
			if sc, ok := es.X.(*ast.CallExpr); ok && len(sc.Args) >= 1 && t.isObj(sc.Args[0], keys) {
				if fo, ok := calleeObj(t.info, sc).(*types.Func); ok {
					switch fo.FullName() {
					case "slices.Sort":
						sorted = len(sc.Args) == 1
					case "sort.Slice":
						if fl, ok := unparen(sc.Args[1]).(*ast.FuncLit); ok && len(sc.Args) == 2 && len(fl.Body.List) == 1 {
							var lp []types.Object
							for _, f := range fl.Type.Params.List {
								for _, n := range f.Names {
									lp = append(lp, t.info.Defs[n])
								}
							}
							if rs, ok := fl.Body.List[0].(*ast.ReturnStmt); ok && len(rs.Results) == 1 && len(lp) == 2 {
								if be, ok := unparen(rs.Results[0]).(*ast.BinaryExpr); ok {
									at := func(e ast.Expr, p types.Object) bool {
										ix, ok := unparen(e).(*ast.IndexExpr)
										return ok && t.isObj(ix.X, keys) && t.isObj(ix.Index, p)
									}
									asc := (be.Op == token.LSS && at(be.X, lp[0]) && at(be.Y, lp[1])) || (be.Op == token.GTR && at(be.X, lp[1]) && at(be.Y, lp[0]))
									if asc {
										sorted = true
									} else if at(be.X, lp[0]) || at(be.X, lp[1]) {
										probs = append(probs, fmt.Sprintf("keys are sorted by `%s`, which is not ascending key order", exprStr(be)))
										pos = be.Pos()
										sorted = true
									}
								}
							}
						}
					}
				}
			}
			if sorted {
				i++
			}
		}
	}
	if !sorted {
		// is the next statement already the emitting loop? then the order is the map's random order
		if i < len(list) {
			if rs, ok := list[i].(*ast.RangeStmt); ok && t.isObj(rs.X, keys) {
				probs = append(probs, "keys are emitted without being sorted: unknown tags are written in random map order instead of ascending key order")
				pos = rs.Pos()
				sorted = true
			}
		}
		if !sorted {
			unk = append(unk, "ascending sort of the keys expected")
		}
	}
	// for _, k := range keys { fn(k, t.m[k]) }
	okEmit := false
	if i == len(list)-1 {
		if rs, ok := list[i].(*ast.RangeStmt); ok && rs.Tok == token.DEFINE && t.isObj(rs.X, keys) && rs.Value != nil && len(rs.Body.List) == 1 {
			vid, _ := rs.Value.(*ast.Ident)
			if kid, ok := rs.Key.(*ast.Ident); ok && kid.Name == "_" && vid != nil {
				if es, ok := rs.Body.List[0].(*ast.ExprStmt); ok {
					if fc, ok := es.X.(*ast.CallExpr); ok && len(fc.Args) == 2 && t.isObj(fc.Fun, fn) && t.isObj(fc.Args[0], t.info.Defs[vid]) {
						if ix, ok := unparen(fc.Args[1]).(*ast.IndexExpr); ok && t.isMap(ix.X) && t.isObj(ix.Index, t.info.Defs[vid]) {
							okEmit = true
						}
					}
				}
			}
		}
	}
	if !okEmit && i == len(list)-1 {
		if rs, ok := list[i].(*ast.RangeStmt); ok && t.isObj(rs.X, keys) {
			cond := false
			ast.Inspect(rs.Body, func(n ast.Node) bool {
				switch n.(type) {
				case *ast.IfStmt, *ast.BranchStmt, *ast.SwitchStmt:
					cond = true
				}
				return true
			})
			if cond {
				probs = append(probs, "the emitting loop skips some stored tags, so fewer tags are written than Len() counted")
				pos = rs.Pos()
				okEmit = true
			}
		}
	}
	if !okEmit {
		unk = append(unk, "final `for _, k := range keys { fn(k, map[k]) }` expected")
	}
	t.verdict(rule, probs, unk, pos, "visits every stored tag once, in ascending key order",
		"tagged fields must be written in ascending tag order and all UnknownTags.Len() of them must be written")
}

// (b) AppendEach: t.Each(func(key, val) { dst = AppendUvarint(dst, key); dst = AppendUvarint(dst, uint32(len(val))); dst = append(dst, val...) }); return dst
func (t *c15T) checkAppendEach(rule string) {
	_, ps := c15Params(t.f)
	var probs, unk []string
	pos := t.f.Pos()
	list := t.f.Decl.Body.List
	if len(ps) != 1 || len(list) != 2 {
		t.c.Undecided(rule, t.f.Key, pos, t.m, "AppendEach is not `t.Each(func...); return dst`")
		return
	}
	dst := ps[0]
	if rs, ok := list[1].(*ast.ReturnStmt); !ok || len(rs.Results) != 1 || !t.isObj(rs.Results[0], dst) {
		unk = append(unk, "does not end in `return dst`")
	}
	var fl *ast.FuncLit
	if es, ok := list[0].(*ast.ExprStmt); ok {
		if ec, ok := es.X.(*ast.CallExpr); ok && len(ec.Args) == 1 {
			each := t.m.Func("kmsg.Tags.Each")
			if fo, ok := calleeObj(t.info, ec).(*types.Func); ok && each != nil && fo == each.Obj {
				if sel, ok := unparen(ec.Fun).(*ast.SelectorExpr); ok && t.isObj(sel.X, t.recv) {
					fl, _ = unparen(ec.Args[0]).(*ast.FuncLit)
				}
			}
		}
	}
	if fl == nil {
		t.verdict(rule, probs, append(unk, "first statement is not t.Each(func(key, val) {...})"), pos, "", "")
		return
	}
	var lp []types.Object
	for _, f := range fl.Type.Params.List {
		for _, n := range f.Names {
			lp = append(lp, t.info.Defs[n])
		}
	}
	if len(lp) != 2 {
		t.verdict(rule, probs, append(unk, "closure does not take (key, val)"), pos, "", "")
		return
	}
	key, val := lp[0], lp[1]
	// render each statement as an emitted item
	var got []string
	for _, s := range fl.Body.List {
		as, ok := s.(*ast.AssignStmt)
		item := "?" + nodeStr(s)
		if ok && as.Tok == token.ASSIGN && len(as.Lhs) == 1 && t.isObj(as.Lhs[0], dst) {
			if c, ok := unparen(as.Rhs[0]).(*ast.CallExpr); ok && len(c.Args) == 2 && t.isObj(c.Args[0], dst) {
				o := calleeObj(t.info, c)
				a := t.stripConv(c.Args[1])
				switch {
				case c15IsKbin(o) && o.Name() == "AppendUvarint" && t.isObj(a, key):
					item = "uvarint(key)"
				case c15IsKbin(o) && o.Name() == "AppendUvarint":
					if lc, ok := a.(*ast.CallExpr); ok && len(lc.Args) == 1 && t.isObj(lc.Args[0], val) {
						if b, ok := calleeObj(t.info, lc).(*types.Builtin); ok && b.Name() == "len" {
							item = "uvarint(len(val))"
							break
						}
					}
					item = "uvarint(" + exprStr(c.Args[1]) + ")"
				case o != nil && o.Pkg() == nil && o.Name() == "append" && c.Ellipsis.IsValid() && t.isObj(c.Args[1], val):
					item = "val"
				}
			}
		}
		got = append(got, item)
		if strings.HasPrefix(item, "?") {
			unk = append(unk, "closure statement `"+item[1:]+"` is not an append to dst")
		}
	}
	want := "uvarint(key), uvarint(len(val)), val"
	if g := strings.Join(got, ", "); g != want && len(unk) == 0 {
		probs = append(probs, fmt.Sprintf("each unknown tag is written as [%s], the wire format is [%s]", g, want))
		pos = fl.Pos()
	}
	t.verdict(rule, probs, unk, pos, "writes uvarint key, uvarint len(val), val for every stored tag",
		"unknown tags would not re-encode to the bytes that were decoded")
}

// (c) internalReadTags / ReadTags:
//
//	var t Tags; for n := b.Uvarint(); n > 0; n-- { key, size := b.Uvarint(), b.Uvarint(); t.Set(key, b.Span(int(size))) }; return t
func (t *c15T) checkReadTags(rule string) {
	_, ps := c15Params(t.f)
	var probs, unk []string
	pos := t.f.Pos()
	list := t.f.Decl.Body.List
	if len(ps) != 1 || len(list) != 3 {
		t.c.Undecided(rule, t.f.Key, pos, t.m, "body is not `var t Tags; for ... {...}; return t`")
		return
	}
	b := ps[0]
	bcall := func(e ast.Expr, name string, nargs int) *ast.CallExpr {
		c, ok := unparen(e).(*ast.CallExpr)
		if !ok || len(c.Args) != nargs {
			return nil
		}
		sel, ok := unparen(c.Fun).(*ast.SelectorExpr)
		if !ok || sel.Sel.Name != name || !t.isObj(sel.X, b) {
			return nil
		}
		if _, ok := calleeObj(t.info, c).(*types.Func); !ok {
			return nil
		}
		return c
	}
	var tv types.Object
	if ds, ok := list[0].(*ast.DeclStmt); ok {
		if gd, ok := ds.Decl.(*ast.GenDecl); ok && len(gd.Specs) == 1 {
			if vs, ok := gd.Specs[0].(*ast.ValueSpec); ok && len(vs.Names) == 1 && len(vs.Values) == 0 {
				if n, ok := t.info.Defs[vs.Names[0]].Type().(*types.Named); ok && n.Obj().Name() == "Tags" {
					tv = t.info.Defs[vs.Names[0]]
				}
			}
		}
	}
	if rs, ok := list[2].(*ast.ReturnStmt); !ok || len(rs.Results) != 1 || tv == nil || !t.isObj(rs.Results[0], tv) {
		unk = append(unk, "does not declare `var t Tags` and return it")
	}
	fs, ok := list[1].(*ast.ForStmt)
	if !ok || fs.Init == nil || fs.Cond == nil || fs.Post == nil {
		t.verdict(rule, probs, append(unk, "counting loop expected"), pos, "", "")
		return
	}
	var cnt types.Object
	if ia, ok := fs.Init.(*ast.AssignStmt); ok && ia.Tok == token.DEFINE && len(ia.Lhs) == 1 && bcall(ia.Rhs[0], "Uvarint", 0) != nil {
		cnt = t.info.Defs[ia.Lhs[0].(*ast.Ident)]
	}
	okLoop := cnt != nil
	if be, ok := unparen(fs.Cond).(*ast.BinaryExpr); !ok || be.Op != token.GTR || !t.isObj(be.X, cnt) {
		okLoop = false
	} else if n, ok := constInt(t.info, be.Y); !ok || n != 0 {
		okLoop = false
	}
	if dec, ok := fs.Post.(*ast.IncDecStmt); !ok || dec.Tok != token.DEC || !t.isObj(dec.X, cnt) {
		okLoop = false
	}
	if !okLoop {
		unk = append(unk, "loop is not `for n := b.Uvarint(); n > 0; n--`")
	}
	body := fs.Body.List
	var key, size types.Object
	if len(body) == 2 {
		if as, ok := body[0].(*ast.AssignStmt); ok && as.Tok == token.DEFINE && len(as.Lhs) == 2 && len(as.Rhs) == 2 &&
			bcall(as.Rhs[0], "Uvarint", 0) != nil && bcall(as.Rhs[1], "Uvarint", 0) != nil {
			key, size = t.info.Defs[as.Lhs[0].(*ast.Ident)], t.info.Defs[as.Lhs[1].(*ast.Ident)]
		}
	}
	if key == nil || size == nil {
		t.verdict(rule, probs, append(unk, "loop body is not `key, size := b.Uvarint(), b.Uvarint(); t.Set(key, b.Span(int(size)))`"), pos, "", "")
		return
	}
	okSet := false
	if es, ok := body[1].(*ast.ExprStmt); ok {
		if sc, ok := es.X.(*ast.CallExpr); ok && len(sc.Args) == 2 {
			set := t.m.Func("kmsg.Tags.Set")
			sel, _ := unparen(sc.Fun).(*ast.SelectorExpr)
			if fo, ok := calleeObj(t.info, sc).(*types.Func); ok && set != nil && fo == set.Obj && sel != nil && t.isObj(sel.X, tv) {
				okSet = true
				pos = sc.Pos()
				if !t.isObj(sc.Args[0], key) {
					probs = append(probs, fmt.Sprintf("the tag is stored under `%s`, not under the key read", exprStr(sc.Args[0])))
				}
				if sp := bcall(sc.Args[1], "Span", 1); sp == nil {
					probs = append(probs, fmt.Sprintf("the value stored is `%s`, not b.Span(size)", exprStr(sc.Args[1])))
				} else if !t.isObj(t.stripConv(sp.Args[0]), size) {
					probs = append(probs, fmt.Sprintf("the value stored spans `%s` bytes, not the size read", exprStr(sp.Args[0])))
				}
			}
		}
	}
	if !okSet {
		unk = append(unk, "second loop statement is not an unconditional t.Set(key, b.Span(int(size)))")
	}
	t.verdict(rule, probs, unk, pos, "stores every tag read under its key with exactly the bytes of its size",
		"unknown tags are not recovered as sent, and the reader is left mis-positioned for what follows")
}
