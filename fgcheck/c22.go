package main

import (
	"fmt"
	"go/ast"
	"go/token"
	"go/types"
	"strings"

	"golang.org/x/tools/go/cfg"
)

func init() {
	register(&Prop{
		ID:        "C22",
		Level:     "other",
		Technique: "exactly-once completion counting of every promisedReq/promisedResp over the broker request path (per-element for the ring workers), closed table of completion sites, dominating-guard rules for the correlation-ID check and the ID's single writer, difference-bound proof of every index/slice of the response buffers plus size-guard rules before the allocation, must-pass-through rules for connection death (die reaches every waiter; every blocking select of a connection is released by die)",
		Explanation: "(1) promise-completed-exactly-once: in broker.do, handleReq, brokerCxn.park, waitResp and handleResp every exit has completed the promisedReq/promisedResp exactly once, where completion is a promise call, a ring push that returned dead == false, a park (append to cxn.parked under parkMu with parkFailed == false) or the hand-over to waitResp carrying pr.promise; the ring workers handleReqs/handleResps complete the current element exactly once between two dropPeeks and complete with a non-nil error when the ring reported dead; failParked fails every taken request with a non-nil error and handleReauthDrain replays every taken request through handleReq; the promise fields are invoked nowhere outside this table and the promised structs are built only in do/handleReq; cxn.parked/parkFailed are accessed under parkMu only. " +
			"(2) correlation: every return of readResponse that can carry a nil error is dominated by the comparison of the response's first four bytes with the corrID parameter, the mismatch arm returns an error; brokerCxn.corrID is written only in writeRequest, by one increment and one wrap-to-zero store, both dominated by `corrID = cxn.corrID` which AppendRequest(.., cxn.corrID) dominates; every readResponse call passes the corrID returned by the writeRequest of the same function or the promisedResp's corrID, which handleReq fills from writeRequest's result. " +
			"(3) bounds: every index, slice and binary.BigEndian access in parseReadSize, readConn, readResponse, discard and handleResp is proven in range from dominating guards (parseReadSize's parameter from its two call sites, which pass 4-byte slices); every nil-error return of parseReadSize returns the decoded size under size >= 0 and size <= cfg.maxBrokerReadBytes, and the make() in readConn is sized by that result only after its error check. " +
			"(4) death: brokerCxn.dead is written only by the Swap(true) guard of die, which dominates conn.Close, close(deadCh), resps.die() and failParked() and each of them is reached on every path after the guard; deadCh is closed nowhere else; stopForever's dead.Swap(true) guard dominates reqs.die() and the die() of every *brokerCxn field of broker; loadConnection stores a connection only under reapMu after re-checking b.dead; handleResp's read-error arm and handleReq's write-error arm kill the connection on every path; every blocking select in a brokerCxn method has an arm that die releases (<-cxn.deadCh, or a channel closed by the goroutine doing I/O on cxn.conn, which die closes). (5) retry-jump-bounded: every backward goto in a broker/brokerCxn method (handleReq's new-connection retries, loadConnection's reconnect, requestAPIVersions' downgrades, sasl's mechanism fallback, the ring workers) is taken only under a bound that is set before the jump and tested before it: a one-shot boolean latch never cleared after the label, a value latch, a counter incremented every pass and compared with a constant, a strictly decreasing value with a constant lower bound, or dropPeek's `more`. (6) reauth-only-when-no-response-in-flight: every call of cxn.sasl/doSasl outside connection construction is dominated by `cxn.resps.empty()` being true for the same connection (type-resolved ring field, also through a single-assignment local), the busy arm cannot reach the reauthentication, and reauthPending is published before the emptiness test. Ring semantics (a dead ring rejects the push with first == false so the pusher completes the element itself; the worker is started only on first) are C30's rules ring-index-arithmetic, ring-cond-discipline and ring-use-site-protocol and are relied on, not repeated.",
		NotDecided: "termination of doSasl's challenge loop (driven by the user-supplied sasl.Session), timing (that deadlines actually fire within the configured timeouts: SetRead/WriteDeadline values are not evaluated), the decoding of response bodies (C15/C17), that the bytes following a matching correlation ID belong to the right response kind (the broker is trusted to answer in order per connection), and hooks supplied by the user blocking forever.",
		Assumptions: []string{
			"C30 (ring push/dropPeek/die semantics) holds",
			"io.ReadFull returns 0 <= n <= len(buf); net.Conn.Read returns 0 <= n <= len(p)",
			"closing a net.Conn fails blocked and subsequent Read/Write calls on it",
		},
		Run: runC22,
	})
}

func runC22(c *Ctx) {
	m := c.Load("")
	if m == nil {
		return
	}
	c22once(c, m)
	c22sites(c, m)
	c22correlation(c, m)
	c22bounds(c, m)
	c22death(c, m)
	c22retry(c, m)
	c22reauth(c, m)
	c.Set("relies_on", []string{"C30 ring-index-arithmetic kgo.ring.doPush#dead-rejects", "C30 ring-cond-discipline", "C30 ring-use-site-protocol"})
	c23dump(c)
}

// ---------------------------------------------------------------------------
// helpers

// c22promiseField reports whether the call invokes the `promise` field of a
// promisedReq / promisedResp value (type-resolved), returning the struct name.
func c22promiseCall(info *types.Info, call *ast.CallExpr) (string, bool) {
	sel, ok := unparen(call.Fun).(*ast.SelectorExpr)
	if !ok {
		return "", false
	}
	fv := fieldOfSel(info, sel)
	if fv == nil || fv.Name() != "promise" {
		return "", false
	}
	tv, ok := info.Types[sel.X]
	if !ok || tv.Type == nil {
		return "", false
	}
	t := tv.Type
	if p, ok := t.(*types.Pointer); ok {
		t = p.Elem()
	}
	if n, ok := t.(*types.Named); ok {
		switch n.Obj().Name() {
		case "promisedReq", "promisedResp":
			return n.Obj().Name(), true
		}
	}
	return "", false
}

func c22isNilExpr(info *types.Info, e ast.Expr) bool {
	if id, ok := unparen(e).(*ast.Ident); ok {
		_, isNil := info.Uses[id].(*types.Nil)
		return isNil
	}
	return false
}

// c22errArgNonNil: the promise call's error argument is not the nil literal.
func c22errArgNonNil(info *types.Info, call *ast.CallExpr) bool {
	return len(call.Args) == 2 && !c22isNilExpr(info, call.Args[1])
}

// c22ringCall reports a call of the named ring method on the given field
// (e.g. method "push" on field "reqs").
func c22ringCall(info *types.Info, call *ast.CallExpr, method, field string) bool {
	fn, ok := calleeObj(info, call).(*types.Func)
	if !ok || keyOfObj(fn) != "kgo.ring."+method {
		return false
	}
	sel, ok := unparen(call.Fun).(*ast.SelectorExpr)
	if !ok {
		return false
	}
	fv := fieldOfSel(info, sel.X)
	return fv != nil && fv.Name() == field
}

func c22calls(root ast.Node, pred func(*ast.CallExpr) bool) []*ast.CallExpr {
	var out []*ast.CallExpr
	for _, n := range findNodes(root, false, func(x ast.Node) bool {
		call, ok := x.(*ast.CallExpr)
		return ok && pred(call)
	}) {
		out = append(out, n.(*ast.CallExpr))
	}
	return out
}

// c22nodeHas: the CFG node contains a call satisfying pred (outside literals).
func c22nodeHas(n ast.Node, pred func(*ast.CallExpr) bool) bool {
	switch n.(type) {
	case *ast.GoStmt, *ast.DeferStmt:
		return false
	}
	return containsNode(n, false, func(x ast.Node) bool {
		call, ok := x.(*ast.CallExpr)
		return ok && pred(call)
	})
}

// c22edgeKnows: taking successor k of block b establishes that the boolean
// identifier `name` has value val (the condition is `name`, `!name`, or a
// conjunction/disjunction that decomposes to it on that edge).
func c22edgeKnows(g *Graph, b *cfg.Block, k int, name string, val bool) bool {
	cond, tag, ok := g.condOf(b)
	if !ok || tag != nil {
		return false
	}
	for _, ft := range decompose(cond, k == 0, nil) {
		if id, ok := unparen(ft.Cond).(*ast.Ident); ok && id.Name == name && ft.Val == val {
			return true
		}
	}
	return false
}

// c22testsIdent: the block branches on a condition mentioning the identifier.
func c22testsIdent(g *Graph, b *cfg.Block, name string) bool {
	return c22edgeKnows(g, b, 0, name, true) || c22edgeKnows(g, b, 1, name, true) || c22edgeKnows(g, b, 0, name, false) || c22edgeKnows(g, b, 1, name, false)
}

func c22factIdent(facts []Fact, name string, val bool) bool {
	return factMatches(facts, func(ft Fact) bool {
		id, ok := unparen(ft.Cond).(*ast.Ident)
		return ok && ft.Tag == nil && id.Name == name && ft.Val == val
	})
}

// ---------------------------------------------------------------------------
// (1) exactly-once completion

const c22ruleOnce = "promise-completed-exactly-once"

func c22once(c *Ctx, m *Module) {
	rule := c22ruleOnce
	// --- handleReq: promise | park(pr) | waitResp(promisedResp{.., pr.promise, ..})
	if f := c.NeedFunc(m, "kgo.broker.handleReq"); f != nil {
		info := f.Info()
		prName := c22firstParam(f)
		spec := OnceSpec{Call: func(call *ast.CallExpr) Event {
			if _, ok := c22promiseCall(info, call); ok {
				return Event{Kind: EvOnce, Label: "promise"}
			}
			switch calleeName(info, call) {
			case "kgo.brokerCxn.park":
				if len(call.Args) == 1 && exprStr(call.Args[0]) == prName {
					return Event{Kind: EvOnce, Label: "park"}
				}
			case "kgo.brokerCxn.waitResp":
				return Event{Kind: EvOnce, Label: "waitResp"}
			}
			return Event{}
		}}
		onceRule(c, m, rule, f, f.Decl.Body, f.Graph(), f.Key, spec, 12)
		// the hand-over to waitResp carries this request's promise
		nw := 0
		for _, call := range c22calls(f.Decl.Body, func(call *ast.CallExpr) bool { return calleeName(info, call) == "kgo.brokerCxn.waitResp" }) {
			nw++
			ok := false
			if len(call.Args) == 1 {
				if cl, isLit := unparen(call.Args[0]).(*ast.CompositeLit); isLit {
					if e := c22litField(info, cl, "promise"); e != nil {
						if fv := fieldOfSel(info, e); fv != nil && fv.Name() == "promise" && exprStr(e) == prName+".promise" {
							ok = true
						}
					}
				}
			}
			c.Check(ok, rule, f.Key+": waitResp#carries-promise", call.Pos(), m, "promisedResp.promise = pr.promise", "the promisedResp handed to waitResp does not carry pr.promise: the caller's promise is never called")
		}
		c.Floor(rule+"#waitResp-handover", nw, 1)
	}
	// --- park
	if f := c.NeedFunc(m, "kgo.brokerCxn.park"); f != nil {
		info := f.Info()
		prName := c22firstParam(f)
		parked := m.Field("kgo", "brokerCxn", "parked")
		isPark := func(n ast.Node) bool {
			as, ok := n.(*ast.AssignStmt)
			if !ok || len(as.Lhs) != 1 || len(as.Rhs) != 1 || !sameField(fieldOfSel(info, as.Lhs[0]), parked) {
				return false
			}
			call, ok := unparen(as.Rhs[0]).(*ast.CallExpr)
			if !ok || exprStr(call.Fun) != "append" || len(call.Args) != 2 || call.Ellipsis.IsValid() {
				return false
			}
			return sameField(fieldOfSel(info, call.Args[0]), parked) && exprStr(call.Args[1]) == prName
		}
		spec := OnceSpec{
			Call: func(call *ast.CallExpr) Event {
				if _, ok := c22promiseCall(info, call); ok {
					return Event{Kind: EvOnce}
				}
				return Event{}
			},
			Node: isPark,
		}
		onceRule(c, m, rule, f, f.Decl.Body, f.Graph(), f.Key, spec, 1)
		g := f.Graph()
		pf := m.Field("kgo", "brokerCxn", "parkFailed")
		for _, n := range findNodes(f.Decl.Body, false, isPark) {
			l, _ := g.LocOf(n)
			ok := factMatches(g.FactsAt(l), func(ft Fact) bool { return !ft.Val && sameField(fieldOfSel(info, ft.Cond), pf) })
			c.Check(ok, rule, f.Key+"#park-only-while-alive", n.Pos(), m, "parked only under parkFailed == false", "a request is parked without checking parkFailed: after die() failed the parked list nothing ever completes it")
		}
		for _, call := range c22calls(f.Decl.Body, func(call *ast.CallExpr) bool { _, ok := c22promiseCall(info, call); return ok }) {
			c.Check(c22errArgNonNil(info, call), rule, f.Key+"#fails-with-error", call.Pos(), m, "", "a request refused by a dead connection is completed without an error")
		}
	}
	// --- handleResp
	if f := c.NeedFunc(m, "kgo.brokerCxn.handleResp"); f != nil {
		info := f.Info()
		spec := OnceSpec{Call: func(call *ast.CallExpr) Event {
			if _, ok := c22promiseCall(info, call); ok {
				return Event{Kind: EvOnce}
			}
			return Event{}
		}}
		onceRule(c, m, rule, f, f.Decl.Body, f.Graph(), f.Key, spec, 2)
	}
	// --- pushers
	c22pushOnce(c, m, "kgo.broker.do", "reqs", func(info *types.Info, call *ast.CallExpr) bool {
		id, ok := unparen(call.Fun).(*ast.Ident)
		if !ok {
			return false
		}
		v, ok := info.Uses[id].(*types.Var)
		return ok && v.Name() == "promise"
	})
	c22pushOnce(c, m, "kgo.brokerCxn.waitResp", "resps", func(info *types.Info, call *ast.CallExpr) bool {
		_, ok := c22promiseCall(info, call)
		return ok
	})
	// --- ring workers
	c22loopOnce(c, m, "kgo.broker.handleReqs", "reqs", "kgo.broker.handleReq")
	c22loopOnce(c, m, "kgo.brokerCxn.handleResps", "resps", "kgo.brokerCxn.handleResp")
	// --- parked list
	c22parked(c, m)
}

func c22firstParam(f *Func) string {
	if ps := f.Decl.Type.Params.List; len(ps) > 0 && len(ps[0].Names) > 0 {
		return ps[0].Names[0].Name
	}
	return "?"
}

// c22litField returns the value given to the named field in a struct literal
// (keyed or positional).
func c22litField(info *types.Info, cl *ast.CompositeLit, field string) ast.Expr {
	tv, ok := info.Types[cl]
	if !ok || tv.Type == nil {
		return nil
	}
	st, ok := tv.Type.Underlying().(*types.Struct)
	if !ok {
		return nil
	}
	for i, e := range cl.Elts {
		if kv, ok := e.(*ast.KeyValueExpr); ok {
			if id, ok := kv.Key.(*ast.Ident); ok && id.Name == field {
				return kv.Value
			}
			continue
		}
		if i < st.NumFields() && st.Field(i).Name() == field {
			return e
		}
	}
	return nil
}

// c22pushOnce: `first, dead := ring.push(pr)`; the element is completed by the
// ring when dead == false and by exactly one promise call when dead == true.
// A dead ring returns first == false (C30 ring-index-arithmetic#dead-rejects).
func c22pushOnce(c *Ctx, m *Module, key, ringField string, isPromise func(*types.Info, *ast.CallExpr) bool) {
	f := c.NeedFunc(m, key)
	if f == nil {
		return
	}
	rule := c22ruleOnce
	info := f.Info()
	g := f.Graph()
	pushes := c22calls(f.Decl.Body, func(call *ast.CallExpr) bool {
		return c22ringCall(info, call, "push", ringField) || c22ringCall(info, call, "pushForce", ringField)
	})
	if len(pushes) != 1 {
		c.Undecided(rule, key, f.Pos(), m, fmt.Sprintf("expected exactly one push on ring %s, found %d", ringField, len(pushes)))
		return
	}
	push := pushes[0]
	as, _ := enclosingStmt(f.Decl.Body, push).(*ast.AssignStmt)
	if as == nil || len(as.Lhs) != 2 || len(as.Rhs) != 1 || unparen(as.Rhs[0]) != ast.Expr(push) {
		c.Fail(rule, key, push.Pos(), m, "the results (first, dead) of the ring push are not both bound: a refused element is never completed")
		return
	}
	firstID, ok1 := as.Lhs[0].(*ast.Ident)
	deadID, ok2 := as.Lhs[1].(*ast.Ident)
	if !ok1 || !ok2 || deadID.Name == "_" {
		c.Fail(rule, key, push.Pos(), m, "the dead result of the ring push is discarded: a refused element is never completed")
		return
	}
	pl, _ := g.LocOf(as)
	prom := func(n ast.Node) bool {
		return c22nodeHas(n, func(call *ast.CallExpr) bool { return isPromise(info, call) })
	}
	// (a) dead == true => a promise call on every path
	path, lost := g.FindPath(pl, SearchOpts{
		Stop: prom,
		EdgeOK: func(from *cfg.Block, k int, to *cfg.Block) bool {
			if c22edgeKnows(g, from, k, deadID.Name, false) {
				return false
			}
			if firstID.Name != "_" && c22edgeKnows(g, from, k, firstID.Name, true) {
				return false // first == true implies dead == false
			}
			return true
		},
		GoalExit: func(k ExitKind, last ast.Node) bool { return k != ExitPanic },
	})
	var problems []string
	if lost {
		problems = append(problems, "when the ring is dead the element is dropped without calling its promise (path: "+pathStr(path)+")")
	}
	// (b) promise only when dead, with an error, and never twice
	proms := c22calls(f.Decl.Body, func(call *ast.CallExpr) bool { return isPromise(info, call) })
	for _, p := range proms {
		l, ok := g.LocOf(p)
		if !ok {
			problems = append(problems, "promise call not located")
			continue
		}
		if !c22factIdent(g.FactsAt(l), deadID.Name, true) {
			problems = append(problems, "the promise is called at "+m.Position(p.Pos())+" although the ring may have accepted the element (double completion)")
		}
		if !c22errArgNonNil(info, p) {
			problems = append(problems, "a refused element is completed without an error")
		}
		if _, again := g.FindPath(l, SearchOpts{GoalNode: prom}); again {
			problems = append(problems, "the promise can be called twice")
		}
		if !g.Dominates(pl, l) {
			problems = append(problems, "promise call not dominated by the push")
		}
	}
	if len(proms) == 0 {
		problems = append(problems, "no promise call for the refused element")
	}
	c.Check(len(problems) == 0, rule, key, f.Pos(), m, fmt.Sprintf("pushed (dead == false) or failed through the promise (dead == true), %d promise site(s)", len(proms)), strings.Join(problems, "; "))
}

// c22loopOnce: ring worker `start: if dead { promise(err) } else { handle(pr) }; pr, more, dead = ring.dropPeek(); if more { goto start }`.
func c22loopOnce(c *Ctx, m *Module, key, ringField, worker string) {
	f := c.NeedFunc(m, key)
	if f == nil {
		return
	}
	rule := c22ruleOnce
	info := f.Info()
	g := f.Graph()
	drops := c22calls(f.Decl.Body, func(call *ast.CallExpr) bool { return c22ringCall(info, call, "dropPeek", ringField) })
	if len(drops) != 1 {
		c.Undecided(rule, key, f.Pos(), m, fmt.Sprintf("expected exactly one dropPeek on ring %s, found %d", ringField, len(drops)))
		return
	}
	as, _ := enclosingStmt(f.Decl.Body, drops[0]).(*ast.AssignStmt)
	if as == nil || len(as.Lhs) != 3 {
		c.Fail(rule, key, drops[0].Pos(), m, "dropPeek's (next, more, dead) results are not all bound")
		return
	}
	prName, moreName, deadName := exprStr(as.Lhs[0]), exprStr(as.Lhs[1]), exprStr(as.Lhs[2])
	if prName == "_" || moreName == "_" || deadName == "_" {
		c.Fail(rule, key, as.Pos(), m, "a result of dropPeek is discarded: the next element is lost, or elements of a dead ring are not failed")
		return
	}
	// the element variable is the function's parameter
	isParam := false
	for _, fl := range f.Decl.Type.Params.List {
		for _, nm := range fl.Names {
			if nm.Name == prName {
				isParam = true
			}
		}
	}
	isPromise := func(call *ast.CallExpr) bool {
		_, ok := c22promiseCall(info, call)
		if !ok {
			return false
		}
		sel := unparen(call.Fun).(*ast.SelectorExpr)
		return exprStr(sel.X) == prName
	}
	isWorker := func(call *ast.CallExpr) bool {
		return calleeName(info, call) == worker && len(call.Args) == 1 && exprStr(call.Args[0]) == prName
	}
	isEvent := func(n ast.Node) bool {
		return c22nodeHas(n, func(call *ast.CallExpr) bool { return isPromise(call) || isWorker(call) })
	}
	isReset := func(n ast.Node) bool { return n == ast.Node(as) }
	rl, _ := g.LocOf(as)
	var problems []string
	if !isParam {
		problems = append(problems, "dropPeek's next element is not stored in the worker's element parameter")
	}
	// A: the first element (parameter) is completed before the first dropPeek / exit
	if p, lost := g.FindPath(Loc{-1, 0}, SearchOpts{Stop: isEvent, GoalNode: isReset, GoalExit: func(k ExitKind, _ ast.Node) bool { return k != ExitPanic }}); lost {
		problems = append(problems, "the first element can reach dropPeek/exit without being completed (path: "+pathStr(p)+")")
	}
	// B: after dropPeek with more == true the new element is completed before the next dropPeek / exit
	if p, lost := g.FindPath(rl, SearchOpts{
		Stop: isEvent,
		EdgeOK: func(from *cfg.Block, k int, to *cfg.Block) bool {
			return !c22edgeKnows(g, from, k, moreName, false)
		},
		GoalNode: isReset,
		GoalExit: func(k ExitKind, _ ast.Node) bool { return k != ExitPanic },
	}); lost {
		problems = append(problems, "an element returned by dropPeek with more == true can be dropped without being completed (path: "+pathStr(p)+")")
	}
	// more == false must not loop back to an event (the zero element has no promise)
	nEv := 0
	for _, call := range c22calls(f.Decl.Body, func(call *ast.CallExpr) bool { return isPromise(call) || isWorker(call) }) {
		nEv++
		l, _ := g.LocOf(call)
		// C: no second completion before the next dropPeek
		if _, twice := g.FindPath(l, SearchOpts{Stop: isReset, GoalNode: isEvent}); twice {
			problems = append(problems, "an element can be completed twice before the next dropPeek")
		}
		facts := g.FactsAt(l)
		if isPromise(call) {
			if !c22factIdent(facts, deadName, true) {
				problems = append(problems, "the worker fails an element although the ring is not known dead")
			}
			if !c22errArgNonNil(info, call) {
				problems = append(problems, "an element of a dead ring is completed without an error")
			}
		} else if !c22factIdent(facts, deadName, false) {
			problems = append(problems, "the worker processes an element without checking that the ring is alive")
		}
	}
	// elements are consumed only while more: the loop-back edge is guarded by more == true
	backOK := false
	for _, b := range g.C.Blocks {
		if c22testsIdent(g, b, moreName) && g.live[b.Index] {
			backOK = true
		}
	}
	if !backOK {
		problems = append(problems, "the worker does not continue while dropPeek reports more")
	}
	if nEv < 2 {
		c.Undecided(rule, key, f.Pos(), m, fmt.Sprintf("only %d completion sites recognised (expected the dead arm's promise and the %s call)", nEv, worker))
		return
	}
	c.Check(len(problems) == 0, rule, key, f.Pos(), m, fmt.Sprintf("each ring element completed exactly once between two dropPeeks (%d completion sites)", nEv), strings.Join(problems, "; "))
}

func c22parked(c *Ctx, m *Module) {
	rule := c22ruleOnce
	parked := fieldMust(c, m, "brokerCxn", "parked")
	pfail := fieldMust(c, m, "brokerCxn", "parkFailed")
	if parked == nil || pfail == nil {
		return
	}
	n := guardedByRule(c, m, "kgo", GuardSpec{Rule: "parked-under-parkMu", Type: "brokerCxn", Field: "parked", Mutex: "parkMu", ReadsToo: true})
	n += guardedByRule(c, m, "kgo", GuardSpec{Rule: "parked-under-parkMu", Type: "brokerCxn", Field: "parkFailed", Mutex: "parkMu", ReadsToo: true})
	c.Floor("parked-under-parkMu", n, 8)
	funcs := m.FuncsIn("kgo")
	// writers of parked: park (append), takeParked / failParked (take: read into a local, then nil)
	nW := 0
	for _, st := range StoreSites(funcs, parked) {
		nW++
		cons := st.Fn.Key + ": " + nodeStr(st.Node)
		switch st.Fn.Key {
		case "kgo.brokerCxn.park":
			c.OK(rule+"#parked-writers", cons, st.Node.Pos(), m, "append checked by "+rule)
		case "kgo.brokerCxn.takeParked", "kgo.brokerCxn.failParked":
			info := st.Fn.Info()
			okNil := st.Kind == "assign" && st.RHS != nil && c22isNilExpr(info, st.RHS)
			// a local was loaded from the field before the reset
			var loc types.Object
			var defStmt ast.Node
			ast.Inspect(st.Fn.Decl.Body, func(x ast.Node) bool {
				if as, ok := x.(*ast.AssignStmt); ok && len(as.Lhs) == 1 && len(as.Rhs) == 1 && sameField(fieldOfSel(info, as.Rhs[0]), parked) {
					if id, ok := as.Lhs[0].(*ast.Ident); ok {
						loc = info.Defs[id]
						defStmt = as
					}
				}
				return true
			})
			g := st.Fn.Graph()
			okOrder := false
			if defStmt != nil {
				dl, ok1 := g.LocOf(defStmt)
				sl, ok2 := g.LocOf(st.Node)
				okOrder = ok1 && ok2 && g.Dominates(dl, sl)
			}
			c.Check(okNil && loc != nil && okOrder, rule+"#parked-writers", cons, st.Node.Pos(), m, "list taken into a local before it is cleared", "cxn.parked is overwritten without first taking its contents: parked requests are lost")
		default:
			c.Fail(rule+"#parked-writers", cons, st.Node.Pos(), m, "cxn.parked is written outside park/takeParked/failParked: the request held there is not covered by the completion table")
		}
	}
	c.Floor(rule+"#parked-writers", nW, 3)
	nPF := 0
	for _, st := range StoreSites(funcs, pfail) {
		nPF++
		v, isC := constBool(st.Fn.Info(), st.RHS)
		c.Check(st.Fn.Key == "kgo.brokerCxn.failParked" && isC && v, rule+"#parkFailed-writers", st.Fn.Key+": "+nodeStr(st.Node), st.Node.Pos(), m, "", "parkFailed is written outside failParked or reset to false: a request parked after die() is never failed")
	}
	c.Floor(rule+"#parkFailed-writers", nPF, 1)
	// takeParked returns the taken list; only handleReauthDrain calls it
	if f := c.NeedFunc(m, "kgo.brokerCxn.takeParked"); f != nil {
		info := f.Info()
		ok := false
		nRet := 0
		for _, rn := range findNodes(f.Decl.Body, false, func(x ast.Node) bool { _, ok := x.(*ast.ReturnStmt); return ok }) {
			nRet++
			r := rn.(*ast.ReturnStmt)
			if len(r.Results) == 1 {
				if id, isID := unparen(r.Results[0]).(*ast.Ident); isID {
					for _, rhs := range assignsTo(f, info.Uses[id]) {
						if rhs != nil && sameField(fieldOfSel(info, rhs), parked) {
							ok = true
						}
					}
				}
			}
		}
		c.Check(ok && nRet == 1, rule, f.Key, f.Pos(), m, "returns the list it took", "takeParked does not return the list it removed from cxn.parked")
		for _, site := range CallSites(m.FuncsIn("kgo"), f.Obj) {
			c.Check(site.Fn.Key == "kgo.broker.handleReauthDrain", rule, site.Fn.Key+": takeParked", site.Node.Pos(), m, "", "takeParked is called outside handleReauthDrain: the taken requests are not covered by the completion table")
		}
	}
	// failParked / handleReauthDrain: every taken element is completed
	c22drain(c, m, "kgo.brokerCxn.failParked", func(f *Func, e ast.Expr) bool { return sameField(fieldOfSel(f.Info(), e), parked) },
		func(info *types.Info, call *ast.CallExpr, elem string) (bool, bool) {
			if _, ok := c22promiseCall(info, call); ok && exprStr(unparen(call.Fun).(*ast.SelectorExpr).X) == elem {
				return true, c22errArgNonNil(info, call)
			}
			return false, true
		}, "fails")
	c22drain(c, m, "kgo.broker.handleReauthDrain", func(f *Func, e ast.Expr) bool {
		call, ok := unparen(e).(*ast.CallExpr)
		return ok && calleeName(f.Info(), call) == "kgo.brokerCxn.takeParked"
	},
		func(info *types.Info, call *ast.CallExpr, elem string) (bool, bool) {
			if calleeName(info, call) == "kgo.broker.handleReq" && len(call.Args) == 1 && exprStr(call.Args[0]) == elem {
				return true, true
			}
			return false, true
		}, "replays")
}

// c22drain: the function takes a list (local := <source>) and a range loop
// over that local completes each element exactly once; once the list was
// taken every path to an exit runs the loop.
func c22drain(c *Ctx, m *Module, key string, isSource func(*Func, ast.Expr) bool, event func(*types.Info, *ast.CallExpr, string) (isEv, okArg bool), verb string) {
	f := c.NeedFunc(m, key)
	if f == nil {
		return
	}
	rule := c22ruleOnce
	info := f.Info()
	g := f.Graph()
	var take *ast.AssignStmt
	var local types.Object
	ast.Inspect(f.Decl.Body, func(x ast.Node) bool {
		if as, ok := x.(*ast.AssignStmt); ok && len(as.Lhs) == 1 && len(as.Rhs) == 1 && isSource(f, as.Rhs[0]) {
			if id, ok := as.Lhs[0].(*ast.Ident); ok && take == nil {
				take = as
				local = info.Defs[id]
				if local == nil {
					local = info.Uses[id]
				}
			}
		}
		return true
	})
	if take == nil || local == nil {
		c.Fail(rule, key, f.Pos(), m, "the parked list is not taken into a local variable")
		return
	}
	var loop *ast.RangeStmt
	ast.Inspect(f.Decl.Body, func(x ast.Node) bool {
		if rs, ok := x.(*ast.RangeStmt); ok {
			if id, ok := unparen(rs.X).(*ast.Ident); ok && info.Uses[id] == local {
				loop = rs
			}
		}
		return true
	})
	if loop == nil || loop.Value == nil {
		c.Fail(rule, key, take.Pos(), m, "the taken parked list is not iterated: parked requests are never completed")
		return
	}
	// the local is not reassigned
	if len(assignsTo(f, local)) != 1 {
		c.Fail(rule, key, take.Pos(), m, "the taken parked list is reassigned before it is drained")
		return
	}
	elem := exprStr(loop.Value)
	var problems []string
	tl, _ := g.LocOf(take)
	if p, skip := g.FindPath(tl, SearchOpts{
		Stop:     func(n ast.Node) bool { return n == ast.Node(loop.X) },
		GoalExit: func(k ExitKind, _ ast.Node) bool { return k != ExitPanic },
	}); skip {
		problems = append(problems, "after the list was taken an exit is reachable without draining it (path: "+pathStr(p)+")")
	}
	// body: exactly one event on every path; no branch statements leaving the body uncounted
	hasBranch := containsNode(loop.Body, false, func(x ast.Node) bool { _, ok := x.(*ast.BranchStmt); return ok })
	if hasBranch {
		c.Undecided(rule, key, loop.Pos(), m, "drain loop contains break/continue/goto: body not countable")
		return
	}
	bg := NewGraph(loop.Body, info)
	spec := OnceSpec{Call: func(call *ast.CallExpr) Event {
		if isEv, okArg := event(info, call, elem); isEv {
			if !okArg {
				problems = append(problems, "an element is completed without an error")
			}
			return Event{Kind: EvOnce}
		}
		return Event{}
	}}
	r := CheckOnce(f, loop.Body, bg, spec)
	if r.Events < 1 {
		problems = append(problems, "the drain loop does not complete its element")
	}
	problems = append(problems, r.Problems...)
	problems = dedupeKeepOrder(problems)
	c.Check(len(problems) == 0, rule, key, f.Pos(), m, verb+" every taken request exactly once", strings.Join(problems, "; "))
}

// (closed table of completion sites)
func c22sites(c *Ctx, m *Module) {
	rule := "completion-sites-closed"
	table := map[string]bool{
		"kgo.broker.handleReqs": true, "kgo.broker.handleReq": true, "kgo.brokerCxn.park": true, "kgo.brokerCxn.failParked": true,
		"kgo.brokerCxn.waitResp": true, "kgo.brokerCxn.handleResps": true, "kgo.brokerCxn.handleResp": true,
	}
	n := 0
	for _, f := range m.FuncsIn("kgo") {
		info := f.Info()
		ast.Inspect(f.Decl.Body, func(x ast.Node) bool {
			switch e := x.(type) {
			case *ast.CallExpr:
				if tn, ok := c22promiseCall(info, e); ok {
					n++
					c.Touch(f)
					c.Check(table[f.Key], rule, f.Key+": "+tn+".promise()", e.Pos(), m, "site is covered by "+c22ruleOnce, "a request promise is invoked in a function outside the analysed completion table")
				}
			case *ast.CompositeLit:
				tv, ok := info.Types[e]
				if !ok || tv.Type == nil {
					return true
				}
				nm, ok := tv.Type.(*types.Named)
				if !ok || nm.Obj().Pkg() == nil || nm.Obj().Pkg().Name() != "kgo" {
					return true
				}
				switch nm.Obj().Name() {
				case "promisedReq":
					n++
					c.Check(f.Key == "kgo.broker.do", rule, f.Key+": promisedReq{}", e.Pos(), m, "", "a promisedReq is built outside broker.do")
				case "promisedResp":
					n++
					c.Check(f.Key == "kgo.broker.handleReq", rule, f.Key+": promisedResp{}", e.Pos(), m, "", "a promisedResp is built outside broker.handleReq")
				}
			case *ast.SelectorExpr:
				// the promise field must not be copied out (other than into the promisedResp literal)
				if fv := fieldOfSel(info, e); fv != nil && fv.Name() == "promise" {
					if tv, ok := info.Types[e.X]; ok && tv.Type != nil {
						t := tv.Type
						if p, ok := t.(*types.Pointer); ok {
							t = p.Elem()
						}
						if nm, ok := t.(*types.Named); ok && (nm.Obj().Name() == "promisedReq" || nm.Obj().Name() == "promisedResp") && nm.Obj().Pkg().Name() == "kgo" {
							if !table[f.Key] {
								c.Fail(rule, f.Key+": "+exprStr(e), e.Pos(), m, "the promise field is read in a function outside the analysed completion table")
							}
						}
					}
				}
			}
			return true
		})
	}
	c.Floor(rule, n, 15)
	// handleReq is entered only from the worker and the reauth replay
	if hf := m.Func("kgo.broker.handleReq"); hf != nil {
		for _, site := range CallSites(m.FuncsIn("kgo"), hf.Obj) {
			ok := site.Fn.Key == "kgo.broker.handleReqs" || site.Fn.Key == "kgo.broker.handleReauthDrain"
			c.Check(ok, rule, site.Fn.Key+": handleReq()", site.Node.Pos(), m, "", "handleReq is called from outside the ring worker / reauth replay")
		}
	}
	if hf := m.Func("kgo.brokerCxn.handleResp"); hf != nil {
		for _, site := range CallSites(m.FuncsIn("kgo"), hf.Obj) {
			c.Check(site.Fn.Key == "kgo.brokerCxn.handleResps", rule, site.Fn.Key+": handleResp()", site.Node.Pos(), m, "", "handleResp is called from outside the response ring worker")
		}
	}
}

// ---------------------------------------------------------------------------
// (2) correlation

// c22pkgLevelErr: e denotes a package-level variable (a sentinel error).
func c22pkgLevelErr(info *types.Info, e ast.Expr) bool {
	var obj types.Object
	switch x := unparen(e).(type) {
	case *ast.Ident:
		obj = info.Uses[x]
	case *ast.SelectorExpr:
		obj = info.Uses[x.Sel]
	}
	v, ok := obj.(*types.Var)
	if !ok || v.IsField() || v.Pkg() == nil {
		return false
	}
	return v.Parent() == v.Pkg().Scope()
}

// c22factNonNil: a fact `name != nil` (true) or `name == nil` (false) holds.
func c22factNonNil(facts []Fact, name string) bool {
	return factMatches(facts, func(ft Fact) bool {
		be, ok := unparen(ft.Cond).(*ast.BinaryExpr)
		if !ok || exprStr(be.Y) != "nil" || exprStr(be.X) != name {
			return false
		}
		return (be.Op == token.NEQ && ft.Val) || (be.Op == token.EQL && !ft.Val)
	})
}

func c22paramObj(f *Func, name string) types.Object {
	for _, fl := range f.Decl.Type.Params.List {
		for _, nm := range fl.Names {
			if nm.Name == name {
				return f.Info().Defs[nm]
			}
		}
	}
	return nil
}

func c22resultObj(f *Func, name string) types.Object {
	if f.Decl.Type.Results == nil {
		return nil
	}
	for _, fl := range f.Decl.Type.Results.List {
		for _, nm := range fl.Names {
			if nm.Name == name {
				return f.Info().Defs[nm]
			}
		}
	}
	return nil
}

func c22identObj(info *types.Info, e ast.Expr) types.Object {
	id, ok := unparen(e).(*ast.Ident)
	if !ok {
		return nil
	}
	if o := info.Uses[id]; o != nil {
		return o
	}
	return info.Defs[id]
}

// c22defFromCall: obj is defined exactly once in f, by `.. := recv.callee(..)`
// at result position idx; returns the call.
func c22defFromCall(f *Func, obj types.Object, callee string, idx int) *ast.CallExpr {
	if obj == nil {
		return nil
	}
	var found *ast.CallExpr
	n := 0
	info := f.Info()
	ast.Inspect(f.Decl.Body, func(x ast.Node) bool {
		as, ok := x.(*ast.AssignStmt)
		if !ok {
			return true
		}
		for i, l := range as.Lhs {
			if c22identObj(info, l) != obj {
				continue
			}
			n++
			if len(as.Rhs) == 1 && i == idx {
				if call, ok := unparen(as.Rhs[0]).(*ast.CallExpr); ok && calleeName(info, call) == callee {
					found = call
				}
			}
		}
		return true
	})
	if n != 1 {
		return nil
	}
	return found
}

func c22correlation(c *Ctx, m *Module) {
	rule := "response-matches-correlation-id"
	if f := c.NeedFunc(m, "kgo.brokerCxn.readResponse"); f != nil {
		info := f.Info()
		g := f.Graph()
		corr := c22paramObj(f, "corrID")
		if corr == nil {
			c.Undecided(rule, f.Key, f.Pos(), m, "parameter corrID not found")
		} else {
			c.Check(len(assignsTo(f, corr)) == 0, rule, f.Key+"#corrID-not-reassigned", f.Pos(), m, "", "the expected correlation ID parameter is reassigned inside readResponse")
			// the response buffer: second result of the single readConn call
			var bufObj types.Object
			ast.Inspect(f.Decl.Body, func(x ast.Node) bool {
				if as, ok := x.(*ast.AssignStmt); ok && len(as.Rhs) == 1 && len(as.Lhs) >= 2 {
					if call, ok := unparen(as.Rhs[0]).(*ast.CallExpr); ok && calleeName(info, call) == "kgo.brokerCxn.readConn" {
						bufObj = c22identObj(info, as.Lhs[1])
					}
				}
				return true
			})
			if bufObj == nil || len(assignsTo(f, bufObj)) != 1 {
				c.Undecided(rule, f.Key+"#buffer", f.Pos(), m, "the response buffer is not the (single-assignment) second result of readConn")
			}
			// isIDCheck: fact comparing corrID with a value decoded from the buffer
			// decoded from the buffer: a single-assignment local whose definition
			// mentions the buffer, directly or through such locals (a reader over it)
			var derives func(o types.Object, depth int) bool
			derives = func(o types.Object, depth int) bool {
				if o == nil || bufObj == nil || depth > 3 {
					return false
				}
				defs := assignsTo(f, o)
				if len(defs) != 1 || defs[0] == nil {
					return false
				}
				if mentionsObj(defs[0], info, bufObj, false) {
					return true
				}
				found := false
				ast.Inspect(defs[0], func(x ast.Node) bool {
					if id, ok := x.(*ast.Ident); ok && !found {
						if v, isV := info.Uses[id].(*types.Var); isV && !v.IsField() && v != o && v.Parent() != v.Pkg().Scope() {
							if derives(v, depth+1) {
								found = true
							}
						}
					}
					return !found
				})
				return found
			}
			fromBuf := func(e ast.Expr) bool { return derives(c22identObj(info, e), 0) }
			idFact := func(ft Fact) (isCheck, equal bool) {
				be, ok := unparen(ft.Cond).(*ast.BinaryExpr)
				if !ok || ft.Tag != nil || (be.Op != token.NEQ && be.Op != token.EQL) {
					return false, false
				}
				x, y := be.X, be.Y
				if c22identObj(info, y) != corr {
					x, y = y, x
				}
				if c22identObj(info, y) != corr || !fromBuf(x) {
					return false, false
				}
				return true, (be.Op == token.EQL) == ft.Val
			}
			nSucc, nMis := 0, 0
			for _, rn := range findNodes(f.Decl.Body, false, func(x ast.Node) bool { _, ok := x.(*ast.ReturnStmt); return ok }) {
				r := rn.(*ast.ReturnStmt)
				if len(r.Results) != 2 {
					c.Undecided(rule, f.Key+": "+nodeStr(r), r.Pos(), m, "unexpected return arity")
					continue
				}
				l, _ := g.LocOf(r)
				if !g.Reachable(l) {
					continue
				}
				facts := g.FactsAt(l)
				matched, mismatched := false, false
				for _, ft := range facts {
					if is, eq := idFact(ft); is {
						if eq {
							matched = true
						} else {
							mismatched = true
						}
					}
				}
				errRes := r.Results[1]
				isErr := c22pkgLevelErr(info, errRes)
				if id, ok := unparen(errRes).(*ast.Ident); ok && !isErr {
					isErr = c22factNonNil(facts, id.Name)
				}
				cons := f.Key + ": " + nodeStr(r)
				switch {
				case mismatched:
					nMis++
					c.Check(isErr, rule, cons+"#mismatch-is-error", r.Pos(), m, "mismatching ID returns an error", "a response whose correlation ID differs from the request's is not turned into an error")
				case isErr:
					c.OK(rule, cons, r.Pos(), m, "error return")
				default:
					nSucc++
					c.Check(matched, rule, cons, r.Pos(), m, "dominated by the correlation ID comparison", "a response can be returned (nil error possible) on a path that never compared its correlation ID with the request's: a stale or foreign response is delivered to this request")
				}
			}
			c.Floor(rule+"#success-returns", nSucc, 2)
			c.Floor(rule+"#mismatch-arm", nMis, 1)
		}
	}
	// single writer of the connection's next correlation ID
	rule2 := "correlation-id-single-writer"
	cf := fieldMust(c, m, "brokerCxn", "corrID")
	if f := c.NeedFunc(m, "kgo.brokerCxn.writeRequest"); f != nil && cf != nil {
		info := f.Info()
		g := f.Graph()
		res := c22resultObj(f, "corrID")
		var take *ast.AssignStmt
		nTake := 0
		ast.Inspect(f.Decl.Body, func(x ast.Node) bool {
			if as, ok := x.(*ast.AssignStmt); ok {
				for i, l := range as.Lhs {
					if res != nil && c22identObj(info, l) == res {
						nTake++
						if len(as.Lhs) == len(as.Rhs) && sameField(fieldOfSel(info, as.Rhs[i]), cf) && as.Tok == token.ASSIGN {
							take = as
						}
					}
				}
			}
			return true
		})
		if res == nil || take == nil || nTake != 1 {
			c.Fail(rule2, f.Key+"#returned-id", f.Pos(), m, "the returned correlation ID is not assigned exactly once from cxn.corrID")
		} else {
			tl, _ := g.LocOf(take)
			c.OK(rule2, f.Key+"#returned-id", take.Pos(), m, "corrID = cxn.corrID, once")
			// every return yields the named result
			for _, rn := range findNodes(f.Decl.Body, false, func(x ast.Node) bool { _, ok := x.(*ast.ReturnStmt); return ok }) {
				r := rn.(*ast.ReturnStmt)
				ok := len(r.Results) == 0 || c22identObj(info, r.Results[0]) == res
				if !ok {
					c.Fail(rule2, f.Key+": "+nodeStr(r), r.Pos(), m, "a return yields a correlation ID other than the one taken from cxn.corrID")
				}
			}
			// the ID put on the wire is cxn.corrID, read before the take
			wrote := false
			for _, call := range c22calls(f.Decl.Body, func(call *ast.CallExpr) bool {
				return calleeObj(info, call) != nil && calleeObj(info, call).Name() == "AppendRequest"
			}) {
				al, _ := g.LocOf(call)
				if len(call.Args) == 3 && sameField(fieldOfSel(info, call.Args[2]), cf) && g.Dominates(al, tl) {
					wrote = true
				}
			}
			c.Check(wrote, rule2, f.Key+"#wire-id", f.Pos(), m, "AppendRequest(.., cxn.corrID) dominates the take", "the correlation ID written on the wire is not cxn.corrID as returned to the caller")
			// stores
			nInc, nWrap := 0, 0
			for _, st := range StoreSites(m.FuncsIn("kgo"), cf) {
				cons := st.Fn.Key + ": " + nodeStr(st.Node)
				if st.Fn.Key != f.Key {
					c.Fail(rule2, cons, st.Node.Pos(), m, "cxn.corrID is written outside writeRequest: a response could be matched against an ID that was never sent")
					continue
				}
				sl, ok := g.LocOf(st.Node)
				after := ok && g.Dominates(tl, sl)
				switch {
				case st.Kind == "inc":
					nInc++
					c.Check(after, rule2, cons, st.Node.Pos(), m, "increment after the ID was taken", "cxn.corrID is incremented before the ID for this request was taken: the returned ID is not the one written")
				case st.Kind == "assign" && st.RHS != nil:
					v, isC := constInt(info, st.RHS)
					wrap := factMatches(g.FactsAt(sl), func(ft Fact) bool {
						be, ok := unparen(ft.Cond).(*ast.BinaryExpr)
						if !ok || !ft.Val || be.Op != token.LSS || !sameField(fieldOfSel(info, be.X), cf) {
							return false
						}
						z, okz := constInt(info, be.Y)
						return okz && z == 0
					})
					nWrap++
					c.Check(after && isC && v == 0 && wrap, rule2, cons, st.Node.Pos(), m, "wrap to 0 on overflow only", "cxn.corrID is reset other than by the overflow wrap: in-flight requests can share an ID")
				default:
					c.Fail(rule2, cons, st.Node.Pos(), m, "unexpected kind of write ("+st.Kind+") to cxn.corrID")
				}
			}
			c.Check(nInc == 1 && nWrap <= 1, rule2, f.Key+"#one-increment", f.Pos(), m, "", fmt.Sprintf("expected exactly one increment of cxn.corrID per written request, found %d (and %d resets)", nInc, nWrap))
		}
	}
	// every readResponse is given the ID of the request just written
	rule3 := "response-read-with-written-id"
	rr := m.Func("kgo.brokerCxn.readResponse")
	n := 0
	if rr != nil {
		for _, site := range CallSites(m.FuncsIn("kgo"), rr.Obj) {
			n++
			c.Touch(site.Fn)
			call := site.Node.(*ast.CallExpr)
			info := site.Fn.Info()
			cons := site.Fn.Key + ": readResponse"
			if len(call.Args) < 4 {
				c.Undecided(rule3, cons, call.Pos(), m, "unexpected arity")
				continue
			}
			arg := call.Args[3]
			ok := false
			detail := ""
			if fv := fieldOfSel(info, arg); fv != nil && fv.Name() == "corrID" {
				if tv, okt := info.Types[unparen(arg).(*ast.SelectorExpr).X]; okt && tv.Type != nil && strings.HasSuffix(tv.Type.String(), "promisedResp") {
					ok, detail = true, "promisedResp.corrID"
				}
			} else if w := c22defFromCall(site.Fn, c22identObj(info, arg), "kgo.brokerCxn.writeRequest", 0); w != nil {
				ok, detail = true, "result of the preceding writeRequest"
			}
			c.Check(ok, rule3, cons, call.Pos(), m, detail, "readResponse is not given the correlation ID returned by writeRequest (or carried in the promisedResp)")
		}
	}
	c.Floor(rule3, n, 4)
	if f := c.NeedFunc(m, "kgo.broker.handleReq"); f != nil {
		info := f.Info()
		for _, call := range c22calls(f.Decl.Body, func(call *ast.CallExpr) bool { return calleeName(info, call) == "kgo.brokerCxn.waitResp" }) {
			ok := false
			if len(call.Args) == 1 {
				if cl, isLit := unparen(call.Args[0]).(*ast.CompositeLit); isLit {
					if e := c22litField(info, cl, "corrID"); e != nil {
						ok = c22defFromCall(f, c22identObj(info, e), "kgo.brokerCxn.writeRequest", 0) != nil
					}
				}
			}
			c.Check(ok, rule3, f.Key+": promisedResp.corrID", call.Pos(), m, "filled from writeRequest's result", "the promisedResp's corrID is not the ID returned by writeRequest for this request")
		}
	}
}

// ---------------------------------------------------------------------------
// (3) bounds

// c22rel normalises a comparison fact into (x, op, y) that holds as true.
func c22rel(ft Fact) (x ast.Expr, op token.Token, y ast.Expr, ok bool) {
	be, isB := unparen(ft.Cond).(*ast.BinaryExpr)
	if !isB || ft.Tag != nil {
		return nil, 0, nil, false
	}
	op = be.Op
	if !ft.Val {
		switch op {
		case token.LSS:
			op = token.GEQ
		case token.LEQ:
			op = token.GTR
		case token.GTR:
			op = token.LEQ
		case token.GEQ:
			op = token.LSS
		case token.EQL:
			op = token.NEQ
		case token.NEQ:
			op = token.EQL
		default:
			return nil, 0, nil, false
		}
	}
	switch op {
	case token.LSS, token.LEQ, token.GTR, token.GEQ, token.EQL, token.NEQ:
		return be.X, op, be.Y, true
	}
	return nil, 0, nil, false
}

func c22bounds(c *Ctx, m *Module) {
	rule := "response-read-bounds"
	sums := map[string]calleeSummary{}
	for k, v := range kbinSummaries {
		sums[k] = v
	}
	readN := func(bufArg int) calleeSummary {
		return func(res, args []string) []dbc {
			if len(res) < 1 || len(args) <= bufArg {
				return nil
			}
			return []dbc{{res[0], "", 0, "read: n >= 0"}, {"len(" + args[bufArg] + ")", res[0], 0, "read: n <= len(buf)"}}
		}
	}
	sums["io.ReadFull"] = readN(1)
	sums["net.Conn.Read"] = readN(0)
	exempt := map[string]string{}
	// parseReadSize's parameter: proven at the call sites
	if f := c.NeedFunc(m, "kgo.brokerCxn.parseReadSize"); f != nil && len(f.Decl.Type.Params.List) == 1 && len(f.Decl.Type.Params.List[0].Names) == 1 {
		info := f.Info()
		param := info.Defs[f.Decl.Type.Params.List[0].Names[0]]
		need := int64(4)
		callersOK := true
		nSites := 0
		for _, site := range CallSites(m.FuncsIn("kgo"), f.Obj) {
			nSites++
			c.Touch(site.Fn)
			call := site.Node.(*ast.CallExpr)
			si := site.Fn.Info()
			ok := false
			if len(call.Args) == 1 {
				if se, isS := unparen(call.Args[0]).(*ast.SliceExpr); isS && se.Max == nil {
					lo := int64(0)
					okLo := true
					if se.Low != nil {
						lo, okLo = constInt(si, se.Low)
					}
					if se.High != nil {
						if hi, okHi := constInt(si, se.High); okHi && okLo && hi-lo >= need {
							// the sliced operand itself must be long enough: array type or make() of a constant
							ok = c22constLenAtLeast(site.Fn, se.X, hi)
						}
					} else if tv, okT := si.Types[se.X]; okT && tv.Type != nil && okLo {
						if arr, isArr := tv.Type.Underlying().(*types.Array); isArr && arr.Len()-lo >= need {
							ok = true
						}
					}
				}
			}
			if !ok {
				callersOK = false
			}
			c.Check(ok, "parse-size-callers", site.Fn.Key+": parseReadSize("+exprStr(call.Args[0])+")", call.Pos(), m, "passes a slice of at least 4 bytes", "parseReadSize is given a slice not known to hold the four size bytes: decoding it can panic")
		}
		c.Floor("parse-size-callers", nSites, 2)
		if callersOK && nSites > 0 && len(assignsTo(f, param)) == 0 {
			// exempt constant accesses below 4 on the parameter
			cnt := map[string]int{}
			ast.Inspect(f.Decl.Body, func(x ast.Node) bool {
				desc := ""
				switch e := x.(type) {
				case *ast.IndexExpr:
					if c22identObj(info, e.X) == param {
						if v, ok := constInt(info, e.Index); ok && v >= 0 && v < need {
							desc = exprStr(e)
						}
					}
				case *ast.CallExpr:
					if fn, ok := calleeObj(info, e).(*types.Func); ok && len(e.Args) >= 1 && c22identObj(info, e.Args[0]) == param {
						if req, ok := lenRequiringCalls[keyOfObj(fn)]; ok && req <= need {
							desc = exprStr(e)
						}
					}
				}
				if desc != "" {
					k := f.Key + ": " + desc
					cnt[k]++
					if cnt[k] > 1 {
						k = fmt.Sprintf("%s #%d", k, cnt[k])
					}
					exempt[k] = "the parameter holds at least 4 bytes at every call site (rule parse-size-callers)"
				}
				return true
			})
		}
	}
	// discard's scratch buffer: a local made once with a constant length
	if f := c.NeedFunc(m, "kgo.brokerCxn.discard"); f != nil {
		info := f.Info()
		cnt := map[string]int{}
		ast.Inspect(f.Decl.Body, func(x ast.Node) bool {
			se, ok := x.(*ast.SliceExpr)
			if !ok || se.Low != nil || se.Max != nil || se.High == nil {
				return true
			}
			hi, okHi := constInt(info, se.High)
			if !okHi || hi < 0 {
				return true
			}
			if _, isID := unparen(se.X).(*ast.Ident); !isID {
				return true
			}
			k := f.Key + ": " + exprStr(se)
			cnt[k]++
			if cnt[k] > 1 {
				k = fmt.Sprintf("%s #%d", k, cnt[k])
			}
			if c22constLenAtLeast(f, se.X, hi) {
				exempt[k] = "the sliced local is made once with a constant length >= the bound and never reassigned"
			}
			return true
		})
	}
	keys := []string{"kgo.brokerCxn.parseReadSize", "kgo.brokerCxn.readConn", "kgo.brokerCxn.readResponse", "kgo.brokerCxn.discard", "kgo.brokerCxn.handleResp"}
	n := boundsRule(c, m, rule, keys, sums, exempt)
	c.Floor(rule, n, 8)

	// the size is validated before it sizes an allocation
	rule2 := "response-size-checked-before-alloc"
	maxF := m.Field("kgo", "cfg", "maxBrokerReadBytes")
	if f := c.NeedFunc(m, "kgo.brokerCxn.parseReadSize"); f != nil {
		info := f.Info()
		g := f.Graph()
		if maxF == nil {
			c.Undecided("anchor", "kgo.cfg.maxBrokerReadBytes", 0, m, "field not found")
		}
		isMax := func(e ast.Expr) bool {
			if sameField(fieldOfSel(info, e), maxF) {
				return true
			}
			o := c22identObj(info, e)
			if o == nil {
				return false
			}
			defs := assignsTo(f, o)
			return len(defs) == 1 && defs[0] != nil && sameField(fieldOfSel(info, defs[0]), maxF)
		}
		nS := 0
		for _, rn := range findNodes(f.Decl.Body, false, func(x ast.Node) bool { _, ok := x.(*ast.ReturnStmt); return ok }) {
			r := rn.(*ast.ReturnStmt)
			if len(r.Results) != 2 || !c22isNilExpr(info, r.Results[1]) {
				continue
			}
			nS++
			so := c22identObj(info, r.Results[0])
			l, _ := g.LocOf(r)
			lower, upper := false, false
			if so != nil && len(assignsTo(f, so)) == 1 {
				for _, ft := range g.FactsAt(l) {
					x, op, y, ok := c22rel(ft)
					if !ok {
						continue
					}
					if c22identObj(info, y) == so { // flip so that size is on the left
						x, y = y, x
						switch op {
						case token.LSS:
							op = token.GTR
						case token.LEQ:
							op = token.GEQ
						case token.GTR:
							op = token.LSS
						case token.GEQ:
							op = token.LEQ
						}
					}
					if c22identObj(info, x) != so {
						continue
					}
					if z, okz := constInt(info, y); okz && ((op == token.GEQ && z >= 0) || (op == token.GTR && z >= -1)) {
						lower = true
					}
					if isMax(y) && (op == token.LEQ || op == token.LSS) {
						upper = true
					}
				}
			}
			var miss []string
			if so == nil {
				miss = append(miss, "the returned size is not a local decoded once")
			}
			if !lower {
				miss = append(miss, "a negative size is accepted")
			}
			if !upper {
				miss = append(miss, "a size above cfg.maxBrokerReadBytes is accepted (the client allocates whatever a peer announces)")
			}
			c.Check(len(miss) == 0, rule2, f.Key+": "+nodeStr(r), r.Pos(), m, "0 <= size <= cfg.maxBrokerReadBytes", strings.Join(miss, "; "))
		}
		c.Floor(rule2+"#accepting-returns", nS, 1)
	}
	nMake := 0
	for _, key := range []string{"kgo.brokerCxn.readConn", "kgo.brokerCxn.readResponse", "kgo.brokerCxn.discard", "kgo.brokerCxn.handleResp"} {
		f := c.NeedFunc(m, key)
		if f == nil {
			continue
		}
		info := f.Info()
		ast.Inspect(f.Decl.Body, func(x ast.Node) bool {
			call, ok := x.(*ast.CallExpr)
			if !ok || len(call.Args) < 2 {
				return true
			}
			id, ok := unparen(call.Fun).(*ast.Ident)
			if !ok || id.Name != "make" {
				return true
			}
			if _, isB := info.Uses[id].(*types.Builtin); !isB {
				return true
			}
			for _, a := range call.Args[1:] {
				if _, isC := constInt(info, a); isC {
					continue
				}
				nMake++
				cons := key + ": " + exprStr(call)
				so := c22identObj(info, a)
				src := c22defFromCall(f, so, "kgo.brokerCxn.parseReadSize", 0)
				if src == nil {
					c.Fail(rule2, cons, call.Pos(), m, "an allocation is sized by a value that is not the validated result of parseReadSize")
					continue
				}
				g := f.GraphFor(call)
				ml, ok1 := g.LocOf(call)
				sl, ok2 := g.LocOf(src)
				checked := false
				if ok1 && ok2 && g.Dominates(sl, ml) {
					for _, ft := range g.FactsAt(ml) {
						be, isB := unparen(ft.Cond).(*ast.BinaryExpr)
						if !isB || exprStr(be.Y) != "nil" {
							continue
						}
						isNilFact := (be.Op == token.NEQ && !ft.Val) || (be.Op == token.EQL && ft.Val)
						cl, okc := g.LocOf(ft.Cond)
						if isNilFact && okc && (g.Dominates(sl, cl) || sl == cl) && c22errOfCall(f, src, be.X) {
							checked = true
						}
					}
				}
				c.Check(checked, rule2, cons, call.Pos(), m, "sized by parseReadSize's result after its error check", "the buffer is allocated before parseReadSize's error is checked: a rejected (negative or oversized) size reaches make")
			}
			return true
		})
	}
	c.Floor(rule2+"#allocs", nMake, 1)
}

// c22errOfCall: e is the variable receiving the last (error) result of call.
func c22errOfCall(f *Func, call *ast.CallExpr, e ast.Expr) bool {
	as, ok := enclosingStmt(f.Decl.Body, call).(*ast.AssignStmt)
	if !ok || len(as.Rhs) != 1 || unparen(as.Rhs[0]) != ast.Expr(call) || len(as.Lhs) < 1 {
		return false
	}
	info := f.Info()
	o := c22identObj(info, as.Lhs[len(as.Lhs)-1])
	return o != nil && o == c22identObj(info, e)
}

// c22constLenAtLeast: e is an array of length >= n, or a local defined once by
// make([]T, K) with constant K >= n.
func c22constLenAtLeast(f *Func, e ast.Expr, n int64) bool {
	info := f.Info()
	if tv, ok := info.Types[e]; ok && tv.Type != nil {
		if arr, isArr := tv.Type.Underlying().(*types.Array); isArr {
			return arr.Len() >= n
		}
	}
	o := c22identObj(info, e)
	if o == nil {
		return false
	}
	defs := assignsTo(f, o)
	if len(defs) != 1 || defs[0] == nil {
		return false
	}
	call, ok := unparen(defs[0]).(*ast.CallExpr)
	if !ok || exprStr(call.Fun) != "make" || len(call.Args) < 2 {
		return false
	}
	k, okK := constInt(info, call.Args[1])
	return okK && k >= n
}

// ---------------------------------------------------------------------------
// (4) death reaches every waiter

// c22atomicCall: call is <field>.<method>(..) on an atomic field of the named struct field.
func c22atomicOn(info *types.Info, call *ast.CallExpr, field *types.Var, method string) bool {
	sel, ok := unparen(call.Fun).(*ast.SelectorExpr)
	if !ok || sel.Sel.Name != method {
		return false
	}
	return sameField(fieldOfSel(info, sel.X), field)
}

// c22guardedTail checks the shape `if .. || x.dead.Swap(true) { return }` followed by
// required calls: each required call is dominated by Swap == false and reached
// on every path after the guard.
func c22guardedTail(c *Ctx, m *Module, rule string, f *Func, dead *types.Var, required map[string]func(n ast.Node) bool) {
	info := f.Info()
	g := f.Graph()
	var swaps []*ast.CallExpr
	for _, call := range c22calls(f.Decl.Body, func(call *ast.CallExpr) bool { return c22atomicOn(info, call, dead, "Swap") }) {
		swaps = append(swaps, call)
	}
	if len(swaps) != 1 || len(swaps[0].Args) != 1 {
		c.Fail(rule, f.Key+"#idempotent-guard", f.Pos(), m, "expected exactly one dead.Swap(true) guard")
		return
	}
	swap := swaps[0]
	if v, ok := constBool(info, swap.Args[0]); !ok || !v {
		c.Fail(rule, f.Key+"#idempotent-guard", swap.Pos(), m, "dead.Swap does not store true")
		return
	}
	sl, ok := g.LocOf(swap)
	if !ok {
		c.Undecided(rule, f.Key+"#idempotent-guard", swap.Pos(), m, "guard not located")
		return
	}
	guardBlk := g.C.Blocks[sl.B]
	cond, _, isCond := g.condOf(guardBlk)
	isGuard := isCond && containsNode(cond, false, func(x ast.Node) bool { return x == ast.Node(swap) })
	// the true edge leaves the function without side effects
	c.Check(isGuard, rule, f.Key+"#idempotent-guard", swap.Pos(), m, "second and later calls return at the Swap", "the result of dead.Swap(true) is not tested: a second die() repeats the teardown (double close panics)")
	if !isGuard {
		return
	}
	swapFalse := func(facts []Fact) bool {
		return factMatches(facts, func(ft Fact) bool { return !ft.Val && unparen(ft.Cond) == ast.Expr(swap) })
	}
	for _, name := range sortedKeys(required) {
		pred := required[name]
		var sites []ast.Node
		for _, b := range g.C.Blocks {
			if !g.live[b.Index] {
				continue
			}
			for _, n := range b.Nodes {
				if pred(n) {
					sites = append(sites, n)
				}
			}
		}
		cons := f.Key + ": " + name
		if len(sites) == 0 {
			c.Fail(rule, cons, f.Pos(), m, "teardown step missing: "+name)
			continue
		}
		allGuarded := true
		for _, s := range sites {
			l, _ := g.LocOf(s)
			if !swapFalse(g.FactsAt(l)) {
				allGuarded = false
			}
		}
		path, skip := g.FindPath(sl, SearchOpts{
			Stop:     pred,
			EdgeOK:   func(from *cfg.Block, k int, to *cfg.Block) bool { return !(from == guardBlk && k == 0) },
			GoalExit: func(k ExitKind, _ ast.Node) bool { return k != ExitPanic },
		})
		detail := ""
		if !allGuarded {
			detail = "step runs without winning the dead swap (can run twice)"
		}
		if skip {
			detail += " an exit is reachable after the swap without this step (path: " + pathStr(path) + ")"
		}
		c.Check(allGuarded && !skip, rule, cons, sites[0].Pos(), m, "runs exactly when the swap was won, on every path", strings.TrimSpace(detail))
	}
}

func c22death(c *Ctx, m *Module) {
	rule := "die-fails-every-waiter"
	funcs := m.FuncsIn("kgo")
	cdead := fieldMust(c, m, "brokerCxn", "dead")
	bdead := fieldMust(c, m, "broker", "dead")
	deadCh := fieldMust(c, m, "brokerCxn", "deadCh")
	conn := fieldMust(c, m, "brokerCxn", "conn")
	if cdead == nil || bdead == nil || deadCh == nil || conn == nil {
		return
	}
	// writers of the dead flags
	for _, st := range StoreSites(funcs, cdead) {
		ok := st.Fn.Key == "kgo.brokerCxn.die" && st.Kind == "atomic:Swap"
		c.Check(ok, rule, st.Fn.Key+": brokerCxn.dead "+st.Kind, st.Node.Pos(), m, "", "brokerCxn.dead is written outside die's Swap guard: the connection is marked dead without failing its waiters (or revived)")
	}
	for _, st := range StoreSites(funcs, bdead) {
		ok := st.Fn.Key == "kgo.broker.stopForever" && st.Kind == "atomic:Swap"
		c.Check(ok, rule, st.Fn.Key+": broker.dead "+st.Kind, st.Node.Pos(), m, "", "broker.dead is written outside stopForever's Swap guard")
	}
	isCloseDeadCh := func(info *types.Info) func(n ast.Node) bool {
		return func(n ast.Node) bool {
			return c22nodeHas(n, func(call *ast.CallExpr) bool {
				id, ok := unparen(call.Fun).(*ast.Ident)
				if !ok || id.Name != "close" || len(call.Args) != 1 {
					return false
				}
				_, isB := info.Uses[id].(*types.Builtin)
				return isB && sameField(fieldOfSel(info, call.Args[0]), deadCh)
			})
		}
	}
	if f := c.NeedFunc(m, "kgo.brokerCxn.die"); f != nil {
		info := f.Info()
		c22guardedTail(c, m, rule, f, cdead, map[string]func(n ast.Node) bool{
			"conn.Close()": func(n ast.Node) bool {
				return c22nodeHas(n, func(call *ast.CallExpr) bool {
					sel, ok := unparen(call.Fun).(*ast.SelectorExpr)
					return ok && sel.Sel.Name == "Close" && sameField(fieldOfSel(info, sel.X), conn)
				})
			},
			"close(deadCh)": isCloseDeadCh(info),
			"resps.die()": func(n ast.Node) bool {
				return c22nodeHas(n, func(call *ast.CallExpr) bool { return c22ringCall(info, call, "die", "resps") })
			},
			"failParked()": func(n ast.Node) bool {
				return c22nodeHas(n, func(call *ast.CallExpr) bool { return calleeName(info, call) == "kgo.brokerCxn.failParked" })
			},
		})
	}
	// deadCh is closed nowhere else
	nClose := 0
	for _, f := range funcs {
		info := f.Info()
		pred := isCloseDeadCh(info)
		ast.Inspect(f.Decl.Body, func(x ast.Node) bool {
			if es, ok := x.(*ast.ExprStmt); ok && pred(es) {
				nClose++
				c.Check(f.Key == "kgo.brokerCxn.die", rule, f.Key+": close(deadCh)", es.Pos(), m, "", "deadCh is closed outside die (double close panics; waiters released without the connection being torn down)")
			}
			if ds, ok := x.(*ast.DeferStmt); ok && pred(&ast.ExprStmt{X: ds.Call}) {
				nClose++
				c.Fail(rule, f.Key+": defer close(deadCh)", ds.Pos(), m, "deadCh is closed outside die's guarded tail")
			}
			return true
		})
	}
	c.Floor(rule+"#deadCh-close", nClose, 1)
	// failParked is die's only caller-side entry
	if fp := m.Func("kgo.brokerCxn.failParked"); fp != nil {
		for _, site := range CallSites(funcs, fp.Obj) {
			c.Check(site.Fn.Key == "kgo.brokerCxn.die", rule, site.Fn.Key+": failParked()", site.Node.Pos(), m, "", "failParked is called outside die: requests are failed on a connection that is still alive")
		}
	}
	// stopForever
	if f := c.NeedFunc(m, "kgo.broker.stopForever"); f != nil {
		info := f.Info()
		g := f.Graph()
		// the slice literal of connections names every *brokerCxn field of broker
		var cxnFields []string
		if bo := m.Object("kgo", "broker"); bo != nil {
			if st, ok := bo.Type().Underlying().(*types.Struct); ok {
				for i := 0; i < st.NumFields(); i++ {
					if p, ok := st.Field(i).Type().(*types.Pointer); ok {
						if nm, ok := p.Elem().(*types.Named); ok && nm.Obj().Name() == "brokerCxn" {
							cxnFields = append(cxnFields, st.Field(i).Name())
						}
					}
				}
			}
		}
		var loopX ast.Expr
		var loop *ast.RangeStmt
		okAll := false
		ast.Inspect(f.Decl.Body, func(x ast.Node) bool {
			rs, ok := x.(*ast.RangeStmt)
			if !ok || rs.Value == nil {
				return true
			}
			o := c22identObj(info, rs.X)
			if o == nil {
				return true
			}
			defs := assignsTo(f, o)
			if len(defs) != 1 || defs[0] == nil {
				return true
			}
			cl, ok := unparen(defs[0]).(*ast.CompositeLit)
			if !ok {
				return true
			}
			have := map[string]bool{}
			for _, e := range cl.Elts {
				if fv := fieldOfSel(info, e); fv != nil {
					have[fv.Name()] = true
				}
			}
			all := len(cxnFields) > 0
			for _, fn := range cxnFields {
				if !have[fn] {
					all = false
				}
			}
			// body: value.die() unconditionally
			dies := len(rs.Body.List) >= 1
			found := false
			for _, st := range rs.Body.List {
				if es, ok := st.(*ast.ExprStmt); ok {
					if call, ok := es.X.(*ast.CallExpr); ok && calleeName(info, call) == "kgo.brokerCxn.die" && exprStr(unparen(call.Fun).(*ast.SelectorExpr).X) == exprStr(rs.Value) {
						found = true
					}
				}
			}
			if all && dies && found {
				okAll = true
				loop = rs
				loopX = rs.X
			}
			return true
		})
		c.Check(okAll, rule, f.Key+"#dies-every-connection", f.Pos(), m, fmt.Sprintf("die() on each of %v", cxnFields), fmt.Sprintf("stopForever does not die() every connection field of broker (%v): requests in flight on the forgotten connection wait for their read timeout instead of failing", cxnFields))
		req := map[string]func(n ast.Node) bool{
			"reqs.die()": func(n ast.Node) bool {
				return c22nodeHas(n, func(call *ast.CallExpr) bool { return c22ringCall(info, call, "die", "reqs") })
			},
		}
		if loop != nil {
			req["range cxns { cxn.die() }"] = func(n ast.Node) bool { return n == ast.Node(loopX) }
		}
		c22guardedTail(c, m, rule, f, bdead, req)
		_ = g
	}
	// loadConnection publishes a connection only under reapMu after re-checking b.dead
	if f := c.NeedFunc(m, "kgo.broker.loadConnection"); f != nil {
		info := f.Info()
		g := f.Graph()
		env := newLockEnv(f, nil, nil)
		nPub := 0
		var cxnFieldVars []*types.Var
		for _, nm := range []string{"cxnNormal", "cxnProduce", "cxnFetch", "cxnGroup", "cxnSlow"} {
			if v := m.Field("kgo", "broker", nm); v != nil {
				cxnFieldVars = append(cxnFieldVars, v)
			}
		}
		for _, n := range findNodes(f.Decl.Body, false, func(x ast.Node) bool {
			as, ok := x.(*ast.AssignStmt)
			if !ok {
				return false
			}
			for _, l := range as.Lhs {
				if _, isStar := unparen(l).(*ast.StarExpr); isStar {
					return true
				}
				for _, v := range cxnFieldVars {
					if sameField(fieldOfSel(info, l), v) {
						return true
					}
				}
			}
			return false
		}) {
			nPub++
			l, _ := g.LocOf(n)
			held, okH := env.HeldAtNode(n)
			locked := okH && held.Holds("b.reapMu", true)
			rechecked := false
			for _, ft := range g.FactsAt(l) {
				call, ok := unparen(ft.Cond).(*ast.CallExpr)
				if !ok || ft.Val || !c22atomicOn(info, call, bdead, "Load") {
					continue
				}
				if h2, ok2 := env.HeldAtNode(call); ok2 && h2.Holds("b.reapMu", true) {
					rechecked = true
				}
			}
			c.Check(locked && rechecked, rule, f.Key+": "+nodeStr(n), n.Pos(), m, "stored under reapMu after b.dead.Load() == false", "a new connection is stored without re-checking b.dead under reapMu: a connection created while stopForever runs escapes die() and its requests are never failed")
		}
		c.Floor(rule+"#connection-publish", nPub, 1)
		for _, v := range cxnFieldVars {
			for _, st := range StoreSites(funcs, v) {
				if st.Fn.Key == f.Key && st.Kind == "addr" {
					continue
				}
				c.Fail(rule, st.Fn.Key+": "+v.Name()+" "+st.Kind, st.Node.Pos(), m, "a broker connection field is written outside loadConnection's checked publish")
			}
		}
	}
	// I/O and authentication errors kill the connection
	rule2 := "io-error-kills-connection"
	type errSite struct{ fn, callee string }
	nErr := 0
	for _, es := range []errSite{
		{"kgo.brokerCxn.handleResp", "kgo.brokerCxn.readResponse"},
		{"kgo.broker.handleReq", "kgo.brokerCxn.writeRequest"},
		{"kgo.broker.handleReq", "kgo.brokerCxn.sasl"},
		{"kgo.broker.handleReauthDrain", "kgo.brokerCxn.sasl"},
		{"kgo.broker.loadConnection", "kgo.brokerCxn.init"},
	} {
		f := c.NeedFunc(m, es.fn)
		if f == nil {
			continue
		}
		info := f.Info()
		g := f.Graph()
		for _, call := range c22calls(f.Decl.Body, func(call *ast.CallExpr) bool { return calleeName(info, call) == es.callee }) {
			as, ok := enclosingStmt(f.Decl.Body, call).(*ast.AssignStmt)
			cons := es.fn + ": " + es.callee[strings.LastIndex(es.callee, ".")+1:] + " error"
			if !ok || len(as.Rhs) != 1 {
				c.Fail(rule2, cons, call.Pos(), m, "the error result is discarded")
				continue
			}
			eo := c22identObj(info, as.Lhs[len(as.Lhs)-1])
			var arm *ast.IfStmt
			al, _ := g.LocOf(as)
			ast.Inspect(f.Decl.Body, func(x ast.Node) bool {
				ifs, ok := x.(*ast.IfStmt)
				if !ok || arm != nil {
					return true
				}
				be, ok := unparen(ifs.Cond).(*ast.BinaryExpr)
				if !ok || be.Op != token.NEQ || !c22isNilExpr(info, be.Y) || c22identObj(info, be.X) != eo || eo == nil {
					return true
				}
				cl, okc := g.LocOf(ifs.Cond)
				if okc && (g.Dominates(al, cl) || ifs.Init == ast.Stmt(as)) {
					arm = ifs
				}
				return true
			})
			if arm == nil {
				c.Fail(rule2, cons, call.Pos(), m, "the error is not checked right after the call")
				continue
			}
			nErr++
			path, alive := armMustPass(g, arm, func(n ast.Node) bool {
				return c22nodeHas(n, func(call *ast.CallExpr) bool { return calleeName(info, call) == "kgo.brokerCxn.die" })
			})
			c.Check(!alive, rule2, cons, arm.Pos(), m, "every path of the error arm calls cxn.die()", "an I/O or authentication error leaves the connection alive: pipelined requests behind it keep waiting on a broken stream (path: "+pathStr(path)+")")
		}
	}
	c.Floor(rule2, nErr, 5)
	// blocking selects of a connection are released by die
	rule3 := "blocking-wait-released-by-die"
	nSel := 0
	for _, f := range funcs {
		if f.Decl.Recv == nil || recvTypeName(f.Decl.Recv.List[0].Type) != "brokerCxn" {
			continue
		}
		info := f.Info()
		ord := 0
		ast.Inspect(f.Decl.Body, func(x ast.Node) bool {
			sel, ok := x.(*ast.SelectStmt)
			if !ok {
				return true
			}
			var arms []ast.Expr
			hasDefault := false
			for _, cc := range sel.Body.List {
				comm := cc.(*ast.CommClause).Comm
				if comm == nil {
					hasDefault = true
					continue
				}
				var e ast.Expr
				switch s := comm.(type) {
				case *ast.ExprStmt:
					e = s.X
				case *ast.AssignStmt:
					if len(s.Rhs) == 1 {
						e = s.Rhs[0]
					}
				}
				if ue, ok := unparen(e).(*ast.UnaryExpr); ok && ue.Op == token.ARROW {
					arms = append(arms, ue.X)
				}
			}
			if hasDefault {
				return true
			}
			nSel++
			ord++
			c.Touch(f)
			released := ""
			for _, a := range arms {
				if sameField(fieldOfSel(info, a), deadCh) {
					released = "<-" + exprStr(a)
					break
				}
				if o := c22identObj(info, a); o != nil && c22closedByConnIO(f, o, conn) {
					released = "<-" + exprStr(a) + " (closed by the goroutine doing I/O on cxn.conn, which die closes)"
					break
				}
			}
			var names []string
			for _, a := range arms {
				names = append(names, "<-"+exprStr(a))
			}
			c.Check(released != "", rule3, fmt.Sprintf("%s#select%d", f.Key, ord), sel.Pos(), m, released,
				"a blocking select on a connection ("+strings.Join(names, ", ")+") has no arm that die() releases: when the connection dies the waiter sleeps on until an unrelated timer/context fires (a broker-chosen throttle is unbounded)")
			return true
		})
	}
	c.Floor(rule3, nSel, 4)
}

// c22closedByConnIO: the local channel is closed (deferred) by a goroutine
// literal of f that performs I/O on cxn.conn.
func c22closedByConnIO(f *Func, ch types.Object, conn *types.Var) bool {
	info := f.Info()
	found := false
	ast.Inspect(f.Decl.Body, func(x ast.Node) bool {
		gs, ok := x.(*ast.GoStmt)
		if !ok {
			return true
		}
		lit, ok := gs.Call.Fun.(*ast.FuncLit)
		if !ok {
			return true
		}
		closes := false
		for _, st := range lit.Body.List {
			if ds, ok := st.(*ast.DeferStmt); ok {
				if id, ok := unparen(ds.Call.Fun).(*ast.Ident); ok && id.Name == "close" && len(ds.Call.Args) == 1 && c22identObj(info, ds.Call.Args[0]) == ch {
					closes = true
				}
			}
		}
		if !closes {
			return true
		}
		io := containsNode(lit.Body, false, func(y ast.Node) bool {
			call, ok := y.(*ast.CallExpr)
			if !ok {
				return false
			}
			if sel, ok := unparen(call.Fun).(*ast.SelectorExpr); ok && sameField(fieldOfSel(info, sel.X), conn) && (sel.Sel.Name == "Read" || sel.Sel.Name == "Write") {
				return true
			}
			for _, a := range call.Args {
				if sameField(fieldOfSel(info, a), conn) && calleeName(info, call) == "io.ReadFull" {
					return true
				}
			}
			return false
		})
		if io {
			found = true
		}
		return true
	})
	return found
}

// ---------------------------------------------------------------------------
// (5) retry jumps on the request path are bounded

// c22cmpFact normalises a comparison fact to (x op y) holding as true.
func c22relOf(ft Fact) (ast.Expr, token.Token, ast.Expr, bool) { return c22rel(ft) }

func c22retry(c *Ctx, m *Module) {
	rule := "retry-jump-bounded"
	n := 0
	for _, f := range m.FuncsIn("kgo") {
		if f.Decl.Recv == nil {
			continue
		}
		rt := recvTypeName(f.Decl.Recv.List[0].Type)
		if rt != "broker" && rt != "brokerCxn" {
			continue
		}
		info := f.Info()
		labels := map[string]*ast.LabeledStmt{}
		ast.Inspect(f.Decl.Body, func(x ast.Node) bool {
			if ls, ok := x.(*ast.LabeledStmt); ok {
				labels[ls.Label.Name] = ls
			}
			return true
		})
		ord := 0
		ast.Inspect(f.Decl.Body, func(x ast.Node) bool {
			bs, ok := x.(*ast.BranchStmt)
			if !ok || bs.Tok != token.GOTO || bs.Label == nil {
				return true
			}
			ls := labels[bs.Label.Name]
			if ls == nil || ls.Pos() > bs.Pos() {
				return true // forward jump
			}
			n++
			ord++
			c.Touch(f)
			cons := fmt.Sprintf("%s: goto %s #%d", f.Key, bs.Label.Name, ord)
			g := f.GraphFor(bs)
			gl, ok := g.LocOf(bs)
			if !ok {
				gl, ok = c22gotoLoc(f, g, bs)
			}
			if !ok {
				c.Undecided(rule, cons, bs.Pos(), m, "backward goto not located in the CFG")
				return true
			}
			facts := g.FactsAt(gl)
			// writes to a local between label and goto (region) / anywhere
			type write struct {
				node ast.Node
				rhs  ast.Expr
				inc  bool
			}
			writesTo := func(o types.Object) []write {
				var out []write
				ast.Inspect(f.Decl.Body, func(y ast.Node) bool {
					switch st := y.(type) {
					case *ast.AssignStmt:
						for i, l := range st.Lhs {
							if id, ok := l.(*ast.Ident); ok && c22identObj(info, id) == o {
								var rhs ast.Expr
								if len(st.Rhs) == len(st.Lhs) {
									rhs = st.Rhs[i]
								}
								out = append(out, write{st, rhs, false})
							}
						}
					case *ast.IncDecStmt:
						if id, ok := st.X.(*ast.Ident); ok && c22identObj(info, id) == o {
							out = append(out, write{st, nil, st.Tok == token.INC})
						}
					case *ast.ValueSpec:
						for i, nm := range st.Names {
							if info.Defs[nm] == o {
								var rhs ast.Expr
								if i < len(st.Values) {
									rhs = st.Values[i]
								}
								out = append(out, write{st, rhs, false})
							}
						}
					case *ast.UnaryExpr:
						if st.Op == token.AND {
							if id, ok := unparen(st.X).(*ast.Ident); ok && c22identObj(info, id) == o {
								out = append(out, write{st, nil, false}) // address taken: unknown writes
							}
						}
					}
					return true
				})
				return out
			}
			isLocalVar := func(o types.Object) bool {
				v, ok := o.(*types.Var)
				return ok && !v.IsField() && o.Pos() >= f.Decl.Pos() && o.Pos() <= f.Decl.End()
			}
			domGoto := func(nd ast.Node) bool {
				l, ok := g.LocOf(nd)
				return ok && (g.Dominates(l, gl) || l == gl)
			}
			inRegion := func(nd ast.Node) bool { return nd.Pos() > ls.Pos() }
			how := ""
			// (A) one-shot boolean latch
			for _, ft := range facts {
				id, ok := unparen(ft.Cond).(*ast.Ident)
				if !ok || ft.Tag != nil || ft.Val || how != "" {
					continue
				}
				o := info.Uses[id]
				if o == nil || !isLocalVar(o) {
					continue
				}
				set, clean := false, true
				for _, w := range writesTo(o) {
					if !inRegion(w.node) {
						continue // declaration / initialisation before the label
					}
					v, isC := false, false
					if w.rhs != nil {
						v, isC = constBool(info, w.rhs)
					}
					if !isC || !v {
						clean = false
						continue
					}
					if domGoto(w.node) {
						set = true
					}
				}
				if set && clean {
					how = "one-shot latch `" + id.Name + "`: tested false, set true before the jump, never cleared after the label"
				}
			}
			// (D) ring drain: continue while dropPeek reports more
			for _, ft := range facts {
				id, ok := unparen(ft.Cond).(*ast.Ident)
				if !ok || ft.Tag != nil || !ft.Val || how != "" {
					continue
				}
				o := info.Uses[id]
				for _, w := range writesTo(o) {
					if as, ok := w.node.(*ast.AssignStmt); ok && len(as.Rhs) == 1 && domGoto(as) && inRegion(as) {
						if call, ok := unparen(as.Rhs[0]).(*ast.CallExpr); ok && calleeName(info, call) == "kgo.ring.dropPeek" {
							how = "ring drain: jumps back only while dropPeek reports another element (each pass removes one)"
						}
					}
				}
			}
			// comparisons
			for _, ft := range facts {
				if how != "" {
					break
				}
				x, op, y, ok := c22relOf(ft)
				if !ok {
					continue
				}
				// (A') constant latch: V != K at the jump, V = K before it
				if op == token.NEQ {
					if k, isK := constInt(info, y); isK {
						if o := c22identObj(info, x); o != nil && isLocalVar(o) {
							okAll, set := true, false
							for _, w := range writesTo(o) {
								if !inRegion(w.node) {
									continue
								}
								if w.rhs == nil {
									okAll = false
									continue
								}
								if v, isC := constInt(info, w.rhs); isC && v == k {
									if domGoto(w.node) {
										set = true
									}
									continue
								}
								// other writes must be strict decreases (V = N under N < V)
								if !c22strictDecrease(f, g, w.node, w.rhs, o) {
									okAll = false
								}
							}
							if okAll && set {
								how = fmt.Sprintf("value latch: `%s` differs from %d at the jump and is set to %d before it (the next pass takes the guarded exit)", o.Name(), k, k)
							}
						}
					}
				}
				// (C) counter: V < K at the jump, V++ once per pass
				if op == token.LSS || op == token.LEQ {
					if _, isK := constInt(info, y); isK {
						if o := c22identObj(info, x); o != nil && isLocalVar(o) {
							incs, okAll := 0, true
							for _, w := range writesTo(o) {
								if !inRegion(w.node) {
									continue
								}
								if w.inc && domGoto(w.node) {
									incs++
								} else {
									okAll = false
								}
							}
							if okAll && incs >= 1 {
								how = "counter: `" + o.Name() + "` is incremented on every pass and the jump is taken only below a constant"
							}
						}
					}
				}
				// (B) strict decrease with a lower bound: N < V at the jump, V = N before it, N >= const
				if op == token.LSS || op == token.GTR {
					lo, hi := x, y
					if op == token.GTR {
						lo, hi = y, x
					}
					vo, no := c22identObj(info, hi), c22identObj(info, lo)
					if vo != nil && no != nil && isLocalVar(vo) {
						set, okAll := false, true
						for _, w := range writesTo(vo) {
							if !inRegion(w.node) {
								continue
							}
							if w.rhs != nil && c22identObj(info, w.rhs) == no && domGoto(w.node) {
								set = true
								continue
							}
							if w.rhs != nil {
								if _, isC := constInt(info, w.rhs); isC {
									continue // constant latch writes are judged at their own jump
								}
							}
							okAll = false
						}
						bounded := false
						for _, f2 := range facts {
							x2, op2, y2, ok2 := c22relOf(f2)
							if ok2 && c22identObj(info, x2) == no && (op2 == token.GEQ || op2 == token.GTR) {
								if _, isK := constInt(info, y2); isK {
									bounded = true
								}
							}
						}
						if set && okAll && bounded {
							how = "strictly decreasing `" + vo.Name() + "` with a constant lower bound"
						}
					}
				}
			}
			c.Check(how != "", rule, cons, bs.Pos(), m, how,
				"a backward jump on the connection's request path is not bounded by a one-shot latch, a counter or a strictly decreasing value that is set before the jump and tested before it: the peer decides how often the exchange repeats (this path runs without the request context, so the request and everything queued behind it wait forever)")
			return true
		})
	}
	c.Floor(rule, n, 9)
}

// c22gotoLoc locates a goto (go/cfg does not record branch statements as
// nodes): after the simple statement preceding it, or at the start of the
// then/else/case block it opens.
func c22gotoLoc(f *Func, g *Graph, bs *ast.BranchStmt) (Loc, bool) {
	parents := parentMap(f.Decl.Body)
	par := parents[bs]
	var list []ast.Stmt
	switch p := par.(type) {
	case *ast.BlockStmt:
		list = p.List
	case *ast.CaseClause:
		list = p.Body
	case *ast.CommClause:
		list = p.Body
	default:
		return Loc{}, false
	}
	idx := -1
	for i, st := range list {
		if st == ast.Stmt(bs) {
			idx = i
		}
	}
	if idx > 0 {
		switch prev := list[idx-1].(type) {
		case *ast.AssignStmt, *ast.ExprStmt, *ast.IncDecStmt, *ast.DeclStmt:
			return g.LocOf(prev)
		}
		return Loc{}, false
	}
	if idx != 0 {
		return Loc{}, false
	}
	var want cfg.BlockKind
	var owner ast.Stmt
	switch p := par.(type) {
	case *ast.BlockStmt:
		ifs, ok := parents[p].(*ast.IfStmt)
		if !ok {
			return Loc{}, false
		}
		owner = ifs
		want = cfg.KindIfThen
		if ifs.Else == ast.Stmt(p) {
			want = cfg.KindIfElse
		}
	case *ast.CaseClause:
		owner, want = p, cfg.KindSwitchCaseBody
	case *ast.CommClause:
		owner, want = p, cfg.KindSelectCaseBody
	}
	for _, b := range g.C.Blocks {
		if b.Stmt == owner && b.Kind == want && g.live[b.Index] {
			return Loc{int(b.Index), -1}, true
		}
	}
	return Loc{}, false
}

// c22strictDecrease: the write `V = N` happens under the fact N < V.
func c22strictDecrease(f *Func, g *Graph, node ast.Node, rhs ast.Expr, v types.Object) bool {
	info := f.Info()
	no := c22identObj(info, rhs)
	l, ok := g.LocOf(node)
	if no == nil || !ok {
		return false
	}
	for _, ft := range g.FactsAt(l) {
		x, op, y, ok := c22rel(ft)
		if !ok {
			continue
		}
		if op == token.LSS && c22identObj(info, x) == no && c22identObj(info, y) == v {
			return true
		}
		if op == token.GTR && c22identObj(info, y) == no && c22identObj(info, x) == v {
			return true
		}
	}
	return false
}

// ---------------------------------------------------------------------------
// (6) in-place reauthentication only on a quiet connection

func c22reauth(c *Ctx, m *Module) {
	rule := "reauth-only-when-no-response-in-flight"
	n := 0
	rp := m.Field("kgo", "brokerCxn", "reauthPending")
	for _, f := range m.FuncsIn("kgo") {
		if f.Key == "kgo.brokerCxn.init" || f.Key == "kgo.brokerCxn.sasl" {
			continue // a connection under construction is not shared yet
		}
		info := f.Info()
		for _, call := range c22callsDeep(f.Decl.Body, func(call *ast.CallExpr) bool {
			k := calleeName(info, call)
			return k == "kgo.brokerCxn.sasl" || k == "kgo.brokerCxn.doSasl"
		}) {
			n++
			c.Touch(f)
			cons := f.Key + ": " + exprStr(call.Fun) + "()"
			g := f.GraphFor(call)
			l, ok := g.LocOf(call)
			if !ok {
				c.Undecided(rule, cons, call.Pos(), m, "call not located")
				continue
			}
			base := ""
			if sel, ok := unparen(call.Fun).(*ast.SelectorExpr); ok {
				base = nosp(exprStr(sel.X))
			}
			var emptyCond ast.Expr
			quiet := false
			for _, ft := range g.FactsAt(l) {
				fc, fv := unparen(ft.Cond), ft.Val
				// a single-assignment local holding (the negation of) the emptiness test
				if id, isID := fc.(*ast.Ident); isID && ft.Tag == nil {
					if o := info.Uses[id]; o != nil {
						if defs := assignsTo(f, o); len(defs) == 1 && defs[0] != nil {
							fc = unparen(defs[0])
							for {
								ue, isNot := fc.(*ast.UnaryExpr)
								if !isNot || ue.Op != token.NOT {
									break
								}
								fc, fv = unparen(ue.X), !fv
							}
						}
					}
				}
				ec, ok := fc.(*ast.CallExpr)
				if !ok || !fv || !c22ringCall(info, ec, "empty", "resps") {
					continue
				}
				// the ring of the same connection
				if rs, ok := unparen(ec.Fun).(*ast.SelectorExpr); ok {
					if inner, ok := unparen(rs.X).(*ast.SelectorExpr); ok && nosp(exprStr(inner.X)) == base {
						quiet = true
						emptyCond = ec
					}
				}
			}
			c.Check(quiet, rule, cons, call.Pos(), m, "dominated by "+base+".resps.empty() == true",
				"the connection is reauthenticated in place (handshake/authenticate responses are read on this goroutine) without the in-flight response ring being known empty: with a pipelined response outstanding two readers share the byte stream and a response is consumed by a request whose correlation ID it does not carry")
			if !quiet {
				continue
			}
			// the not-quiet arm parks or returns; and the pending flag is published before the test
			if ifs := c22ifOfCond(f, emptyCond); ifs != nil {
				be, _ := g.LocOf(emptyCond)
				_, leaks := g.FindPath(be, SearchOpts{
					GoalNode: func(nd ast.Node) bool {
						return containsNode(nd, false, func(y ast.Node) bool { return y == ast.Node(call) })
					},
					EdgeOK: func(from *cfg.Block, k int, to *cfg.Block) bool {
						// forbid the edge on which the ring is known empty
						cond, _, okc := g.condOf(from)
						if !okc || !containsNode(cond, false, func(y ast.Node) bool { return y == ast.Node(emptyCond) }) {
							return true
						}
						for _, ft := range decompose(cond, k == 0, nil) {
							if unparen(ft.Cond) == ast.Expr(emptyCond) && ft.Val {
								return false
							}
						}
						return true
					},
				})
				c.Check(!leaks, rule, cons+"#busy-arm-never-reauths", ifs.Pos(), m, "", "the arm taken while responses are in flight can still reach the in-place reauthentication")
			}
			if rp != nil {
				for _, st := range storesTo(f.Decl.Body, info, rp, false) {
					if v, isC := constBool(info, st.RHS); isC && v && st.Kind == "atomic:Store" {
						sl, ok1 := g.LocOf(st.Node)
						el, ok2 := g.LocOf(emptyCond)
						c.Check(ok1 && ok2 && (g.Dominates(sl, el)), rule, cons+"#pending-published-before-test", st.Node.Pos(), m, "reauthPending.Store(true) precedes the emptiness test", "reauthPending is published after the in-flight test: a response worker exiting in between misses the drain signal and the parked request is never replayed")
					}
				}
			}
		}
	}
	c.Floor(rule, n, 2)
}

// c22ifOfCond returns the if statement whose condition contains e.
func c22ifOfCond(f *Func, e ast.Expr) *ast.IfStmt {
	var out *ast.IfStmt
	ast.Inspect(f.Decl.Body, func(x ast.Node) bool {
		if ifs, ok := x.(*ast.IfStmt); ok && containsNode(ifs.Cond, false, func(y ast.Node) bool { return y == ast.Node(e) }) {
			out = ifs
		}
		return true
	})
	return out
}
