package main

import (
	"go/ast"
	"go/types"
)

// Round-4 rules of C02.
//
// Invariant behind them (per recBuf, under recBuf.mu):
//
//	seq == batch0Seq + sum(len(batches[i].records) for i < batchDrainIdx)
//
// i.e. the sequence number stamped on the next drained batch is the one that
// batch had the first time it was drained.  Every writer of batchDrainIdx must
// therefore move the sequence field that belongs to it in the same step:
//
//	batchDrainIdx++  travels with  seq = incrementSequence(seq, n)        (drain)
//	batchDrainIdx--  travels with  batch0Seq = incrementSequence(batch0Seq, n) (head batch finished)
//	batchDrainIdx = 0 travels with seq = batch0Seq                          (rewind for a retry)
//	                  (or with seq = 0 and batch0Seq = 0)
//
// and no other kind of write exists.  A rewind of the index alone re-sends the
// head batch with the NEXT sequence number: a leader that already appended it
// (response lost) sees exactly the sequence it expects and appends it again.
// The converse pairing is checked too: seq = batch0Seq without the index rewind
// stamps the next (different) batch with the head batch's sequence numbers and
// the broker swallows it as a duplicate.

type c02pairScope struct {
	fn   *Func
	root ast.Node
	g    *Graph
	info *types.Info
}

func c02scopeOf(fn *Func, n ast.Node) c02pairScope {
	var root ast.Node = fn.Decl.Body
	if lit := innermostLit(fn, n); lit != nil {
		root = lit.Body
	}
	return c02pairScope{fn: fn, root: root, g: fn.GraphFor(n), info: fn.Info()}
}

// c02together: the two statements are executed together - in the same basic
// block, or one dominates the other and every path from it to a function exit
// passes the other.
func c02together(g *Graph, a, b ast.Node) bool {
	la, ok1 := g.LocOf(a)
	lb, ok2 := g.LocOf(b)
	if !ok1 || !ok2 {
		return false
	}
	if la.B == lb.B {
		return true
	}
	try := func(x ast.Node, lx Loc, y ast.Node, ly Loc) bool {
		if !g.Dominates(lx, ly) {
			return false
		}
		_, skip := g.FindPath(lx, SearchOpts{
			Stop:     func(n ast.Node) bool { return n == y },
			GoalExit: func(ExitKind, ast.Node) bool { return true },
		})
		return !skip
	}
	return try(a, la, b, lb) || try(b, lb, a, la)
}

// c02base is the printed receiver of a field selector (`recBuf` of recBuf.seq).
func c02base(e ast.Expr) string {
	if sel, ok := unparen(e).(*ast.SelectorExpr); ok {
		return nosp(exprStr(sel.X))
	}
	return ""
}

// c02partner finds, in the scope of `of`, a store to field `fld` on the same
// receiver for which want(store) holds and which is executed together with `of`.
func c02partner(sc c02pairScope, of Store, fld *types.Var, want func(Store) bool) bool {
	base := c02base(of.LHS)
	if base == "" {
		return false
	}
	for _, st := range storesTo(sc.root, sc.info, fld, false) {
		if st.LHS == nil || c02base(st.LHS) != base || !want(st) {
			continue
		}
		if c02together(sc.g, of.Node, st.Node) {
			return true
		}
	}
	return false
}

func c02drainIdx(c *Ctx, m *Module) {
	rule := "drain-index-moves-with-sequence"
	idx := fieldMust(c, m, "recBuf", "batchDrainIdx")
	seq := fieldMust(c, m, "recBuf", "seq")
	b0 := fieldMust(c, m, "recBuf", "batch0Seq")
	if idx == nil || seq == nil || b0 == nil {
		return
	}
	funcs := m.FuncsIn("kgo")
	// an incrementSequence(<base>.<fld>, n) value
	isInc := func(info *types.Info, st Store, fld *types.Var) bool {
		if st.Kind != "assign" || st.RHS == nil {
			return false
		}
		call, ok := unparen(st.RHS).(*ast.CallExpr)
		if !ok || len(call.Args) != 2 || calleeName(info, call) != "kgo.incrementSequence" {
			return false
		}
		return sameField(fieldOfSel(info, call.Args[0]), fld) && c02base(call.Args[0]) == c02base(st.LHS)
	}
	isZero := func(info *types.Info, st Store) bool {
		if st.Kind != "assign" || st.RHS == nil {
			return false
		}
		v, ok := constInt(info, st.RHS)
		return ok && v == 0
	}
	isCopyOfB0 := func(info *types.Info, st Store) bool {
		return st.Kind == "assign" && st.RHS != nil && sameField(fieldOfSel(info, st.RHS), b0) && c02base(st.RHS) == c02base(st.LHS)
	}
	n, nRewind := 0, 0
	for _, st := range StoreSites(funcs, idx) {
		n++
		c.Touch(st.Fn)
		cons := st.Fn.Key + ": " + nodeStr(st.Node)
		sc := c02scopeOf(st.Fn, st.Node)
		info := sc.info
		kind := st.Kind
		if kind == "opassign:+=" || kind == "opassign:-=" {
			// x += 1 / x -= 1 are the same writes as x++ / x--
			if v, isC := constInt(info, st.RHS); isC && v == 1 {
				kind = map[string]string{"opassign:+=": "inc", "opassign:-=": "dec"}[kind]
			}
		}
		switch kind {
		case "complit":
			v, ok := constInt(info, st.RHS)
			c.Check(ok && v == 0, rule, cons, st.Node.Pos(), m, "a new buffer starts undrained", "a recBuf literal starts with a non-zero drain index")
		case "inc":
			ok := c02partner(sc, st.Store, seq, func(p Store) bool { return isInc(info, p, seq) })
			c.Check(ok, rule, cons, st.Node.Pos(), m, "the drain index advances together with seq = incrementSequence(seq, n)",
				"batchDrainIdx is advanced without advancing the same buffer's seq in the same step: the next drained batch is stamped with the sequence numbers of the batch before it, which the broker swallows as a duplicate")
		case "dec":
			ok := c02partner(sc, st.Store, b0, func(p Store) bool { return isInc(info, p, b0) })
			c.Check(ok, rule, cons, st.Node.Pos(), m, "the drain index steps back together with batch0Seq = incrementSequence(batch0Seq, n) (head batch finished)",
				"batchDrainIdx is decremented without advancing the same buffer's batch0Seq in the same step: a later rewind re-sends pending batches with sequence numbers of already acknowledged records")
		case "assign":
			v, isC := constInt(info, st.RHS)
			if !isC || v != 0 {
				c.Fail(rule, cons, st.Node.Pos(), m, "batchDrainIdx is stored `"+exprStr(st.RHS)+"`: the drain index may only step by one with its sequence field, or be rewound to 0 together with seq = batch0Seq")
				continue
			}
			nRewind++
			rewind := c02partner(sc, st.Store, seq, func(p Store) bool { return isCopyOfB0(info, p) })
			zeroed := c02partner(sc, st.Store, seq, func(p Store) bool { return isZero(info, p) }) &&
				c02partner(sc, st.Store, b0, func(p Store) bool { return isZero(info, p) })
			c.Check(rewind || zeroed, rule, cons, st.Node.Pos(), m, "the drain index is rewound together with seq = batch0Seq",
				"batchDrainIdx is rewound to 0 without rewinding the same buffer's seq to batch0Seq in the same step (only resetBatchDrainIdx does both): the head batch is re-sent stamped with the NEXT sequence number, so a leader that already appended it (response lost, or the partition moved while the request was in flight) sees the sequence it expects and appends the batch a second time - a record acknowledged once is in the log twice")
		default:
			c.Fail(rule, cons, st.Node.Pos(), m, "batchDrainIdx is modified by `"+st.Kind+"`: only ++ (drain), -- (head batch finished) and the rewind to 0 keep it in step with seq / batch0Seq")
		}
	}
	c.Floor(rule, n, 3)
	c.Floor(rule+"/rewinds", nRewind, 1)

	// converse: the sequence is rewound (seq = batch0Seq) only together with the drain index
	rule2 := "seq-rewind-moves-with-drain-index"
	k := 0
	for _, st := range StoreSites(funcs, seq) {
		sc := c02scopeOf(st.Fn, st.Node)
		if st.LHS == nil || !isCopyOfB0(sc.info, st.Store) {
			continue
		}
		k++
		ok := c02partner(sc, st.Store, idx, func(p Store) bool {
			if p.Kind != "assign" || p.RHS == nil {
				return false
			}
			v, isC := constInt(sc.info, p.RHS)
			return isC && v == 0
		})
		c.Check(ok, rule2, st.Fn.Key+": "+nodeStr(st.Node), st.Node.Pos(), m, "seq is rewound together with batchDrainIdx = 0",
			"seq is rewound to batch0Seq without rewinding the same buffer's drain index in the same step: the next drained batch (not the head batch) is stamped with the head batch's sequence numbers and the broker drops it as a duplicate while the client reports success")
	}
	c.Floor(rule2, k, 1)
}
