package main

import (
	"compress/gzip"
	"encoding/json"
	"fmt"
	"go/ast"
	"go/token"
	"go/types"
	"os"
	"path/filepath"
	"sort"

	"golang.org/x/tools/go/packages"
)

// Alpha-normalisation of local variable names.
//
// Many shape rules compare the normalised text of a statement or guard, which
// contains the names of locals (receivers, parameters, results, := / var
// declarations). Renaming a local is behaviour-preserving and must not change
// a verdict. localnames.json.gz records, for every function of the tree the
// rules were confirmed on, the ordered list of its local variables (name and
// type, in declaration order, closures included). When a function of the
// analysed tree declares the same number of locals with the same types in the
// same order but under other names, its identifiers are renamed back to the
// recorded names in the in-memory syntax tree only (objects and positions are
// untouched, so every type-resolved query is unaffected). The renamed function
// is alpha-equivalent to the source, so a rule judges the same program; when
// the local structure differs in any way the function is left as written.

type alphaLocal struct {
	N string `json:"n"`
	T string `json:"t"`
}

var alphaTable map[string][]alphaLocal
var alphaLoaded bool
var alphaRenamedFuncs int

var alphaDir = "/verif/fgcheck"

func alphaTablePath() string {
	p := filepath.Join(alphaDir, "localnames.json.gz")
	if _, err := os.Stat(p); err == nil {
		return p
	}
	return ""
}

func alphaLoad() {
	if alphaLoaded {
		return
	}
	alphaLoaded = true
	if os.Getenv("FGCHECK_NO_ALPHA") != "" {
		return
	}
	p := alphaTablePath()
	if p == "" {
		return
	}
	f, err := os.Open(p)
	if err != nil {
		return
	}
	defer f.Close()
	zr, err := gzip.NewReader(f)
	if err != nil {
		return
	}
	t := map[string][]alphaLocal{}
	if json.NewDecoder(zr).Decode(&t) == nil {
		alphaTable = t
	}
}

func alphaQualifier(p *types.Package) string { return p.Name() }

// alphaTypeString prints a type without the parameter / result names of
// function types (those are locals of a literal and may be renamed).
func alphaTypeString(t types.Type) string {
	switch u := t.(type) {
	case *types.Signature:
		s := "func("
		for i := 0; i < u.Params().Len(); i++ {
			if i > 0 {
				s += ", "
			}
			if u.Variadic() && i == u.Params().Len()-1 {
				if sl, ok := u.Params().At(i).Type().(*types.Slice); ok {
					s += "..." + alphaTypeString(sl.Elem())
					continue
				}
			}
			s += alphaTypeString(u.Params().At(i).Type())
		}
		s += ")"
		if u.Results().Len() > 0 {
			s += " ("
			for i := 0; i < u.Results().Len(); i++ {
				if i > 0 {
					s += ", "
				}
				s += alphaTypeString(u.Results().At(i).Type())
			}
			s += ")"
		}
		return s
	case *types.Pointer:
		return "*" + alphaTypeString(u.Elem())
	case *types.Slice:
		return "[]" + alphaTypeString(u.Elem())
	case *types.Array:
		return fmt.Sprintf("[%d]%s", u.Len(), alphaTypeString(u.Elem()))
	case *types.Map:
		return "map[" + alphaTypeString(u.Key()) + "]" + alphaTypeString(u.Elem())
	case *types.Chan:
		return fmt.Sprintf("chan%d %s", u.Dir(), alphaTypeString(u.Elem()))
	case *types.Tuple:
		s := "("
		for i := 0; i < u.Len(); i++ {
			if i > 0 {
				s += ", "
			}
			s += alphaTypeString(u.At(i).Type())
		}
		return s + ")"
	case *types.Struct:
		s := "struct{"
		for i := 0; i < u.NumFields(); i++ {
			if i > 0 {
				s += "; "
			}
			s += u.Field(i).Name() + " " + alphaTypeString(u.Field(i).Type())
		}
		return s + "}"
	case *types.Named:
		s := ""
		if o := u.Obj(); o != nil {
			if o.Pkg() != nil {
				s = o.Pkg().Name() + "."
			}
			s += o.Name()
		}
		if ta := u.TypeArgs(); ta != nil && ta.Len() > 0 {
			s += "["
			for i := 0; i < ta.Len(); i++ {
				if i > 0 {
					s += ", "
				}
				s += alphaTypeString(ta.At(i))
			}
			s += "]"
		}
		return s
	}
	return types.TypeString(t, alphaQualifier)
}

// alphaLocals lists the local variables of fd in declaration order.
func alphaLocals(fd *ast.FuncDecl, info *types.Info) []*types.Var {
	var out []*types.Var
	seen := map[*types.Var]bool{}
	ast.Inspect(fd, func(n ast.Node) bool {
		id, ok := n.(*ast.Ident)
		if !ok {
			return true
		}
		v, ok := info.Defs[id].(*types.Var)
		if !ok || v == nil || v.IsField() || seen[v] || v.Name() == "_" || v.Name() == "" {
			return true
		}
		seen[v] = true
		out = append(out, v)
		return true
	})
	// the symbolic variable of a type switch is an implicit object per clause: it has no Defs entry and keeps its name
	sort.SliceStable(out, func(i, j int) bool { return out[i].Pos() < out[j].Pos() })
	return out
}

func alphaKey(rel string, p *packages.Package, fd *ast.FuncDecl) string {
	return rel + "|" + p.PkgPath + "|" + funcKey(p.Name, fd)
}

func alphaDescribe(vs []*types.Var) []alphaLocal {
	out := make([]alphaLocal, len(vs))
	for i, v := range vs {
		out[i] = alphaLocal{v.Name(), alphaTypeString(v.Type())}
	}
	return out
}

type alphaEdit struct {
	off, n int
	name   string
}

// alphaCollect computes, for every function of p whose local structure
// matches the recorded one but whose names differ, the identifier edits that
// rename its locals back to the recorded names.
func alphaCollect(rel string, p *packages.Package, edits map[string][]alphaEdit) {
	alphaLoad()
	if alphaTable == nil {
		return
	}
	info := p.TypesInfo
	dbg := os.Getenv("FGCHECK_ALPHA_DEBUG") != ""
	for _, f := range p.Syntax {
		for _, d := range f.Decls {
			fd, ok := d.(*ast.FuncDecl)
			if !ok || fd.Body == nil || (fd.Recv == nil && fd.Name.Name == "init") {
				continue
			}
			want, ok := alphaTable[alphaKey(rel, p, fd)]
			if !ok {
				continue
			}
			vs := alphaLocals(fd, info)
			if len(vs) != len(want) {
				if dbg {
					fmt.Fprintln(os.Stderr, "alpha: local count differs:", alphaKey(rel, p, fd), len(vs), len(want))
				}
				continue
			}
			same, match := true, true
			for i, v := range vs {
				if alphaTypeString(v.Type()) != want[i].T {
					match = false
					break
				}
				if v.Name() != want[i].N {
					same = false
				}
			}
			if !match || same {
				if !match && dbg {
					fmt.Fprintln(os.Stderr, "alpha: type sequence differs:", alphaKey(rel, p, fd))
				}
				continue
			}
			ren := map[types.Object]string{}
			idx := map[types.Object]int{}
			for i, v := range vs {
				idx[v] = i
				if v.Name() != want[i].N {
					ren[v] = want[i].N
				}
			}
			targets := map[string]bool{}
			for _, n := range ren {
				targets[n] = true
			}
			// a target name must not denote anything else in the function body:
			// another local that keeps a different recorded name, or a package-level
			// object / type that the renamed local would newly shadow
			conflict := false
			selNames := map[*ast.Ident]bool{}
			ast.Inspect(fd.Body, func(n ast.Node) bool {
				if se, ok := n.(*ast.SelectorExpr); ok {
					selNames[se.Sel] = true
				}
				return true
			})
			// a parameter's (result's, receiver's) scope starts at the body, not in the signature
			bodyStart := map[types.Object]token.Pos{}
			sigVars := func(fl *ast.FieldList, lb token.Pos) {
				if fl == nil {
					return
				}
				for _, fld := range fl.List {
					for _, nm := range fld.Names {
						if o := info.Defs[nm]; o != nil {
							bodyStart[o] = lb
						}
					}
				}
			}
			sigVars(fd.Recv, fd.Body.Lbrace)
			sigVars(fd.Type.Params, fd.Body.Lbrace)
			sigVars(fd.Type.Results, fd.Body.Lbrace)
			ast.Inspect(fd.Body, func(n ast.Node) bool {
				if fl, ok := n.(*ast.FuncLit); ok {
					sigVars(fl.Type.Params, fl.Body.Lbrace)
					sigVars(fl.Type.Results, fl.Body.Lbrace)
				}
				return true
			})
			byTarget := map[string][]*types.Var{}
			for o, n := range ren {
				byTarget[n] = append(byTarget[n], o.(*types.Var))
			}
			ast.Inspect(fd.Body, func(n ast.Node) bool {
				id, ok := n.(*ast.Ident)
				if !ok || !targets[id.Name] || selNames[id] {
					return true
				}
				o := info.Defs[id]
				if o == nil {
					o = info.Uses[id]
				}
				if o == nil {
					return true // struct-literal keys, labels
				}
				if _, renamed := ren[o]; renamed {
					return true
				}
				if v, isVar := o.(*types.Var); isVar && v.IsField() {
					return true
				}
				if i, isLocal := idx[o]; isLocal && want[i].N == id.Name {
					// another local legitimately carries this name; a conflict only if a
					// renamed variable's scope would capture this use
					_ = i
				}
				if _, isLabel := o.(*types.Label); isLabel {
					return true // labels have their own namespace
				}
				for _, v := range byTarget[id.Name] {
					// is the renamed variable visible at this use? (precise scope start:
					// LookupParent honours the declaration point)
					inner := p.Types.Scope().Innermost(id.Pos())
					if inner == nil {
						continue
					}
					_, vis := inner.LookupParent(v.Name(), id.Pos())
					if vis != v {
						continue
					}
					// it is: the name would resolve to it unless the other object is
					// declared in a scope nested inside the variable's scope
					if ov, isVar := o.(*types.Var); isVar && ov.Parent() != nil && v.Parent() != nil && ov.Parent() != v.Parent() && v.Parent().Contains(ov.Pos()) {
						continue
					}
					conflict = true
					if dbg {
						fmt.Fprintf(os.Stderr, "alpha: conflict detail: %s: %s is %v\n", alphaKey(rel, p, fd), id.Name, o)
					}
					return false
				}
				return true
			})
			if conflict {
				if dbg {
					fmt.Fprintln(os.Stderr, "alpha: name conflict:", alphaKey(rel, p, fd))
				}
				continue
			}
			ast.Inspect(fd, func(n ast.Node) bool {
				id, ok := n.(*ast.Ident)
				if !ok {
					return true
				}
				o := info.Defs[id]
				if o == nil {
					o = info.Uses[id]
				}
				if o == nil {
					return true
				}
				if nn, ok := ren[o]; ok {
					pos := p.Fset.Position(id.Pos())
					edits[pos.Filename] = append(edits[pos.Filename], alphaEdit{pos.Offset, len(id.Name), nn})
				}
				return true
			})
			alphaRenamedFuncs++
		}
	}
}

// alphaOverlay applies the edits to the files' contents.
func alphaOverlay(edits map[string][]alphaEdit) map[string][]byte {
	out := map[string][]byte{}
	for file, es := range edits {
		src, err := os.ReadFile(file)
		if err != nil {
			return nil
		}
		sort.Slice(es, func(i, j int) bool { return es[i].off > es[j].off })
		last := -1
		for _, e := range es {
			if e.off == last || e.off+e.n > len(src) {
				continue
			}
			last = e.off
			src = append(src[:e.off:e.off], append([]byte(e.name), src[e.off+e.n:]...)...)
		}
		out[file] = src
	}
	return out
}

// alphaGenerate writes the table for the tree under repoRoot.
func alphaGenerate(out string) error {
	os.Setenv("FGCHECK_NO_ALPHA", "1")
	t := map[string][]alphaLocal{}
	for _, rel := range []string{"", "pkg/kmsg", "pkg/kfake", "pkg/kadm", "pkg/sr", "plugin/kotel"} {
		m, err := LoadModule(rel, "", "")
		if err != nil {
			return err
		}
		for _, p := range m.Pkgs {
			for _, f := range p.Syntax {
				for _, d := range f.Decls {
					fd, ok := d.(*ast.FuncDecl)
					if !ok || fd.Body == nil || (fd.Recv == nil && fd.Name.Name == "init") {
						continue
					}
					vs := alphaLocals(fd, p.TypesInfo)
					if len(vs) == 0 {
						continue
					}
					t[alphaKey(rel, p, fd)] = alphaDescribe(vs)
				}
			}
		}
	}
	f, err := os.Create(out)
	if err != nil {
		return err
	}
	zw := gzip.NewWriter(f)
	enc := json.NewEncoder(zw)
	if err := enc.Encode(t); err != nil {
		return err
	}
	if err := zw.Close(); err != nil {
		return err
	}
	return f.Close()
}
