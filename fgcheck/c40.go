package main

import (
	"fmt"
	"go/ast"
	"strings"
)

func init() {
	register(&Prop{
		ID:        "C40",
		Level:     "other",
		Technique: "arm table of the start-offset resolution (normalised statements per Offset kind, each relative shift followed by its clamp), dominance rule for folding Relative into exact offsets before they are used or validated, request-construction rules for the bounding (end) ListOffsets request, who-may-read / who-may-write tables for cfg.startOffset and cfg.resetOffset, field-coverage rule for Offset values built from another Offset, whole-value rule for retried loads",
		Explanation: "(1) in listOffsetsForBrokerLoad each Offset kind has its arm: AfterMilli falls back to the end listing on -1; At(x) takes want = at+relative, raised to the listed start and capped at the listed end; AtStart().Relative(n>0) adds n and caps at the end; AtEnd().Relative(-n) starts from the end, adds the negative shift and floors at the start; a negative result is reported as an error and never clamped to 0; the end is read from the second response at the same topic/partition index; " +
			"(2) buildListReq issues the second (end) request exactly for the kinds that need a bound (afterMilli, exact, start+relative, end-relative), as a full copy of the first request (so it carries IsolationLevel: under read_committed the end is the last stable offset) with every partition's timestamp set to -1; " +
			"(3) in assignPartitions the Relative part of an exact offset is folded in (at += relative, floored at 0, relative = 0) before the offset is sent to epoch validation, set on the cursor, or listed; " +
			"(4) a group member starts from the fetched committed offset whenever it is non-negative (also 0) and falls back to cfg.startOffset only for a negative one; " +
			"(5) cfg.startOffset is read only by findNewAssignments, groupConsumer.fetchOffsets (both required), OptValues and NewClient, cfg.resetOffset only by source.handleReqResp (the OffsetOutOfRange path, required), OptValues and NewClient; both are written only by their option, defaultCfg and NewClient; each option stores its argument into its own field and sets its own flag; NewClient copies one into the other only under `other set && this not set`; " +
			"(6) every offset findNewAssignments hands out is cfg.startOffset or the unmodified offset pinned for that partition in directConsumer.ps; " +
			"(7) the retry arm of handleListOrEpochResults re-queues the failed load's request as a whole (or a literal that copies every user-visible field from it), for the failed load's topic / partition and with the failed request's load type; every loadedOffset result carries as request the unmodified offsetLoad variable taken from the load map; " +
			"(8) an Offset literal or field-by-field rebuild that copies any field from another Offset value copies all user-visible fields (at, relative, epoch, noReset, afterMilli = the fields the exported builders set); every offsetLoad literal carries an Offset; every Offset builder method modifies and returns its receiver copy and sets afterMilli unconditionally (true only in AfterMilli); " +
			"(9) in loadEpochsForBrokerLoad the validated offset starts as the requested `at`, every arm of the result switch takes the broker's EndOffset (no arm keeps the requested offset; only the fall-through EndOffset >= offset does), and the ErrDataLoss arm sits under `EndOffset < offset` preceded only by tests of EndOffset against a constant (the undefined-epoch sentinel), so no other condition bypasses truncation detection; the result carries that offset and error.",
		NotDecided: "the position arithmetic of the out-of-range reset path (only who may read cfg.resetOffset / cfg.startOffset is decided), AtCommitted without a commit beyond the error injection, the direct cursor-set path's interaction with the last stable offset, and Offset values that travel through maps, channels or function results (treated as whole copies; only literals and field-by-field assignments are checked for coverage).",
		Run:        runC40,
	})
}

func runC40(c *Ctx) {
	m := c.Load("")
	if m == nil {
		return
	}
	c40committed(c, m)
	c40round3(c, m)
	c40round4(c, m)
	if f := c.NeedFunc(m, "kgo.Client.listOffsetsForBrokerLoad"); f != nil {
		rule := "start-offset-arms"
		// find the if/else-if chain whose first condition is loadPart.afterMilli
		var chain *ast.IfStmt
		ast.Inspect(f.Decl.Body, func(x ast.Node) bool {
			if ifs, ok := x.(*ast.IfStmt); ok && nosp(exprStr(ifs.Cond)) == "loadPart.afterMilli" && chain == nil {
				chain = ifs
			}
			return true
		})
		if chain == nil {
			c.Undecided(rule, f.Key, f.Pos(), m, "offset-kind chain not found")
		} else {
			want := []struct{ cond, body, what string }{
				{"loadPart.afterMilli", "ifoffset==-1{offset=end()}", "after-milli: end listing when no record is at/after the timestamp"},
				{"loadPart.at>=0", "end:=end()want:=loadPart.at+loadPart.relativeifwant>=offset{offset=want}ifwant>=end{offset=end}", "exact: at+relative clamped to [start, end]"},
				{"loadPart.at==-2&&loadPart.relative>0", "offset+=loadPart.relativeifend:=end();offset>=end{offset=end}", "start+n capped at the end"},
				{"loadPart.at==-1&&loadPart.relative<0", "start:=offsetoffset=end()offset+=loadPart.relativeifoffset<=start{offset=start}", "end-n floored at the start"},
			}
			cur := chain
			for i, w := range want {
				if cur == nil {
					c.Fail(rule, f.Key+"#arm:"+w.cond, chain.Pos(), m, "arm missing from the chain")
					continue
				}
				cond := nosp(exprStr(cur.Cond))
				body := nows(stripComments(printNode(m.Fset, cur.Body)))
				body = strings.TrimSuffix(strings.TrimPrefix(body, "{"), "}")
				c.Check(cond == w.cond && body == w.body, rule, f.Key+"#arm:"+w.cond, cur.Pos(), m, w.what, "arm "+string(rune('1'+i))+" is `if "+exprStr(cur.Cond)+" {"+body+"}`; want "+w.what)
				next, _ := cur.Else.(*ast.IfStmt)
				if cur.Else != nil && next == nil {
					c.Fail(rule, f.Key+"#else", cur.Pos(), m, "unexpected plain else arm in the offset-kind chain")
				}
				cur = next
			}
			c.Check(cur == nil, rule, f.Key+"#no-extra-arms", chain.Pos(), m, "", "extra arm in the offset-kind chain")
		}
		// end() reads resp2 at the same indices
		okEnd, okPo := false, false
		ast.Inspect(f.Decl.Body, func(x ast.Node) bool {
			as, ok := x.(*ast.AssignStmt)
			if !ok || len(as.Lhs) != 1 || len(as.Rhs) != 1 {
				return true
			}
			switch exprStr(as.Lhs[0]) {
			case "end":
				if lit, ok := as.Rhs[0].(*ast.FuncLit); ok {
					okEnd = nows(printNode(m.Fset, lit.Body)) == "{returnpoffset(&resp2.Topics[i].Partitions[j])}"
				}
			case "offset":
				if nosp(exprStr(as.Rhs[0])) == "poffset(&rPartition)" {
					okPo = true
				}
			}
			return true
		})
		c.Check(okEnd && okPo, rule, f.Key+"#end-lookup", f.Pos(), m, "start from the first response, end from the second at the same index", "the listed start/end are not taken from resp / resp2 at the same topic and partition index")
		// negative result is an error, not a clamp
		g := f.Graph()
		okNeg := false
		ast.Inspect(f.Decl.Body, func(x ast.Node) bool {
			ifs, ok := x.(*ast.IfStmt)
			if !ok || nosp(exprStr(ifs.Cond)) != "offset<0" {
				return true
			}
			b := nows(printNode(m.Fset, ifs.Body))
			okNeg = strings.Contains(b, "err:errNegativeListedOffset") && strings.HasSuffix(b, "continue}") && !strings.Contains(b, "offset=0")
			return true
		})
		c.Check(okNeg, rule, f.Key+"#negative-is-error", f.Pos(), m, "", "a negative resolved offset is not reported as errNegativeListedOffset")
		// the final loaded.add uses offset
		_ = g
	}
	if f := c.NeedFunc(m, "kgo.offsetLoadMap.buildListReq"); f != nil {
		rule := "bounding-list-request"
		okCond := false
		ast.Inspect(f.Decl.Body, func(x ast.Node) bool {
			ifs, ok := x.(*ast.IfStmt)
			if !ok || nosp(exprStr(ifs.Cond)) != "offset.afterMilli" {
				return true
			}
			b1 := nows(stripComments(printNode(m.Fset, ifs.Body)))
			if els, ok := ifs.Else.(*ast.IfStmt); ok {
				c2 := nosp(exprStr(els.Cond))
				b2 := nows(stripComments(printNode(m.Fset, els.Body)))
				okCond = b1 == "{createEnd=true}" && c2 == "timestamp>=0||timestamp==-2&&offset.relative>0||timestamp==-1&&offset.relative<0" && b2 == "{timestamp=-2createEnd=true}" && els.Else == nil
			}
			return true
		})
		c.Check(okCond, rule, f.Key+"#when", f.Pos(), m, "end request for afterMilli / exact / start+n / end-n", "the condition deciding whether the bounding (end) request is needed changed")
		var r2 *ast.IfStmt
		ast.Inspect(f.Decl.Body, func(x ast.Node) bool {
			if ifs, ok := x.(*ast.IfStmt); ok && exprStr(ifs.Cond) == "createEnd" {
				r2 = ifs
			}
			return true
		})
		if r2 == nil {
			c.Fail(rule, f.Key+"#r2", f.Pos(), m, "construction of the second request not found")
		} else {
			b := nows(stripComments(printNode(m.Fset, r2.Body)))
			full := strings.Contains(b, "*r2=*r1")
			ts := strings.Contains(b, "l.Partitions[i].Timestamp=-1")
			clone := strings.Contains(b, "r2.Topics=slices.Clone(r1.Topics)") && strings.Contains(b, "l.Partitions=slices.Clone(r.Partitions)")
			c.Check(full && ts && clone, rule, f.Key+"#r2-copy", r2.Pos(), m, "full copy of r1 (incl. IsolationLevel), timestamps -1", "the end request is not a full copy of the first request with timestamps -1 (a field-by-field copy can drop IsolationLevel: under read_committed the end would be the high watermark, not the last stable offset)")
		}
		okTs := false
		ast.Inspect(f.Decl.Body, func(x ast.Node) bool {
			if as, ok := x.(*ast.AssignStmt); ok && len(as.Lhs) == 1 && exprStr(as.Lhs[0]) == "p.Timestamp" && exprStr(as.Rhs[0]) == "timestamp" {
				okTs = true
			}
			return true
		})
		okInit := false
		ast.Inspect(f.Decl.Body, func(x ast.Node) bool {
			if as, ok := x.(*ast.AssignStmt); ok && len(as.Lhs) == 1 && exprStr(as.Lhs[0]) == "timestamp" && nosp(exprStr(as.Rhs[0])) == "offset.at" {
				okInit = true
			}
			return true
		})
		c.Check(okTs && okInit, rule, f.Key+"#timestamp", f.Pos(), m, "", "the first request's timestamp is not the offset's `at` (or -2 for bounded kinds)")
	}
	if f := c.NeedFunc(m, "kgo.consumer.assignPartitions"); f != nil {
		rule := "relative-folded-before-use"
		g := f.Graph()
		var foldLoc Loc
		have := false
		ast.Inspect(f.Decl.Body, func(x ast.Node) bool {
			ifs, ok := x.(*ast.IfStmt)
			if !ok || nosp(exprStr(ifs.Cond)) != "offset.at>=0" {
				return true
			}
			b := nows(stripComments(printNode(m.Fset, ifs.Body)))
			if b == "{offset.at+=offset.relativeifoffset.at<0{offset.at=0}offset.relative=0}" {
				foldLoc, have = g.LocOf(ifs.Cond)
			}
			return true
		})
		c.Check(have, rule, f.Key+"#fold", f.Pos(), m, "at += relative, floored at 0, relative = 0", "the block folding Relative into an exact offset was not found")
		if have {
			n := 0
			for _, un := range findNodes(f.Decl.Body, false, func(x ast.Node) bool {
				call, ok := x.(*ast.CallExpr)
				if !ok {
					return false
				}
				s := nosp(exprStr(call.Fun))
				if s == "cursor.setOffset" {
					return true
				}
				if s == "loadOffsets.addLoad" && len(call.Args) >= 3 && (exprStr(call.Args[2]) == "loadTypeEpoch" || exprStr(call.Args[2]) == "loadTypeList") {
					// the afterMilli arm never has an exact offset
					l, ok := g.LocOf(call)
					if ok && factMatches(g.FactsAt(l), func(ft Fact) bool { return ft.Val && nosp(exprStr(ft.Cond)) == "offset.afterMilli" }) {
						return false
					}
					return true
				}
				return false
			}) {
				n++
				l, _ := g.LocOf(un)
				c.Check(g.Dominates(foldLoc, l), rule, fmt.Sprintf("%s: %s#%d", f.Key, exprStr(un.(*ast.CallExpr).Fun), n), un.Pos(), m, "uses the folded offset", "an offset is used (validated / set on the cursor / listed) before its Relative part was folded in: At(x).Relative(r) is resolved as At(x)")
			}
			c.Floor(rule, n, 3)
		}
	}
}

func stripComments(s string) string {
	var out []string
	for _, ln := range strings.Split(s, "\n") {
		if i := strings.Index(ln, "//"); i >= 0 {
			ln = ln[:i]
		}
		out = append(out, ln)
	}
	return strings.Join(out, "\n")
}

// c40committed: a group member starts from its committed offset whenever one
// exists - including a commit of exactly 0 - and falls back to the configured
// start offset only when the fetched offset is negative (no commit).
func c40committed(c *Ctx, m *Module) {
	rule := "committed-offset-used-when-present"
	f := c.NeedFunc(m, "kgo.groupConsumer.fetchOffsets")
	if f == nil {
		return
	}
	info := f.Info()
	g := f.Graph()
	startOff := m.Field("kgo", "cfg", "startOffset")
	// facts about rPartition.Offset at a location
	offFacts := func(l Loc) (neg, nonNeg bool, other []string) {
		for _, ft := range g.FactsAt(l) {
			s := nosp(exprStr(ft.Cond))
			if !strings.Contains(s, "rPartition.Offset") {
				continue
			}
			switch {
			case s == "rPartition.Offset<0" && ft.Val, s == "rPartition.Offset>=0" && !ft.Val:
				neg = true
			case s == "rPartition.Offset<0" && !ft.Val, s == "rPartition.Offset>=0" && ft.Val:
				nonNeg = true
			default:
				v := s
				if !ft.Val {
					v = "!(" + s + ")"
				}
				other = append(other, v)
			}
		}
		return
	}
	nUse, nFallback := 0, 0
	ast.Inspect(f.Decl.Body, func(x ast.Node) bool {
		switch n := x.(type) {
		case *ast.CompositeLit:
			tv := info.Types[n]
			if tv.Type == nil || !strings.HasSuffix(tv.Type.String(), "kgo.Offset") {
				return true
			}
			uses := false
			for _, e := range n.Elts {
				if kv, ok := e.(*ast.KeyValueExpr); ok && exprStr(kv.Key) == "at" && nosp(exprStr(kv.Value)) == "rPartition.Offset" {
					uses = true
				}
			}
			if !uses {
				return true
			}
			nUse++
			st := enclosingStmt(f.Decl.Body, n)
			l, _ := g.LocOf(st)
			_, _, other := offFacts(l)
			c.Check(len(other) == 0, rule, f.Key+": Offset{at: rPartition.Offset} for every non-negative fetched offset", n.Pos(), m, "", "the committed offset is used only under "+strings.Join(other, ", ")+": a group whose committed offset is exactly 0 is treated as having no commit (AtCommitted fails, AtEnd skips every record)")
		case *ast.AssignStmt:
			if len(n.Rhs) != 1 || !sameField(fieldOfSel(info, n.Rhs[0]), startOff) || nosp(exprStr(n.Rhs[0])) != "g.cfg.startOffset" {
				return true
			}
			if len(n.Lhs) != 1 || exprStr(n.Lhs[0]) != "offset" {
				return true
			}
			l, _ := g.LocOf(n)
			neg, _, other := offFacts(l)
			c.Check(neg && len(other) == 0, rule, f.Key+": fallback to the configured start offset only for a negative fetched offset#"+ordinal(&nFallback), n.Pos(), m, "", "the configured start offset replaces the fetched offset without the `rPartition.Offset < 0` test")
		}
		return true
	})
	c.Check(nUse >= 1 && nFallback >= 1, rule, f.Key+"#sites", f.Pos(), m, "", "committed-offset construction or start-offset fallback not found")
}
