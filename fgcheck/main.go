package main

import (
	"flag"
	"fmt"
	"os"
	"path/filepath"
	"sort"
	"strconv"
)

func main() {
	prop := flag.String("prop", "", "property id (C01..) or 'all' or 'list'")
	tier := flag.String("tier", "quick", "quick|thorough")
	repo := flag.String("repo", "/repo", "repository root")
	verif := flag.String("verif", "/verif", "verif directory (known_findings)")
	evdir := flag.String("evdir", "", "evidence directory (default <verif>/evidence)")
	flag.Parse()
	repoRoot = *repo
	if *evdir != "" {
		evidenceDir = *evdir
	}
	seed := int64(0)
	if s := os.Getenv("VERIF_SEED"); s != "" {
		if v, err := strconv.ParseInt(s, 10, 64); err == nil {
			seed = v
		}
	}
	if *tier != "quick" && *tier != "thorough" {
		fmt.Fprintln(os.Stderr, "bad tier")
		os.Exit(2)
	}
	var ids []string
	for id := range registry {
		ids = append(ids, id)
	}
	sort.Strings(ids)
	alphaDir = filepath.Join(*verif, "fgcheck")
	switch *prop {
	case "gen-localnames":
		if err := alphaGenerate(filepath.Join(alphaDir, "localnames.json.gz")); err != nil {
			fmt.Fprintln(os.Stderr, err)
			os.Exit(2)
		}
		return
	case "manifest":
		printManifest()
		return
	case "list":
		for _, id := range ids {
			fmt.Println(id, registry[id].Level)
		}
		return
	case "all":
		rc := 0
		for _, id := range ids {
			if r := runProp(registry[id], *tier, *verif, seed); r != 0 {
				rc = 1
			}
		}
		os.Exit(rc)
	}
	p := registry[*prop]
	if p == nil {
		fmt.Fprintf(os.Stderr, "unknown property %q\n", *prop)
		os.Exit(2)
	}
	os.Exit(runProp(p, *tier, *verif, seed))
}
