package main

import (
	"go/ast"
	"go/constant"
	"go/token"
	"go/types"
)

// c31val is a three-valued result of evaluating a Go expression over a small
// abstract store: unknown, an integer (64-bit two's complement bits) or a bool.
type c31val struct {
	k int // 0 unknown, 1 int, 2 bool
	u uint64
	b bool
}

func c31int(u uint64) c31val { return c31val{k: 1, u: u} }
func c31bool(b bool) c31val  { return c31val{k: 2, b: b} }

var c31unknown = c31val{}

// c31env supplies the values of tracked struct fields, local variables and
// len(x) terms; everything else that is not a compile-time constant is unknown.
type c31env struct {
	info  *types.Info
	field func(v *types.Var) (c31val, bool)
	local func(o types.Object) (c31val, bool)
	lenOf func(o types.Object) (c31val, bool)
}

func c31width(t types.Type) (bits int, unsigned bool) {
	if t == nil {
		return 64, false
	}
	b, ok := t.Underlying().(*types.Basic)
	if !ok {
		return 64, false
	}
	unsigned = b.Info()&types.IsUnsigned != 0
	switch b.Kind() {
	case types.Int8, types.Uint8:
		return 8, unsigned
	case types.Int16, types.Uint16:
		return 16, unsigned
	case types.Int32, types.Uint32:
		return 32, unsigned
	}
	return 64, unsigned
}

func c31trunc(u uint64, t types.Type) uint64 {
	bits, unsigned := c31width(t)
	if bits == 64 {
		return u
	}
	mask := uint64(1)<<uint(bits) - 1
	u &= mask
	if !unsigned && u&(1<<uint(bits-1)) != 0 {
		u |= ^mask // sign extend
	}
	return u
}

func (ev *c31env) typeOf(e ast.Expr) types.Type {
	if tv, ok := ev.info.Types[e]; ok {
		return tv.Type
	}
	return nil
}

func (ev *c31env) eval(e ast.Expr) c31val {
	e = unparen(e)
	if tv, ok := ev.info.Types[e]; ok && tv.Value != nil {
		switch tv.Value.Kind() {
		case constant.Bool:
			return c31bool(constant.BoolVal(tv.Value))
		case constant.Int, constant.Float:
			iv := constant.ToInt(tv.Value)
			if iv.Kind() != constant.Int {
				return c31unknown
			}
			if u, exact := constant.Uint64Val(iv); exact {
				return c31int(u)
			}
			if i, exact := constant.Int64Val(iv); exact {
				return c31int(uint64(i))
			}
		}
		return c31unknown
	}
	switch x := e.(type) {
	case *ast.Ident:
		if o := ev.info.Uses[x]; o != nil && ev.local != nil {
			if v, ok := ev.local(o); ok {
				return v
			}
		}
	case *ast.SelectorExpr:
		if fv := fieldOfSel(ev.info, x); fv != nil && ev.field != nil {
			if v, ok := ev.field(fv); ok {
				return v
			}
		}
	case *ast.UnaryExpr:
		v := ev.eval(x.X)
		switch x.Op {
		case token.NOT:
			if v.k == 2 {
				return c31bool(!v.b)
			}
		case token.XOR:
			if v.k == 1 {
				return c31int(c31trunc(^v.u, ev.typeOf(e)))
			}
		case token.SUB:
			if v.k == 1 {
				return c31int(c31trunc(-v.u, ev.typeOf(e)))
			}
		case token.ADD:
			return v
		}
	case *ast.BinaryExpr:
		return ev.binary(x)
	case *ast.CallExpr:
		if len(x.Args) == 1 {
			if tv, ok := ev.info.Types[x.Fun]; ok && tv.IsType() {
				v := ev.eval(x.Args[0])
				if v.k == 1 {
					if _, isBasic := tv.Type.Underlying().(*types.Basic); isBasic {
						return c31int(c31trunc(v.u, tv.Type))
					}
				}
				return c31unknown
			}
			if id, ok := unparen(x.Fun).(*ast.Ident); ok && id.Name == "len" {
				if _, isB := ev.info.Uses[id].(*types.Builtin); isB && ev.lenOf != nil {
					if a, ok := unparen(x.Args[0]).(*ast.Ident); ok {
						if o := ev.info.Uses[a]; o != nil {
							if v, ok := ev.lenOf(o); ok {
								return v
							}
						}
					}
				}
			}
		}
	}
	return c31unknown
}

func (ev *c31env) binary(x *ast.BinaryExpr) c31val {
	switch x.Op {
	case token.LAND, token.LOR:
		a, b := ev.eval(x.X), ev.eval(x.Y)
		isAnd := x.Op == token.LAND
		// Kleene logic
		if a.k == 2 && a.b != isAnd {
			return c31bool(!isAnd)
		}
		if b.k == 2 && b.b != isAnd {
			// the right operand decides only when the left one has no effect we model (it has none: expressions are pure here)
			return c31bool(!isAnd)
		}
		if a.k == 2 && b.k == 2 {
			return c31bool(isAnd)
		}
		return c31unknown
	}
	a, b := ev.eval(x.X), ev.eval(x.Y)
	if a.k == 2 && b.k == 2 {
		switch x.Op {
		case token.EQL:
			return c31bool(a.b == b.b)
		case token.NEQ:
			return c31bool(a.b != b.b)
		}
		return c31unknown
	}
	if a.k != 1 || b.k != 1 {
		return c31unknown
	}
	// signedness of the operation: the typed operand decides
	_, ua := c31width(ev.typeOf(x.X))
	_, ub := c31width(ev.typeOf(x.Y))
	unsigned := ua || ub
	if tx, ok := ev.info.Types[x.X]; ok && tx.Value != nil && !ua {
		unsigned = ub
	}
	if ty, ok := ev.info.Types[x.Y]; ok && ty.Value != nil && !ub {
		unsigned = ua
	}
	cmp := func() int {
		if unsigned {
			switch {
			case a.u < b.u:
				return -1
			case a.u > b.u:
				return 1
			}
			return 0
		}
		switch {
		case int64(a.u) < int64(b.u):
			return -1
		case int64(a.u) > int64(b.u):
			return 1
		}
		return 0
	}
	rt := ev.typeOf(x)
	switch x.Op {
	case token.EQL:
		return c31bool(a.u == b.u)
	case token.NEQ:
		return c31bool(a.u != b.u)
	case token.LSS:
		return c31bool(cmp() < 0)
	case token.LEQ:
		return c31bool(cmp() <= 0)
	case token.GTR:
		return c31bool(cmp() > 0)
	case token.GEQ:
		return c31bool(cmp() >= 0)
	}
	if v, ok := c31arith(x.Op, a.u, b.u, ua); ok {
		return c31int(c31trunc(v, rt))
	}
	return c31unknown
}

// c31arith applies a binary integer operator on 64-bit values; lhsUnsigned
// selects logical right shifts.
func c31arith(op token.Token, a, b uint64, lhsUnsigned bool) (uint64, bool) {
	switch op {
	case token.ADD, token.ADD_ASSIGN:
		return a + b, true
	case token.SUB, token.SUB_ASSIGN:
		return a - b, true
	case token.MUL, token.MUL_ASSIGN:
		return a * b, true
	case token.AND, token.AND_ASSIGN:
		return a & b, true
	case token.OR, token.OR_ASSIGN:
		return a | b, true
	case token.XOR, token.XOR_ASSIGN:
		return a ^ b, true
	case token.AND_NOT, token.AND_NOT_ASSIGN:
		return a &^ b, true
	case token.SHL, token.SHL_ASSIGN:
		if b >= 64 {
			return 0, true
		}
		return a << b, true
	case token.SHR, token.SHR_ASSIGN:
		if lhsUnsigned {
			if b >= 64 {
				return 0, true
			}
			return a >> b, true
		}
		if b >= 64 {
			b = 63
		}
		return uint64(int64(a) >> b), true
	}
	return 0, false
}
