package main

import (
	"fmt"
	"go/ast"
	"go/token"
	"go/types"
	"strings"

	"golang.org/x/tools/go/cfg"
)

func init() {
	register(&Prop{
		ID:        "C04",
		Level:     "other",
		Technique: "typestate rules for used cursors (use / finish / forget) with per-iteration path counting, who-may-write table with stored-value shapes for the cursor offset, product-state dataflow for the fetch token (sent / stored / the two local flags), dominance and branch-fact rules for the duplicate-partition guard, the paused-partition paths and the epoch-validation arm",
		Explanation: "(1) cursor typestate: cursor.use() is called only by fetchRequest.addCursor (entry stored in req.usedOffsets and counted), createReq's follower recheck (every recheck is move()d by the deferred loop) and migrateCursorTo (followed by the epoch load that re-enables it); every entry of usedOffsets is finished by exactly one allowUsable per entry in finishUsingAll[WithSet], in takeBuffered's paused walk and in takeNBuffered, where an entry that was finished is deleted from the buffered map before the loop continues (so the final takeBuffered(nil) cannot finish or advance it again); fetch finishes req.usedOffsets in its first defer exactly when the fetch was not buffered, entries leave req.usedOffsets only through deleteReqUsedOffset (right after move(), or for the reloadOffsets returned by handleReqResp, which are handed to loadWithSessionNow whenever a partition error was recorded), and move() re-enables or republishes the cursor on both of its paths; " +
			"(2) cursor.cursorOffset is written only by cursor.setOffset (and the -1 initialiser); setOffset is called from a closed table of 9 sites whose stored values are checked: the take paths store the entry's own frozen offset (same entry for receiver and value, set before allowUsable), takeNBuffered's partial take stores lastReturnedRecord.Offset+1 where the returned slice is p.Records[:take:take] and the kept remainder p.Records[take:], a full take requires len(p.Records)==0, discardBuffered never sets, offsets are kept (setOffsets) only after a response was processed and no path drops a fetch with records after that point; processRespPartition requests exactly the frozen offset and stores ProcessFetchPartition's next offset back into the same entry (the drop of records below the requested offset and the next-offset discipline inside the parser are C06 rules `next-offset-writers` / `records-appended-only-filtered`), and AppendTo puts the frozen offset on the wire; epoch validation resumes at the validating position unless the broker's end offset is below it or undefined; epoch loads validate the cursor's current offset and last consumed epoch; " +
			"(3) the doneFetch token: over fetch's control-flow graph with the backoff closure inlined and the deferred closure applied at every exit, in every reachable state exactly one of {send on doneFetch, store into s.buffered} happened and buffered is true exactly when it was stored; takeBufferedFn sends the stored token exactly once after clearing s.buffered; loopFetch hands a received token to exactly one of fetch / a direct send; " +
			"(5) duplicate-partition guard: processing of a response partition (processRespPartition, both preferred-replica appends, every reload) happens only after the seen-set test failed and the entry was added to the seen set, keyed by the request's own entry; unknown topics/partitions are skipped; " +
			"(2b) what is skipped: runC04 also runs the keep rules shared with C05/C06 (fetchKeepRules in c05_c06.go: records-appended-only-when-kept, control-records-dropped, abort-verdict-plumbing and abort-marker-reached - every record of a batch, kept or not, passes the abort-marker bookkeeping before the next record, so an abort marker kept under KeepControlRecords still ends its producer's aborted range and later committed batches are not dropped); " +
			"(2c) fetch-session mirror: commitFromReq applies the acknowledged request's topics and its forgotten topics to fetchSession.used on every path on which the session is not killed (no other early return), deletes every forgotten partition and records every sent partition at {FetchOffset, CurrentLeaderEpoch}, skipping an entry only for an unnamed topic (or a topic absent from the mirror); fetch commits exactly req.committedTopics / req.committedForgotten after the response was processed and AppendTo snapshots both on every path; the mirror is otherwise replaced only by kill / reset - a partition the broker was told to forget must leave the mirror or AppendTo omits it forever after a pause/resume at the same offset; " +
			"(2d) failed list / epoch loads: the reload goroutine of consumerSession.listOrEpoch hands the failed loads back to the session (reloads.loadWithSession(s, ...)) on every path to its exit, including the session-context-cancelled arm (a deferred call counts), before the deferred decWorker releases the worker count, and is spawned for every non-empty failed set from a defer registered before results are collected - otherwise stopSession cannot carry the load to the next session and the cursor is never re-enabled; " +
			"(6) paused partitions: a buffered partition that is paused is re-enabled without setOffset and is stripped from the returned fetch (takeBuffered), or stripped, re-enabled and forgotten (takeNBuffered); no setOffset is reachable under a paused test. Clause 4 of the plan (stop-first / publish-last) is decided by C41 rules migrate-stop-first, migrate-add-last, move-add-last, allow-usable-source-first.",
		NotDecided:  "the history-level statement (exactly once, in order, against a real broker and schedules); fetch-session bookkeeping values; that a conformant broker sends an empty body with a top-level session error (the reload hand-off is checked on the success path only); the content of list-offset results (C40).",
		Assumptions: []string{"C06 rules next-offset-writers and records-appended-only-filtered (parser returns last kept/skipped offset + 1, drops records below the requested offset)", "C41 publish-order rules for cursor migration"},
		Run:         runC04,
	})
}

type c04x struct {
	c     *Ctx
	m     *Module
	funcs []*Func
}

func runC04(c *Ctx) {
	m := c.Load("")
	if m == nil {
		return
	}
	x := &c04x{c: c, m: m, funcs: m.FuncsIn("kgo")}
	x.useSites()
	x.finishers()
	x.takeFn()
	x.takeBufferedPaused()
	x.takeN()
	x.fetchFinish()
	x.setOffsetTable()
	x.directWrites()
	x.plumbing()
	x.token()
	x.dupGuard()
	x.reloadHandoff()
	x.epochValidation()
	x.sessionMirror()
	x.failedLoads()
	// "skips only control records or, under read_committed, aborted data":
	// the per-record keep / abort-marker rules are shared with C05 / C06.
	fetchKeepRules(c, m)
	abortRules(c, m)
	c04stripMarks(c, m)
}

// ---------------------------------------------------------------- helpers

const (
	c04kAllow  = "kgo.cursor.allowUsable"
	c04kSet    = "kgo.cursor.setOffset"
	c04kUse    = "kgo.cursor.use"
	c04kMove   = "kgo.cursorOffsetPreferred.move"
	c04kFinSet = "kgo.usedOffsets.finishUsingAllWithSet"
	c04kFin    = "kgo.usedOffsets.finishUsingAll"
)

// c04recv returns the receiver expression of a method call with the given key.
func c04recv(info *types.Info, n ast.Node, key string) (ast.Expr, *ast.CallExpr, bool) {
	call, ok := n.(*ast.CallExpr)
	if !ok || calleeName(info, call) != key {
		return nil, nil, false
	}
	sel, ok := unparen(call.Fun).(*ast.SelectorExpr)
	if !ok {
		return nil, nil, false
	}
	return sel.X, call, true
}

// c04calls lists calls with the callee key under root (deep).
func c04calls(root ast.Node, info *types.Info, key string) []*ast.CallExpr {
	var out []*ast.CallExpr
	ast.Inspect(root, func(n ast.Node) bool {
		if call, ok := n.(*ast.CallExpr); ok && calleeName(info, call) == key {
			out = append(out, call)
		}
		return true
	})
	return out
}

// c04has reports whether node n contains (not descending into literals) a call with the key.
func c04has(n ast.Node, info *types.Info, key string) bool {
	return containsNode(n, false, func(y ast.Node) bool {
		call, ok := y.(*ast.CallExpr)
		return ok && calleeName(info, call) == key
	})
}

// c04entry: for a receiver expression `E.from` returns E.
func c04entry(info *types.Info, recv ast.Expr) (ast.Expr, bool) {
	sel, ok := unparen(recv).(*ast.SelectorExpr)
	if !ok {
		return nil, false
	}
	fv := fieldOfSel(info, sel)
	if fv == nil || fv.Name() != "from" {
		return nil, false
	}
	return sel.X, true
}

func c04obj(info *types.Info, e ast.Expr) types.Object {
	id, ok := unparen(e).(*ast.Ident)
	if !ok {
		return nil
	}
	if o := info.Uses[id]; o != nil {
		return o
	}
	return info.Defs[id]
}

// c04def finds the defining / assigning statements of a local object and
// returns the right-hand side that produces it (idx is the result index when
// the right-hand side is a multi-value expression).
type c04defn struct {
	rhs  ast.Expr
	idx  int
	stmt ast.Node
	rng  *ast.RangeStmt // set when defined as range key (idx 0) / value (idx 1)
}

func c04defs(f *Func, obj types.Object) []c04defn {
	var out []c04defn
	if obj == nil {
		return nil
	}
	info := f.Info()
	is := func(e ast.Expr) bool {
		id, ok := e.(*ast.Ident)
		return ok && (info.Defs[id] == obj || info.Uses[id] == obj)
	}
	ast.Inspect(f.Decl, func(n ast.Node) bool {
		switch s := n.(type) {
		case *ast.AssignStmt:
			for i, l := range s.Lhs {
				if !is(l) {
					continue
				}
				if len(s.Rhs) == len(s.Lhs) {
					out = append(out, c04defn{rhs: s.Rhs[i], stmt: s})
				} else if len(s.Rhs) == 1 {
					out = append(out, c04defn{rhs: s.Rhs[0], idx: i, stmt: s})
				}
			}
		case *ast.ValueSpec:
			for i, id := range s.Names {
				if info.Defs[id] == obj {
					d := c04defn{stmt: s}
					if i < len(s.Values) {
						d.rhs = s.Values[i]
					}
					out = append(out, d)
				}
			}
		case *ast.RangeStmt:
			if s.Key != nil && is(s.Key) {
				out = append(out, c04defn{rhs: s.X, idx: 0, stmt: s, rng: s})
			}
			if s.Value != nil && is(s.Value) {
				out = append(out, c04defn{rhs: s.X, idx: 1, stmt: s, rng: s})
			}
		case *ast.IncDecStmt:
			if is(s.X) {
				out = append(out, c04defn{stmt: s})
			}
		}
		return true
	})
	return out
}

// c04single returns the only definition of obj, or nil.
func c04single(f *Func, obj types.Object) *c04defn {
	d := c04defs(f, obj)
	if len(d) != 1 {
		return nil
	}
	return &d[0]
}

func c04str(e ast.Node) string { return nosp(exprStr(e)) }

// c04shift adds one event to a count set over {0,1,2+}.
func c04shift(s uint8) uint8 {
	var o uint8
	if s&1 != 0 {
		o |= 2
	}
	if s&2 != 0 {
		o |= 4
	}
	if s&4 != 0 {
		o |= 4
	}
	return o
}

func c04cntStr(s uint8) string {
	var p []string
	for i, n := range []string{"0", "1", "2+"} {
		if s&(1<<uint(i)) != 0 {
			p = append(p, n)
		}
	}
	return "{" + strings.Join(p, ",") + "}"
}

// c04counts returns the set of event counts over all paths that start at
// block `start` and run until they leave the source interval [lo,hi] (lo ==
// NoPos: the whole graph) or the function.
func c04counts(g *Graph, start int, lo, hi token.Pos, event func(ast.Node) bool) uint8 {
	n := len(g.C.Blocks)
	in := make([]uint8, n)
	in[start] = 1
	var out uint8
	inside := func(b *cfg.Block) bool {
		if lo == token.NoPos {
			return true
		}
		return b.Stmt != nil && b.Stmt.Pos() >= lo && b.Stmt.End() <= hi
	}
	work := []int{start}
	for len(work) > 0 {
		bi := work[len(work)-1]
		work = work[:len(work)-1]
		st := in[bi]
		for _, nd := range g.C.Blocks[bi].Nodes {
			if event(nd) {
				st = c04shift(st)
			}
		}
		succs := g.succs[bi]
		if len(succs) == 0 {
			if k, ok := g.exitOf(bi); ok && k != ExitPanic {
				out |= st
			}
			continue
		}
		for _, s := range succs {
			if s == start || !inside(g.C.Blocks[s]) {
				out |= st
				continue
			}
			if in[s]|st != in[s] {
				in[s] |= st
				work = append(work, s)
			}
		}
	}
	return out
}

// c04rangeBody returns the body block of a range statement in g.
func c04rangeBody(g *Graph, rs *ast.RangeStmt) int {
	for _, b := range g.C.Blocks {
		if b.Kind == cfg.KindRangeBody && b.Stmt == ast.Stmt(rs) {
			return int(b.Index)
		}
	}
	return -1
}

// c04perIter counts events per iteration of a range loop.
func c04perIter(g *Graph, rs *ast.RangeStmt, event func(ast.Node) bool) uint8 {
	b := c04rangeBody(g, rs)
	if b < 0 {
		return 0
	}
	return c04counts(g, b, rs.Body.Pos(), rs.Body.End(), event)
}

// c04outerLoc locates node in g; nodes inside nested literals are located at
// the outermost literal that is part of g's body.
func c04outerLoc(g *Graph, node ast.Node) (Loc, bool) {
	if l, ok := g.LocOf(node); ok {
		return l, true
	}
	var best ast.Node
	ast.Inspect(g.Body, func(x ast.Node) bool {
		if x == nil || best != nil {
			return false
		}
		if x.Pos() > node.Pos() || x.End() < node.End() {
			return false
		}
		if l, ok := x.(*ast.FuncLit); ok && l.Body != g.Body {
			best = l
			return false
		}
		return true
	})
	if best == nil {
		return Loc{}, false
	}
	return g.LocOf(best)
}

// c04fact reports whether a fact with the normalised condition text and value holds.
func c04fact(facts []Fact, cond string, val bool) bool {
	return factMatches(facts, func(ft Fact) bool { return ft.Tag == nil && ft.Val == val && c04str(ft.Cond) == cond })
}

func c04factsStr(facts []Fact) string {
	var p []string
	for _, ft := range facts {
		s := c04str(ft.Cond)
		if ft.Tag != nil {
			s = c04str(ft.Tag) + "==" + s
		}
		if !ft.Val {
			s = "!(" + s + ")"
		}
		p = append(p, s)
	}
	return strings.Join(p, " && ")
}

func c04param(f *Func, name string) types.Object {
	for _, fl := range f.Decl.Type.Params.List {
		for _, id := range fl.Names {
			if id.Name == name {
				return f.Info().Defs[id]
			}
		}
	}
	return nil
}

// c04namedType returns the name of the (pointer-stripped) named type of e.
func c04namedType(info *types.Info, e ast.Expr) string {
	t := info.TypeOf(e)
	if t == nil {
		return ""
	}
	if p, ok := t.(*types.Pointer); ok {
		t = p.Elem()
	}
	if n, ok := t.(*types.Named); ok {
		return n.Obj().Name()
	}
	return ""
}

func (x *c04x) fn(key string) *Func { return x.c.NeedFunc(x.m, key) }

// ---------------------------------------------------------------- (1) use sites

func (x *c04x) useSites() {
	c, m := x.c, x.m
	rule := "cursor-use-sites"
	n := 0
	for _, f := range x.funcs {
		for _, call := range c04calls(f.Decl.Body, f.Info(), c04kUse) {
			n++
			c.Touch(f)
			info := f.Info()
			recv, _, _ := c04recv(info, call, c04kUse)
			cons := f.Key + ": " + exprStr(call)
			switch f.Key {
			case "kgo.fetchRequest.addCursor":
				// partitions[c.partition] = c.use(); f.numOffsets++
				ok := false
				var why string
				ast.Inspect(f.Decl.Body, func(y ast.Node) bool {
					as, isAs := y.(*ast.AssignStmt)
					if !isAs || len(as.Rhs) != 1 || unparen(as.Rhs[0]) != ast.Expr(call) || len(as.Lhs) != 1 {
						return true
					}
					ix, isIx := as.Lhs[0].(*ast.IndexExpr)
					if !isIx {
						why = "the frozen offset is not stored into the request's usedOffsets map"
						return true
					}
					ks, isSel := unparen(ix.Index).(*ast.SelectorExpr)
					if !isSel || c04obj(info, ks.X) == nil || c04obj(info, ks.X) != c04obj(info, recv) || ks.Sel.Name != "partition" {
						why = "the entry is keyed by `" + exprStr(ix.Index) + "`, not by the used cursor's partition"
						return true
					}
					// the map is f.usedOffsets[c.topic]
					d := c04defs(f, c04obj(info, ix.X))
					okMap := false
					for _, dd := range d {
						if dix, isIx2 := dd.rhs.(*ast.IndexExpr); isIx2 && c04str(dix.X) == "f.usedOffsets" && c04str(dix.Index) == exprStr(recv)+".topic" {
							okMap = true
						}
					}
					if !okMap {
						why = "the per-topic map is not f.usedOffsets[" + exprStr(recv) + ".topic]"
						return true
					}
					ok = true
					return true
				})
				g := f.Graph()
				cl, _ := g.LocOf(call)
				cnt := false
				for _, nd := range g.C.Blocks[cl.B].Nodes {
					if inc, isInc := nd.(*ast.IncDecStmt); isInc && inc.Tok == token.INC && c04str(inc.X) == "f.numOffsets" {
						cnt = true
					}
				}
				if ok && !cnt {
					why = "f.numOffsets is not incremented with the use: fetch finishes used offsets only when numOffsets > 0"
				}
				c.Check(ok && cnt, rule, cons, call.Pos(), m, "stored in req.usedOffsets[topic][partition] and counted", why)
			case "kgo.source.createReq":
				x.createReqRecheck(f, call, cons)
			case "kgo.topicPartition.migrateCursorTo":
				g := f.Graph()
				cl, _ := g.LocOf(call)
				_, leak := g.FindPath(cl, SearchOpts{
					Stop: func(nd ast.Node) bool {
						return containsNode(nd, false, func(y ast.Node) bool {
							ac, ok := y.(*ast.CallExpr)
							return ok && calleeName(info, ac) == "kgo.listOrEpochLoads.addLoad" && len(ac.Args) == 4 && exprStr(ac.Args[2]) == "loadTypeEpoch"
						})
					},
					GoalExit: func(ExitKind, ast.Node) bool { return true },
				})
				c.Check(!leak, rule, cons, call.Pos(), m, "followed by the epoch load whose completion re-enables the cursor", "the cursor is marked used but no epoch load is queued on some path: nothing re-enables it and the partition is never fetched again")
			default:
				c.Fail(rule, cons, call.Pos(), m, "cursor.use() outside the confirmed table (addCursor, createReq recheck, migrateCursorTo): a used cursor must be finished by exactly one allowUsable / move / load completion")
			}
		}
	}
	c.Floor(rule, n, 3)
}

func (x *c04x) createReqRecheck(f *Func, call *ast.CallExpr, cons string) {
	c, m := x.c, x.m
	rule := "cursor-use-sites"
	info := f.Info()
	// the use is the cursorOffsetNext of a cursorOffsetPreferred appended to a local slice
	var slice types.Object
	ast.Inspect(f.Decl.Body, func(y ast.Node) bool {
		as, ok := y.(*ast.AssignStmt)
		if !ok || len(as.Lhs) != 1 || len(as.Rhs) != 1 {
			return true
		}
		ap, ok := as.Rhs[0].(*ast.CallExpr)
		if !ok || exprStr(ap.Fun) != "append" || len(ap.Args) != 2 {
			return true
		}
		if containsNode(ap.Args[1], false, func(z ast.Node) bool { return z == ast.Node(call) }) && c04obj(info, as.Lhs[0]) == c04obj(info, ap.Args[0]) {
			slice = c04obj(info, as.Lhs[0])
		}
		return true
	})
	if slice == nil {
		c.Fail(rule, cons, call.Pos(), m, "the used cursor of a follower recheck is not appended to the recheck list")
		return
	}
	// a deferred literal ranges over the slice and move()s every element
	var lit *ast.FuncLit
	var rs *ast.RangeStmt
	ast.Inspect(f.Decl.Body, func(y ast.Node) bool {
		d, ok := y.(*ast.DeferStmt)
		if !ok {
			return true
		}
		l, ok := d.Call.Fun.(*ast.FuncLit)
		if !ok {
			return true
		}
		ast.Inspect(l.Body, func(z ast.Node) bool {
			if r, ok := z.(*ast.RangeStmt); ok && c04obj(info, r.X) == slice {
				lit, rs = l, r
			}
			return true
		})
		return true
	})
	if lit == nil || rs.Value == nil {
		c.Fail(rule, cons, call.Pos(), m, "no deferred loop over the recheck list: used cursors of rechecks are never moved or re-enabled")
		return
	}
	lg := f.LitGraph(lit)
	val := c04obj(info, rs.Value)
	per := c04perIter(lg, rs, func(nd ast.Node) bool {
		return containsNode(nd, false, func(z ast.Node) bool {
			r, _, ok := c04recv(info, z, c04kMove)
			return ok && c04obj(info, r) == val
		})
	})
	// the loop is reached unless the list is empty
	_, skip := lg.FindPath(Loc{-1, 0}, SearchOpts{
		Stop:     func(nd ast.Node) bool { return nd == ast.Node(rs.X) },
		GoalExit: func(ExitKind, ast.Node) bool { return true },
		EdgeOK: func(from *cfg.Block, k int, to *cfg.Block) bool {
			cond, _, ok := lg.condOf(from)
			if ok && strings.HasPrefix(c04str(cond), "len("+slice.Name()+")>0") && k == 1 {
				return false
			}
			return true
		},
	})
	c.Check(per == 2 && !skip, rule, cons, call.Pos(), m, "every recheck is move()d by the deferred loop", fmt.Sprintf("the deferred recheck loop does not move() every used cursor exactly once (per-iteration move count %s, loop skippable: %v)", c04cntStr(per), skip))
}

// ---------------------------------------------------------------- (1) finishers

func (x *c04x) finishers() {
	c, m := x.c, x.m
	rule := "used-offsets-finished-once"
	for _, key := range []string{c04kFinSet, c04kFin} {
		f := x.fn(key)
		if f == nil {
			continue
		}
		info := f.Info()
		var lit *ast.FuncLit
		for _, call := range c04calls(f.Decl.Body, info, "kgo.usedOffsets.eachOffset") {
			if len(call.Args) == 1 {
				lit, _ = call.Args[0].(*ast.FuncLit)
			}
		}
		if lit == nil || len(lit.Type.Params.List) != 1 || len(lit.Type.Params.List[0].Names) != 1 {
			c.Undecided(rule, key, f.Pos(), m, "finisher is not eachOffset(func(o) {...})")
			continue
		}
		o := info.Defs[lit.Type.Params.List[0].Names[0]]
		lg := f.LitGraph(lit)
		onO := func(nd ast.Node, k string) bool {
			return containsNode(nd, false, func(z ast.Node) bool {
				r, _, ok := c04recv(info, z, k)
				if !ok {
					return false
				}
				e, ok := c04entry(info, r)
				return ok && c04obj(info, e) == o
			})
		}
		allow := c04counts(lg, 0, token.NoPos, token.NoPos, func(nd ast.Node) bool { return onO(nd, c04kAllow) })
		set := c04counts(lg, 0, token.NoPos, token.NoPos, func(nd ast.Node) bool { return onO(nd, c04kSet) })
		wantSet := uint8(1)
		if key == c04kFinSet {
			wantSet = 2
		}
		c.Check(allow == 2 && set == wantSet, rule, key, f.Pos(), m, "each entry: allowUsable exactly once"+map[bool]string{true: ", setOffset exactly once", false: ", never setOffset"}[key == c04kFinSet],
			fmt.Sprintf("per entry: allowUsable count %s (want {1}), setOffset count %s (want %s): a used cursor is stranded / re-enabled twice, or a discarded fetch advances the cursor (records lost)", c04cntStr(allow), c04cntStr(set), c04cntStr(wantSet)))
	}
	if f := x.fn("kgo.usedOffsets.eachOffset"); f != nil {
		info := f.Info()
		g := f.Graph()
		var outer, inner *ast.RangeStmt
		ast.Inspect(f.Decl.Body, func(y ast.Node) bool {
			if rs, ok := y.(*ast.RangeStmt); ok {
				if outer == nil {
					outer = rs
				} else if inner == nil {
					inner = rs
				}
			}
			return true
		})
		ok := false
		detail := "eachOffset is not two nested unconditional range loops"
		if outer != nil && inner != nil && outer.Value != nil && inner.Value != nil && len(f.Decl.Recv.List[0].Names) == 1 {
			recv := info.Defs[f.Decl.Recv.List[0].Names[0]]
			a := c04perIter(g, outer, func(nd ast.Node) bool { return nd == ast.Node(inner.X) })
			b := c04perIter(g, inner, func(nd ast.Node) bool {
				return containsNode(nd, false, func(z ast.Node) bool {
					call, isCall := z.(*ast.CallExpr)
					return isCall && exprStr(call.Fun) == "fn" && len(call.Args) == 1 && c04obj(info, call.Args[0]) == c04obj(info, inner.Value)
				})
			})
			ok = a == 2 && b == 2 && c04obj(info, outer.X) == recv && c04obj(info, inner.X) == c04obj(info, outer.Value)
			detail = fmt.Sprintf("eachOffset does not visit every entry exactly once (inner loops per topic %s, fn calls per entry %s)", c04cntStr(a), c04cntStr(b))
		}
		c.Check(ok, rule, f.Key, f.Pos(), m, "visits every entry of every topic exactly once", detail)
	}
	// move(): re-enable or republish on both paths
	if f := x.fn(c04kMove); f != nil {
		info := f.Info()
		g := f.Graph()
		cnt := c04counts(g, 0, token.NoPos, token.NoPos, func(nd ast.Node) bool {
			return containsNode(nd, false, func(z ast.Node) bool {
				if _, _, ok := c04recv(info, z, c04kAllow); ok {
					return true
				}
				call, ok := z.(*ast.CallExpr)
				if !ok || len(call.Args) != 1 {
					return false
				}
				sel, ok := unparen(call.Fun).(*ast.SelectorExpr)
				if !ok || (sel.Sel.Name != "Swap" && sel.Sel.Name != "Store") {
					return false
				}
				fv := fieldOfSel(info, sel.X)
				v, isC := constBool(info, call.Args[0])
				return fv != nil && fv.Name() == "useState" && isC && v
			})
		})
		c.Check(cnt == 2, rule, f.Key, f.Pos(), m, "the moved cursor becomes usable exactly once on every path (its entry is deleted from usedOffsets right after)", "move() leaves the cursor unusable on some path (count "+c04cntStr(cnt)+"): fetch deletes its used offset right after move(), so nothing re-enables it and the partition is never fetched again")
	}
}

// ---------------------------------------------------------------- takeBufferedFn and its callers

func (x *c04x) takeFn() {
	c, m := x.c, x.m
	rule := "take-buffered-fn"
	f := x.fn("kgo.source.takeBufferedFn")
	if f == nil {
		return
	}
	info := f.Info()
	g := f.Graph()
	bufField := fieldMust(c, m, "source", "buffered")
	// r := s.buffered ; s.buffered = bufferedFetch{} ; offsetFn(r.usedOffsets) ; r.doneFetch <- true
	var copyLoc, resetLoc, fnLoc Loc
	var haveCopy, haveReset, haveFn bool
	var r types.Object
	nFn, nSend := 0, 0
	for _, b := range g.C.Blocks {
		for i, nd := range b.Nodes {
			switch s := nd.(type) {
			case *ast.AssignStmt:
				if len(s.Lhs) == 1 && len(s.Rhs) == 1 {
					if sameField(fieldOfSel(info, s.Rhs[0]), bufField) && s.Tok == token.DEFINE {
						r = c04obj(info, s.Lhs[0])
						copyLoc, haveCopy = Loc{int(b.Index), i}, true
					}
					if sameField(fieldOfSel(info, s.Lhs[0]), bufField) {
						if cl, ok := s.Rhs[0].(*ast.CompositeLit); ok && len(cl.Elts) == 0 {
							resetLoc, haveReset = Loc{int(b.Index), i}, true
						}
					}
				}
			case *ast.ExprStmt:
				if call, ok := s.X.(*ast.CallExpr); ok && exprStr(call.Fun) == "offsetFn" {
					nFn++
					if len(call.Args) == 1 {
						if sel, ok := call.Args[0].(*ast.SelectorExpr); ok && sel.Sel.Name == "usedOffsets" && r != nil && c04obj(info, sel.X) == r {
							fnLoc, haveFn = Loc{int(b.Index), i}, true
						}
					}
				}
			case *ast.SendStmt:
				if sel, ok := s.Chan.(*ast.SelectorExpr); ok && sel.Sel.Name == "doneFetch" && r != nil && c04obj(info, sel.X) == r {
					nSend++
				}
			}
		}
	}
	ordered := haveCopy && haveReset && haveFn && g.Dominates(copyLoc, resetLoc) && g.Dominates(resetLoc, fnLoc)
	c.Check(ordered && nFn == 1, rule, f.Key+"#copy-reset-finish", f.Pos(), m, "r := s.buffered; s.buffered = {}; offsetFn(r.usedOffsets) once",
		"takeBufferedFn does not copy the buffered fetch, clear s.buffered and then finish the copied usedOffsets exactly once: a buffered fetch could be taken (and its cursors advanced) twice")
	if r != nil {
		sends := c04counts(g, 0, token.NoPos, token.NoPos, func(nd ast.Node) bool {
			s, ok := nd.(*ast.SendStmt)
			if !ok {
				return false
			}
			sel, ok := s.Chan.(*ast.SelectorExpr)
			return ok && sel.Sel.Name == "doneFetch" && c04obj(info, sel.X) == r
		})
		c.Check(sends == 2, "done-fetch-token-exactly-once", f.Key+": r.doneFetch <- true", f.Pos(), m, "the stored token is sent exactly once when the buffered fetch is taken or discarded", "the stored fetch token is sent "+c04cntStr(sends)+" times when a buffered fetch is taken: the session's fetch concurrency accounting breaks (stuck or over-subscribed)")
	}
	// callers
	n := 0
	for _, site := range CallSites(x.funcs, f.Obj) {
		n++
		call := site.Node.(*ast.CallExpr)
		sf := site.Fn
		c.Touch(sf)
		cons := sf.Key + ": takeBufferedFn(" + exprStr(call.Args[0]) + ", " + c04argName(call.Args[1]) + ")"
		var meth string
		if sel, ok := unparen(call.Args[1]).(*ast.SelectorExpr); ok {
			if s := sf.Info().Selections[sel]; s != nil {
				if fn, ok := s.Obj().(*types.Func); ok {
					meth = keyOfObj(fn)
				}
			} else if fn, ok := sf.Info().Uses[sel.Sel].(*types.Func); ok {
				meth = keyOfObj(fn)
			}
		}
		polled, isC := constBool(sf.Info(), call.Args[0])
		switch sf.Key {
		case "kgo.source.discardBuffered":
			c.Check(meth == c04kFin && isC && !polled, rule, cons, call.Pos(), m, "a discarded fetch never advances the cursor", "discardBuffered finishes the buffered fetch with `"+c04argName(call.Args[1])+"`: records dropped on a session stop / invalidation are skipped instead of being fetched again")
		case "kgo.source.takeBuffered":
			if _, isLit := call.Args[1].(*ast.FuncLit); isLit {
				c.OK(rule, cons, call.Pos(), m, "paused walk, see paused-not-advanced")
			} else {
				sg := sf.GraphFor(call)
				l, _ := sg.LocOf(call)
				c.Check(meth == c04kFinSet && c04fact(sg.FactsAt(l), "len(paused)==0", true), rule, cons, call.Pos(), m, "nothing paused: every entry advances and is re-enabled", "the unpaused take path does not finish with finishUsingAllWithSet under len(paused)==0")
			}
		default:
			c.Fail(rule, cons, call.Pos(), m, "takeBufferedFn is called outside takeBuffered / discardBuffered")
		}
	}
	c.Floor(rule, n, 3)
}

func c04argName(e ast.Expr) string {
	if _, ok := e.(*ast.FuncLit); ok {
		return "func literal"
	}
	return exprStr(e)
}

// ---------------------------------------------------------------- (6) takeBuffered with paused partitions

type c04pauseAtoms struct{ topicPaused, allPaused, partPaused *bool }

func (x *c04x) takeBufferedPaused() {
	c, m := x.c, x.m
	rule := "paused-not-advanced"
	f := x.fn("kgo.source.takeBuffered")
	if f == nil {
		return
	}
	info := f.Info()
	var lit *ast.FuncLit
	for _, call := range c04calls(f.Decl.Body, info, "kgo.source.takeBufferedFn") {
		if l, ok := call.Args[1].(*ast.FuncLit); ok {
			lit = l
		}
	}
	if lit == nil || len(lit.Type.Params.List) != 1 {
		c.Undecided(rule, f.Key+"#walk", f.Pos(), m, "paused walk literal not found")
		return
	}
	lg := f.LitGraph(lit)
	osObj := info.Defs[lit.Type.Params.List[0].Names[0]]
	var outer *ast.RangeStmt
	var inners []*ast.RangeStmt
	ast.Inspect(lit.Body, func(y ast.Node) bool {
		rs, ok := y.(*ast.RangeStmt)
		if !ok {
			return true
		}
		if c04obj(info, rs.X) == osObj && outer == nil {
			outer = rs
		} else if outer != nil && rs.Value != nil && c04obj(info, rs.X) == c04obj(info, outer.Value) {
			inners = append(inners, rs)
		}
		return true
	})
	if outer == nil || outer.Key == nil || outer.Value == nil || len(inners) == 0 {
		c.Undecided(rule, f.Key+"#walk", f.Pos(), m, "the walk is not `for t, ps := range os { ... for _, o := range ps ...}`")
		return
	}
	tKey := c04obj(info, outer.Key)
	isInnerX := func(nd ast.Node) bool {
		for _, in := range inners {
			if nd == ast.Node(in.X) {
				return true
			}
		}
		return false
	}
	per := c04perIter(lg, outer, isInnerX)
	c.Check(per == 2, "used-offsets-finished-once", f.Key+"#walk: one partition loop per topic", outer.Pos(), m, "every topic's entries are walked exactly once", "a topic of the buffered fetch is walked "+c04cntStr(per)+" times: its cursors stay unusable or are re-enabled twice")
	// classify a fact list
	atoms := func(facts []Fact, o types.Object) (a c04pauseAtoms) {
		for _, ft := range facts {
			if ft.Tag != nil {
				continue
			}
			v := ft.Val
			e := unparen(ft.Cond)
			if sel, ok := e.(*ast.SelectorExpr); ok {
				if fv := fieldOfSel(info, sel); fv != nil && fv.Name() == "all" && c04namedType(info, sel.X) == "pausedPartitions" {
					a.allPaused = &v
				}
				continue
			}
			obj := c04obj(info, e)
			if obj == nil {
				continue
			}
			d := c04single(f, obj)
			if d == nil || d.rhs == nil {
				continue
			}
			if call, ok := unparen(d.rhs).(*ast.CallExpr); ok && d.idx == 1 && calleeName(info, call) == "kgo.pausedTopics.t" && len(call.Args) == 1 && c04obj(info, call.Args[0]) == tKey {
				a.topicPaused = &v
			}
			if ix, ok := unparen(d.rhs).(*ast.IndexExpr); ok && d.idx == 1 {
				if sel, ok := unparen(ix.X).(*ast.SelectorExpr); ok && sel.Sel.Name == "m" && c04namedType(info, sel.X) == "pausedPartitions" {
					if o != nil && c04str(ix.Index) == o.Name()+".from.partition" {
						a.partPaused = &v
					}
				}
			}
		}
		return a
	}
	isF := func(p *bool) bool { return p != nil && !*p }
	isT := func(p *bool) bool { return p != nil && *p }
	nSet, nBare := 0, 0
	for i, in := range inners {
		o := c04obj(info, in.Value)
		onO := func(nd ast.Node, k string) bool {
			return containsNode(nd, false, func(z ast.Node) bool {
				r, _, ok := c04recv(info, z, k)
				if !ok {
					return false
				}
				e, ok := c04entry(info, r)
				return ok && c04obj(info, e) == o
			})
		}
		cnt := c04perIter(lg, in, func(nd ast.Node) bool { return onO(nd, c04kAllow) })
		c.Check(cnt == 2, "used-offsets-finished-once", fmt.Sprintf("%s#walk: partition loop %d", f.Key, i+1), in.Pos(), m, "each entry re-enabled exactly once", "an entry of the buffered fetch is re-enabled "+c04cntStr(cnt)+" times per take")
		// every allowUsable block: with or without setOffset
		for _, b := range lg.C.Blocks {
			if !lg.live[b.Index] {
				continue
			}
			ai, si, stripStore := -1, -1, false
			for k, nd := range b.Nodes {
				if nd.Pos() < in.Body.Pos() || nd.End() > in.Body.End() {
					continue
				}
				if onO(nd, c04kAllow) && ai < 0 {
					ai = k
				}
				if onO(nd, c04kSet) && si < 0 {
					si = k
				}
				if as, ok := nd.(*ast.AssignStmt); ok && len(as.Lhs) == 1 {
					if ix, ok := as.Lhs[0].(*ast.IndexExpr); ok && c04str(ix.Index) == o.Name()+".from.partition" {
						stripStore = true
					}
				}
			}
			if ai < 0 && si < 0 {
				continue
			}
			facts := lg.FactsAt(Loc{int(b.Index), 0})
			a := atoms(facts, o)
			pos := b.Nodes[0].Pos()
			if si >= 0 {
				nSet++
				cons := fmt.Sprintf("%s#walk: partition loop %d: setOffset", f.Key, i+1)
				notPaused := isF(a.topicPaused) || (isF(a.allPaused) && isF(a.partPaused))
				// value shape and order
				shape := false
				for _, nd := range b.Nodes {
					ast.Inspect(nd, func(z ast.Node) bool {
						if _, call, ok := c04recv(info, z, c04kSet); ok && len(call.Args) == 1 {
							if sel, ok := unparen(call.Args[0]).(*ast.SelectorExpr); ok && sel.Sel.Name == "cursorOffset" && c04obj(info, sel.X) == o {
								shape = true
							}
						}
						return true
					})
				}
				c.Check(notPaused && shape && ai > si && !stripStore, rule, cons, pos, m, "only for partitions that are not paused; the entry's own frozen offset, before allowUsable",
					"in the paused take path a cursor is advanced (setOffset) "+map[bool]string{true: "under [" + c04factsStr(facts) + "]: the partition may be paused, its records are stripped from the returned fetch and never returned", false: "with a value other than its own entry's offset, after allowUsable, or although it is stripped"}[!notPaused])
			} else {
				nBare++
				cons := fmt.Sprintf("%s#walk: partition loop %d: allowUsable without setOffset", f.Key, i+1)
				stripped := false
				switch {
				case isT(a.allPaused):
					// strip[t] = ... in the pps.all arm
					ast.Inspect(lit.Body, func(z ast.Node) bool {
						as, ok := z.(*ast.AssignStmt)
						if !ok || len(as.Lhs) != 1 {
							return true
						}
						if ix, ok := as.Lhs[0].(*ast.IndexExpr); ok && c04obj(info, ix.Index) == tKey {
							if l, ok := lg.LocOf(as); ok && isT(atoms(lg.FactsAt(l), nil).allPaused) {
								stripped = true
							}
						}
						return true
					})
				case isT(a.partPaused):
					stripped = stripStore
				}
				c.Check(stripped, rule, cons, pos, m, "paused: not advanced, and stripped from the returned fetch", "a cursor is re-enabled without advancing under ["+c04factsStr(facts)+"] but its partition is not marked for stripping: its records are returned now and fetched and returned again")
			}
		}
	}
	c.Floor(rule, nSet, 2)
	c.Floor(rule+"#bare", nBare, 2)
	// the stripping loop
	g := f.Graph()
	var nTopicSkip, nPartSkip, nKeep int
	ast.Inspect(f.Decl.Body, func(y ast.Node) bool {
		if y == ast.Node(lit) {
			return false
		}
		switch s := y.(type) {
		case *ast.IfStmt:
			// an if whose body is a bare `continue`
			if len(s.Body.List) != 1 {
				return true
			}
			if br, ok := s.Body.List[0].(*ast.BranchStmt); !ok || br.Tok != token.CONTINUE {
				return true
			}
			var facts []Fact
			for _, b := range g.C.Blocks {
				if b.Kind == cfg.KindIfThen && b.Stmt == ast.Stmt(s) {
					facts = g.FactsAt(Loc{int(b.Index), 0})
				}
			}
			for _, ft := range facts {
				if ft.Tag != nil || !ft.Val {
					continue
				}
				if obj := c04obj(info, ft.Cond); obj != nil {
					if d := c04single(f, obj); d != nil && d.idx == 1 {
						if ix, ok := unparen(d.rhs).(*ast.IndexExpr); ok {
							switch {
							case strings.HasSuffix(c04str(ix.Index), ".Partition"):
								nPartSkip++
							case strings.HasSuffix(c04str(ix.Index), ".Topic") && factMatches(facts, func(f2 Fact) bool {
								return f2.Val && strings.HasPrefix(c04str(f2.Cond), "len(") && strings.HasSuffix(c04str(f2.Cond), ")==0")
							}):
								nTopicSkip++
							}
						}
					}
				}
			}
		case *ast.CallExpr:
			if exprStr(s.Fun) == "append" && len(s.Args) == 2 && c04namedType(info, s.Args[1]) == "FetchPartition" {
				l, ok := g.LocOf(s)
				if !ok {
					return true
				}
				for _, ft := range g.FactsAt(l) {
					if ft.Tag != nil || ft.Val {
						continue
					}
					if obj := c04obj(info, ft.Cond); obj != nil {
						if d := c04single(f, obj); d != nil && d.idx == 1 {
							if ix, ok := unparen(d.rhs).(*ast.IndexExpr); ok && c04str(ix.Index) == exprStr(s.Args[1])+".Partition" {
								nKeep++
							}
						}
					}
				}
			}
		}
		return true
	})
	c.Check(nTopicSkip == 1 && nPartSkip == 1 && nKeep == 1, rule, f.Key+"#strip-loop", f.Pos(), m, "marked topics / partitions are dropped from the returned fetch, everything else is kept",
		fmt.Sprintf("the stripping loop does not drop exactly the marked partitions (whole-topic skips %d, partition skips %d, guarded keeps %d; want 1/1/1): records of a paused partition whose cursor was not advanced are returned (and returned again later)", nTopicSkip, nPartSkip, nKeep))
}

// ---------------------------------------------------------------- takeNBuffered

func (x *c04x) takeN() {
	c, m := x.c, x.m
	f := x.fn("kgo.source.takeNBuffered")
	if f == nil {
		return
	}
	info := f.Info()
	g := f.Graph()
	ruleF := "taken-finish-and-forget"
	ruleP := "paused-not-advanced"
	ruleV := "taken-offset-value"
	// the per-topic map: tCursors := b.usedOffsets[t.Topic]
	var tCur types.Object
	var tCurDef *ast.IndexExpr
	ast.Inspect(f.Decl.Body, func(y ast.Node) bool {
		as, ok := y.(*ast.AssignStmt)
		if ok && as.Tok == token.DEFINE && len(as.Lhs) == 1 && len(as.Rhs) == 1 {
			if ix, ok := as.Rhs[0].(*ast.IndexExpr); ok {
				if sel, ok := unparen(ix.X).(*ast.SelectorExpr); ok && sel.Sel.Name == "usedOffsets" && tCur == nil {
					tCur, tCurDef = c04obj(info, as.Lhs[0]), ix
				}
			}
		}
		return true
	})
	if tCur == nil {
		c.Undecided(ruleF, f.Key+"#topic-map", f.Pos(), m, "`tCursors := b.usedOffsets[t.Topic]` not found")
		return
	}
	// entry resolution: returns the key text ("" for a range value over the topic map)
	entryKey := func(e ast.Expr) (key string, ranged bool, ok bool) {
		e = unparen(e)
		if ix, isIx := e.(*ast.IndexExpr); isIx && c04obj(info, ix.X) == tCur {
			return c04str(ix.Index), false, true
		}
		obj := c04obj(info, e)
		if obj == nil {
			return "", false, false
		}
		d := c04single(f, obj)
		if d == nil {
			return "", false, false
		}
		if d.rng != nil && d.idx == 1 && c04obj(info, d.rng.X) == tCur {
			return "", true, true
		}
		if ix, isIx := unparen(d.rhs).(*ast.IndexExpr); isIx && c04obj(info, ix.X) == tCur {
			return c04str(ix.Index), false, true
		}
		return "", false, false
	}
	isDelete := func(nd ast.Node, mapIs func(ast.Expr) bool, key string) bool {
		return containsNode(nd, false, func(z ast.Node) bool {
			call, ok := z.(*ast.CallExpr)
			if !ok || exprStr(call.Fun) != "delete" || len(call.Args) != 2 {
				return false
			}
			if _, isB := info.Uses[call.Fun.(*ast.Ident)].(*types.Builtin); !isB {
				return false
			}
			return mapIs(call.Args[0]) && c04str(call.Args[1]) == key
		})
	}
	isTopicMap := func(e ast.Expr) bool { return c04obj(info, e) == tCur }
	isAllMap := func(e ast.Expr) bool { return c04str(e) == c04str(tCurDef.X) }
	loopHead := func(b *cfg.Block) bool {
		return b.Kind == cfg.KindForLoop || b.Kind == cfg.KindForPost || b.Kind == cfg.KindForDone
	}
	// allowUsable sites
	nAllow := 0
	for _, call := range c04calls(f.Decl.Body, info, c04kAllow) {
		nAllow++
		recv, _, _ := c04recv(info, call, c04kAllow)
		cons := fmt.Sprintf("%s: %s #%d", f.Key, exprStr(call), nAllow)
		ent, ok := c04entry(info, recv)
		if !ok {
			c.Fail(ruleF, cons, call.Pos(), m, "allowUsable on something that is not an entry's cursor")
			continue
		}
		key, ranged, ok := entryKey(ent)
		if !ok {
			c.Undecided(ruleF, cons, call.Pos(), m, "the re-enabled entry is not an element of the buffered per-topic map")
			continue
		}
		l, okl := g.LocOf(call)
		if !okl {
			c.Undecided(ruleF, cons, call.Pos(), m, "call not located")
			continue
		}
		stop := func(nd ast.Node) bool { return isDelete(nd, isTopicMap, key) }
		what := "delete(" + tCur.Name() + ", " + key + ")"
		if ranged {
			stop = func(nd ast.Node) bool { return isDelete(nd, isAllMap, c04str(tCurDef.Index)) }
			what = "delete(" + c04str(tCurDef.X) + ", " + c04str(tCurDef.Index) + ")"
		}
		path, leak := g.FindPath(l, SearchOpts{Stop: stop, GoalBlock: loopHead, GoalExit: func(ExitKind, ast.Node) bool { return true }})
		c.Check(!leak, ruleF, cons, call.Pos(), m, "the finished entry is forgotten ("+what+") before the loop continues",
			"after the cursor is re-enabled its entry stays in the buffered usedOffsets ("+what+" is not passed: "+pathStr(path)+"): when the fetch is drained takeBuffered(nil) runs finishUsingAllWithSet over it, moving the cursor to the end of the buffered fetch (records that were stripped because the partition is paused are never returned) and re-enabling a cursor that may already be in use")
	}
	c.Floor(ruleF, nAllow, 3)
	// delete sites are preceded by the finish
	nDel := 0
	ast.Inspect(f.Decl.Body, func(y ast.Node) bool {
		call, ok := y.(*ast.CallExpr)
		if !ok || exprStr(call.Fun) != "delete" || len(call.Args) != 2 {
			return true
		}
		l, okl := g.LocOf(call)
		if !okl {
			return true
		}
		cons := f.Key + ": " + exprStr(call)
		switch {
		case isTopicMap(call.Args[0]):
			nDel++
			key := c04str(call.Args[1])
			fin := false
			blk := g.C.Blocks[l.B]
			for i := 0; i < l.I; i++ {
				ast.Inspect(blk.Nodes[i], func(z ast.Node) bool {
					if r, _, ok := c04recv(info, z, c04kAllow); ok {
						if e, ok := c04entry(info, r); ok {
							if k, rg, ok := entryKey(e); ok && !rg && k == key {
								fin = true
							}
						}
					}
					return true
				})
			}
			cons += fmt.Sprintf(" #%d", nDel)
			c.Check(fin, ruleF, cons, call.Pos(), m, "only after the entry's cursor was re-enabled", "an entry is deleted from the buffered usedOffsets without its cursor having been re-enabled: the partition is never fetched again")
		case isAllMap(call.Args[0]):
			nDel++
			cons += fmt.Sprintf(" #%d", nDel)
			facts := g.FactsAt(l)
			empty := c04fact(facts, "len("+tCur.Name()+")==0", true)
			afterAll := false
			ast.Inspect(f.Decl.Body, func(z ast.Node) bool {
				rs, ok := z.(*ast.RangeStmt)
				if !ok || rs.Value == nil || c04obj(info, rs.X) != tCur {
					return true
				}
				v := c04obj(info, rs.Value)
				per := c04perIter(g, rs, func(nd ast.Node) bool {
					return containsNode(nd, false, func(w ast.Node) bool {
						r, _, ok := c04recv(info, w, c04kAllow)
						if !ok {
							return false
						}
						e, ok := c04entry(info, r)
						return ok && c04obj(info, e) == v
					})
				})
				xl, _ := g.LocOf(rs.X)
				if per == 2 && g.Dominates(xl, l) {
					afterAll = true
				}
				return true
			})
			c.Check(empty || afterAll, ruleF, cons, call.Pos(), m, "the topic's map is dropped only when it is empty or after all of its cursors were re-enabled", "a topic's used offsets are dropped while entries remain that were not re-enabled: those partitions are never fetched again")
		}
		return true
	})
	c.Floor(ruleF+"#delete", nDel, 5)
	// setOffset sites
	nSet := 0
	for _, call := range c04calls(f.Decl.Body, info, c04kSet) {
		nSet++
		recv, _, _ := c04recv(info, call, c04kSet)
		l, _ := g.LocOf(call)
		facts := g.FactsAt(l)
		// (6) never under a paused test
		pausedFree := 0
		for _, ft := range facts {
			if pc, ok := unparen(ft.Cond).(*ast.CallExpr); ok && ft.Tag == nil && calleeName(info, pc) == "kgo.pausedTopics.has" && !ft.Val {
				pausedFree++
			}
		}
		c.Check(pausedFree >= 2, ruleP, fmt.Sprintf("%s: setOffset #%d not paused", f.Key, nSet), call.Pos(), m, "reached only when neither the topic nor the partition is paused",
			"takeNBuffered advances a cursor on a path where the topic / partition pause tests did not both fail ["+c04factsStr(facts)+"]: records of a paused partition are stripped, not returned, and must be fetched again")
		ent, okE := c04entry(info, recv)
		key := ""
		if okE {
			var rg bool
			key, rg, okE = entryKey(ent)
			okE = okE && !rg
		}
		cons := fmt.Sprintf("%s: setOffset(%s)", f.Key, map[bool]string{true: "cursorOffset{...}", false: exprStr(call.Args[0])}[func() bool { _, ok := call.Args[0].(*ast.CompositeLit); return ok }()])
		if sel, ok := unparen(call.Args[0]).(*ast.SelectorExpr); ok && sel.Sel.Name == "cursorOffset" {
			// full take
			same := okE && c04obj(info, sel.X) != nil && c04obj(info, sel.X) == c04obj(info, ent)
			full := false
			for _, ft := range facts {
				if ft.Tag == nil && ft.Val && strings.HasPrefix(c04str(ft.Cond), "len(") && strings.HasSuffix(c04str(ft.Cond), ".Records)==0") {
					full = true
				}
			}
			// allowUsable follows in the block
			after := false
			blk := g.C.Blocks[l.B]
			for i := l.I + 1; i < len(blk.Nodes); i++ {
				if c04has(blk.Nodes[i], info, c04kAllow) {
					after = true
				}
			}
			c.Check(same && full && after, ruleV, cons, call.Pos(), m, "the entry's end offset, only once all of the partition's buffered records were handed out; then re-enabled",
				"the cursor is moved to the end of the buffered partition although not all of its records were handed out (no `len(p.Records) == 0` fact), or with another entry's offset: the remaining buffered records are skipped")
		} else if cl, ok := call.Args[0].(*ast.CompositeLit); ok {
			x.partialTake(f, g, call, cl, cons, key, okE, facts)
		} else {
			c.Fail(ruleV, cons, call.Pos(), m, "unrecognised value stored into the cursor by takeNBuffered")
		}
	}
	c.Floor(ruleV, nSet, 2)
	// drained: the rest of the bookkeeping is finished through takeBuffered(nil)
	okDrain := false
	for _, call := range c04calls(f.Decl.Body, info, "kgo.source.takeBuffered") {
		l, _ := g.LocOf(call)
		for _, ft := range g.FactsAt(l) {
			if obj := c04obj(info, ft.Cond); obj != nil && ft.Val && ft.Tag == nil {
				if d := c04single(f, obj); d != nil && d.rhs != nil && strings.HasPrefix(c04str(d.rhs), "len(") && strings.HasSuffix(c04str(d.rhs), ".Topics)==0") && len(call.Args) == 1 && exprStr(call.Args[0]) == "nil" {
					okDrain = true
				}
			}
		}
	}
	c.Check(okDrain, ruleF, f.Key+"#drained", f.Pos(), m, "the token is released (takeBuffered(nil)) only when no buffered topic remains", "takeNBuffered releases the buffered fetch while topics remain buffered (or never releases it)")
}

func (x *c04x) partialTake(f *Func, g *Graph, call *ast.CallExpr, cl *ast.CompositeLit, cons, key string, okE bool, facts []Fact) {
	c, m := x.c, x.m
	info := f.Info()
	ruleV := "taken-offset-value"
	var off, epoch ast.Expr
	for _, el := range cl.Elts {
		if kv, ok := el.(*ast.KeyValueExpr); ok {
			switch exprStr(kv.Key) {
			case "offset":
				off = kv.Value
			case "lastConsumedEpoch":
				epoch = kv.Value
			}
		}
	}
	var problems []string
	// offset: L.Offset + 1
	var last types.Object
	if be, ok := unparen(off).(*ast.BinaryExpr); ok && be.Op == token.ADD {
		if v, isC := constInt(info, be.Y); isC && v == 1 {
			if sel, ok := unparen(be.X).(*ast.SelectorExpr); ok && sel.Sel.Name == "Offset" {
				last = c04obj(info, sel.X)
			}
		}
	}
	if last == nil {
		problems = append(problems, "offset is `"+exprStr(off)+"`, not <last returned record>.Offset + 1")
	}
	var rp, p ast.Expr
	take := ""
	if last != nil {
		if sel, ok := unparen(epoch).(*ast.SelectorExpr); !ok || sel.Sel.Name != "LeaderEpoch" || c04obj(info, sel.X) != last {
			problems = append(problems, "lastConsumedEpoch is not the last returned record's leader epoch")
		}
		d := c04single(f, last)
		okLast := false
		if d != nil {
			if ix, ok := unparen(d.rhs).(*ast.IndexExpr); ok {
				if sel, ok := unparen(ix.X).(*ast.SelectorExpr); ok && sel.Sel.Name == "Records" && c04str(ix.Index) == "len("+c04str(ix.X)+")-1" {
					rp = sel.X
					okLast = true
				}
			}
		}
		if !okLast {
			problems = append(problems, "the record whose offset is stored is not the last element of the returned slice")
		}
	}
	if rp != nil {
		// rp.Records = p.Records[:take:take]; p.Records = p.Records[take:]
		var l1, l2 Loc
		var h1, h2 bool
		ast.Inspect(f.Decl.Body, func(y ast.Node) bool {
			as, ok := y.(*ast.AssignStmt)
			if !ok || len(as.Lhs) != 1 || len(as.Rhs) != 1 {
				return true
			}
			se, ok := as.Rhs[0].(*ast.SliceExpr)
			if !ok {
				return true
			}
			xs, ok := unparen(se.X).(*ast.SelectorExpr)
			if !ok || xs.Sel.Name != "Records" {
				return true
			}
			switch {
			case c04str(as.Lhs[0]) == c04str(rp)+".Records" && se.Low == nil && se.High != nil:
				p = xs.X
				take = c04str(se.High)
				if se.Max != nil && c04str(se.Max) != take {
					problems = append(problems, "returned slice capacity is not limited to what was taken")
				}
				l1, h1 = g.LocOf(as)
			case p != nil && c04str(as.Lhs[0]) == c04str(p)+".Records" && c04str(xs.X) == c04str(p) && se.High == nil && se.Low != nil:
				if c04str(se.Low) != take {
					problems = append(problems, "the kept remainder starts at `"+exprStr(se.Low)+"`, the returned part ends at `"+take+"`: records in between are neither returned nor kept (or returned twice)")
				}
				l2, h2 = g.LocOf(as)
			}
			return true
		})
		if !h1 || !h2 || !g.Dominates(l1, l2) {
			problems = append(problems, "returned part / kept remainder slicing (`rp.Records = p.Records[:take:take]; p.Records = p.Records[take:]`) not found in this order")
		}
		if p != nil {
			// the entry is the one of p's partition
			if !okE || key != c04str(p)+".Partition" {
				problems = append(problems, "the advanced cursor is not the entry of the partition whose records were taken")
			}
			// take := min(n, len(p.Records)); n -= take
			okTake, okN := false, false
			ast.Inspect(f.Decl.Body, func(y ast.Node) bool {
				as, ok := y.(*ast.AssignStmt)
				if !ok || len(as.Lhs) != 1 || len(as.Rhs) != 1 {
					return true
				}
				if c04str(as.Lhs[0]) == take && as.Tok == token.DEFINE {
					r := c04str(as.Rhs[0])
					if r == "min(n,len("+c04str(p)+".Records))" || r == "min(len("+c04str(p)+".Records),n)" {
						okTake = true
					}
				}
				if as.Tok == token.SUB_ASSIGN && c04str(as.Lhs[0]) == "n" && c04str(as.Rhs[0]) == take {
					okN = true
				}
				return true
			})
			if !okTake || !okN {
				problems = append(problems, "`take := min(n, len(p.Records)); n -= take` not found")
			}
			// partial: remainder is non-empty here
			if !c04fact(facts, "len("+c04str(p)+".Records)==0", false) {
				problems = append(problems, "the partial-take store is reachable when the partition was taken completely")
			}
		}
	}
	// a partial take keeps the cursor unusable: no allowUsable after it in the block
	l, _ := g.LocOf(call)
	blk := g.C.Blocks[l.B]
	for i := l.I + 1; i < len(blk.Nodes); i++ {
		if c04has(blk.Nodes[i], info, c04kAllow) {
			problems = append(problems, "the cursor is re-enabled while a remainder of its records is still buffered (a new fetch would overlap the buffered remainder)")
		}
	}
	c.Check(len(problems) == 0, ruleV, cons, call.Pos(), m, "last returned record's offset + 1; the returned slice and the kept remainder split at the same index", strings.Join(problems, "; "))
}

// ---------------------------------------------------------------- fetch: finishing of req.usedOffsets

type c04fetch struct {
	f        *Func
	g        *Graph
	info     *types.Info
	req      types.Object
	hCall    *ast.CallExpr // handleReqResp call
	hLoc     Loc
	res      []types.Object // results of handleReqResp
	deferLit *ast.FuncLit
}

func (x *c04x) fetchInfo() *c04fetch {
	f := x.fn("kgo.source.fetch")
	if f == nil {
		return nil
	}
	ff := &c04fetch{f: f, g: f.Graph(), info: f.Info()}
	info := ff.info
	ast.Inspect(f.Decl.Body, func(y ast.Node) bool {
		if _, ok := y.(*ast.FuncLit); ok {
			return false
		}
		as, ok := y.(*ast.AssignStmt)
		if !ok || len(as.Rhs) != 1 {
			return true
		}
		call, ok := as.Rhs[0].(*ast.CallExpr)
		if !ok {
			return true
		}
		switch calleeName(info, call) {
		case "kgo.source.createReq":
			if len(as.Lhs) == 1 {
				ff.req = c04obj(info, as.Lhs[0])
			}
		case "kgo.source.handleReqResp":
			ff.hCall = call
			ff.hLoc, _ = ff.g.LocOf(call)
			for _, l := range as.Lhs {
				ff.res = append(ff.res, c04obj(info, l))
			}
		}
		return true
	})
	ast.Inspect(f.Decl.Body, func(y ast.Node) bool {
		d, ok := y.(*ast.DeferStmt)
		if !ok {
			return true
		}
		if l, ok := d.Call.Fun.(*ast.FuncLit); ok && ff.deferLit == nil && (len(c04calls(l.Body, info, c04kFin)) > 0 || len(c04calls(l.Body, info, c04kFinSet)) > 0) {
			ff.deferLit = l
		}
		return true
	})
	if ff.req == nil || ff.hCall == nil || len(ff.res) != 5 || ff.deferLit == nil {
		x.c.Undecided("anchor", f.Key+"#shape", f.Pos(), x.m, "fetch: createReq / handleReqResp (5 results) / finishing defer not found")
		return nil
	}
	return ff
}

func (x *c04x) fetchFinish() {
	c, m := x.c, x.m
	ff := x.fetchInfo()
	if ff == nil {
		return
	}
	f, g, info := ff.f, ff.g, ff.info
	rule := "fetch-finishes-used-offsets"
	lg := f.LitGraph(ff.deferLit)
	// registered in the entry block
	var dl Loc
	ast.Inspect(f.Decl.Body, func(y ast.Node) bool {
		if d, ok := y.(*ast.DeferStmt); ok && d.Call.Fun == ast.Expr(ff.deferLit) {
			dl, _ = g.LocOf(d)
		}
		return true
	})
	early := false
	for bi := range g.C.Blocks {
		if _, isExit := g.exitOf(bi); isExit && !(g.BlockDominates(dl.B, bi)) {
			early = true
		}
	}
	c.Check(!early, rule, f.Key+"#defer-registered-first", ff.deferLit.Pos(), m, "the finishing defer is registered before any return", "a return precedes the registration of the finishing defer: cursors used by createReq stay unusable forever")
	for _, key := range []string{c04kFinSet, c04kFin} {
		calls := c04calls(ff.deferLit.Body, info, key)
		cons := f.Key + "#defer: " + strings.TrimPrefix(key, "kgo.usedOffsets.")
		if len(calls) != 1 {
			c.Fail(rule, cons, ff.deferLit.Pos(), m, fmt.Sprintf("%d calls in the finishing defer, want 1", len(calls)))
			continue
		}
		call := calls[0]
		l, _ := lg.LocOf(call)
		facts := lg.FactsAt(l)
		recv, _, _ := c04recv(info, call, key)
		okRecv := false
		if sel, ok := unparen(recv).(*ast.SelectorExpr); ok && sel.Sel.Name == "usedOffsets" && c04obj(info, sel.X) == ff.req {
			okRecv = true
		}
		wantSet := key == c04kFinSet
		ok := okRecv && c04fact(facts, "buffered", false) && c04fact(facts, "req.numOffsets>0", true) && c04fact(facts, "setOffsets", wantSet) && len(facts) == 3
		c.Check(ok, rule, cons, call.Pos(), m, "under !buffered && req.numOffsets > 0 && "+map[bool]string{true: "setOffsets", false: "!setOffsets"}[wantSet],
			"the finishing defer calls "+exprStr(call)+" under ["+c04factsStr(facts)+"]: used cursors of an unbuffered fetch are not re-enabled exactly once, or a buffered fetch's cursors are re-enabled while its records are still buffered (they would be fetched and returned twice)")
	}
	// setOffsets / buffered stores
	setObj, bufObj := localObj(f, "setOffsets"), localObj(f, "buffered")
	if setObj == nil || bufObj == nil {
		c.Undecided(rule, f.Key+"#flags", f.Pos(), m, "local flags setOffsets / buffered not found")
		return
	}
	var hasRec *ast.IfStmt
	ast.Inspect(f.Decl.Body, func(y ast.Node) bool {
		if _, ok := y.(*ast.FuncLit); ok {
			return false
		}
		if ifs, ok := y.(*ast.IfStmt); ok {
			if call, ok := unparen(ifs.Cond).(*ast.CallExpr); ok && calleeName(info, call) == "kgo.Fetch.hasErrorsOrRecords" {
				if r, ok := unparen(call.Fun).(*ast.SelectorExpr); ok && c04obj(info, r.X) == ff.res[0] {
					hasRec = ifs
				}
			}
		}
		return true
	})
	nSetStore := 0
	ast.Inspect(f.Decl.Body, func(y ast.Node) bool {
		as, ok := y.(*ast.AssignStmt)
		if !ok {
			return true
		}
		for i, lh := range as.Lhs {
			if info.Uses[identOf(lh)] != setObj {
				continue
			}
			nSetStore++
			cons := f.Key + ": " + nodeStr(as)
			v, isC := constBool(info, as.Rhs[i])
			l, okl := g.LocOf(as)
			if !okl || !isC || !v {
				c.Fail("offsets-kept-only-with-records-delivered", cons, as.Pos(), m, "setOffsets is stored outside fetch's main path or with a non-constant value")
				continue
			}
			dom := g.Dominates(ff.hLoc, l)
			var path []ast.Node
			drop := true
			if hasRec != nil {
				path, drop = g.FindPath(l, SearchOpts{
					Stop:     func(nd ast.Node) bool { return nd == ast.Node(hasRec.Cond) },
					GoalExit: func(ExitKind, ast.Node) bool { return true },
				})
			}
			c.Check(dom && !drop, "offsets-kept-only-with-records-delivered", cons, as.Pos(), m, "after the response was processed; from here every path decides on fetch.hasErrorsOrRecords()",
				"after setOffsets = true a return is reachable without testing fetch.hasErrorsOrRecords() ("+pathStr(path)+"): the deferred finishUsingAllWithSet advances the cursors past records of a response that is dropped instead of buffered")
		}
		return true
	})
	c.Check(nSetStore == 1, "offsets-kept-only-with-records-delivered", f.Key+"#one-store", f.Pos(), m, "", fmt.Sprintf("%d stores to setOffsets, want 1", nSetStore))
	// the buffering arm
	if hasRec == nil {
		c.Fail("offsets-kept-only-with-records-delivered", f.Key+"#buffer-arm", f.Pos(), m, "`if fetch.hasErrorsOrRecords()` on handleReqResp's fetch not found: a processed response with records must be buffered")
		return
	}
	okBuf, okLit := false, false
	for _, st := range hasRec.Body.List {
		as, ok := st.(*ast.AssignStmt)
		if !ok || len(as.Lhs) != 1 {
			continue
		}
		if info.Uses[identOf(as.Lhs[0])] == bufObj {
			if v, isC := constBool(info, as.Rhs[0]); isC && v {
				okBuf = true
			}
		}
		if fv := fieldOfSel(info, as.Lhs[0]); fv != nil && fv.Name() == "buffered" {
			if cl, ok := as.Rhs[0].(*ast.CompositeLit); ok {
				got := map[string]string{}
				for _, el := range cl.Elts {
					if kv, ok := el.(*ast.KeyValueExpr); ok {
						got[exprStr(kv.Key)] = c04str(kv.Value)
					}
				}
				okLit = got["fetch"] == ff.res[0].Name() && got["usedOffsets"] == ff.req.Name()+".usedOffsets" && got["doneFetch"] != ""
			}
		}
	}
	c.Check(okBuf && okLit, "offsets-kept-only-with-records-delivered", f.Key+"#buffer-arm", hasRec.Pos(), m, "a response with records or errors is buffered together with the request's used offsets",
		"the hasErrorsOrRecords arm does not set buffered = true and store bufferedFetch{fetch, doneFetch, usedOffsets: req.usedOffsets}: the records are dropped while the cursors advance, or the buffered offsets are not the request's")
}

func identOf(e ast.Expr) *ast.Ident {
	id, _ := unparen(e).(*ast.Ident)
	return id
}

// c04stripMarks: in takeBuffered the pause filter drops, from the returned
// fetch, exactly the partitions whose cursors were NOT advanced.  The strip map
// encodes "whole topic" as a present key with an empty set, so a partition set
// may be stored under a topic only when it is non-empty (an empty set stored
// for a topic with no paused partition on this broker would drop every
// partition of the topic although their cursors were advanced: silent skip).
func c04stripMarks(c *Ctx, m *Module) {
	rule := "strip-marks-match-unadvanced-cursors"
	f := c.NeedFunc(m, "kgo.source.takeBuffered")
	if f == nil {
		return
	}
	info := f.Info()
	n := 0
	ast.Inspect(f.Decl.Body, func(x ast.Node) bool {
		as, ok := x.(*ast.AssignStmt)
		if !ok || len(as.Lhs) != 1 || len(as.Rhs) != 1 {
			return true
		}
		ix, ok := as.Lhs[0].(*ast.IndexExpr)
		if !ok {
			return true
		}
		tv := info.Types[ix.X]
		if tv.Type == nil || nosp(tv.Type.String()) != "map[string]map[int32]struct{}" {
			return true
		}
		n++
		g := f.GraphFor(as)
		l, _ := g.LocOf(as)
		facts := g.FactsAt(l)
		val := nosp(exprStr(as.Rhs[0]))
		cons := f.Key + ": " + nosp(exprStr(as.Lhs[0])) + " = " + val
		if val == "nil" {
			whole := factMatches(facts, func(ft Fact) bool { return ft.Val && strings.HasSuffix(nosp(exprStr(ft.Cond)), ".all") })
			c.Check(whole, rule, cons, as.Pos(), m, "whole-topic mark only when the whole topic is paused", "the whole-topic strip mark is stored although the topic is not entirely paused")
			return true
		}
		nonEmpty := factMatches(facts, func(ft Fact) bool { return ft.Val && nosp(exprStr(ft.Cond)) == "len("+val+")>0" })
		c.Check(nonEmpty, rule, cons, as.Pos(), m, "a partition set is recorded only when non-empty", "a possibly empty partition set is stored as the topic's strip mark; the filter reads an empty set as `strip the whole topic`, so the unpaused partitions - whose cursors were already advanced - are dropped from the returned fetch and never delivered")
		return true
	})
	c.Floor(rule+"/stores", n, 2)
}
