package main

import (
	"fmt"
	"go/ast"
	"go/types"

	"golang.org/x/tools/go/cfg"
)

// ---------------------------------------------------------------- C07-H: the cooperative rejoin is raised on every exit

func (x *c07x) rejoinOnEveryExit() {
	c, m := x.c, x.m
	rule := "revoke-before-rejoin"
	f := x.fn("kgo.groupConsumer.revoke")
	if f == nil {
		return
	}
	info := f.Info()
	g := f.Graph()
	isRejoin := func(n ast.Node) bool {
		if d, ok := n.(*ast.DeferStmt); ok {
			return calleeName(info, d.Call) == "kgo.groupConsumer.rejoin"
		}
		return c07now(info, n, "kgo.groupConsumer.rejoin", nil)
	}
	// classic cooperative member that lost something at the start of a session
	atoms := map[string]tri{
		"len(lost)>0": triT, "len(lost)==0": triF,
		"g.cooperative.Load()": triT, "leaving": triF,
		"stage!=revokeThisSession": triT, "stage==revokeThisSession": triF,
		"is848": triF, "g.is848": triF,
	}
	edges := c07edges(f, g, atoms)
	// the tag switch on stage: only the revokeLastSession arm is feasible
	edgeOK := func(from *cfg.Block, k int, to *cfg.Block) bool {
		if !edges(from, k, to) {
			return false
		}
		cond, tag, ok := g.condOf(from)
		if ok && tag != nil && nosp(exprStr(tag)) == "stage" {
			isThis := nosp(exprStr(cond)) == "revokeThisSession"
			if isThis && k == 0 {
				return false
			}
			if nosp(exprStr(cond)) == "revokeLastSession" && k == 1 {
				return false
			}
		}
		return true
	}
	p, found := g.FindPath(Loc{-1, 0}, SearchOpts{Stop: isRejoin, GoalExit: func(k ExitKind, _ ast.Node) bool { return k != ExitPanic }, EdgeOK: edgeOK})
	c.Check(!found, rule, f.Key+"#rejoin-on-every-exit", f.Pos(), m, "a classic cooperative member that revoked lost partitions raises the rejoin signal on every path to the function's exit (deferred accepted)",
		"with len(lost) > 0, cooperative, not leaving, stage revokeLastSession and not KIP-848, revoke can return without g.rejoin ("+pathStr(p)+"): the member never sends the second JoinGroup of the cooperative rebalance, so the partitions it gave up (which the leader withheld from their new owners for this round) are assigned to nobody until an unrelated rebalance")
}

// ---------------------------------------------------------------- C07-G: AdjustCooperative withholds every partition that changes owner

func (x *c07x) adjustCooperative() {
	c, m := x.c, x.m
	rule := "cooperative-withholds-moved-partitions"
	f := x.fn("kgo.BalancePlan.AdjustCooperative")
	if f == nil {
		return
	}
	info := f.Info()
	// the revoked set and its per-topic accessor
	var revoked types.Object // allRevoked
	ast.Inspect(f.Decl.Body, func(y ast.Node) bool {
		as, ok := y.(*ast.AssignStmt)
		if !ok || len(as.Lhs) != 1 || len(as.Rhs) != 1 {
			return true
		}
		if call, ok := as.Rhs[0].(*ast.CallExpr); ok && exprStr(call.Fun) == "make" && len(call.Args) >= 1 {
			if t, ok := info.TypeOf(call.Args[0]).(*types.Map); ok {
				if inner, ok := t.Elem().(*types.Map); ok {
					if st, ok := inner.Elem().(*types.Struct); ok && st.NumFields() == 0 && revoked == nil {
						revoked = c04obj(info, as.Lhs[0])
					}
				}
			}
		}
		return true
	})
	if revoked == nil {
		c.Undecided(rule, f.Key+"#revoked-set", f.Pos(), m, "the map[string]map[int32]struct{} revoked set was not found")
		return
	}
	// closures returning a topic entry of the revoked set
	accessor := map[types.Object]bool{}
	ast.Inspect(f.Decl.Body, func(y ast.Node) bool {
		as, ok := y.(*ast.AssignStmt)
		if !ok || len(as.Lhs) != 1 || len(as.Rhs) != 1 {
			return true
		}
		if lit, ok := as.Rhs[0].(*ast.FuncLit); ok && containsNode(lit.Body, false, func(z ast.Node) bool {
			ix, ok := z.(*ast.IndexExpr)
			return ok && c04obj(info, ix.X) == revoked
		}) {
			accessor[c04obj(info, as.Lhs[0])] = true
		}
		return true
	})
	isRevokedEntry := func(e ast.Expr) bool {
		for _, d := range c04defs(f, c04obj(info, e)) {
			if d.rhs == nil {
				continue
			}
			if call, ok := unparen(d.rhs).(*ast.CallExpr); ok && accessor[c04obj(info, call.Fun)] {
				return true
			}
			if ix, ok := unparen(d.rhs).(*ast.IndexExpr); ok && c04obj(info, ix.X) == revoked {
				return true
			}
		}
		return false
	}
	// the per-member walk over owned topics
	var owned *ast.RangeStmt
	var lit *ast.FuncLit
	ast.Inspect(f.Decl.Body, func(y ast.Node) bool {
		l, ok := y.(*ast.FuncLit)
		if !ok {
			return true
		}
		ast.Inspect(l.Body, func(z ast.Node) bool {
			rs, ok := z.(*ast.RangeStmt)
			if !ok || rs.Value == nil {
				return true
			}
			if sel, ok := unparen(rs.X).(*ast.SelectorExpr); ok && sel.Sel.Name == "OwnedPartitions" {
				// the walk that records revocations
				if containsNode(rs.Body, false, func(w ast.Node) bool {
					as, ok := w.(*ast.AssignStmt)
					if !ok || len(as.Lhs) != 1 {
						return false
					}
					ix, ok := as.Lhs[0].(*ast.IndexExpr)
					return ok && isRevokedEntry(ix.X)
				}) {
					owned, lit = rs, l
				}
			}
			return true
		})
		return true
	})
	if owned == nil {
		c.Fail(rule, f.Key+"#owned-walk", f.Pos(), m, "no walk over a member's OwnedPartitions that records revoked partitions: partitions that change owner are not withheld, and are assigned to their new owner while the old one still consumes them")
		return
	}
	lg := f.LitGraph(lit)
	ot := c04obj(info, owned.Value)
	isOwnedParts := func(e ast.Expr) bool {
		sel, ok := unparen(e).(*ast.SelectorExpr)
		return ok && sel.Sel.Name == "Partitions" && c04obj(info, sel.X) == ot
	}
	// (a) every owned topic's partitions are examined: no path through an iteration skips ranging over otopic.Partitions
	body := c04rangeBody(lg, owned)
	var head *cfg.Block
	for _, b := range lg.C.Blocks {
		if b.Kind == cfg.KindRangeLoop && b.Stmt == ast.Stmt(owned) {
			head = b
		}
	}
	if body < 0 || head == nil {
		c.Undecided(rule, f.Key+"#owned-walk", owned.Pos(), m, "loop blocks not found")
		return
	}
	p, found := lg.FindPath(Loc{body, -1}, SearchOpts{
		Stop:      func(n ast.Node) bool { e, ok := n.(ast.Expr); return ok && isOwnedParts(e) },
		GoalBlock: func(b *cfg.Block) bool { return b == head },
		GoalExit:  func(ExitKind, ast.Node) bool { return true },
	})
	c.Check(!found, rule, f.Key+"#every-owned-topic-diffed", owned.Pos(), m, "for every topic a member currently owns, its owned partitions are compared with the plan (no skip when nothing of the topic is planned)",
		"an owned topic can be skipped without looking at its owned partitions ("+pathStr(p)+"): when nothing of the topic is planned for the member its partitions are not recorded as revoked, so they stay in their new owner's plan in the same generation in which the old owner still consumes them")
	// (b) when the topic is absent from the member's plan, every owned partition is recorded as revoked
	nAbsent := 0
	ast.Inspect(owned.Body, func(y ast.Node) bool {
		rs, ok := y.(*ast.RangeStmt)
		if !ok || !isOwnedParts(rs.X) || rs.Value == nil {
			return true
		}
		l, okl := lg.LocOf(rs.X)
		if !okl {
			return true
		}
		absent := factMatches(lg.FactsAt(l), func(ft Fact) bool {
			if ft.Tag != nil || ft.Val {
				return false
			}
			d := c04single(f, c04obj(info, ft.Cond))
			if d == nil || d.idx != 1 {
				return false
			}
			_, isIx := unparen(d.rhs).(*ast.IndexExpr)
			return isIx
		})
		if !absent {
			return true
		}
		nAbsent++
		v := c04obj(info, rs.Value)
		per := c04perIter(lg, rs, func(n ast.Node) bool {
			as, ok := n.(*ast.AssignStmt)
			if !ok || len(as.Lhs) != 1 {
				return false
			}
			ix, ok := as.Lhs[0].(*ast.IndexExpr)
			return ok && isRevokedEntry(ix.X) && c04obj(info, ix.Index) == v
		})
		c.Check(per == 2, rule, fmt.Sprintf("%s#unplanned-topic-revoked #%d", f.Key, nAbsent), rs.Pos(), m, "a topic that left the member's plan has every owned partition recorded as revoked", "for a topic absent from the member's plan an owned partition is recorded as revoked "+c04cntStr(per)+" times (want exactly once)")
		return true
	})
	c.Floor(rule+"#unplanned-topic-arm", nAbsent, 1)
	// (c) every revoked partition that was added to another member is removed from that member's plan
	var rev *ast.RangeStmt
	ast.Inspect(f.Decl.Body, func(y ast.Node) bool {
		if _, isLit := y.(*ast.FuncLit); isLit {
			return false
		}
		if rs, ok := y.(*ast.RangeStmt); ok && c04obj(info, rs.X) == revoked && rs.Value != nil {
			rev = rs
		}
		return true
	})
	if rev == nil {
		c.Fail(rule, f.Key+"#removal", f.Pos(), m, "no loop over the revoked set that removes revoked partitions from their new owners' plans")
		return
	}
	var inner *ast.RangeStmt
	ast.Inspect(rev.Body, func(y ast.Node) bool {
		if rs, ok := y.(*ast.RangeStmt); ok && inner == nil && c04obj(info, rs.X) == c04obj(info, rev.Value) {
			inner = rs
		}
		return true
	})
	g := f.Graph()
	okRem := false
	var path []ast.Node
	if inner != nil {
		ib := c04rangeBody(g, inner)
		var ih *cfg.Block
		for _, b := range g.C.Blocks {
			if b.Kind == cfg.KindRangeLoop && b.Stmt == ast.Stmt(inner) {
				ih = b
			}
		}
		topicKey := c04obj(info, rev.Key)
		isPlanUpdate := func(n ast.Node) bool {
			return containsNode(n, false, func(z ast.Node) bool {
				switch s := z.(type) {
				case *ast.AssignStmt:
					if len(s.Lhs) == 1 {
						if ix, ok := s.Lhs[0].(*ast.IndexExpr); ok && c04obj(info, ix.Index) == topicKey && topicKey != nil {
							return true
						}
					}
				case *ast.CallExpr:
					if exprStr(s.Fun) == "delete" && len(s.Args) == 2 && c04obj(info, s.Args[1]) == topicKey && topicKey != nil {
						return true
					}
				}
				return false
			})
		}
		if ib >= 0 && ih != nil {
			var found bool
			path, found = g.FindPath(Loc{ib, -1}, SearchOpts{
				Stop:      isPlanUpdate,
				GoalBlock: func(b *cfg.Block) bool { return b == ih },
				GoalExit:  func(ExitKind, ast.Node) bool { return true },
				EdgeOK: func(from *cfg.Block, k int, to *cfg.Block) bool {
					// a revoked partition nobody was given is skipped: `!exists` of a map lookup
					cond, tag, ok := g.condOf(from)
					if !ok || tag != nil || k != 0 {
						return true
					}
					if u, ok := unparen(cond).(*ast.UnaryExpr); ok && u.Op.String() == "!" {
						if d := c04single(f, c04obj(info, u.X)); d != nil && d.idx == 1 {
							if _, isIx := unparen(d.rhs).(*ast.IndexExpr); isIx {
								return false
							}
						}
					}
					return true
				},
			})
			okRem = !found
		}
	}
	c.Check(okRem, rule, f.Key+"#removal", rev.Pos(), m, "every revoked partition that some member was newly given leads to an update of that member's planned topic entry", "a revoked partition that was added to another member can be left in that member's plan ("+pathStr(path)+")")
}
