package main

import (
	"fmt"
	"go/ast"
	"go/types"
)

// ---------------------------------------------------------------------------
// C14 rule fetch-buffered-before-publish.
//
// consumer.addSourceReadyForDraining(s) publishes a source to the pollers:
// from that moment PollRecords / shareConsumer.poll may run takeBuffered /
// takeNBuffered on s.buffered, which re-slices the fetch's Topics/Partitions/
// Records in place and reports every removed record to OnFetchRecordUnbuffered.
// hookBuffered(&fetch) walks the same fetch to call OnFetchRecordBuffered and
// to add to the gauges.  So for every record to be buffered exactly once and
// before it is unbuffered, the hookBuffered call of a stored fetch has to be
// complete before the source is published: on every path from the store of
// the buffered fetch to the publication, hookBuffered has run.
// ---------------------------------------------------------------------------

func c14publishOrder(c *Ctx, m *Module) {
	rule := "fetch-buffered-before-publish"
	funcs := m.FuncsIn("kgo")
	pub := c.NeedFunc(m, "kgo.consumer.addSourceReadyForDraining")
	hb := c.NeedFunc(m, "kgo.source.hookBuffered")
	ready := fieldMust(c, m, "consumer", "sourcesReadyForDraining")
	if pub == nil || hb == nil || ready == nil {
		return
	}
	// (a) the ready list grows only inside addSourceReadyForDraining
	nApp := 0
	for _, st := range StoreSites(funcs, ready) {
		call, ok := unparen(st.RHS).(*ast.CallExpr)
		if !ok {
			continue
		}
		if b, ok := calleeObj(st.Fn.Info(), call).(*types.Builtin); !ok || b.Name() != "append" {
			continue
		}
		nApp++
		c.Check(st.Fn.Key == pub.Key, rule, st.Fn.Key+": appends to sourcesReadyForDraining", st.Node.Pos(), m, "", "a source is published to the pollers outside addSourceReadyForDraining: the ordering against hookBuffered is not checked there")
	}
	c.Floor(rule+"#appends", nApp, 1)
	// (b) every publication is preceded by the buffered hook of the stored fetch
	allowed := map[string][2]string{
		"kgo.source.fetch":      {"source", "buffered"},
		"kgo.source.shareFetch": {"sourceShare", "buffered"},
	}
	nPub := 0
	for _, site := range CallSites(funcs, pub.Obj) {
		nPub++
		f := site.Fn
		c.Touch(f)
		call := site.Node.(*ast.CallExpr)
		cons := fmt.Sprintf("%s: addSourceReadyForDraining#%d", f.Key, nPub)
		fld, ok := allowed[f.Key]
		if !ok || site.Lit != nil {
			c.Fail(rule, cons, call.Pos(), m, "a source is published to the pollers from a function outside the confirmed table {source.fetch, source.shareFetch}: nothing pairs the publication with a stored fetch and its buffered hook")
			continue
		}
		info := f.Info()
		g := f.Graph()
		pl, okP := g.LocOf(call)
		if !okP {
			c.Undecided(rule, cons, call.Pos(), m, "cannot locate the publication in the CFG")
			continue
		}
		// the published source is the receiver whose buffered field was stored
		recv := ""
		if f.Decl.Recv != nil && len(f.Decl.Recv.List) == 1 && len(f.Decl.Recv.List[0].Names) == 1 {
			recv = f.Decl.Recv.List[0].Names[0].Name
		}
		c.Check(len(call.Args) == 1 && exprStr(call.Args[0]) == recv && recv != "", rule, cons+"#publishes the receiver", call.Pos(), m, "", "the published source is not the one whose fetch was just stored")
		isHook := func(n ast.Node) bool {
			// a hook started with `go` or registered with `defer` has not run yet
			switch n.(type) {
			case *ast.GoStmt, *ast.DeferStmt:
				return false
			}
			return containsNode(n, false, func(y ast.Node) bool {
				c2, ok := y.(*ast.CallExpr)
				return ok && isCallTo(info, c2, hb.Obj)
			})
		}
		isPub := func(n ast.Node) bool {
			return containsNode(n, false, func(y ast.Node) bool { return y == ast.Node(call) })
		}
		// from the function entry: no path reaches the publication without hookBuffered
		pth, early := g.FindPath(Loc{-1, 0}, SearchOpts{Stop: isHook, GoalNode: isPub})
		c.Check(!early, rule, cons+"#after hookBuffered", call.Pos(), m, "hookBuffered precedes the publication on every path",
			"the source is published to the pollers (addSourceReadyForDraining) on a path that has not yet run hookBuffered (path: "+pathStr(pth)+"): a parked poll can take the fetch - shrinking its Topics/Partitions/Records in place and reporting its records to OnFetchRecordUnbuffered - while or before hookBuffered walks it, so records are unbuffered without/before being buffered, BufferedFetchRecords/BufferedFetchBytes go negative, and the concurrent walk can index out of range")
		// hookBuffered does not run (again) after the publication
		_, late := g.FindPath(pl, SearchOpts{GoalNode: isHook})
		c.Check(!late, rule, cons+"#no hookBuffered after", call.Pos(), m, "", "hookBuffered is reachable after the source was published: it walks a fetch that pollers may be taking concurrently")
		// the buffering store of this function precedes both and always reaches the publication
		fv := m.Field("kgo", fld[0], fld[1])
		nStore := 0
		for _, st := range storesTo(f.Decl.Body, info, fv, false) {
			lit, isLit := unparen(st.RHS).(*ast.CompositeLit)
			if st.Kind != "assign" || !isLit || len(lit.Elts) == 0 {
				continue
			}
			nStore++
			sl, _ := g.LocOf(st.Node)
			c.Check(g.DominatesReg(sl, pl), rule, cons+"#after the store of the fetch", call.Pos(), m, "", "the source is published before its fetch is stored in "+fld[0]+"."+fld[1])
			_, lost := g.FindPath(sl, SearchOpts{Stop: isPub, GoalExit: func(k ExitKind, last ast.Node) bool { return k != ExitPanic }})
			c.Check(!lost, rule, cons+"#store always published", st.Node.Pos(), m, "", "a fetch is stored (and reported buffered) on a path that never publishes the source: no poll ever takes it, its records are never unbuffered and the fetch loop waits on its semaphore forever")
		}
		c.Check(nStore == 1, rule, cons+"#one buffering store", call.Pos(), m, "", fmt.Sprintf("%d buffering stores in the publishing function (one confirmed)", nStore))
	}
	c.Floor(rule+"#publications", nPub, 2)
}
