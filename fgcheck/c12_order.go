package main

import (
	"fmt"
	"go/ast"
	"go/token"
	"go/types"
	"strings"
)

// Sortedness typestate of the acknowledgement range list built by
// buildAckRanges (rule ack-order) and the builders of the wire batches (rule
// ack-builders).
//
// The result slice R is "ascending" when every element appended to it is not
// below the element appended before.  That is established in one of three ways:
//   - all appends take their element from one source that was sorted ascending
//     by the emitted key and is traversed forwards;
//   - the appends come from two sorted sources through a two-pointer merge: the
//     elements of B are appended inside a loop nested in the traversal of A,
//     whose condition is exactly "B has an element" && "B's next key </<= A's
//     current key", placed before A's append; what is left of B is appended
//     after the traversal of A;
//   - R is sorted ascending by firstOffset after the last append, on every path
//     to a return.
// Anything else with more than one source is reported.

type c12site struct {
	node *ast.AssignStmt
	src  types.Object
	form string // range | head | index | spread | spread-index
	idx  types.Object
	rng  *ast.RangeStmt
	key  *types.Var
	elem ast.Expr
	lit  *ast.CompositeLit
}

type c12sortCall struct {
	call *ast.CallExpr
	key  *types.Var
	asc  bool
	ok   bool // comparator recognised
}

// c12sortOf recognises slices.SortFunc / SortStableFunc / sort.Slice / SliceStable
// calls on the slice variable obj and classifies the comparator.
func c12sortsOf(f *Func, body ast.Node, obj types.Object) []c12sortCall {
	info := f.Info()
	var out []c12sortCall
	ast.Inspect(body, func(x ast.Node) bool {
		call, ok := x.(*ast.CallExpr)
		if !ok || len(call.Args) != 2 || c12obj(info, call.Args[0]) != obj || obj == nil {
			return true
		}
		name := calleeName(info, call)
		lit, _ := unparen(call.Args[1]).(*ast.FuncLit)
		sc := c12sortCall{call: call}
		switch name {
		case "slices.SortFunc", "slices.SortStableFunc":
			if lit != nil && len(lit.Body.List) == 1 {
				ps := c12paramObjs(info, lit)
				if ret, ok := lit.Body.List[0].(*ast.ReturnStmt); ok && len(ret.Results) == 1 && len(ps) == 2 {
					if cc, ok := unparen(ret.Results[0]).(*ast.CallExpr); ok && calleeName(info, cc) == "cmp.Compare" && len(cc.Args) == 2 {
						fa, ba := c12selOn(info, cc.Args[0])
						fb, bb := c12selOn(info, cc.Args[1])
						if fa != nil && sameField(fa, fb) {
							switch {
							case ba == ps[0] && bb == ps[1]:
								sc.key, sc.asc, sc.ok = fa, true, true
							case ba == ps[1] && bb == ps[0]:
								sc.key, sc.asc, sc.ok = fa, false, true
							}
						}
					}
				}
			}
		case "sort.Slice", "sort.SliceStable":
			if lit != nil && len(lit.Body.List) == 1 {
				ps := c12paramObjs(info, lit)
				if ret, ok := lit.Body.List[0].(*ast.ReturnStmt); ok && len(ret.Results) == 1 && len(ps) == 2 {
					if be, ok := unparen(ret.Results[0]).(*ast.BinaryExpr); ok && (be.Op == token.LSS || be.Op == token.GTR) {
						fa, ia := c12selOnIndex(info, be.X, obj)
						fb, ib := c12selOnIndex(info, be.Y, obj)
						if fa != nil && sameField(fa, fb) {
							fwd := ia == ps[0] && ib == ps[1]
							rev := ia == ps[1] && ib == ps[0]
							if fwd || rev {
								sc.key, sc.ok = fa, true
								sc.asc = (be.Op == token.LSS) == fwd
							}
						}
					}
				}
			}
		default:
			return true
		}
		out = append(out, sc)
		return true
	})
	return out
}

func c12paramObjs(info *types.Info, lit *ast.FuncLit) []types.Object {
	var out []types.Object
	for _, fl := range lit.Type.Params.List {
		for _, n := range fl.Names {
			out = append(out, info.Defs[n])
		}
	}
	return out
}

// c12selOn: x is `v.field` with v an identifier: returns field and v's object.
func c12selOn(info *types.Info, x ast.Expr) (*types.Var, types.Object) {
	sel, ok := unparen(x).(*ast.SelectorExpr)
	if !ok {
		return nil, nil
	}
	fld := fieldOfSel(info, sel)
	if fld == nil {
		return nil, nil
	}
	return fld, c12obj(info, sel.X)
}

// c12selOnIndex: x is `S[i].field`: returns field and i's object.
func c12selOnIndex(info *types.Info, x ast.Expr, s types.Object) (*types.Var, types.Object) {
	sel, ok := unparen(x).(*ast.SelectorExpr)
	if !ok {
		return nil, nil
	}
	ix, ok := unparen(sel.X).(*ast.IndexExpr)
	if !ok || c12obj(info, ix.X) != s {
		return nil, nil
	}
	return fieldOfSel(info, sel), c12obj(info, ix.Index)
}

func c12rangeOfValue(body ast.Node, info *types.Info, v types.Object) *ast.RangeStmt {
	var out *ast.RangeStmt
	ast.Inspect(body, func(x ast.Node) bool {
		if r, ok := x.(*ast.RangeStmt); ok && r.Value != nil && v != nil && c12obj(info, r.Value) == v {
			out = r
		}
		return true
	})
	return out
}

// c12srcOfRange: the slice variable a range statement traverses (S or S[j:]).
func c12srcOfRange(info *types.Info, r *ast.RangeStmt) (types.Object, types.Object, bool) {
	x := unparen(r.X)
	if se, ok := x.(*ast.SliceExpr); ok {
		if se.High != nil || se.Max != nil || se.Low == nil {
			return nil, nil, false
		}
		return c12obj(info, se.X), c12obj(info, se.Low), c12obj(info, se.X) != nil && c12obj(info, se.Low) != nil
	}
	o := c12obj(info, x)
	return o, nil, o != nil
}

func (e *c12env) ruleOrder() {
	c, m := e.c, e.m
	rule := "ack-order"
	f := e.need("kgo.buildAckRanges")
	coal := e.need("kgo.coalesceAppendRange")
	rangeT := m.Object("kgo", "shareAckRange")
	firstF := m.Field("kgo", "shareAckRange", "firstOffset")
	lastF := m.Field("kgo", "shareAckRange", "lastOffset")
	typeF := m.Field("kgo", "shareAckRange", "ackType")
	if f == nil || coal == nil || rangeT == nil || firstF == nil || lastF == nil || typeF == nil {
		if rangeT == nil || firstF == nil {
			c.Undecided("anchor", "kgo.shareAckRange", token.NoPos, m, "type or fields not found")
		}
		return
	}
	e.checkCoalesce(coal, firstF, lastF, typeF)

	info := f.Info()
	g := f.Graph()
	body := f.Decl.Body
	consBase := f.Key

	// the result variable
	var R types.Object
	if res := f.Decl.Type.Results; res != nil && len(res.List) > 0 && len(res.List[0].Names) > 0 {
		R = info.Defs[res.List[0].Names[0]]
	}
	var rets []*ast.ReturnStmt
	for _, nd := range findNodes(body, false, func(x ast.Node) bool { _, ok := x.(*ast.ReturnStmt); return ok }) {
		rets = append(rets, nd.(*ast.ReturnStmt))
	}
	for _, r := range rets {
		if len(r.Results) == 0 {
			continue
		}
		o := c12obj(info, r.Results[0])
		if o == nil || (R != nil && o != R) {
			c.Undecided(rule, consBase+"#result", r.Pos(), m, "buildAckRanges returns something other than one local slice variable")
			return
		}
		R = o
	}
	if R == nil {
		c.Undecided(rule, consBase+"#result", f.Pos(), m, "result variable not identified")
		return
	}

	// append sites
	var sites []*c12site
	undec := ""
	ast.Inspect(body, func(x ast.Node) bool {
		if _, ok := x.(*ast.FuncLit); ok {
			return false
		}
		as, ok := x.(*ast.AssignStmt)
		if !ok {
			return true
		}
		for i, l := range as.Lhs {
			if c12obj(info, l) != R {
				continue
			}
			if len(as.Rhs) != len(as.Lhs) {
				undec = "result assigned from a multi-value expression: " + nodeStr(as)
				continue
			}
			call, ok := unparen(as.Rhs[i]).(*ast.CallExpr)
			if !ok || len(call.Args) < 2 || c12obj(info, call.Args[0]) != R {
				undec = "result written by something other than an append: " + nodeStr(as)
				continue
			}
			isAppend := false
			if id, ok := call.Fun.(*ast.Ident); ok && id.Name == "append" {
				_, isAppend = info.Uses[id].(*types.Builtin)
			}
			if !isAppend && !isCallTo(info, call, coal.Obj) {
				undec = "result written by a call that is not append/coalesceAppendRange: " + nodeStr(as)
				continue
			}
			if len(call.Args) != 2 {
				undec = "append of several elements at once: " + nodeStr(as)
				continue
			}
			s := &c12site{node: as, elem: unparen(call.Args[1])}
			if why := e.classifySite(f, s, call.Ellipsis.IsValid(), firstF, lastF, rangeT.Type()); why != "" {
				undec = why + ": " + nodeStr(as)
				continue
			}
			sites = append(sites, s)
		}
		return true
	})
	if undec != "" {
		c.Undecided(rule, consBase+"#appends", f.Pos(), m, undec)
		return
	}
	c.Floor(rule+"/append-sites", len(sites), 2)

	// sources
	type srcInfo struct {
		obj    types.Object
		key    *types.Var
		sorted bool
		why    string
	}
	srcs := map[types.Object]*srcInfo{}
	var order []types.Object
	for _, s := range sites {
		si := srcs[s.src]
		if si == nil {
			si = &srcInfo{obj: s.src, key: s.key}
			srcs[s.src] = si
			order = append(order, s.src)
		} else if !sameField(si.key, s.key) {
			si.why = "elements are emitted with different keys"
		}
	}
	siteLoc := func(s *c12site) Loc { l, _ := g.LocOf(s.node); return l }
	for _, o := range order {
		si := srcs[o]
		if si.why != "" {
			continue
		}
		var best *c12sortCall
		sorts := c12sortsOf(f, body, o)
		for i := range sorts {
			sc := &sorts[i]
			sl, ok := g.LocOf(sc.call)
			if !ok {
				continue
			}
			dom := true
			for _, s := range sites {
				if s.src == o && !g.Dominates(sl, siteLoc(s)) {
					dom = false
				}
			}
			if dom {
				best = sc
			}
		}
		switch {
		case best == nil:
			si.why = "is not sorted before its elements are appended"
		case !best.ok:
			si.why = "is sorted with a comparator the check does not recognise"
		case !best.asc:
			si.why = "is sorted in descending order"
		case !sameField(best.key, si.key):
			si.why = "is sorted by " + best.key.Name() + " but emitted by " + si.key.Name()
		default:
			if why := e.sourceUntouched(f, o, best.call); why != "" {
				si.why = why
			} else {
				si.sorted = true
			}
		}
	}
	names := func() string {
		var ns []string
		for _, o := range order {
			ns = append(ns, o.Name())
		}
		return strings.Join(ns, ", ")
	}
	for _, o := range order {
		si := srcs[o]
		c.Check(si.sorted, rule, consBase+"#source "+o.Name()+" sorted", f.Pos(), m, "sorted ascending by "+si.key.Name()+" before the traversal, not modified in between",
			"source "+o.Name()+" "+si.why+": the acknowledgement batches built from it are not in ascending offset order")
	}

	// (a) sort of the result
	postSorted, postWhy := e.resultSorted(f, R, firstF, sites, rets, order)

	// (b)/(c) typestate of the appends
	asc, how, why := false, "", ""
	allSorted := true
	for _, o := range order {
		if !srcs[o].sorted {
			allSorted = false
		}
	}
	switch {
	case postSorted:
		asc, how = true, "the result is sorted ascending by firstOffset after the last append ("+postWhy+")"
	case len(order) == 1:
		one := true
		for _, s := range sites {
			if s.form != "range" && s.form != "spread" {
				one = false
			}
		}
		if one && allSorted {
			asc, how = true, "single sorted source "+names()
		} else if !one {
			why = "elements of " + names() + " are appended by index, not by one forward traversal"
		} else {
			why = "the only source is not sorted"
		}
	case len(order) == 2:
		ok1, w1 := e.isMerge(f, sites, order[0], order[1], srcs[order[0]].key, srcs[order[1]].key)
		ok2, w2 := false, ""
		if !ok1 {
			ok2, w2 = e.isMerge(f, sites, order[1], order[0], srcs[order[1]].key, srcs[order[0]].key)
		}
		switch {
		case (ok1 || ok2) && allSorted:
			asc, how = true, "two-pointer merge of the sorted sources "+names()
		case ok1 || ok2:
			why = "the merged sources are not both sorted"
		default:
			why = "the ranges of " + order[0].Name() + " and the ranges of " + order[1].Name() + ", each sorted on its own, are appended without a complete merge of the two by offset and without sorting the combined result (" + w1
			if w2 != "" && w2 != w1 {
				why += "; " + w2
			}
			why += "): e.g. user acks at offsets 10 and 12 plus an internal gap ack at 11 give the batches [10][12][11]"
		}
	default:
		why = fmt.Sprintf("ranges from %d independently ordered sources (%s) are concatenated", len(order), names())
	}
	c.Check(asc, rule, consBase+"#ascending", f.Pos(), m, how,
		"the acknowledgement batches of a partition are not globally ascending by firstOffset: "+why+"; a broker rejects a batch that starts at or below the end of the previous one (kfake validateOneAckBatch: first <= prevEnd -> INVALID_REQUEST) for the whole partition, so every acknowledgement in the request fails and the records are redelivered")

	// dedupe / undecided entries for literal-emitting sites
	nLit := 0
	for _, s := range sites {
		if s.lit == nil || s.rng == nil {
			continue
		}
		nLit++
		e.checkEntrySite(f, s, typeF, srcs[s.src].sorted)
	}
	c.Floor(rule+"/entry-sites", nLit, 1)
}

// classifySite determines source, traversal form and key of an appended element.
func (e *c12env) classifySite(f *Func, s *c12site, spread bool, firstF, lastF *types.Var, rangeT types.Type) string {
	info := f.Info()
	body := f.Decl.Body
	if spread {
		switch x := s.elem.(type) {
		case *ast.Ident:
			s.src, s.form, s.key = c12obj(info, x), "spread", firstF
		case *ast.SliceExpr:
			if x.High != nil || x.Max != nil || x.Low == nil || c12obj(info, x.X) == nil || c12obj(info, x.Low) == nil {
				return "unrecognised slice in variadic append"
			}
			s.src, s.idx, s.form, s.key = c12obj(info, x.X), c12obj(info, x.Low), "spread-index", firstF
		default:
			return "unrecognised variadic append"
		}
		if s.src == nil {
			return "unrecognised variadic append"
		}
		return ""
	}
	switch x := s.elem.(type) {
	case *ast.CompositeLit:
		if t := info.TypeOf(x); t == nil || !types.Identical(t, rangeT) {
			return "appended literal is not a shareAckRange"
		}
		var k, l ast.Expr
		for _, el := range x.Elts {
			kv, ok := el.(*ast.KeyValueExpr)
			if !ok {
				return "positional shareAckRange literal"
			}
			if id, ok := kv.Key.(*ast.Ident); ok {
				if fv, _ := info.Uses[id].(*types.Var); sameField(fv, firstF) {
					k = kv.Value
				} else if sameField(fv, lastF) {
					l = kv.Value
				}
			}
		}
		if k == nil || l == nil {
			return "literal without firstOffset/lastOffset"
		}
		kf, v := c12selOn(info, k)
		if kf == nil || v == nil {
			return "firstOffset of the literal is not a field of the traversed element"
		}
		if nosp(exprStr(k)) != nosp(exprStr(l)) {
			return "literal range is not a single offset"
		}
		r := c12rangeOfValue(body, info, v)
		if r == nil || !c12within(r.Body, s.node) {
			return "literal is not built from the value variable of an enclosing range statement"
		}
		src, idx, ok := c12srcOfRange(info, r)
		if !ok || idx != nil {
			return "range expression is not a plain slice variable"
		}
		s.src, s.form, s.rng, s.key, s.lit = src, "range", r, kf, x
	case *ast.Ident:
		v := c12obj(info, x)
		r := c12rangeOfValue(body, info, v)
		if r == nil || !c12within(r.Body, s.node) {
			return "appended variable is not the value variable of an enclosing range statement"
		}
		src, idx, ok := c12srcOfRange(info, r)
		if !ok {
			return "range expression is not a slice variable"
		}
		s.src, s.rng, s.key = src, r, firstF
		if idx != nil {
			s.form, s.idx = "range-index", idx
		} else {
			s.form = "range"
		}
	case *ast.IndexExpr:
		s.src, s.key = c12obj(info, x.X), firstF
		if s.src == nil {
			return "indexed element of something that is not a slice variable"
		}
		if v, isC := constInt(info, unparen(x.Index)); isC && v == 0 {
			s.form = "head"
		} else if io := c12obj(info, x.Index); io != nil {
			s.form, s.idx = "index", io
		} else {
			return "unrecognised index expression"
		}
	default:
		return "unrecognised appended element"
	}
	if t := info.TypeOf(s.elem); t == nil || !types.Identical(t, rangeT) {
		return "appended element is not a shareAckRange"
	}
	return ""
}

// sourceUntouched: after the sort the source is only read, traversed, measured
// or shortened from the front/back.
func (e *c12env) sourceUntouched(f *Func, src types.Object, sortCall *ast.CallExpr) string {
	info := f.Info()
	pm := parentMap(f.Decl.Body)
	why := ""
	ast.Inspect(f.Decl.Body, func(x ast.Node) bool {
		id, ok := x.(*ast.Ident)
		if !ok || info.Uses[id] != src {
			return true
		}
		if c12within(sortCall, id) {
			return true
		}
		if id.Pos() < sortCall.Pos() {
			// uses before the sort do not matter unless they alias; keep it simple: only len/nil tests
		}
		par := pm[id]
		switch p := par.(type) {
		case *ast.RangeStmt:
			if p.X == ast.Expr(id) {
				return true
			}
		case *ast.CallExpr:
			if fn, ok := p.Fun.(*ast.Ident); ok && (fn.Name == "len" || fn.Name == "cap") {
				return true
			}
			if fn, ok := p.Fun.(*ast.Ident); ok && fn.Name == "append" && len(p.Args) == 2 && p.Args[1] == ast.Expr(id) && p.Ellipsis.IsValid() {
				return true
			}
			if strings.HasPrefix(calleeName(info, p), "slices.Sort") || strings.HasPrefix(calleeName(info, p), "sort.Sli") {
				return true // another sort: classified separately
			}
		case *ast.IndexExpr:
			if p.X == ast.Expr(id) {
				// read S[i] or S[i].f; a store through it is a modification
				top := ast.Node(p)
				for {
					if sel, ok := pm[top].(*ast.SelectorExpr); ok && sel.X == top {
						top = sel
						continue
					}
					break
				}
				if as, ok := pm[top].(*ast.AssignStmt); ok {
					for _, l := range as.Lhs {
						if l == top {
							why = "has an element overwritten after it was sorted (`" + nodeStr(as) + "`)"
						}
					}
				}
				if u, ok := pm[top].(*ast.UnaryExpr); ok && u.Op == token.AND {
					why = "has the address of an element taken after it was sorted"
				}
				return true
			}
		case *ast.SliceExpr:
			if p.X == ast.Expr(id) {
				return true
			}
		case *ast.AssignStmt:
			for i, l := range p.Lhs {
				if l == ast.Expr(id) {
					if len(p.Rhs) == len(p.Lhs) {
						if se, ok := unparen(p.Rhs[i]).(*ast.SliceExpr); ok && c12obj(info, se.X) == src {
							return true
						}
					}
					why = "is reassigned after it was sorted (`" + nodeStr(p) + "`)"
					return true
				}
			}
		case *ast.BinaryExpr:
			return true // comparison with nil
		}
		if why == "" {
			why = "is used in a way the check cannot follow after it was sorted (`" + nodeStr(par) + "`)"
		}
		return true
	})
	return why
}

// resultSorted: R is sorted ascending by firstOffset after the last append on
// every path to a return.
func (e *c12env) resultSorted(f *Func, R types.Object, firstF *types.Var, sites []*c12site, rets []*ast.ReturnStmt, order []types.Object) (bool, string) {
	info := f.Info()
	g := f.Graph()
	isSite := func(n ast.Node) bool {
		for _, s := range sites {
			if ast.Node(s.node) == n {
				return true
			}
		}
		return false
	}
	for _, sc := range c12sortsOf(f, f.Decl.Body, R) {
		if !sc.ok || !sc.asc || !sameField(sc.key, firstF) {
			continue
		}
		sl, ok := g.LocOf(sc.call)
		if !ok {
			continue
		}
		if _, again := g.FindPath(sl, SearchOpts{GoalNode: isSite}); again {
			continue
		}
		anchor, how := sl, "unconditional"
		// conditional sort `if len(S) > 0 { sort }` for one of two sources
		if ifs := c12enclosingStmtIf(f.Decl.Body, sc.call); ifs != nil {
			cond := nosp(exprStr(ifs.Cond))
			okCond := false
			for _, o := range order {
				n := o.Name()
				if len(order) == 2 && ifs.Else == nil && (cond == "len("+n+")>0" || cond == "len("+n+")!=0" || cond == "len("+n+")>=1") {
					okCond = true
				}
			}
			if !okCond {
				continue
			}
			cl, ok := g.LocOf(ifs.Cond)
			if !ok {
				continue
			}
			if _, again := g.FindPath(cl, SearchOpts{GoalNode: isSite}); again {
				continue
			}
			// the guarding length must be read before the source is consumed: no reslice of it
			anchor, how = cl, "skipped only when one of the two sources is empty"
			_ = info
		}
		all := true
		for _, r := range rets {
			rl, ok := g.LocOf(r)
			if !ok || !g.Dominates(anchor, rl) {
				all = false
			}
		}
		if len(rets) == 0 {
			all = false // falls off the end: named results; the end is dominated iff the anchor dominates every exit block
			all = true
			for _, b := range g.C.Blocks {
				if _, isExit := g.exitOf(int(b.Index)); isExit && !g.Dominates(anchor, Loc{int(b.Index), len(b.Nodes)}) {
					all = false
				}
			}
		}
		if all {
			return true, how
		}
	}
	return false, ""
}

// isMerge recognises the two-pointer merge of A (traversed by a range statement)
// and B (consumed by index or from the head).
func (e *c12env) isMerge(f *Func, sites []*c12site, A, B types.Object, keyA, keyB *types.Var) (bool, string) {
	info := f.Info()
	g := f.Graph()
	var ra *ast.RangeStmt
	var aSites, inner, outer []*c12site
	for _, s := range sites {
		switch s.src {
		case A:
			if s.form != "range" {
				return false, A.Name() + " is not traversed by one range statement"
			}
			if ra != nil && ra != s.rng {
				return false, A.Name() + " is traversed twice"
			}
			ra = s.rng
			aSites = append(aSites, s)
		}
	}
	if ra == nil {
		return false, "no traversal of " + A.Name()
	}
	for _, s := range sites {
		if s.src != B {
			continue
		}
		if c12within(ra.Body, s.node) {
			inner = append(inner, s)
		} else {
			outer = append(outer, s)
		}
	}
	if len(inner) == 0 {
		return false, "no element of " + B.Name() + " is appended while " + A.Name() + " is traversed"
	}
	form := inner[0].form
	var idx types.Object
	if form != "head" && form != "index" {
		return false, "elements of " + B.Name() + " inside the traversal of " + A.Name() + " are not consumed by index or from the head"
	}
	idx = inner[0].idx
	av := c12obj(info, ra.Value)
	isConsume := func(st ast.Stmt) bool {
		switch form {
		case "head":
			as, ok := st.(*ast.AssignStmt)
			if !ok || len(as.Lhs) != 1 || len(as.Rhs) != 1 || c12obj(info, as.Lhs[0]) != B {
				return false
			}
			se, ok := unparen(as.Rhs[0]).(*ast.SliceExpr)
			if !ok || c12obj(info, se.X) != B || se.High != nil || se.Low == nil {
				return false
			}
			v, isC := constInt(info, se.Low)
			return isC && v == 1
		default:
			inc, ok := st.(*ast.IncDecStmt)
			return ok && inc.Tok == token.INC && c12obj(info, inc.X) == idx
		}
	}
	isBound := func(x ast.Expr) bool {
		b, ok := unparen(x).(*ast.BinaryExpr)
		if !ok {
			return false
		}
		lenOfB := func(y ast.Expr) bool {
			call, ok := unparen(y).(*ast.CallExpr)
			return ok && exprStr(call.Fun) == "len" && len(call.Args) == 1 && c12obj(info, call.Args[0]) == B
		}
		switch form {
		case "head":
			v, isC := constInt(info, unparen(b.Y))
			if lenOfB(b.X) && isC && ((b.Op == token.GTR && v == 0) || (b.Op == token.NEQ && v == 0) || (b.Op == token.GEQ && v == 1)) {
				return true
			}
			v, isC = constInt(info, unparen(b.X))
			return lenOfB(b.Y) && isC && b.Op == token.LSS && v == 0
		default:
			return (b.Op == token.LSS && c12obj(info, b.X) == idx && lenOfB(b.Y)) || (b.Op == token.GTR && lenOfB(b.X) && c12obj(info, b.Y) == idx)
		}
	}
	isElemB := func(x ast.Expr) bool {
		ix, ok := unparen(x).(*ast.IndexExpr)
		if !ok || c12obj(info, ix.X) != B {
			return false
		}
		if form == "head" {
			v, isC := constInt(info, unparen(ix.Index))
			return isC && v == 0
		}
		return c12obj(info, ix.Index) == idx
	}
	isOrder := func(x ast.Expr) bool {
		b, ok := unparen(x).(*ast.BinaryExpr)
		if !ok {
			return false
		}
		l, r, op := b.X, b.Y, b.Op
		if op == token.GTR || op == token.GEQ {
			l, r = r, l
		} else if op != token.LSS && op != token.LEQ {
			return false
		}
		// l is B's element key, r is A's current key
		ls, ok1 := unparen(l).(*ast.SelectorExpr)
		rf, rb := c12selOn(info, r)
		return ok1 && sameField(fieldOfSel(info, ls), keyB) && isElemB(ls.X) && sameField(rf, keyA) && rb == av && av != nil
	}
	for _, s := range inner {
		if s.form != form || s.idx != idx {
			return false, "mixed ways of consuming " + B.Name()
		}
		loop, ok := c12enclosing[*ast.ForStmt](ra.Body, s.node)
		if !ok || loop.Cond == nil || loop.Init != nil {
			return false, "the append of " + B.Name() + "'s element inside the traversal is not in a conditional loop"
		}
		parts := c12flatten(loop.Cond, token.LAND, nil)
		if len(parts) != 2 || !((isBound(parts[0]) && isOrder(parts[1])) || (isBound(parts[1]) && isOrder(parts[0]))) {
			return false, "the interleaving loop is not guarded by exactly `" + B.Name() + " has an element && its " + keyB.Name() + " </<= the current " + keyA.Name() + "` (condition `" + exprStr(loop.Cond) + "`)"
		}
		// body: the append and the consumption, unconditionally, nothing that leaves early
		top, consumed := false, 0
		for _, st := range loop.Body.List {
			if st == ast.Stmt(s.node) {
				top = true
			}
			if isConsume(st) {
				consumed++
			}
		}
		if loop.Post != nil && isConsume(loop.Post) {
			consumed++
		}
		if !top || consumed != 1 || containsNode(loop.Body, false, func(y ast.Node) bool { _, ok := y.(*ast.BranchStmt); return ok }) {
			return false, "the interleaving loop does not append and consume exactly one element of " + B.Name() + " per iteration"
		}
		if !isElemB(s.elem) {
			return false, "the interleaving loop appends a different element than it compares"
		}
		cl, ok := g.LocOf(loop.Cond)
		if !ok {
			return false, "interleaving loop not in CFG"
		}
		for _, a := range aSites {
			al, ok := g.LocOf(a.node)
			if !ok || !g.Dominates(cl, al) || c12within(loop, a.node) {
				return false, "the element of " + A.Name() + " is appended before the smaller elements of " + B.Name() + " were flushed"
			}
		}
	}
	// every consumption of B / idx in the function happens in such loops or the drain
	badWrite := ""
	ast.Inspect(f.Decl.Body, func(x ast.Node) bool {
		st, ok := x.(ast.Stmt)
		if !ok {
			return true
		}
		writes := false
		switch s := st.(type) {
		case *ast.AssignStmt:
			for _, l := range s.Lhs {
				o := c12obj(info, l)
				if (form == "head" && o == B) || (form == "index" && o == idx && info.Defs[c12id(l)] == nil) {
					writes = true
				}
			}
		case *ast.IncDecStmt:
			if form == "index" && c12obj(info, s.X) == idx {
				writes = true
			}
		}
		if writes && !isConsume(st) {
			badWrite = nodeStr(st)
		}
		return true
	})
	if badWrite != "" {
		return false, "the merge cursor of " + B.Name() + " is also changed by `" + badWrite + "`"
	}
	if form == "index" {
		if def := singleDefLoose(f, idx); def != "0" && def != "" {
			return false, "the merge index does not start at 0"
		}
	}
	// remainder of B after the traversal of A
	if len(outer) == 0 {
		return false, "the elements of " + B.Name() + " above the last element of " + A.Name() + " are never appended"
	}
	rl, _ := g.LocOf(ra.X)
	for _, s := range outer {
		sl, ok := g.LocOf(s.node)
		if !ok || !g.Dominates(rl, sl) || s.node.Pos() < ra.End() {
			return false, "elements of " + B.Name() + " are also appended before the traversal of " + A.Name()
		}
		switch form {
		case "head":
			if s.form != "range" && s.form != "spread" && s.form != "head" {
				return false, "the remainder of " + B.Name() + " is not appended as a whole"
			}
		default:
			if !((s.form == "range-index" || s.form == "spread-index" || s.form == "index") && s.idx == idx) {
				return false, "the remainder of " + B.Name() + " is appended from the start, not from the merge index: already merged elements are appended again"
			}
		}
		if s.form == "head" || s.form == "index" {
			loop, ok := c12enclosing[*ast.ForStmt](f.Decl.Body, s.node)
			if !ok || loop.Cond == nil || !isBound(loop.Cond) {
				return false, "the remainder loop of " + B.Name() + " is not bounded by its length"
			}
			consumed := 0
			for _, st := range loop.Body.List {
				if isConsume(st) {
					consumed++
				}
			}
			if loop.Post != nil && isConsume(loop.Post) {
				consumed++
			}
			if consumed != 1 {
				return false, "the remainder loop of " + B.Name() + " does not consume one element per iteration"
			}
		}
	}
	return true, ""
}

// singleDefLoose returns the text of the initial value of a local ("" for var x T).
func singleDefLoose(f *Func, obj types.Object) string {
	out := "?"
	ast.Inspect(f.Decl.Body, func(x ast.Node) bool {
		switch s := x.(type) {
		case *ast.AssignStmt:
			if s.Tok == token.DEFINE && len(s.Lhs) == len(s.Rhs) {
				for i, l := range s.Lhs {
					if id, ok := l.(*ast.Ident); ok && f.Info().Defs[id] == obj {
						out = nosp(exprStr(s.Rhs[i]))
					}
				}
			}
		case *ast.ValueSpec:
			for i, n := range s.Names {
				if f.Info().Defs[n] == obj {
					if i < len(s.Values) {
						out = nosp(exprStr(s.Values[i]))
					} else {
						out = ""
					}
				}
			}
		}
		return true
	})
	return out
}

// checkEntrySite: the literal-emitting traversal skips duplicate offsets and
// undecided (status 0) entries.
func (e *c12env) checkEntrySite(f *Func, s *c12site, typeF *types.Var, srcSorted bool) {
	c, m := e.c, e.m
	rule := "ack-order"
	info := f.Info()
	g := f.Graph()
	sl, _ := g.LocOf(s.node)
	v := c12obj(info, s.rng.Value)
	// dedupe
	var lastVar types.Object
	deduped := false
	ast.Inspect(s.rng.Body, func(x ast.Node) bool {
		ifs, ok := x.(*ast.IfStmt)
		if !ok || len(ifs.Body.List) != 1 || ifs.Else != nil {
			return true
		}
		br, ok := ifs.Body.List[0].(*ast.BranchStmt)
		if !ok || br.Tok != token.CONTINUE || br.Label != nil {
			return true
		}
		be, ok := unparen(ifs.Cond).(*ast.BinaryExpr)
		if !ok || be.Op != token.EQL {
			return true
		}
		l, r := be.X, be.Y
		if fl, b := c12selOn(info, l); !(fl != nil && sameField(fl, s.key) && b == v) {
			l, r = r, l
		}
		fl, b := c12selOn(info, l)
		w := c12obj(info, r)
		if fl == nil || !sameField(fl, s.key) || b != v || w == nil {
			return true
		}
		cl, ok := g.LocOf(ifs.Cond)
		if !ok || !g.Dominates(cl, sl) {
			return true
		}
		// w = v.key on the way to the append, w declared outside the loop
		if wv, ok := w.(*types.Var); !ok || c12within(s.rng, c12declNode(f, wv)) {
			return true
		}
		set := false
		ast.Inspect(s.rng.Body, func(y ast.Node) bool {
			as, ok := y.(*ast.AssignStmt)
			if !ok || len(as.Lhs) != 1 || len(as.Rhs) != 1 || c12obj(info, as.Lhs[0]) != w {
				return true
			}
			fr, br := c12selOn(info, as.Rhs[0])
			al, okL := g.LocOf(as)
			if fr != nil && sameField(fr, s.key) && br == v && okL && g.Dominates(al, sl) && g.Dominates(cl, al) {
				set = true
			}
			return true
		})
		if set {
			deduped, lastVar = true, w
		}
		return true
	})
	_ = lastVar
	c.Check(deduped && srcSorted, rule, f.Key+"#duplicate offsets skipped", s.node.Pos(), m, "an entry whose "+s.key.Name()+" equals the previously emitted one is skipped (adjacent in the sorted source)",
		"an offset that was acknowledged twice in one drain (renew, then a final outcome: both queue the same state) is emitted as two batches for the same offset: the batches overlap and the broker rejects the partition's acknowledgements")
	// undecided entries are not emitted
	var tExpr ast.Expr
	for _, el := range s.lit.Elts {
		if kv, ok := el.(*ast.KeyValueExpr); ok {
			if id, ok := kv.Key.(*ast.Ident); ok {
				if fv, _ := info.Uses[id].(*types.Var); sameField(fv, typeF) {
					tExpr = kv.Value
				}
			}
		}
	}
	tObj := c12obj(info, tExpr)
	okT := false
	if tObj != nil {
		dom, have := c12domainExcl(info, g.FactsAt(sl), tObj)
		okT = have && dom[0]
		// t is the live status of the traversed entry
		okLoad := false
		for _, rhs := range assignsTo(f, tObj) {
			inner := c12strip(info, rhs)
			if lc, ok := inner.(*ast.CallExpr); ok {
				if sel, ok := lc.Fun.(*ast.SelectorExpr); ok && sel.Sel.Name == "Load" {
					if ss, ok := unparen(sel.X).(*ast.SelectorExpr); ok && ss.Sel.Name == "status" && c12obj(info, ss.X) == v {
						okLoad = true
					}
				}
			}
		}
		okT = okT && okLoad
	}
	c.Check(okT, rule, f.Key+"#undecided entries skipped", s.node.Pos(), m, "ackType is the entry's loaded status and the append is guarded by status != 0",
		"an entry whose status is 0 (renew already confirmed and reset, or not decided) is sent with acknowledgement type 0 (gap), or the type is not the entry's own status: the broker records an outcome the application never gave")
}

func c12declNode(f *Func, v *types.Var) ast.Node {
	var out ast.Node
	ast.Inspect(f.Decl.Body, func(x ast.Node) bool {
		if id, ok := x.(*ast.Ident); ok && f.Info().Defs[id] == types.Object(v) {
			out = id
		}
		return out == nil
	})
	if out == nil {
		return f.Decl.Type
	}
	return out
}

// c12domainExcl returns the constants the variable is known NOT to equal.
func c12domainExcl(info *types.Info, facts []Fact, obj types.Object) (map[int64]bool, bool) {
	out := map[int64]bool{}
	for _, ft := range facts {
		if ft.Tag != nil {
			continue
		}
		b, ok := unparen(ft.Cond).(*ast.BinaryExpr)
		if !ok || (b.Op != token.EQL && b.Op != token.NEQ) {
			continue
		}
		l, r := b.X, b.Y
		if c12obj(info, l) != obj {
			l, r = r, l
		}
		if c12obj(info, l) != obj {
			continue
		}
		v, isC := constInt(info, unparen(r))
		if !isC {
			continue
		}
		if (b.Op == token.EQL) != ft.Val {
			out[v] = true
		}
	}
	return out, len(out) > 0
}

// checkCoalesce: coalesceAppendRange appends its argument or extends the last
// range when contiguous and of the same type.
func (e *c12env) checkCoalesce(f *Func, firstF, lastF, typeF *types.Var) {
	c, m := e.c, e.m
	rule := "ack-order"
	info := f.Info()
	g := f.Graph()
	cons := f.Key + "#append-or-extend"
	ps := f.Decl.Type.Params
	if ps == nil || ps.NumFields() != 2 {
		c.Undecided(rule, cons, f.Pos(), m, "unexpected signature")
		return
	}
	var pobjs []types.Object
	for _, fl := range ps.List {
		for _, n := range fl.Names {
			pobjs = append(pobjs, info.Defs[n])
		}
	}
	if len(pobjs) != 2 {
		c.Undecided(rule, cons, f.Pos(), m, "unnamed parameters")
		return
	}
	out, r := pobjs[0], pobjs[1]
	var probs []string
	for _, nd := range findNodes(f.Decl.Body, false, func(x ast.Node) bool { _, ok := x.(*ast.ReturnStmt); return ok }) {
		ret := nd.(*ast.ReturnStmt)
		if len(ret.Results) != 1 {
			probs = append(probs, "unexpected return")
			continue
		}
		x := unparen(ret.Results[0])
		if c12obj(info, x) == out {
			continue
		}
		if call, ok := x.(*ast.CallExpr); ok && exprStr(call.Fun) == "append" && len(call.Args) == 2 && !call.Ellipsis.IsValid() && c12obj(info, call.Args[0]) == out && c12obj(info, call.Args[1]) == r {
			continue
		}
		probs = append(probs, "returns `"+exprStr(x)+"`, neither the input list nor the input list with the new range appended at the end")
	}
	// stores
	nStore := 0
	ast.Inspect(f.Decl.Body, func(x ast.Node) bool {
		as, ok := x.(*ast.AssignStmt)
		if !ok {
			return true
		}
		for i, l := range as.Lhs {
			if id, ok := l.(*ast.Ident); ok && (info.Defs[id] != nil || id.Name == "_") {
				continue
			}
			if c12obj(info, l) != nil && c12obj(info, l) != out {
				if _, isVar := c12obj(info, l).(*types.Var); isVar && c12obj(info, l).Parent() != nil && c12obj(info, l) != r {
					continue // local scratch variable
				}
			}
			nStore++
			sel, ok := unparen(l).(*ast.SelectorExpr)
			if !ok || !sameField(fieldOfSel(info, sel), lastF) || len(as.Rhs) != len(as.Lhs) {
				probs = append(probs, "writes `"+exprStr(l)+"`")
				continue
			}
			rf, rb := c12selOn(info, as.Rhs[i])
			if rf == nil || !sameField(rf, lastF) || rb != r {
				probs = append(probs, "extends the last range to `"+exprStr(as.Rhs[i])+"` instead of the new range's lastOffset")
				continue
			}
			base := c12obj(info, sel.X)
			// base is &out[len(out)-1]
			okBase := false
			if base != nil {
				if def := singleDef(f, base); def != nil {
					d := nosp(exprStr(def))
					if d == "&"+out.Name()+"[n-1]" || d == "&"+out.Name()+"[len("+out.Name()+")-1]" {
						okBase = true
					}
				}
			}
			if !okBase {
				probs = append(probs, "the extended range is not the last element of the list")
			}
			sl, _ := g.LocOf(as)
			contig, sameType := false, false
			for _, ft := range g.FactsAt(sl) {
				be, ok := unparen(ft.Cond).(*ast.BinaryExpr)
				if !ok || be.Op != token.EQL || !ft.Val {
					continue
				}
				for _, pr := range [][2]ast.Expr{{be.X, be.Y}, {be.Y, be.X}} {
					// last.lastOffset+1 == r.firstOffset
					if add, ok := unparen(pr[0]).(*ast.BinaryExpr); ok && add.Op == token.ADD {
						lf, lb := c12selOn(info, add.X)
						one, isC := constInt(info, unparen(add.Y))
						rf2, rb2 := c12selOn(info, pr[1])
						if lf != nil && sameField(lf, lastF) && lb == base && isC && one == 1 && rf2 != nil && sameField(rf2, firstF) && rb2 == r {
							contig = true
						}
					}
					lf, lb := c12selOn(info, pr[0])
					rf2, rb2 := c12selOn(info, pr[1])
					if lf != nil && rf2 != nil && sameField(lf, typeF) && sameField(rf2, typeF) && lb == base && rb2 == r {
						sameType = true
					}
				}
			}
			if !contig {
				probs = append(probs, "the last range is extended without the guard last.lastOffset+1 == r.firstOffset: offsets between the two ranges, which were not acknowledged (or acknowledged differently), are covered by the merged batch")
			}
			if !sameType {
				probs = append(probs, "the last range is extended without the guard last.ackType == r.ackType: the new range is sent with the previous range's outcome")
			}
		}
		return true
	})
	c.Check(len(probs) == 0, rule, cons, f.Pos(), m, "returns out or append(out, r); extends only the last range, only when contiguous and of equal type", strings.Join(probs, "; "))
}

// ---------------------------------------------------------------- builders of AcknowledgementBatches

func (e *c12env) ruleBuilders() {
	c, m := e.c, e.m
	rule := "ack-builders"
	build := m.Object("kgo", "buildAckRanges")
	firstF := m.Field("kgo", "shareAckRange", "firstOffset")
	lastF := m.Field("kgo", "shareAckRange", "lastOffset")
	typeF := m.Field("kgo", "shareAckRange", "ackType")
	ackTypes := m.Object("kgo", "ackTypes")
	if build == nil || firstF == nil || lastF == nil || typeF == nil || ackTypes == nil {
		c.Undecided("anchor", "kgo.buildAckRanges / ackTypes", token.NoPos, m, "not found")
		return
	}
	isABField := func(info *types.Info, x ast.Expr) bool {
		fv := fieldOfSel(info, x)
		return fv != nil && fv.Name() == "AcknowledgementBatches" && fv.Pkg() != nil && strings.HasSuffix(fv.Pkg().Path(), "/kmsg")
	}
	usedBuild := map[*ast.CallExpr]bool{}
	n := 0
	for _, f := range e.funcs {
		info := f.Info()
		ast.Inspect(f.Decl.Body, func(x ast.Node) bool {
			switch s := x.(type) {
			case *ast.KeyValueExpr:
				if id, ok := s.Key.(*ast.Ident); ok && id.Name == "AcknowledgementBatches" {
					if fv, _ := info.Uses[id].(*types.Var); fv != nil && fv.IsField() && fv.Pkg() != nil && strings.HasSuffix(fv.Pkg().Path(), "/kmsg") {
						n++
						c.Fail(rule, e.cons(f.Key+"#AcknowledgementBatches literal"), s.Pos(), m, "acknowledgement batches are set by a literal, not copied from buildAckRanges: their order and disjointness are not established")
					}
				}
			case *ast.AssignStmt:
				for i, l := range s.Lhs {
					if !isABField(info, l) {
						continue
					}
					n++
					c.Touch(f)
					cons := e.cons(f.Key + "#AcknowledgementBatches")
					why := ""
					var bcall *ast.CallExpr
					func() {
						if len(s.Rhs) != len(s.Lhs) {
							why = "multi-value assignment"
							return
						}
						call, ok := unparen(s.Rhs[i]).(*ast.CallExpr)
						if !ok || exprStr(call.Fun) != "append" || len(call.Args) != 2 || call.Ellipsis.IsValid() || nosp(exprStr(call.Args[0])) != nosp(exprStr(l)) {
							why = "the batches are not extended by appending one batch at the end"
							return
						}
						lit, ok := unparen(call.Args[1]).(*ast.CompositeLit)
						if !ok {
							why = "appended batch is not a literal"
							return
						}
						var rv types.Object
						got := map[string]bool{}
						for _, el := range lit.Elts {
							kv, ok := el.(*ast.KeyValueExpr)
							if !ok {
								why = "positional batch literal"
								return
							}
							key := exprStr(kv.Key)
							var wantF *types.Var
							val := kv.Value
							switch key {
							case "FirstOffset":
								wantF = firstF
							case "LastOffset":
								wantF = lastF
							case "AcknowledgeTypes":
								wantF = typeF
								ac, ok := unparen(val).(*ast.CallExpr)
								if !ok || !isCallTo(info, ac, ackTypes) || len(ac.Args) != 1 {
									why = "AcknowledgeTypes is not ackTypes(r.ackType)"
									return
								}
								val = ac.Args[0]
							default:
								continue
							}
							fv, base := c12selOn(info, val)
							if fv == nil || !sameField(fv, wantF) || base == nil || (rv != nil && base != rv) {
								why = key + " is `" + exprStr(kv.Value) + "`, not the range's " + wantF.Name()
								return
							}
							rv = base
							got[key] = true
						}
						if !got["FirstOffset"] || !got["LastOffset"] || !got["AcknowledgeTypes"] {
							why = "batch literal does not set FirstOffset, LastOffset and AcknowledgeTypes from the range"
							return
						}
						rs := c12rangeOfValue(f.Decl.Body, info, rv)
						if rs == nil || !c12within(rs.Body, s) || rs.Key != nil && exprStr(rs.Key) != "_" {
							why = "the batch is not built from the value variable of a range statement"
							return
						}
						if inner, ok := c12enclosing[*ast.RangeStmt](rs.Body, s); ok && inner != rs {
							why = "the batch append is nested in another loop inside the traversal of the ranges"
							return
						}
						ro := c12obj(info, rs.X)
						if ro == nil {
							why = "the traversed list is not a local variable"
							return
						}
						// single definition from buildAckRanges, result 0
						defs := 0
						ast.Inspect(f.Decl.Body, func(y ast.Node) bool {
							as, ok := y.(*ast.AssignStmt)
							if !ok {
								return true
							}
							for j, ll := range as.Lhs {
								if c12obj(info, ll) != ro {
									continue
								}
								defs++
								if j == 0 && len(as.Rhs) == 1 {
									if bc, ok := unparen(as.Rhs[0]).(*ast.CallExpr); ok && isCallTo(info, bc, build) {
										bcall = bc
										continue
									}
								}
								defs += 10
							}
							return true
						})
						if defs != 1 || bcall == nil {
							why = "the traversed list `" + ro.Name() + "` is not (only) the first result of one buildAckRanges call"
							return
						}
						// other uses: len() and the traversal only
						pm := parentMap(f.Decl.Body)
						ast.Inspect(f.Decl.Body, func(y ast.Node) bool {
							id, ok := y.(*ast.Ident)
							if !ok || info.Uses[id] != ro {
								return true
							}
							switch p := pm[id].(type) {
							case *ast.RangeStmt:
								if p == rs && p.X == ast.Expr(id) {
									return true
								}
								why = "the ranges are traversed more than once"
							case *ast.CallExpr:
								if exprStr(p.Fun) == "len" {
									return true
								}
								why = "the ranges are passed to `" + exprStr(p.Fun) + "` between buildAckRanges and the copy"
							default:
								why = "the ranges are used in `" + nodeStr(pm[id]) + "` between buildAckRanges and the copy"
							}
							return true
						})
						if why != "" {
							return
						}
						// one traversal per buildAckRanges call: same innermost enclosing loop
						l1, ok1 := c12enclosingLoop(f.Decl.Body, bcall)
						l2, ok2 := c12enclosingLoop(f.Decl.Body, rs)
						if ok1 != ok2 || l1 != l2 {
							why = "the ranges of one buildAckRanges call are copied in a different loop nesting (possibly several times)"
							return
						}
						// the partition struct is per iteration
						if tb := c12obj(info, unparen(l).(*ast.SelectorExpr).X); tb != nil && ok1 {
							if !c12within(l1, c12declNode(f, tb.(*types.Var))) {
								why = "the partition the batches are appended to is not local to the per-cursor iteration"
								return
							}
						}
					}()
					if bcall != nil {
						usedBuild[bcall] = true
					}
					c.Check(why == "", rule, cons, s.Pos(), m, "copies, in order, FirstOffset/LastOffset/ackTypes of every range returned by one buildAckRanges call",
						why+": the acknowledgement batches on the wire are no longer the ascending, non-overlapping list established by buildAckRanges")
				}
			}
			return true
		})
	}
	c.Floor(rule, n, 3)
	// every buildAckRanges call feeds a builder
	k := 0
	for _, site := range CallSites(e.funcs, build) {
		k++
		call := site.Node.(*ast.CallExpr)
		c.Check(usedBuild[call], rule, e.cons(site.Fn.Key+"#buildAckRanges result is sent"), call.Pos(), m, "", "the ranges built here are not copied into a request by a recognised builder")
	}
	c.Floor(rule+"/build-calls", k, 3)
}

func c12enclosingLoop(body ast.Node, n ast.Node) (ast.Node, bool) {
	var best ast.Node
	ast.Inspect(body, func(x ast.Node) bool {
		if x == nil || x == n {
			return x != nil
		}
		switch x.(type) {
		case *ast.RangeStmt, *ast.ForStmt:
			if c12within(x, n) {
				best = x
			}
		}
		return true
	})
	return best, best != nil
}
