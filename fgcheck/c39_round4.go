package main

import (
	"fmt"
	"go/ast"
	"go/token"
	"go/types"
	"strings"
)

// Round-4 rules of C39.
//
//	internal-flag-propagated        topicPartitionsData.isInternal (read by the regex guard of
//	                                findNewAssignments) is copied from the metadata response on
//	                                every merge: kmsg IsInternal -> metadataTopic.isInternal ->
//	                                newPartitions -> mergeTopicPartitions (unguarded store).
//	pinned-map-store-keeps-entries  a whole-map store directConsumer.ps[t] = M keeps the entries
//	                                already pinned: M is a fresh map only under the fact
//	                                `ps[t] == nil` (or at construction); AddConsumePartitions
//	                                stores every requested (partition, offset) element-wise;
//	                                entries are deleted only by RemoveConsumePartitions / purge.
func c39round4(c *Ctx, m *Module) {
	c39internalFlag(c, m)
	c39pinnedMap(c, m)
}

func c39internalFlag(c *Ctx, m *Module) {
	rule := "internal-flag-propagated"
	tpd := fieldMust(c, m, "topicPartitionsData", "isInternal")
	mtF := fieldMust(c, m, "metadataTopic", "isInternal")
	if tpd == nil || mtF == nil {
		return
	}
	funcs := m.FuncsIn("kgo")
	// metadataTopic.isInternal <- response IsInternal
	n := 0
	for _, ss := range StoreSites(funcs, mtF) {
		n++
		c.Touch(ss.Fn)
		ok := false
		if ss.RHS != nil {
			if v := fieldOfSel(ss.Fn.Info(), ss.RHS); v != nil && v.Name() == "IsInternal" {
				ok = true
			}
		}
		c.Check(ok, rule, fmt.Sprintf("%s: metadataTopic.isInternal#%d", ss.Fn.Key, n), ss.Node.Pos(), m, "from the Metadata response's IsInternal",
			"metadataTopic.isInternal is not taken from the Metadata response's IsInternal: internal topics are not recognised and a regex consumer consumes them")
	}
	c.Floor(rule+"#metadataTopic-writers", n, 1)
	// topicPartitionsData.isInternal writers
	nW, mergeOK, newOK := 0, false, false
	var mergePos token.Pos
	for _, ss := range StoreSites(funcs, tpd) {
		nW++
		info := ss.Fn.Info()
		src := (*types.Var)(nil)
		if ss.RHS != nil {
			src = fieldOfSel(info, ss.RHS)
		}
		switch ss.Fn.Key {
		case "kgo.metadataTopic.newPartitions":
			if sameField(src, mtF) {
				newOK = true
			}
		case "kgo.Client.mergeTopicPartitions":
			mergePos = ss.Node.Pos()
			g := ss.Fn.GraphFor(ss.Node)
			l, ok := g.LocOf(ss.Node)
			if ok && innermostLit(ss.Fn, ss.Node) == nil && g.Reachable(l) && len(g.FactsAt(l)) == 0 && ss.Kind == "assign" && (sameField(src, tpd) || sameField(src, mtF)) {
				mergeOK = true
			}
		}
	}
	c.Floor(rule+"#topicPartitionsData-writers", nW, 2)
	if f := c.NeedFunc(m, "kgo.metadataTopic.newPartitions"); f != nil {
		c.Check(newOK, rule, f.Key+"#copies-flag", f.Pos(), m, "isInternal: mt.isInternal", "newPartitions does not copy metadataTopic.isInternal into the new topicPartitionsData")
	}
	if f := c.NeedFunc(m, "kgo.Client.mergeTopicPartitions"); f != nil {
		if mergePos == token.NoPos {
			mergePos = f.Pos()
		}
		c.Check(mergeOK, rule, f.Key+"#merge-copies-flag", mergePos, m, "lv.isInternal = r.isInternal, unguarded",
			"mergeTopicPartitions does not unconditionally copy isInternal from the freshly loaded topic data into the stored topic data: this is the only writer of the stored flag, so it stays false, the guard `d.cfg.regex && partitions.isInternal` of findNewAssignments never fires and a regex consumer consumes internal topics (__consumer_offsets, __transaction_state) it did not select explicitly")
	}
	// the reader the flag is for
	if f := c.NeedFunc(m, "kgo.directConsumer.findNewAssignments"); f != nil {
		c.Check(len(readsOf(f.Decl.Body, f.Info(), tpd, false)) > 0, rule, f.Key+"#reads-flag", f.Pos(), m, "", "findNewAssignments no longer consults topicPartitionsData.isInternal")
	}
}

func c39pinnedMap(c *Ctx, m *Module) {
	rule := "pinned-map-store-keeps-entries"
	ps := fieldMust(c, m, "directConsumer", "ps")
	if ps == nil {
		return
	}
	isPsIndex := func(info *types.Info, e ast.Expr) (*ast.IndexExpr, bool) { // d.ps[t]
		ix, ok := unparen(e).(*ast.IndexExpr)
		if !ok || !sameField(fieldOfSel(info, ix.X), ps) {
			return nil, false
		}
		return ix, true
	}
	deleters := map[string]bool{"kgo.Client.RemoveConsumePartitions": true, "kgo.consumer.purgeTopics": true}
	nStore := 0
	for _, f := range m.FuncsIn("kgo") {
		info := f.Info()
		idx := 0
		ast.Inspect(f.Decl.Body, func(x ast.Node) bool {
			switch s := x.(type) {
			case *ast.AssignStmt:
				if len(s.Lhs) != len(s.Rhs) {
					return true
				}
				for i, l := range s.Lhs {
					ix, ok := isPsIndex(info, l)
					if !ok {
						continue
					}
					nStore++
					idx++
					c.Touch(f)
					name := fmt.Sprintf("%s: %s = ...#%d", f.Key, nosp(exprStr(l)), idx)
					if f.Key == "kgo.consumer.initDirect" {
						c.OK(rule, name, s.Pos(), m, "construction: ps is empty")
						continue
					}
					g := f.GraphFor(s)
					loc, _ := g.LocOf(s)
					fresh := false
					if call, ok := unparen(s.Rhs[i]).(*ast.CallExpr); ok {
						if id, ok := call.Fun.(*ast.Ident); ok && id.Name == "make" {
							fresh = true
						}
					}
					// fact: ps[t] == nil (same index expression text)
					underNil := factMatches(g.FactsAt(loc), func(ft Fact) bool {
						be, ok := unparen(ft.Cond).(*ast.BinaryExpr)
						if !ok || be.Op != token.EQL || !ft.Val {
							return false
						}
						for _, pr := range [][2]ast.Expr{{be.X, be.Y}, {be.Y, be.X}} {
							if jx, ok := isPsIndex(info, pr[0]); ok && nosp(exprStr(jx.Index)) == nosp(exprStr(ix.Index)) {
								if id, ok := unparen(pr[1]).(*ast.Ident); ok && id.Name == "nil" {
									return true
								}
							}
						}
						return false
					})
					c.Check(fresh && underNil, rule, name, s.Pos(), m, "fresh map only when the topic has no pinned map yet",
						"the pinned-offset map of a topic is replaced as a whole by `"+exprStr(s.Rhs[i])+"`"+map[bool]string{true: "", false: " outside the `ps[t] == nil` test"}[underNil]+
							": partitions pinned earlier for the same topic (and not yet assigned) are dropped from ps but stay in the selection m, so they are selected yet never consumed")
				}
			case *ast.CallExpr:
				if id, ok := s.Fun.(*ast.Ident); ok && id.Name == "delete" && len(s.Args) == 2 {
					_, inner := isPsIndex(info, s.Args[0])
					if sameField(fieldOfSel(info, s.Args[0]), ps) || inner {
						c.Check(deleters[f.Key], rule, f.Key+": "+nosp(exprStr(s))+" only on removal / purge", s.Pos(), m, "", "pinned offsets are deleted outside RemoveConsumePartitions / purgeTopics: a selected partition loses its offset and is never assigned")
					}
				}
			}
			return true
		})
	}
	c.Floor(rule, nStore, 2)
	// AddConsumePartitions stores every requested element next to the selection update
	if f := c.NeedFunc(m, "kgo.Client.AddConsumePartitions"); f != nil {
		info := f.Info()
		g := f.Graph()
		found := false
		var why []string
		ast.Inspect(f.Decl.Body, func(x ast.Node) bool {
			as, ok := x.(*ast.AssignStmt)
			if !ok || len(as.Lhs) != 1 || len(as.Rhs) != 1 {
				return true
			}
			ox, ok := unparen(as.Lhs[0]).(*ast.IndexExpr)
			if !ok {
				return true
			}
			if _, ok := isPsIndex(info, ox.X); !ok {
				return true
			}
			loops := c39enclosingRanges(f.Decl.Body, as)
			if len(loops) != 2 {
				why = append(why, "element store is not inside the topic / partition loops")
				return true
			}
			lo, _ := g.LocOf(loops[0].X)
			la, _ := g.LocOf(as)
			if ex := c39extraFacts(g, la, lo); len(ex) > 0 {
				why = append(why, "element store only when "+c39factStr(ex[0]))
				return true
			}
			vid, _ := loops[1].Value.(*ast.Ident)
			kid, _ := loops[1].Key.(*ast.Ident)
			rid, _ := unparen(as.Rhs[0]).(*ast.Ident)
			pid, _ := unparen(ox.Index).(*ast.Ident)
			if vid == nil || kid == nil || rid == nil || pid == nil || info.Uses[rid] != info.Defs[vid] || info.Uses[pid] != info.Defs[kid] {
				why = append(why, "element store does not store the loop's (partition, offset)")
				return true
			}
			found = true
			return true
		})
		c.Check(found, rule, f.Key+"#stores-each-requested-offset", f.Pos(), m, "ps[t][p] = o for every requested partition",
			"AddConsumePartitions does not merge every requested (partition, offset) into the existing pinned map element by element"+strings.Join(append([]string{""}, why...), "; "))
	}
}
