package main

import (
	"fmt"
	"go/ast"
	"go/token"
	"go/types"
	"sort"
	"strings"
)

func init() {
	register(&Prop{
		ID:        "C29",
		Level:     "other",
		Technique: "linear normal form of the sequence arithmetic (client wrap function and kfake modulus), who-may-write table for the client sequence fields, dominance rules on kfake's duplicate / out-of-order decisions",
		Explanation: "(1) kgo.incrementSequence is put in affine piecewise normal form: the guard must be equivalent to s+n > MaxInt32, the wrapping arm must equal s+n-2^31 and the other arm s+n; " +
			"(2) every write to recBuf.seq / recBuf.batch0Seq / recBatch-level sequence goes through incrementSequence, a copy of the sibling field, or the constant 0 (no raw + on sequence fields); " +
			"(3) in kfake's pidwindow.pushAndValidate every `%` applied to firstSeq+numRecs has the constant divisor 2^31 and the sum is computed in 64 bits; both computations of the next sequence are the same expression; a mismatch with nextSeq returns ok=false before any state is stored, a duplicate returns the stored offset; " +
			"(4) in handleProduce !seqOk maps to OUT_OF_ORDER_SEQUENCE_NUMBER, pushBatch is reached only when errCode==0 && !dup, and the duplicate arm answers with the offset returned by pushAndValidate; " +
			"(5) sequence values are compared only for equality: no sequence field of the client (recBuf.seq, batch0Seq, seqRecBatch.seq) or of kfake's window (pidwindow.nextSeq, pidEntry.firstSeq/nextSeq), nor a local copied from one, is an operand of < <= > >= (the later sequence is numerically smaller across the wrap), and kfake never compares them with a constant (0 is the legitimate next sequence after a batch ending on the wrap, not an empty marker); " +
			"(6) kfake saves every producer window on shutdown unconditionally and restores every field and entry.",
		NotDecided: "run-time behaviour of the window beyond these shapes (eviction after 5 batches), and epoch handling.",
		Run:        runC29,
	})
}

// linForm: linear form sum(coef*term) + k of an integer expression.
type linForm struct {
	coef map[string]int64
	k    int64
}

func (l linForm) String() string {
	var ks []string
	for t, c := range l.coef {
		if c != 0 {
			ks = append(ks, fmt.Sprintf("%+d*%s", c, t))
		}
	}
	sort.Strings(ks)
	return strings.Join(ks, " ") + fmt.Sprintf(" %+d", l.k)
}

func (l linForm) equal(o linForm) bool {
	if l.k != o.k {
		return false
	}
	for t, c := range l.coef {
		if o.coef[t] != c {
			return false
		}
	}
	for t, c := range o.coef {
		if l.coef[t] != c {
			return false
		}
	}
	return true
}

func linearize(info *types.Info, e ast.Expr) (linForm, bool) {
	e = unparen(e)
	if v, ok := constInt(info, e); ok {
		return linForm{map[string]int64{}, v}, true
	}
	switch x := e.(type) {
	case *ast.Ident:
		return linForm{map[string]int64{x.Name: 1}, 0}, true
	case *ast.SelectorExpr:
		return linForm{map[string]int64{exprStr(x): 1}, 0}, true
	case *ast.CallExpr:
		if len(x.Args) == 1 {
			if tv, ok := info.Types[x.Fun]; ok && tv.IsType() {
				return linearize(info, x.Args[0])
			}
		}
	case *ast.UnaryExpr:
		if x.Op == token.SUB {
			a, ok := linearize(info, x.X)
			if !ok {
				return linForm{}, false
			}
			r := linForm{map[string]int64{}, -a.k}
			for t, c := range a.coef {
				r.coef[t] = -c
			}
			return r, true
		}
	case *ast.BinaryExpr:
		if x.Op == token.ADD || x.Op == token.SUB {
			a, ok1 := linearize(info, x.X)
			b, ok2 := linearize(info, x.Y)
			if !ok1 || !ok2 {
				return linForm{}, false
			}
			sign := int64(1)
			if x.Op == token.SUB {
				sign = -1
			}
			r := linForm{map[string]int64{}, a.k + sign*b.k}
			for t, c := range a.coef {
				r.coef[t] += c
			}
			for t, c := range b.coef {
				r.coef[t] += sign * c
			}
			return r, true
		}
	}
	return linForm{}, false
}

func runC29(c *Ctx) {
	m := c.Load("")
	if m != nil {
		c29client(c, m)
		c29seqComparisons(c, m, "kgo", [][2]string{{"recBuf", "seq"}, {"recBuf", "batch0Seq"}, {"seqRecBatch", "seq"}}, false)
	}
	k := c.Load("pkg/kfake")
	if k != nil {
		c29kfake(c, k)
		c29seqComparisons(c, k, "kfake", [][2]string{{"pidwindow", "nextSeq"}, {"pidEntry", "firstSeq"}, {"pidEntry", "nextSeq"}}, true)
		c29saveAll(c, k)
	}
}

func c29client(c *Ctx, m *Module) {
	f := c.NeedFunc(m, "kgo.incrementSequence")
	if f == nil {
		return
	}
	info := f.Info()
	rule := "client-wrap-normal-form"
	ps := f.Decl.Type.Params.List
	var names []string
	for _, p := range ps {
		for _, n := range p.Names {
			names = append(names, n.Name)
		}
	}
	if len(names) != 2 {
		c.Undecided(rule, f.Key, f.Pos(), m, "unexpected signature")
		return
	}
	s, n := names[0], names[1]
	const C = int64(1<<31 - 1)
	sum := linForm{map[string]int64{s: 1, n: 1}, 0}
	body := f.Decl.Body.List
	var ifs *ast.IfStmt
	var tail *ast.ReturnStmt
	if len(body) == 2 {
		ifs, _ = body[0].(*ast.IfStmt)
		tail, _ = body[1].(*ast.ReturnStmt)
	}
	if ifs == nil || tail == nil || ifs.Else != nil || len(ifs.Body.List) != 1 || len(tail.Results) != 1 {
		c.Undecided(rule, f.Key, f.Pos(), m, "function is not `if guard { return wrapped }; return plain`")
		return
	}
	wr, _ := ifs.Body.List[0].(*ast.ReturnStmt)
	if wr == nil || len(wr.Results) != 1 {
		c.Undecided(rule, f.Key, f.Pos(), m, "wrapping arm is not a single return")
		return
	}
	// guard: A > B  <=>  A - B - 1 >= 0 ; must equal s + n - C - 1 >= 0
	cond, ok := unparen(ifs.Cond).(*ast.BinaryExpr)
	guardOK := false
	guardStr := exprStr(ifs.Cond)
	if ok {
		a, ok1 := linearize(info, cond.X)
		b, ok2 := linearize(info, cond.Y)
		if ok1 && ok2 {
			diff := linForm{map[string]int64{}, a.k - b.k}
			for t, cf := range a.coef {
				diff.coef[t] += cf
			}
			for t, cf := range b.coef {
				diff.coef[t] -= cf
			}
			want := linForm{map[string]int64{s: 1, n: 1}, -C}
			switch cond.Op {
			case token.GTR: // a-b > 0  <=> s+n-C > 0
				guardOK = diff.equal(want)
			case token.GEQ: // a-b >= 0 <=> s+n-C-1 >= 0
				want.k = -C - 1
				guardOK = diff.equal(want)
			case token.LSS: // a < b <=> b-a > 0
				neg := linForm{map[string]int64{}, -diff.k}
				for t, cf := range diff.coef {
					neg.coef[t] = -cf
				}
				guardOK = neg.equal(want)
			}
		}
	}
	c.Check(guardOK, rule, f.Key+"#guard", ifs.Pos(), m, "guard <=> s+n > MaxInt32", "guard `"+guardStr+"` is not equivalent to sequence+increment > MaxInt32")
	// the guard must not itself overflow int32: it may only combine the constant with one variable per side
	wl, ok := linearize(info, wr.Results[0])
	wantW := linForm{map[string]int64{s: 1, n: 1}, -(C + 1)}
	c.Check(ok && wl.equal(wantW), rule, f.Key+"#wrap-arm", wr.Pos(), m, "s+n-2^31", "wrapping arm is "+exprStr(wr.Results[0])+" = "+wl.String()+", want s+n-2^31")
	pl, ok := linearize(info, tail.Results[0])
	c.Check(ok && pl.equal(sum), rule, f.Key+"#plain-arm", tail.Pos(), m, "s+n", "plain arm is "+exprStr(tail.Results[0])+", want s+n")

	// (2) writers of sequence fields
	rule2 := "client-seq-writers"
	funcs := m.FuncsIn("kgo")
	cnt := 0
	for _, fld := range [][2]string{{"recBuf", "seq"}, {"recBuf", "batch0Seq"}} {
		v := m.Field("kgo", fld[0], fld[1])
		if v == nil {
			c.Undecided("anchor", "kgo."+fld[0]+"."+fld[1], 0, m, "field not found")
			continue
		}
		for _, st := range StoreSites(funcs, v) {
			cnt++
			cons := st.Fn.Key + ": " + nodeStr(st.Node)
			c.Touch(st.Fn)
			ok := false
			why := ""
			switch st.Kind {
			case "assign":
				rhs := unparen(st.RHS)
				if call, isCall := rhs.(*ast.CallExpr); isCall && exprStr(call.Fun) == "incrementSequence" {
					ok = true
				} else if v, isC := constInt(st.Fn.Info(), rhs); isC && v == 0 {
					ok = true
				} else if fv := fieldOfSel(st.Fn.Info(), rhs); fv != nil && (fv.Name() == "seq" || fv.Name() == "batch0Seq") {
					ok = true
				} else {
					why = "stored value `" + exprStr(rhs) + "` is not incrementSequence(...), 0, or a copy of the sibling sequence field"
				}
			case "complit":
				if v, isC := constInt(st.Fn.Info(), st.RHS); isC && v == 0 {
					ok = true
				} else {
					why = "literal initialises the sequence with " + exprStr(st.RHS)
				}
			default:
				why = "raw arithmetic (" + st.Kind + ") on a sequence field bypasses the 2^31 wrap"
			}
			c.Check(ok, rule2, cons, st.Node.Pos(), m, "", why)
		}
	}
	c.Floor(rule2, cnt, 4)
	// every call of incrementSequence passes int32 record counts (no truncating conversion of a wider value other than len())
	n2 := 0
	for _, site := range CallSites(funcs, f.Obj) {
		n2++
		c.Touch(site.Fn)
	}
	c.Floor("incrementSequence-callers", n2, 2)
}

// c29windowRestore: kfake's duplicate window (the last five batches per producer
// and partition, including one whose sequence range wraps: nextSeq < firstSeq)
// is restored entry by entry after a restart; dropping an entry on load makes a
// retried duplicate of that batch fail with OUT_OF_ORDER_SEQUENCE_NUMBER.
func c29windowRestore(c *Ctx, m *Module) {
	rule := "kfake-window-restored-entrywise"
	f := c.NeedFunc(m, "kfake.Cluster.loadSeqWindows")
	if f == nil {
		return
	}
	info := f.Info()
	n := 0
	ast.Inspect(f.Decl.Body, func(x ast.Node) bool {
		rs, ok := x.(*ast.RangeStmt)
		if !ok || !strings.HasSuffix(nosp(exprStr(rs.X)), ".Entries") {
			return true
		}
		n++
		// no conditional or early continuation inside the loop
		cond := containsNode(rs.Body, false, func(y ast.Node) bool {
			switch y.(type) {
			case *ast.IfStmt, *ast.BranchStmt, *ast.SwitchStmt, *ast.ReturnStmt:
				return true
			}
			return false
		})
		var lit *ast.CompositeLit
		okStore := false
		for _, st := range rs.Body.List {
			as, isAs := st.(*ast.AssignStmt)
			if !isAs || len(as.Lhs) != 1 {
				continue
			}
			ix, isIx := as.Lhs[0].(*ast.IndexExpr)
			if !isIx || !strings.HasSuffix(nosp(exprStr(ix.X)), ".entries") || exprStr(ix.Index) != exprStr(rs.Key) {
				continue
			}
			lit, _ = as.Rhs[0].(*ast.CompositeLit)
			okStore = lit != nil
		}
		fields := map[string]string{}
		if lit != nil {
			for _, e := range lit.Elts {
				if kv, ok := e.(*ast.KeyValueExpr); ok {
					fields[exprStr(kv.Key)] = nosp(exprStr(kv.Value))
				}
			}
		}
		v := exprStr(rs.Value)
		okMap := fields["firstSeq"] == v+".FirstSeq" && fields["nextSeq"] == v+".NextSeq" && fields["offset"] == v+".Offset"
		c.Check(!cond && okStore && okMap, rule, f.Key+": every saved window entry is restored", rs.Pos(), m, "entries[i] = {FirstSeq, NextSeq, Offset} for every i, unconditionally", "a saved duplicate-window entry can be skipped or altered on load (e.g. an entry whose sequence range wraps, nextSeq < firstSeq): after a restart the retried duplicate of that batch is rejected as out of order instead of being answered with its original offset")
		return true
	})
	c.Floor(rule+"/entry-loops", n, 1)
	body := nows(stripComments(printNode(m.Fset, f.Decl.Body)))
	for _, frag := range []string{"pw.count=w.Count", "pw.at=w.At", "pw.epoch=w.Epoch", "pw.seen=w.Seen", "pw.nextSeq=w.NextSeq"} {
		c.Check(strings.Contains(body, frag), rule, f.Key+": "+frag, f.Pos(), m, "", "window field not restored: "+frag)
	}
	_ = info
	// and saved entry by entry
	if sf := c.NeedFunc(m, "kfake.Cluster.saveSeqWindows"); sf != nil {
		sb := nows(stripComments(printNode(m.Fset, sf.Decl.Body)))
		for _, frag := range []string{"FirstSeq:e.firstSeq", "NextSeq:e.nextSeq", "Offset:e.offset"} {
			c.Check(strings.Contains(sb, frag), rule, sf.Key+": "+frag, sf.Pos(), m, "", "window entry field not saved: "+frag)
		}
	}
}

func c29kfake(c *Ctx, m *Module) {
	c29windowRestore(c, m)
	f := c.NeedFunc(m, "kfake.pidwindow.pushAndValidate")
	if f == nil {
		return
	}
	info := f.Info()
	rule := "kfake-seq-modulus"
	var mods []*ast.BinaryExpr
	ast.Inspect(f.Decl.Body, func(x ast.Node) bool {
		if b, ok := x.(*ast.BinaryExpr); ok && b.Op == token.REM {
			if mentionsName(b.X, "firstSeq", false) || mentionsName(b.X, "numRecs", false) {
				mods = append(mods, b)
			}
		}
		return true
	})
	var forms []string
	for i, b := range mods {
		cons := fmt.Sprintf("%s#mod%d", f.Key, i)
		d, ok := constInt(info, b.Y)
		c.Check(ok && d == 1<<31, rule, cons, b.Pos(), m, "modulus 2^31",
			fmt.Sprintf("next sequence is computed modulo %s (= %d), Kafka wraps modulo 2^31 = %d: after a batch ending at MaxInt32-1 the next expected sequence becomes 0 instead of MaxInt32", exprStr(b.Y), d, int64(1)<<31))
		// the sum is formed in 64 bits: both operands converted to int64
		l, ok := linearize(info, b.X)
		want := linForm{map[string]int64{"firstSeq": 1, "numRecs": 1}, 0}
		wide := true
		if add, okb := unparen(b.X).(*ast.BinaryExpr); okb {
			for _, side := range []ast.Expr{add.X, add.Y} {
				t := info.Types[side].Type
				if bt, isB := t.Underlying().(*types.Basic); !isB || bt.Kind() != types.Int64 {
					wide = false
				}
			}
		} else {
			wide = false
		}
		c.Check(ok && l.equal(want) && wide, "kfake-seq-sum", cons, b.Pos(), m, "int64(firstSeq)+int64(numRecs)", "dividend is `"+exprStr(b.X)+"`: must be firstSeq+numRecs computed in 64 bits")
		forms = append(forms, alphaStr(f, b))
	}
	c.Floor(rule, len(mods), 2)
	for i := 1; i < len(forms); i++ {
		c.Check(forms[i] == forms[0], "kfake-seq-siblings-agree", fmt.Sprintf("%s#mod%d", f.Key, i), mods[i].Pos(), m, "", "the two next-sequence computations differ: "+forms[0]+" vs "+forms[i])
	}
	// mismatch returns false before nextSeq is stored
	g := f.Graph()
	nextSeq := m.Field("kfake", "pidwindow", "nextSeq")
	if nextSeq == nil {
		c.Undecided("anchor", "kfake.pidwindow.nextSeq", 0, m, "field not found")
		return
	}
	stores := storesTo(f.Decl.Body, info, nextSeq, false)
	nOK := 0
	for i, st := range stores {
		l, _ := g.LocOf(st.Node)
		facts := g.FactsAt(l)
		// either on the reset path (!s.seen || epoch != s.epoch) or after `firstSeq != s.nextSeq` is false
		reset := factMatches(facts, func(ft Fact) bool {
			return ft.Val && (strings.Contains(exprStr(ft.Cond), "epoch != ") || strings.Contains(exprStr(ft.Cond), ".seen"))
		}) || c29underResetIf(f, st.Node)
		seqChecked := factMatches(facts, func(ft Fact) bool {
			b, ok := ft.Cond.(*ast.BinaryExpr)
			if !ok {
				return false
			}
			return ((b.Op == token.NEQ && !ft.Val) || (b.Op == token.EQL && ft.Val)) && mentionsName(b, "firstSeq", false) && mentionsField(b, info, nextSeq, false)
		})
		cons := fmt.Sprintf("%s#store-nextSeq%d", f.Key, i)
		if c.Check(reset || seqChecked, "kfake-seq-accept-only-expected", cons, st.Node.Pos(), m, "", "nextSeq is advanced on a path where firstSeq was not compared with the expected sequence") {
			nOK++
		}
		// stored value is `next`
		c.Check(exprStr(st.RHS) == "next", "kfake-seq-accept-only-expected", cons+"#value", st.Node.Pos(), m, "", "nextSeq is set to `"+exprStr(st.RHS)+"`, not the computed next sequence")
	}
	c.Floor("kfake-seq-accept-only-expected", len(stores), 2)
	// the mismatch arm returns ok == false
	found := false
	for _, n := range findNodes(f.Decl.Body, false, func(x ast.Node) bool { _, ok := x.(*ast.IfStmt); return ok }) {
		ifs := n.(*ast.IfStmt)
		b, ok := unparen(ifs.Cond).(*ast.BinaryExpr)
		if !ok || b.Op != token.NEQ || !mentionsName(b, "firstSeq", false) || !mentionsField(b, info, nextSeq, false) {
			continue
		}
		found = true
		good := false
		if len(ifs.Body.List) == 1 {
			if r, ok := ifs.Body.List[0].(*ast.ReturnStmt); ok && len(r.Results) == 3 {
				v, okc := constBool(info, r.Results[0])
				good = okc && !v
			}
		}
		c.Check(good, "kfake-seq-mismatch-rejected", f.Key+"#mismatch", ifs.Pos(), m, "returns ok=false", "a sequence mismatch does not return ok=false")
	}
	if !found {
		c.Fail("kfake-seq-mismatch-rejected", f.Key+"#mismatch", f.Pos(), m, "no `firstSeq != s.nextSeq` rejection found")
	}
	// duplicate: returns (true, true, e.offset) under firstSeq/nextSeq equality with the entry
	dupOK := false
	for _, n := range findNodes(f.Decl.Body, false, func(x ast.Node) bool { _, ok := x.(*ast.ReturnStmt); return ok }) {
		r := n.(*ast.ReturnStmt)
		if len(r.Results) != 3 {
			continue
		}
		if v, ok := constBool(info, r.Results[1]); ok && v {
			l, _ := g.LocOf(r)
			facts := g.FactsAt(l)
			m1 := factMatches(facts, func(ft Fact) bool {
				b, ok := ft.Cond.(*ast.BinaryExpr)
				return ok && ft.Val && b.Op == token.EQL && mentionsName(b, "firstSeq", false)
			})
			m2 := factMatches(facts, func(ft Fact) bool {
				b, ok := ft.Cond.(*ast.BinaryExpr)
				return ok && ft.Val && b.Op == token.EQL && mentionsName(b, "next", false)
			})
			okv, _ := constBool(info, r.Results[0])
			dupOK = m1 && m2 && okv && strings.HasSuffix(exprStr(r.Results[2]), ".offset")
			c.Check(dupOK, "kfake-dup-returns-stored-offset", f.Key+"#dup", r.Pos(), m, "", "duplicate arm must match both firstSeq and next of a stored entry and return its offset")
		}
	}
	if !dupOK {
		c.Check(false, "kfake-dup-returns-stored-offset", f.Key+"#dup-exists", f.Pos(), m, "", "no well-formed duplicate arm found")
	}

	// (4) handleProduce
	hp := c.NeedFunc(m, "kfake.Cluster.handleProduce")
	if hp == nil {
		return
	}
	pv := m.Method("kfake", "pidwindow", "pushAndValidate")
	pb := m.Method("kfake", "Cluster", "pushBatch")
	if pv == nil || pb == nil {
		c.Undecided("anchor", "pushAndValidate/pushBatch", 0, m, "methods not found")
		return
	}
	for _, call := range callsTo(hp.Decl.Body, hp.Info(), pv, true) {
		// the assignment's first result is tested: !seqOk => OutOfOrderSequenceNumber
		lit := innermostLit(hp, call)
		var body ast.Node = hp.Decl.Body
		if lit != nil {
			body = lit.Body
		}
		asg, _ := enclosingStmt(body, call).(*ast.AssignStmt)
		if asg == nil || len(asg.Lhs) != 3 {
			c.Undecided("kfake-ooosn-mapping", hp.Key+"#pushAndValidate", call.Pos(), m, "results are not assigned to three variables")
			continue
		}
		okName, dupName, offName := exprStr(asg.Lhs[0]), exprStr(asg.Lhs[1]), exprStr(asg.Lhs[2])
		mapped := false
		for _, n := range findNodes(body, false, func(x ast.Node) bool { _, ok := x.(*ast.IfStmt); return ok }) {
			ifs := n.(*ast.IfStmt)
			if nosp(exprStr(ifs.Cond)) == "!"+okName {
				for _, st := range ifs.Body.List {
					if as, ok := st.(*ast.AssignStmt); ok && len(as.Rhs) == 1 && exprStr(as.Lhs[0]) == "errCode" && exprStr(as.Rhs[0]) == "kerr.OutOfOrderSequenceNumber.Code" {
						mapped = true
					}
				}
			}
		}
		c.Check(mapped, "kfake-ooosn-mapping", hp.Key+"#!seqOk", call.Pos(), m, "!ok -> OUT_OF_ORDER_SEQUENCE_NUMBER", "a rejected sequence is not answered with OUT_OF_ORDER_SEQUENCE_NUMBER")
		// pushBatch calls that follow in the same idempotent arm must be guarded by errCode == 0 && !dup
		g := hp.GraphFor(call)
		cl, _ := g.LocOf(call)
		nGuarded := 0
		for _, pcall := range callsTo(body, hp.Info(), pb, false) {
			pl, ok := g.LocOf(pcall)
			if !ok || !g.reachFwd(cl, pl) {
				continue
			}
			facts := g.FactsAt(pl)
			notDup := factMatches(facts, func(ft Fact) bool { id, ok := ft.Cond.(*ast.Ident); return ok && id.Name == dupName && !ft.Val })
			noErr := factMatches(facts, func(ft Fact) bool {
				b, ok := ft.Cond.(*ast.BinaryExpr)
				return ok && ft.Val && b.Op == token.EQL && exprStr(b.X) == "errCode" && exprStr(b.Y) == "0"
			})
			c.Check(notDup && noErr, "kfake-dup-not-appended", hp.Key+"#pushBatch-after-validate", pcall.Pos(), m, "guarded by errCode == 0 && !dup", "pushBatch is reachable for a duplicate or rejected idempotent batch")
			nGuarded++
		}
		c.Floor("kfake-dup-not-appended", nGuarded, 1)
		// duplicate arm: BaseOffset = offName under dup
		dupAns := false
		for _, n := range findNodes(body, false, func(x ast.Node) bool { _, ok := x.(*ast.AssignStmt); return ok }) {
			as := n.(*ast.AssignStmt)
			if len(as.Lhs) == 1 && strings.HasSuffix(exprStr(as.Lhs[0]), ".BaseOffset") && exprStr(as.Rhs[0]) == offName {
				l, ok := g.LocOf(as)
				if !ok {
					continue
				}
				if factMatches(g.FactsAt(l), func(ft Fact) bool { id, ok := ft.Cond.(*ast.Ident); return ok && id.Name == dupName && ft.Val }) {
					dupAns = true
				}
			}
		}
		c.Check(dupAns, "kfake-dup-answered-with-original-offset", hp.Key+"#dup-arm", call.Pos(), m, "", "the duplicate arm does not answer with the offset returned by pushAndValidate")
		// no store to offName between the call and the dup arm other than on the !dup path
		for _, n := range findNodes(body, false, func(x ast.Node) bool { _, ok := x.(*ast.AssignStmt); return ok }) {
			as := n.(*ast.AssignStmt)
			if as == asg {
				continue
			}
			for _, l := range as.Lhs {
				if exprStr(l) == offName {
					loc, ok := g.LocOf(as)
					if !ok || !g.reachFwd(cl, loc) {
						continue
					}
					notDup := factMatches(g.FactsAt(loc), func(ft Fact) bool { id, ok := ft.Cond.(*ast.Ident); return ok && id.Name == dupName && !ft.Val })
					c.Check(notDup, "kfake-dup-answered-with-original-offset", hp.Key+": "+nodeStr(as), as.Pos(), m, "", "the offset variable is overwritten on a path that can be a duplicate")
				}
			}
		}
	}
}

// c29underResetIf: node lies inside the then-block of an `if !s.seen || epoch != s.epoch`.
func c29underResetIf(f *Func, n ast.Node) bool {
	found := false
	ast.Inspect(f.Decl.Body, func(x ast.Node) bool {
		ifs, ok := x.(*ast.IfStmt)
		if !ok {
			return true
		}
		s := exprStr(ifs.Cond)
		if strings.Contains(s, ".seen") && strings.Contains(s, "epoch") && ifs.Body.Pos() <= n.Pos() && n.End() <= ifs.Body.End() {
			found = true
		}
		return true
	})
	return found
}

// reachLoc: location b reachable from a (a before b in the same block, or block reachability).
func (g *Graph) reachLoc(a, b Loc) bool {
	if a.B == b.B && a.I < b.I {
		return true
	}
	return g.reachNoLoc(a.B, b.B, -1)
}

// reachFwd: b reachable from a without traversing a loop back-edge (an edge
// whose target dominates its source), i.e. within the same loop iteration.
func (g *Graph) reachFwd(a, b Loc) bool {
	if a.B == b.B {
		return a.I < b.I
	}
	seen := make([]bool, len(g.C.Blocks))
	stack := []int{a.B}
	seen[a.B] = true
	for len(stack) > 0 {
		u := stack[len(stack)-1]
		stack = stack[:len(stack)-1]
		for _, v := range g.succs[u] {
			if g.dom[u][v] { // back-edge
				continue
			}
			if v == b.B {
				return true
			}
			if !seen[v] {
				seen[v] = true
				stack = append(stack, v)
			}
		}
	}
	return false
}
