package main

import (
	"fmt"
	"go/ast"
	"go/token"
	"strings"

	"golang.org/x/tools/go/cfg"
)

// ---------------------------------------------------------------------------
// Confirmed tables for C13 (read and confirmed on the pinned tree).
// ---------------------------------------------------------------------------

// c13loopSpec describes the shutdown exit of one loop.
type c13loopSpec struct {
	// Kind:
	//  ctx      an exit guarded by <-ctx.Done() / ctx.Err() (type-resolved)
	//  ctx-arm  a select arm on a context sets the variable(s) that end the loop (Arm) and an exit has the Exits guards
	//  flag     the loop ends on a flag / counter: Exits or Cond witnesses
	//  cas      compare-and-swap retry, never parks
	//  compute  pure computation over finite input, never parks
	//  drain    non-blocking drain: leaves through the select's default arm
	//  counter  cond-variable wait for a counter to reach zero (checked by the counter rule)
	//  user     blocks by documented user protocol (BlockRebalanceOnPoll)
	Kind string
	// Exits: alternatives; each alternative is a set of guard atoms that one exit must carry.
	Exits [][]string
	// AllExits: atoms every exit of the loop must carry.
	AllExits []string
	// Cond: atoms that must be conjuncts of the loop condition.
	Cond []string
	// Arm: for ctx-arm, the variable assigned in every context arm of the loop's selects.
	Arm string
	// Parks: parking operations in the loop body that have no context arm/default and are accepted.
	Parks []string
	Why   string
}

var c13loopTable = map[string]c13loopSpec{
	"kgo.Client.failProducerID#for[]0":                                                    {Kind: "cas", Exits: [][]string{{"p.id.CompareAndSwap(current,new)"}}, Why: "CAS retry on the producer id, no parking"},
	"kgo.Client.partitionsForTopicProduce#for[]0":                                         {Kind: "compute", Exits: [][]string{{}}, Why: "re-resolves the topic after a purge; the last statement of the body returns unconditionally"},
	"kgo.Client.pushMetrics#for[!terminating]0":                                           {Kind: "ctx", Cond: []string{"!(terminating)"}, Why: "subscription loop: backs off on a select with cl.ctx / quitting arms"},
	"kgo.Client.pushMetrics#for[!terminating]1":                                           {Kind: "ctx-arm", Arm: "terminating", Cond: []string{"!(terminating)"}, Why: "push loop: the ctx/quitting arms set terminating; the loop condition ends it after the terminating push"},
	"kgo.Client.reapConnectionsLoop#for[]0":                                               {Kind: "ctx", Why: "reaper ticker loop"},
	"kgo.Client.updateMetadataLoop#for[]0":                                                {Kind: "ctx", Parks: []string{"sleep"}, Why: "metadata loop; the sleep is bounded by 10ms; the drain select has a default"},
	"kgo.Client.updateMetadataLoop#for[]1":                                                {Kind: "drain", Exits: [][]string{{"comm:default"}}, Why: "drains refires without blocking"},
	"kgo.Client.waitUnknownTopic#for[err==nil]0":                                          {Kind: "ctx-arm", Arm: "err", Cond: []string{"err==nil"}, Why: "every wake-up arm except a retryable wait result sets err; cl.ctx sets ErrClientClosed"},
	"kgo.RecordReader.readCondition#for[]0":                                               {Kind: "compute", Exits: [][]string{{"err!=nil"}}, Why: "user-side reader over an io.Reader"},
	"kgo.RecordReader.readDelim#for[]0":                                                   {Kind: "compute", Exits: [][]string{{"err!=nil"}}, Why: "user-side reader over an io.Reader"},
	"kgo.brokerCxn.discard#for[]0":                                                        {Kind: "ctx", Parks: []string{"recv:readDone"}, Why: "acks=0 discard reader; on cl.ctx the read deadline is set to now and the read goroutine is awaited"},
	"kgo.consumer.stopSession#for[session.workers>0]0":                                    {Kind: "counter", Parks: []string{"wait:session.workersCond"}, Why: "session workers leave on the session context which is cancelled before the wait"},
	"kgo.shareConsumer.leave#for[sc.workers>0]0":                                          {Kind: "counter", Parks: []string{"wait:sc.cond"}, Why: "share workers leave on fm.ctx which is cancelled before the wait"},
	"kgo.consumer.waitAndAddPoller#for[c.pollWaitState>>32!=0]0":                          {Kind: "user", Parks: []string{"wait:c.pollWaitC"}, Why: "BlockRebalanceOnPoll: a poll waits for the running rebalance; woken by unaddRebalance"},
	"kgo.consumer.waitAndAddRebalanceMaybeSignal#for[c.pollWaitState&math.MaxUint32!=0]0": {Kind: "user", Parks: []string{"wait:c.pollWaitC"}, Why: "BlockRebalanceOnPoll: a rebalance waits until the user allows it (documented: use CloseAllowingRebalance)"},
	"kgo.consumerSession.listOrEpoch#for[received!=issued]0":                              {Kind: "flag", Cond: []string{"received!=issued"}, Parks: []string{"recv:results"}, Why: "drains exactly one result per issued sub-request; the channel is buffered for all of them and each sub-goroutine sends exactly once (its requests die with the session context)"},
	"kgo.fetchManager.manageFetchConcurrency#for[]0": {Kind: "flag", AllExits: []string{"wantQuit", "activeFetches==0", "len(wantFetch)==0"}, Parks: []string{"send:wantFetch[0]"},
		Why: "the manager is the only receiver of desireFetchCh/cancelFetchCh/doneFetch; fetch loops send on them without an alternative, so it may only quit when the context is done AND nothing is active AND no source is registered (wantFetch[0] has capacity 1)"},
	"kgo.groupConsumer.commit#for[]0":                          {Kind: "flag", Exits: [][]string{{"staleRetries>10", "stale"}, {"commitCtx.Err()!=nil", "stale"}, {}}, Why: "stale-epoch retry: bounded by 10 tries, by the commit context, and ends unconditionally otherwise"},
	"kgo.groupConsumer.heartbeat#for[]0":                       {Kind: "ctx-arm", Arm: "err", Exits: [][]string{{"!(errors.Is(err,kerr.RebalanceInProgress))", "revoked==nil"}, {"didRevoke"}}, Why: "the g.ctx arm sets err = context.Canceled which takes the non-rebalance return or the revoke path"},
	"kgo.groupConsumer.loopCommit#for[]0":                      {Kind: "ctx", Why: "autocommit ticker loop"},
	"kgo.groupConsumer.manage#for[]0":                          {Kind: "flag", Exits: [][]string{{"ctxCanceled"}}, Why: "ctxCanceled is manageFailWait's result (checked separately: true on g.ctx)"},
	"kgo.groupConsumer.manage848#for[]0":                       {Kind: "ctx", Exits: [][]string{{"ctxCanceled"}}, Why: "848 manage loop"},
	"kgo.metricTime.observe#for[]0":                            {Kind: "cas", Exits: [][]string{{"t.max.CompareAndSwap(max,millis)"}, {"millis<max"}}, Why: "CAS max"},
	"kgo.ring.doPush#for[r.maxLen>0&&r.l>=r.maxLen&&!r.dead]0": {Kind: "flag", Cond: []string{"!(r.dead)"}, Parks: []string{"wait:r.cond"}, Why: "bounded ring push; ring.die broadcasts (C30)"},
	"kgo.roundRobinBalancer.Balance#for[]0":                    {Kind: "compute", Exits: [][]string{{"topic==next.topic"}}, Why: "balancer plan computation"},
	"kgo.shareAckState.tryAck#for[]0":                          {Kind: "cas", Exits: [][]string{{"st.status.CompareAndSwap(cur,int32(status))"}}, Why: "CAS"},
	"kgo.shareConsumer.drainCallbacks#for[]0":                  {Kind: "flag", Exits: [][]string{{"!(more)"}}, Why: "ring worker (C30): continues while more"},
	"kgo.shareConsumer.manage#for[]0":                          {Kind: "ctx", Why: "share heartbeat loop"},
	"kgo.sink.drain#for[again]0":                               {Kind: "ctx", Cond: []string{"again"}, Why: "latch worker (C30)"},
	"kgo.source.loopFetch#for[again]0": {Kind: "ctx", Cond: []string{"again"}, Parks: []string{"send:session.cancelFetchCh", "send:doneFetch"},
		Why: "latch worker (C30); cancelFetchCh is drained by manageFetchConcurrency until no source is registered; doneFetch is the manager's buffered channel"},
	"kgo.source.loopShareFetch#for[]0": {Kind: "ctx", Parks: []string{"send:sc.fm.cancelFetchCh", "send:doneFetch"}, Why: "share fetch loop"},
	"kgo.source.loopShareFetch#for[]1": {Kind: "ctx", Why: "share fetch loop: wait for the semaphore"},
	"kgo.source.loopShareFetch#for[]2": {Kind: "ctx", Why: "share fetch loop: register desire"},
	"kgo.source.loopShareFetch#for[]3": {Kind: "ctx", Parks: []string{"send:sc.fm.cancelFetchCh", "send:doneFetch"}, Why: "share fetch loop: wait for permission"},
}

// c13gotoSpec: a backward goto continues only under these guards.
type c13gotoSpec struct {
	Kind   string   // ring-worker | bounded | retry-ctx | once | compute | select-arm
	Guards []string // atoms the goto must be guarded by
	Why    string
}

var c13gotoTable = map[string]c13gotoSpec{
	"kgo.Client.brokerOrErr#goto[start]0":                      {"bounded", []string{"tries<2"}, "one reload of broker metadata"},
	"kgo.Client.doWithConcurrentTransactions#goto[start]0":     {"retry-ctx", []string{"errors.Is(err,kerr.ConcurrentTransactions)"}, "backs off on a select with ctx and cl.ctx arms that return"},
	"kgo.Client.fetchMetadata#goto[start]0":                    {"once", []string{"!(rebootstrapped)"}, "at most one rebootstrap"},
	"kgo.Client.handleShardedReq#goto[start]0":                 {"retry-ctx", []string{"pinnedOld||!noRetries&&notTimedOut&&(shouldRetry||shouldRetryNext)&&cl.waitTries(ctx,backoff)"}, "waitTries returns false once cl.ctx or ctx is done"},
	"kgo.Client.pushMetrics#goto[doreq]0":                      {"once", []string{"errors.Is(err,errUnknownBroker)", "!(br==nil)"}, "br is set to nil before the jump so the next round takes the other arm"},
	"kgo.Client.updateMetadataLoop#goto[prewait]0":             {"select-arm", []string{"comm:<-cl.blockingMetadataFnCh"}, "re-enters a select that has a cl.ctx arm"},
	"kgo.Client.updateMetadataLoop#goto[quickbackoff]0":        {"select-arm", []string{"comm:<-cl.blockingMetadataFnCh"}, "re-enters a select that has a cl.ctx arm"},
	"kgo.Client.updateMetadataLoop#goto[start]0":               {"bounded", []string{"nowTries<8"}, "bounded immediate retries"},
	"kgo.Client.updateMetadataLoop#goto[backoff]0":             {"select-arm", []string{"comm:<-cl.blockingMetadataFnCh"}, "re-enters a select that has a cl.ctx arm"},
	"kgo.FetchesRecordIter.prepareNext#goto[beforeFetch0]0":    {"compute", []string{"i.ti>=len(fetch0.Topics)"}, "iterator"},
	"kgo.FetchesRecordIter.prepareNext#goto[beforeTopic]0":     {"compute", []string{"i.pi>=len(topic.Partitions)"}, "iterator"},
	"kgo.FetchesRecordIter.prepareNext#goto[beforePartition]0": {"compute", []string{"i.ri>=len(partition.Records)"}, "iterator"},
	"kgo.GroupTransactSession.End#goto[retry]0":                {"bounded", []string{"tries<10"}, "bounded EndTxn retries"},
	"kgo.GroupTransactSession.End#goto[retry]1":                {"bounded", []string{"tries<10"}, "bounded EndTxn retries"},
	"kgo.GroupTransactSession.End#goto[retry]2":                {"bounded", []string{"tries<10"}, "bounded EndTxn retries"},
	"kgo.broker.handleReq#goto[start]0":                        {"once", []string{"!(retriedOnNewConnection)"}, "one retry on a fresh connection"},
	"kgo.broker.handleReq#goto[start]1":                        {"once", []string{"!(retriedOnNewConnection)"}, "one retry on a fresh connection"},
	"kgo.broker.handleReq#goto[start]2":                        {"once", []string{"!(retriedOnNewConnection)"}, "one retry on a fresh connection"},
	"kgo.broker.handleReqs#goto[start]0":                       {"ring-worker", []string{"more"}, "C30: continues while the request ring has more; reqs.die() rejects pushes"},
	"kgo.broker.loadConnection#goto[doConnect]0":               {"bounded", []string{"tries<3"}, "ApiVersions downgrade retries"},
	"kgo.brokerCxn.handleResps#goto[start]0":                   {"ring-worker", []string{"more"}, "C30: continues while the response ring has more"},
	"kgo.brokerCxn.requestAPIVersions#goto[start]0":            {"once", []string{"len(resp.ApiKeys)==0", "rawResp[1]==35"}, "version downgrade (maxVersion strictly decreases)"},
	"kgo.brokerCxn.requestAPIVersions#goto[start]1":            {"once", []string{"v<maxVersion"}, "version downgrade (maxVersion strictly decreases)"},
	"kgo.brokerCxn.sasl#goto[start]0":                          {"once", []string{"!(retried)"}, "one mechanism retry"},
	"kgo.groupConsumer.fetchOffsets#goto[start]0":              {"retry-ctx", []string{"errors.Is(err,kerr.StaleMemberEpoch)"}, "waits for a heartbeat on selects with a ctx arm that returns"},
	"kgo.groupConsumer.fetchOffsets#goto[start]1":              {"retry-ctx", []string{"comm:<-time.After(time.Second)", "retryable"}, "the other arm of the select is ctx.Done and returns"},
	"kgo.groupConsumer.fetchOffsets#goto[start]2":              {"bounded", []string{"omittedRetries<3"}, "bounded"},
	"kgo.groupConsumer.joinAndSync#goto[start]0":               {"retry-ctx", []string{"restart"}, "each round issues a JoinGroup on g.cl.ctx and selects on it"},
	"kgo.groupConsumer.joinAndSync#goto[start]1":               {"retry-ctx", []string{"errors.Is(err,kerr.RebalanceInProgress)"}, "each round issues a JoinGroup on g.cl.ctx and selects on it"},
	"kgo.jsonReader.read#goto[start]0":                         {"compute", []string{"r.state==jrstArr"}, "parser"},
	"kgo.jsonReader.read#goto[start]1":                         {"compute", []string{"r.popStateToStart()"}, "parser"},
	"kgo.jsonReader.read#goto[start]2":                         {"compute", []string{"r.popStateToStart()"}, "parser"},
	"kgo.jsonReader.read#goto[start]3":                         {"compute", []string{"r.popStateToStart()"}, "parser"},
	"kgo.producer.finishPromises#goto[start]0":                 {"ring-worker", []string{"more"}, "C30"},
	"kgo.retryable.Request#goto[start]0":                       {"retry-ctx", []string{"r.cl.waitTries(ctx,backoff)", "r.cl.shouldRetry(tries,err)||r.cl.shouldRetry(tries,retryErr)"}, "waitTries returns false once cl.ctx or ctx is done"},
	"kgo.retryable.Request#goto[start]1":                       {"retry-ctx", []string{"r.cl.waitTries(ctx,backoff)", "r.cl.shouldRetryNext(tries,err)"}, "waitTries returns false once cl.ctx or ctx is done"},
	"kgo.sink.handleSeqResps#goto[start]0":                     {"ring-worker", []string{"more"}, "C30"},
}

// c13goSpec classifies one go statement.
type c13goSpec struct {
	// Class: loop | worker | waiter | bounded | request | callback
	Class string
	// Parks: accepted parking operations of the body that have no context arm / default.
	Parks []string
	Why   string
}

var c13goTable = map[string]c13goSpec{
	"kgo.Broker.request: go func#0":                                                 {"request", nil, "one request on a context cancelled by the caller (which also selects on cl.ctx)"},
	"kgo.Client.EnsureProduceConnectionIsOpen: go func#0":                           {"request", nil, "resolves one broker; awaited by wg.Wait"},
	"kgo.Client.Flush: go func#0":                                                   {"waiter", []string{"wait:p.c"}, "released by the select (waiter-release)"},
	"kgo.Client.FlushAcks: go func#0":                                               {"waiter", []string{"wait:sc.ackC"}, "released by the select (waiter-release)"},
	"kgo.Client.LeaveGroupContext: go func#0":                                       {"bounded", nil, "invalidates the assignment and leaves; close waits on g.left"},
	"kgo.Client.LeaveGroupContext: go kgo.shareConsumer.leave#0":                    {"bounded", []string{"wait:sc.cond", "wait:wg"}, "share leave: workers exit on the cancelled fm.ctx (counter rule); close waits on s.left"},
	"kgo.Client.PollRecords: go func#0":                                             {"waiter", []string{"wait:c.sourcesReadyCond"}, "released by the select (waiter-release)"},
	"kgo.Client.ProducerID: go func#0":                                              {"request", nil, "loads the producer id with the caller's context"},
	"kgo.Client.PurgeTopicsFromClient: go func#0":                                   {"bounded", nil, "purges producer topics; awaited by wg.Wait"},
	"kgo.Client.PurgeTopicsFromClient: go func#1":                                   {"bounded", nil, "purges consumer topics; awaited by wg.Wait"},
	"kgo.Client.addUnknownTopicRecord: go kgo.Client.waitUnknownTopic#0":            {"loop", nil, "waits on a select with a cl.ctx arm"},
	"kgo.Client.close: go func#0":                                                   {"request", nil, "killSessionOnClose with a one second context; awaited by wg.Wait"},
	"kgo.Client.dowaitmeta: go func#0":                                              {"waiter", []string{"wait:cl.metawait.c"}, "released by the select (waiter-release)"},
	"kgo.Client.fetchBrokerMetadata: go func#0":                                     {"request", nil, "one metadata request on cl.ctx"},
	"kgo.Client.handleShardedReq: go func#0":                                        {"request", nil, "one shard; the retry goto needs waitTries (goto table)"},
	"kgo.Client.listOffsetsForBrokerLoad: go func#0":                                {"request", nil, "second list request; awaited by wg.Wait"},
	"kgo.Client.loadCoordinators: go func#0":                                        {"request", []string{"send:mch"}, "mch has capacity 1"},
	"kgo.Client.produce: go func#0":                                                 {"waiter", []string{"wait:p.c"}, "released by drainBuffered (waiter-release)"},
	"kgo.Client.produce: go func#1":                                                 {"bounded", nil, "sets quit under p.mu and broadcasts"},
	"kgo.Client.shardedRequest: go func#0":                                          {"bounded", nil, "cancel watchdog: select on done / ctx / cl.ctx"},
	"kgo.Client.updateMetadata: go kgo.Client.PurgeTopicsFromClient#0":              {"bounded", nil, "runs through blockingMetadataFn which selects on cl.ctx"},
	"kgo.FirstErrPromise.promise: go func#0":                                        {"bounded", nil, "AbortBufferedRecords"},
	"kgo.GroupTransactSession.End: go func#0":                                       {"bounded", []string{"sleep"}, "500ms sleep then unlock"},
	"kgo.NewClient: go kgo.Client.pushMetrics#0":                                    {"loop", nil, "metrics loop"},
	"kgo.NewClient: go kgo.Client.reapConnectionsLoop#0":                            {"loop", nil, "reaper loop"},
	"kgo.NewClient: go kgo.Client.updateMetadataLoop#0":                             {"loop", []string{"sleep"}, "metadata loop; close waits on metadone"},
	"kgo.assignRevokeSession.assign: go func#0":                                     {"callback", []string{"recv:s.prerevokeDone"}, "prerevokeDone is closed by the prerevoke goroutine's defer"},
	"kgo.assignRevokeSession.prerevoke: go func#0":                                  {"callback", nil, "best-effort force heartbeat (select with default)"},
	"kgo.assignRevokeSession.revoke: go func#0":                                     {"callback", []string{"recv:s.assignDone"}, "assignDone is closed by the assign goroutine's defer"},
	"kgo.broker.do: go kgo.broker.handleReqs#0":                                     {"worker", nil, "C30 ring worker"},
	"kgo.broker.loadConnection: go kgo.brokerCxn.die#0":                             {"bounded", nil, "die is idempotent and non-blocking apart from hooks"},
	"kgo.brokerCxn.init: go kgo.brokerCxn.discard#0":                                {"loop", []string{"recv:readDone"}, "acks=0 discard reader of one produce connection (loop table: kgo.brokerCxn.discard#for[]0 exits on cl.ctx / connection death)"},
	"kgo.brokerCxn.discard: go func#0":                                              {"bounded", nil, "one read; the read deadline is set to now on cl.ctx"},
	"kgo.brokerCxn.readConn: go func#0":                                             {"bounded", nil, "one read; the read deadline is set to now on cl.ctx / ctx"},
	"kgo.brokerCxn.waitResp: go kgo.brokerCxn.handleResps#0":                        {"worker", nil, "C30 ring worker"},
	"kgo.brokerCxn.writeConn: go func#0":                                            {"bounded", nil, "one write; the write deadline is set to now on cl.ctx / ctx"},
	"kgo.consumer.doOnMetadataUpdate: go func#0":                                    {"worker", nil, "C30 latch worker (outstandingMetadataUpdates)"},
	"kgo.consumer.doOnMetadataUpdate: go kgo.consumerSession.doOnMetadataUpdate#0":  {"bounded", nil, "non-blocking notify"},
	"kgo.consumer.stopSession: go func#0":                                           {"callback", nil, "runs the deferred unbuffered hooks"},
	"kgo.consumer.waitAndAddRebalanceMaybeSignal: go var:c.cl.cfg.onBlocked#0":      {"callback", nil, "user callback"},
	"kgo.consumerSession.listOrEpoch: go func#0":                                    {"bounded", nil, "one second timer or session ctx"},
	"kgo.consumerSession.listOrEpoch: go kgo.Client.listOffsetsForBrokerLoad#0":     {"request", []string{"wait:wg", "send:results", "send:results"}, "results is buffered for two sends per broker"},
	"kgo.consumerSession.listOrEpoch: go kgo.Client.loadEpochsForBrokerLoad#0":      {"request", []string{"send:results", "send:results"}, "results is buffered for two sends per broker"},
	"kgo.fetchManager.desireFetch: go kgo.fetchManager.manageFetchConcurrency#0":    {"loop", []string{"send:wantFetch[0]"}, "fetch concurrency manager"},
	"kgo.groupConsumer.commit: go func#0":                                           {"request", []string{"recv:priorDone"}, "waits for the prior commit whose goroutine closes priorDone in a defer"},
	"kgo.groupConsumer.commit: go var:onDone#0":                                     {"callback", nil, "user callback"},
	"kgo.groupConsumer.commitTxn: go func#0":                                        {"request", []string{"recv:priorDone"}, "waits for the prior commit whose goroutine closes priorDone in a defer"},
	"kgo.groupConsumer.fetchOffsets: go func#0":                                     {"request", nil, "one OffsetFetch"},
	"kgo.groupConsumer.findNewAssignments: go kgo.groupConsumer.manage#0":           {"loop", nil, "group manage loop"},
	"kgo.groupConsumer.findNewAssignments: go kgo.groupConsumer.manage848#0":        {"loop", nil, "848 manage loop"},
	"kgo.groupConsumer.joinAndSync: go func#0":                                      {"request", nil, "JoinGroup on g.cl.ctx"},
	"kgo.groupConsumer.joinAndSync: go func#1":                                      {"request", nil, "SyncGroup on g.cl.ctx"},
	"kgo.groupConsumer.leave: go func#0":                                            {"bounded", []string{"recv:g.manageDone"}, "manageDone is closed by manage's defer; manage exits on the group context cancelled just before"},
	"kgo.groupConsumer.manage848: go kgo.groupConsumer.loopCommit#0":                {"loop", nil, "autocommit loop"},
	"kgo.groupConsumer.manage848: go kgo.groupConsumer.manage#0":                    {"loop", nil, "fallback to the classic manage loop"},
	"kgo.groupConsumer.manage: go kgo.groupConsumer.loopCommit#0":                   {"loop", nil, "autocommit loop"},
	"kgo.groupConsumer.setupAssignedAndHeartbeat: go func#0":                        {"loop", []string{"send:hbErrCh"}, "heartbeat loop; hbErrCh has capacity 1"},
	"kgo.groupConsumer.setupAssignedAndHeartbeat: go func#1":                        {"request", []string{"send:fetchErrCh"}, "fetchErrCh has capacity 1"},
	"kgo.groupConsumer.waitJoinSyncMu: go func#0":                                   {"bounded", nil, "takes the read lock; released through maybeRUnlock on either side"},
	"kgo.kip951move.maybeBeginMove: go kgo.Client.blockingMetadataFn#0":             {"bounded", []string{"wait:wg"}, "the select has a cl.ctx arm; wg.Wait only after the metadata loop accepted the function"},
	"kgo.listOrEpochLoads.loadWithSession: go kgo.consumerSession.listOrEpoch#0":    {"request", []string{"recv:results"}, "session worker (counter rule)"},
	"kgo.listOrEpochLoads.loadWithSessionNow: go kgo.consumerSession.listOrEpoch#0": {"request", []string{"recv:results"}, "session worker (counter rule)"},
	"kgo.produceMetrics.hook: go func#0":                                            {"callback", nil, "user hooks"},
	"kgo.producer.promiseBatch: go kgo.producer.finishPromises#0":                   {"worker", nil, "C30 ring worker"},
	"kgo.producer.promiseRecordBeforeBuf: go kgo.producer.finishPromises#0":         {"worker", nil, "C30 ring worker"},
	"kgo.shareConsumer.applyMoves: go kgo.shareConsumer.applyMovesBlocking#0":       {"bounded", nil, "runs through blockingMetadataFn which selects on cl.ctx"},
	"kgo.shareConsumer.enqueueCallback: go kgo.shareConsumer.drainCallbacks#0":      {"worker", nil, "C30 ring worker"},
	"kgo.shareConsumer.leave: go func#0":                                            {"request", nil, "closeShareSession with the leave context; awaited by wg.Wait"},
	"kgo.shareConsumer.maybeStartManage: go kgo.shareConsumer.manage#0":             {"loop", nil, "share heartbeat loop"},
	"kgo.shareConsumer.poll: go func#0":                                             {"waiter", []string{"wait:sc.c.sourcesReadyCond"}, "released by the select (waiter-release)"},
	"kgo.sink.doSequenced: go kgo.sink.handleSeqResps#0":                            {"worker", []string{"recv:wait.done"}, "C30 ring worker; done is closed by the response promise which always runs (C03)"},
	"kgo.sink.handleReqRespBatch: go var:s.cl.cfg.onDataLoss#0":                     {"callback", nil, "user callback"},
	"kgo.sink.maybeDrain: go kgo.sink.drain#0":                                      {"worker", nil, "C30 latch worker"},
	"kgo.source.maybeConsume: go kgo.source.loopFetch#0":                            {"worker", []string{"send:session.cancelFetchCh", "send:doneFetch"}, "C30 latch worker"},
	"kgo.source.maybeShareConsume: go kgo.source.loopShareFetch#0":                  {"worker", []string{"send:sc.fm.cancelFetchCh", "send:doneFetch"}, "C30 latch worker"},
}

// ---------------------------------------------------------------------------
// runners
// ---------------------------------------------------------------------------

func c13hasAll(guards []string, want []string) bool {
	for _, w := range want {
		found := false
		for _, g := range guards {
			if g == w {
				found = true
			}
		}
		if !found {
			return false
		}
	}
	return true
}

// c13isQuitWaiter: `for !quit && ... { C.Wait() }` inside a function literal with quit captured.
func c13isQuitWaiter(lp *c13loop) bool {
	if len(lp.Parks) != 1 || !strings.HasPrefix(lp.Parks[0].Desc, "wait:") || lp.For.Cond == nil {
		return false
	}
	lit := innermostLit(lp.Fn, lp.For)
	if lit == nil {
		return false
	}
	info := lp.Fn.Info()
	for _, ft := range decompose(lp.For.Cond, true, nil) {
		id, ok := unparen(ft.Cond).(*ast.Ident)
		if !ok || ft.Val {
			continue
		}
		o := info.Uses[id]
		if o != nil && !(o.Pos() >= lit.Pos() && o.Pos() <= lit.End()) {
			return true
		}
	}
	return false
}

// c13parkAccepted: a park needs no table entry when it is a select with a
// context arm or a default arm.
func c13parkAccepted(p c13park) bool {
	return p.Desc == "select" && (p.CtxArm || p.Default)
}

// c13checkParks compares the non-trivial parks against the allow-list (multiset).
func c13checkParks(parks []c13park, allowed []string) (extra []c13park) {
	left := map[string]int{}
	for _, a := range allowed {
		left[a]++
	}
	for _, p := range parks {
		if c13parkAccepted(p) {
			continue
		}
		d := c13parkStr(p)
		if left[d] > 0 {
			left[d]--
			continue
		}
		// an allow-list entry accepts any number of identical parks
		known := false
		for _, a := range allowed {
			if a == d {
				known = true
			}
		}
		if !known {
			extra = append(extra, p)
		}
	}
	return extra
}

func c13loops(c *Ctx, m *Module) {
	rule := "loop-exit"
	nLoops, nGoto, nUnlisted := 0, 0, 0
	seen := map[string]bool{}
	for _, fn := range m.FuncsIn("kgo") {
		for _, lp := range c13loopsOf(fn) {
			if !lp.InScope() || c13isQuitWaiter(lp) {
				continue
			}
			c.Touch(fn)
			spec, ok := c13loopTable[lp.Key]
			if !ok {
				// a loop not confirmed by hand: accept only a context exit and context-armed parks
				nUnlisted++
				hasCtx := false
				for _, e := range lp.Exits {
					if e.Ctx && e.How != "cond" {
						hasCtx = true
					}
				}
				extra := c13checkParks(lp.Parks, nil)
				if hasCtx && len(extra) == 0 {
					c.OK(rule, lp.Key+" (unlisted, context exit)", lp.For.Pos(), m, "")
				} else if lp.For.Cond != nil && lp.Counted && len(lp.Parks) == 0 {
					c.OK(rule, lp.Key+" (unlisted, counted)", lp.For.Pos(), m, "")
				} else {
					c.Undecided(rule, lp.Key, lp.For.Pos(), m, "loop that can run or park indefinitely is not in the confirmed table and has no exit guarded by a context (or parks without a context arm): classify its shutdown exit")
				}
				continue
			}
			seen[lp.Key] = true
			nLoops++
			c13checkLoop(c, m, rule, lp, spec)
		}
		for _, gl := range c13gotoLoopsOf(fn) {
			c.Touch(fn)
			spec, ok := c13gotoTable[gl.Key]
			if !ok {
				c.Undecided(rule, gl.Key, gl.Goto.Pos(), m, "backward goto (retry loop) is not in the confirmed table: state what bounds it or which context ends it")
				continue
			}
			seen[gl.Key] = true
			nGoto++
			ok = c13hasAll(gl.Guards, spec.Guards)
			c.Check(ok, rule, gl.Key, gl.Goto.Pos(), m, spec.Kind+": "+spec.Why,
				fmt.Sprintf("the backward `goto %s` is no longer guarded by %v (guards now: %v): the %s retry loop can spin or retry forever, and Close/cancellation no longer ends it (%s)", gl.Label, spec.Guards, gl.Guards, spec.Kind, spec.Why))
			if spec.Kind == "select-arm" {
				// the label's select must have a context arm
				okSel := false
				for _, p := range gl.Parks {
					if p.Desc == "select" && p.CtxArm {
						okSel = true
					}
				}
				c.Check(okSel, rule, gl.Key+"#select has context arm", gl.Goto.Pos(), m, "", "the select re-entered by the goto has no context arm")
			}
			if spec.Kind == "retry-ctx" && len(gl.Parks) > 0 {
				// every blocking select in the retried region has a context arm
				for i, p := range gl.Parks {
					if p.Desc == "select" && !p.Default {
						c.Check(p.CtxArm, rule, fmt.Sprintf("%s#select%d has context arm", gl.Key, i), p.Node.Pos(), m, "", "a blocking select inside the retried region has no context arm: the retry loop cannot be interrupted by Close")
					}
				}
			}
		}
	}
	for k := range c13loopTable {
		if !seen[k] {
			c.Undecided(rule, k, 0, m, "loop of the confirmed table not found (renamed, condition rewritten or removed): re-confirm the table")
		}
	}
	for k := range c13gotoTable {
		if !seen[k] {
			c.Undecided(rule, k, 0, m, "goto loop of the confirmed table not found: re-confirm the table")
		}
	}
	c.Floor(rule+"#loops", nLoops, len(c13loopTable))
	c.Floor(rule+"#gotos", nGoto, len(c13gotoTable))
	c.Set("c13_unlisted_loops", nUnlisted)
	c13manageFailWait(c, m)
	c13waitTries(c, m)
	c13counters(c, m)
}

func c13checkLoop(c *Ctx, m *Module, rule string, lp *c13loop, spec c13loopSpec) {
	at := lp.For.Pos()
	fn := lp.Fn
	// condition witnesses
	if len(spec.Cond) > 0 {
		c.Check(c13hasAll(lp.CondAtoms, spec.Cond), rule, lp.Key+"#cond", at, m, "", fmt.Sprintf("the loop condition lost the conjunct(s) %v (now %v): %s", spec.Cond, lp.CondAtoms, spec.Why))
	}
	// exits
	var exitDesc []string
	for _, e := range lp.Exits {
		exitDesc = append(exitDesc, e.How+"["+strings.Join(e.Guards, ",")+"]")
	}
	switch spec.Kind {
	case "ctx":
		ok := false
		for _, e := range lp.Exits {
			if e.Ctx && e.How != "cond" {
				ok = true
			}
		}
		c.Check(ok, rule, lp.Key, at, m, "context exit: "+spec.Why, "the loop no longer has a return/break guarded by a receive from ctx.Done() or a ctx.Err() test (exits now: "+strings.Join(exitDesc, "; ")+"): the goroutine keeps running after Close ("+spec.Why+")")
	case "ctx-arm":
		// every select of the body that has a context arm assigns spec.Arm there
		n := 0
		for _, p := range lp.Parks {
			sel, isSel := p.Node.(*ast.SelectStmt)
			if !isSel {
				continue
			}
			for _, cl := range sel.Body.List {
				cc := cl.(*ast.CommClause)
				if !c13armIsCtx(fn, cc) {
					continue
				}
				n++
				sets := false
				for _, st := range cc.Body {
					if as, ok := st.(*ast.AssignStmt); ok {
						for _, l := range as.Lhs {
							if id, ok := l.(*ast.Ident); ok && id.Name == spec.Arm {
								sets = true
							}
						}
					}
				}
				c.Check(sets, rule, lp.Key+"#context arm sets "+spec.Arm, cc.Pos(), m, "", "the context arm of the loop's select no longer assigns `"+spec.Arm+"`: the cancellation is swallowed and the loop keeps running after Close")
			}
		}
		c.Check(n > 0, rule, lp.Key, at, m, "context arm: "+spec.Why, "the loop's select lost its context arm: "+spec.Why)
	case "user", "counter":
		c.OK(rule, lp.Key, at, m, spec.Kind+": "+spec.Why)
	default:
		if len(spec.Exits) == 0 && len(spec.AllExits) == 0 && len(spec.Cond) == 0 {
			c.Undecided(rule, lp.Key, at, m, "table entry without a witness")
		}
	}
	for i, alt := range spec.Exits {
		ok := false
		for _, e := range lp.Exits {
			if len(alt) == 0 {
				if len(e.Guards) == 0 && e.How != "cond" {
					ok = true
				}
			} else if c13hasAll(e.Guards, alt) {
				ok = true
			}
		}
		c.Check(ok, rule, fmt.Sprintf("%s#exit%d", lp.Key, i), at, m, spec.Kind+": "+spec.Why,
			fmt.Sprintf("the loop lost its exit guarded by %v (exits now: %s): %s", alt, strings.Join(exitDesc, "; "), spec.Why))
	}
	if len(spec.AllExits) > 0 {
		for i, e := range lp.Exits {
			c.Check(c13hasAll(e.Guards, spec.AllExits), rule, fmt.Sprintf("%s#every-exit%d", lp.Key, i), e.Node.Pos(), m, "exit carries "+strings.Join(spec.AllExits, " && "),
				fmt.Sprintf("an exit of the loop is guarded only by %v; it must carry %v: %s", e.Guards, spec.AllExits, spec.Why))
		}
		c.Check(len(lp.Exits) > 0, rule, lp.Key+"#has-exit", at, m, "", "the loop has no exit at all")
	}
	// parks
	for _, p := range c13checkParks(lp.Parks, spec.Parks) {
		c.Fail(rule, lp.Key+"#park "+c13parkStr(p), p.Node.Pos(), m, "parking operation without a context arm inside a long-lived loop is not in the loop's confirmed allow-list: the goroutine can stay parked after Close")
	}
}

// c13manageFailWait: the group manage loops leave on manageFailWait's result,
// which must be true on a cancelled group context.
func c13manageFailWait(c *Ctx, m *Module) {
	rule := "loop-exit"
	f := c.NeedFunc(m, "kgo.groupConsumer.manageFailWait")
	if f == nil {
		return
	}
	info := f.Info()
	// (a) errors.Is(err, context.Canceled) => return true ; (b) select arm <-g.ctx.Done() => return true
	okErr, okSel := false, false
	parents := parentMap(f.Decl.Body)
	for _, rn := range findNodes(f.Decl.Body, false, func(x ast.Node) bool { _, ok := x.(*ast.ReturnStmt); return ok }) {
		rs := rn.(*ast.ReturnStmt)
		if len(rs.Results) != 1 {
			continue
		}
		v, isC := constBool(info, rs.Results[0])
		if !isC || !v {
			continue
		}
		guards, ctx := c13guardsBetween(f, parents, rs, f.Decl.Body)
		if ctx {
			okSel = true
		}
		for _, g := range guards {
			if g == "errors.Is(err,context.Canceled)" {
				okErr = true
			}
		}
	}
	c.Check(okErr && okSel, rule, f.Key+"#true on cancelled context", f.Pos(), m, "", "manageFailWait no longer returns true for context.Canceled and on <-g.ctx.Done(): the group manage goroutine never exits after LeaveGroup/Close (close blocks on g.left)")
	for _, key := range []string{"kgo.groupConsumer.manage", "kgo.groupConsumer.manage848"} {
		mf := c.NeedFunc(m, key)
		if mf == nil {
			continue
		}
		ok := false
		ast.Inspect(mf.Decl.Body, func(x ast.Node) bool {
			as, isAs := x.(*ast.AssignStmt)
			if !isAs || len(as.Lhs) != 1 || len(as.Rhs) != 1 {
				return true
			}
			id, isId := as.Lhs[0].(*ast.Ident)
			call, isCall := unparen(as.Rhs[0]).(*ast.CallExpr)
			if isId && isCall && id.Name == "ctxCanceled" && c13callKey(mf.Info(), call) == f.Key {
				ok = true
			}
			return true
		})
		c.Check(ok, rule, key+"#ctxCanceled is manageFailWait's result", mf.Pos(), m, "", "ctxCanceled is not assigned from manageFailWait")
	}
}

// c13waitTries: the retry back-off returns false on a dead context.
func c13waitTries(c *Ctx, m *Module) {
	rule := "loop-exit"
	f := c.NeedFunc(m, "kgo.Client.waitTries")
	if f == nil {
		return
	}
	info := f.Info()
	parents := parentMap(f.Decl.Body)
	nFalse := 0
	ctxs := map[string]bool{}
	for _, rn := range findNodes(f.Decl.Body, false, func(x ast.Node) bool { _, ok := x.(*ast.ReturnStmt); return ok }) {
		rs := rn.(*ast.ReturnStmt)
		if len(rs.Results) != 1 {
			continue
		}
		v, isC := constBool(info, rs.Results[0])
		if !isC || v {
			continue
		}
		guards, ctx := c13guardsBetween(f, parents, rs, f.Decl.Body)
		if ctx {
			nFalse++
			for _, g := range guards {
				ctxs[g] = true
			}
		}
	}
	ok := ctxs["comm:<-cl.ctx.Done()"] && ctxs["comm:<-ctx.Done()"]
	c.Check(ok && nFalse >= 2, rule, f.Key+"#false on dead context", f.Pos(), m, "", "waitTries no longer returns false on <-cl.ctx.Done() and <-ctx.Done(): every request retry loop (retryable.Request, handleShardedReq) keeps retrying after Close")
}

// c13counters: cond-variable counters are woken at every decrease, and the
// wait loops run after the cancellation of what the counted workers run on.
func c13counters(c *Ctx, m *Module) {
	rule := "counter-wait"
	type ctr struct {
		typ, field, cond string
	}
	n := 0
	for _, ct := range []ctr{{"consumerSession", "workers", "workersCond"}, {"shareConsumer", "workers", "cond"}, {"consumer", "pollWaitState", "pollWaitC"}} {
		fv := fieldMust(c, m, ct.typ, ct.field)
		cv := fieldMust(c, m, ct.typ, ct.cond)
		if fv == nil || cv == nil {
			continue
		}
		for _, st := range StoreSites(m.FuncsIn("kgo"), fv) {
			dec := st.Kind == "dec" || st.Kind == "opassign:-=" || st.Kind == "opassign:&="
			if !dec {
				continue
			}
			n++
			c.Touch(st.Fn)
			info := st.Fn.Info()
			g := st.Fn.GraphFor(st.Node)
			l, _ := g.LocOf(st.Node)
			isBroadcast := func(nd ast.Node) bool {
				return containsNode(nd, false, func(y ast.Node) bool {
					call, ok := y.(*ast.CallExpr)
					if !ok {
						return false
					}
					sel, ok := unparen(call.Fun).(*ast.SelectorExpr)
					return ok && sel.Sel.Name == "Broadcast" && sameField(fieldOfSel(info, sel.X), cv)
				})
			}
			_, lost := g.FindPath(l, SearchOpts{
				Stop:     isBroadcast,
				GoalExit: func(k ExitKind, last ast.Node) bool { return k != ExitPanic },
				EdgeOK: func(from *cfg.Block, k int, to *cfg.Block) bool {
					// `if counter == 0 { Broadcast }`: the non-zero edge needs no wake
					if cond, _, ok := g.condOf(from); ok && k == 1 {
						if be, ok := unparen(cond).(*ast.BinaryExpr); ok && be.Op == token.EQL && sameField(fieldOfSel(info, be.X), fv) {
							if v, isC := constInt(info, be.Y); isC && v == 0 {
								return false
							}
						}
					}
					return true
				},
			})
			// deferred unlock nodes etc. are fine: Broadcast must simply be on the way out
			c.Check(!lost, rule, st.Fn.Key+": "+nodeStr(st.Node)+" wakes "+ct.cond, st.Node.Pos(), m, "", "the counter "+ct.typ+"."+ct.field+" decreases on a path that does not Broadcast "+ct.cond+": a stopSession / leave / poll / rebalance waiting for it sleeps forever (Close hangs)")
		}
	}
	c.Floor(rule+"#decrements", n, 5)
	// cancel before wait
	for _, w := range []struct{ key, cancel, loop string }{
		{"kgo.consumer.stopSession", "session.cancel", "kgo.consumer.stopSession#for[session.workers>0]0"},
		{"kgo.shareConsumer.leave", "sc.fm.cancel", "kgo.shareConsumer.leave#for[sc.workers>0]0"},
	} {
		f := c.NeedFunc(m, w.key)
		if f == nil {
			continue
		}
		g := f.Graph()
		lc, _, ok1 := c13first(g, func(nd ast.Node) bool {
			call, ok := nd.(*ast.CallExpr)
			return ok && nosp(exprStr(call.Fun)) == w.cancel
		})
		var ll Loc
		ok2 := false
		for _, lp := range c13loopsOf(f) {
			if lp.Key == w.loop {
				ll, ok2 = g.LocOf(lp.For.Cond)
				if !ok2 {
					ll, ok2 = c13condLoc(g, lp.For.Cond)
				}
			}
		}
		c.Check(ok1 && ok2 && g.Dominates(lc, ll), rule, w.key+"#cancel before wait", f.Pos(), m, w.cancel+"() dominates the wait loop", "the workers' context is not cancelled ("+w.cancel+"()) before waiting for the worker count to reach zero: the fetch loops never exit and Close / LeaveGroup hangs")
	}
	// session contexts derive from the client context
	if f := c.NeedFunc(m, "kgo.consumer.newConsumerSession"); f != nil {
		c13ctxDerived(c, m, f, rule)
	}
}

// ---------------------------------------------------------------------------
// go statements
// ---------------------------------------------------------------------------

func c13gos(c *Ctx, m *Module) {
	rule := "go-table"
	gos := c13goStmts(m)
	seen := map[string]bool{}
	n := 0
	for _, g := range gos {
		c.Touch(g.Fn)
		spec, ok := c13goTable[g.Key]
		if !ok {
			c.Undecided(rule, g.Key, g.Stmt.Pos(), m, "`go` statement is not in the confirmed table: state why the goroutine terminates when the client closes (context exit, bounded work, awaited by its spawner)")
			continue
		}
		seen[g.Key] = true
		n++
		fn, root := c13goBody(g)
		if fn == nil {
			c.Check(spec.Class == "callback", rule, g.Key, g.Stmt.Pos(), m, "callback: "+spec.Why, "go target without a body in kgo is not classified as a user callback")
			continue
		}
		c.Touch(fn)
		parks := c13parksIn(fn, root)
		extra := c13checkParks(parks, spec.Parks)
		switch spec.Class {
		case "loop", "worker", "waiter", "bounded", "request", "callback":
		default:
			c.Undecided(rule, g.Key+"#class", g.Stmt.Pos(), m, "unknown class")
		}
		if len(extra) == 0 {
			c.OK(rule, g.Key, g.Stmt.Pos(), m, spec.Class+": "+spec.Why)
		}
		for _, p := range extra {
			c.Fail(rule, g.Key+"#park "+c13parkStr(p), p.Node.Pos(), m, "the goroutine body parks on an operation that has no context arm and is not in the confirmed allow-list of this go statement: it can outlive Close")
		}
	}
	for k := range c13goTable {
		if !seen[k] {
			c.Undecided(rule, k, 0, m, "go statement of the confirmed table not found (moved or removed): re-confirm the table")
		}
	}
	c.Floor(rule, n, len(c13goTable))
}

// c13goInScopeLoops: in-scope loops and goto loops directly in the go target's body.
func c13goInScopeLoops(g *c13go) []string {
	fn, root := c13goBody(g)
	if fn == nil {
		return nil
	}
	var out []string
	for _, lp := range c13loopsOf(fn) {
		if !lp.InScope() {
			continue
		}
		if lp.For.Pos() >= root.Pos() && lp.For.End() <= root.End() && (g.Lit != nil || innermostLit(fn, lp.For) == nil) {
			out = append(out, lp.Key)
		}
	}
	for _, gl := range c13gotoLoopsOf(fn) {
		if gl.Goto.Pos() >= root.Pos() && gl.Goto.End() <= root.End() && (g.Lit != nil || innermostLit(fn, gl.Goto) == nil) {
			out = append(out, gl.Key)
		}
	}
	return out
}

// c13goBody returns the function owning the target body and the body root.
func c13goBody(g *c13go) (*Func, ast.Node) {
	if g.Lit != nil {
		return g.Fn, g.Lit
	}
	if g.TFn != nil {
		return g.TFn, g.TFn.Decl.Body
	}
	return nil, nil
}

// ---------------------------------------------------------------------------
// debugging aid: FGCHECK_C13_DUMP=1 prints the scanner's view
// ---------------------------------------------------------------------------

func c13dump(m *Module) {
	for _, fn := range m.FuncsIn("kgo") {
		for _, lp := range c13loopsOf(fn) {
			fmt.Printf("LOOP %s @%s label=%q parks=%d scope=%v\n", lp.Key, m.Position(lp.For.Pos()), lp.Label, len(lp.Parks), lp.InScope())
			for _, p := range lp.Parks {
				fmt.Printf("    park %s\n", c13parkStr(p))
			}
			for _, e := range lp.Exits {
				fmt.Printf("    exit %s ctx=%v @%s [%s]\n", e.How, e.Ctx, m.Position(e.Node.Pos()), strings.Join(e.Guards, " , "))
			}
		}
	}
	for _, fn := range m.FuncsIn("kgo") {
		for _, gl := range c13gotoLoopsOf(fn) {
			fmt.Printf("GOTO %s @%s ctx=%v [%s]\n", gl.Key, m.Position(gl.Goto.Pos()), gl.Ctx, strings.Join(gl.Guards, " , "))
			for _, p := range gl.Parks {
				fmt.Printf("    park %s\n", c13parkStr(p))
			}
		}
	}
	for _, g := range c13goStmts(m) {
		fmt.Printf("GO %s @%s\n", g.Key, m.Position(g.Stmt.Pos()))
		if fn, root := c13goBody(g); fn != nil {
			for _, p := range c13parksIn(fn, root) {
				fmt.Printf("    park %s ctx=%v\n", c13parkStr(p), p.CtxArm)
			}
		}
		for _, l := range c13goInScopeLoops(g) {
			fmt.Printf("    loop %s\n", l)
		}
	}
}
