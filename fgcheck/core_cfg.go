package main

import (
	"go/ast"
	"go/token"
	"go/types"

	"golang.org/x/tools/go/cfg"
)

// Graph is the control-flow graph of one function body (FuncDecl or FuncLit)
// together with dominator information and a map from every AST node of the
// body (excluding nested function literals' bodies) to its CFG location.
type Graph struct {
	Body  *ast.BlockStmt
	C     *cfg.CFG
	Info  *types.Info
	loc   map[ast.Node]Loc
	preds [][]int
	succs [][]int // succs with infeasible select fall-through removed
	dom   [][]bool
	live  []bool
}

// Loc is a CFG location: block index and node index within the block.
// I == len(block.Nodes) denotes the end of the block.
type Loc struct{ B, I int }

func noReturnCall(info *types.Info) func(*ast.CallExpr) bool {
	return func(call *ast.CallExpr) bool {
		switch fn := call.Fun.(type) {
		case *ast.Ident:
			if fn.Name == "panic" {
				if _, ok := info.Uses[fn].(*types.Builtin); ok {
					return false
				}
			}
		case *ast.SelectorExpr:
			if obj, ok := info.Uses[fn.Sel].(*types.Func); ok && obj.Pkg() != nil {
				full := obj.Pkg().Path() + "." + obj.Name()
				switch full {
				case "os.Exit", "log.Fatal", "log.Fatalf", "log.Fatalln", "runtime.Goexit":
					return false
				}
			}
		}
		return true
	}
}

// NewGraph builds the graph for a function body.
func NewGraph(body *ast.BlockStmt, info *types.Info) *Graph {
	g := &Graph{Body: body, Info: info, loc: map[ast.Node]Loc{}}
	g.C = cfg.New(body, noReturnCall(info))
	n := len(g.C.Blocks)
	g.succs = make([][]int, n)
	g.preds = make([][]int, n)
	g.live = make([]bool, n)
	// last comm clause of each default-less select: its after-case fallthrough is infeasible
	lastClause := map[ast.Stmt]bool{}
	ast.Inspect(body, func(x ast.Node) bool {
		if s, ok := x.(*ast.SelectStmt); ok {
			hasDefault := false
			var last ast.Stmt
			for _, c := range s.Body.List {
				cc := c.(*ast.CommClause)
				if cc.Comm == nil {
					hasDefault = true
				} else {
					last = cc
				}
			}
			if !hasDefault && last != nil {
				lastClause[last] = true
			}
		}
		return true
	})
	for _, b := range g.C.Blocks {
		g.live[b.Index] = b.Live
		for i, nd := range b.Nodes {
			g.index(nd, Loc{int(b.Index), i})
		}
	}
	for _, b := range g.C.Blocks {
		for _, s := range b.Succs {
			g.succs[b.Index] = append(g.succs[b.Index], int(s.Index))
		}
	}
	// Remove the infeasible "no case ready" edge of blocking selects: the block
	// that evaluates the last clause has succs [body, afterCase]; afterCase of
	// the last clause jumps to done.
	for _, b := range g.C.Blocks {
		if b.Kind == cfg.KindSelectAfterCase && lastClause[b.Stmt] && len(b.Nodes) == 0 {
			g.succs[b.Index] = nil
		}
	}
	for b, ss := range g.succs {
		for _, s := range ss {
			g.preds[s] = append(g.preds[s], b)
		}
	}
	g.computeDom()
	return g
}

func (g *Graph) index(nd ast.Node, l Loc) {
	ast.Inspect(nd, func(x ast.Node) bool {
		if x == nil {
			return false
		}
		if _, ok := g.loc[x]; !ok {
			g.loc[x] = l
		}
		if _, ok := x.(*ast.FuncLit); ok {
			return false
		}
		return true
	})
}

// LocOf returns the CFG location of an AST node of this body.
func (g *Graph) LocOf(n ast.Node) (Loc, bool) {
	l, ok := g.loc[n]
	return l, ok
}

func (g *Graph) computeDom() {
	n := len(g.C.Blocks)
	// reachability with the pruned edge set
	reach := make([]bool, n)
	var dfs func(int)
	dfs = func(b int) {
		if reach[b] {
			return
		}
		reach[b] = true
		for _, s := range g.succs[b] {
			dfs(s)
		}
	}
	if n > 0 {
		dfs(0)
	}
	g.live = reach
	g.dom = make([][]bool, n)
	for i := range g.dom {
		g.dom[i] = make([]bool, n)
		for j := range g.dom[i] {
			g.dom[i][j] = true
		}
	}
	if n == 0 {
		return
	}
	for j := range g.dom[0] {
		g.dom[0][j] = j == 0
	}
	changed := true
	for changed {
		changed = false
		for b := 1; b < n; b++ {
			if !reach[b] {
				continue
			}
			nw := make([]bool, n)
			first := true
			for _, p := range g.preds[b] {
				if !reach[p] {
					continue
				}
				if first {
					copy(nw, g.dom[p])
					first = false
				} else {
					for j := range nw {
						nw[j] = nw[j] && g.dom[p][j]
					}
				}
			}
			nw[b] = true
			for j := range nw {
				if nw[j] != g.dom[b][j] {
					changed = true
				}
			}
			g.dom[b] = nw
		}
	}
}

// Reachable reports whether the location's block is reachable from entry.
func (g *Graph) Reachable(l Loc) bool { return g.live[l.B] }

// Dominates: every path from entry to b passes a first (a strictly before b
// when in the same block).
func (g *Graph) Dominates(a, b Loc) bool {
	// A location inside a defer statement is where the call is registered;
	// the call itself runs at function exit, after everything else, so it
	// "happens before" nothing.  (A rule that wants the registration order
	// uses DominatesReg.)
	if a.B >= 0 && a.B < len(g.C.Blocks) && a.I >= 0 && a.I < len(g.C.Blocks[a.B].Nodes) {
		if _, isDefer := g.C.Blocks[a.B].Nodes[a.I].(*ast.DeferStmt); isDefer {
			return false
		}
	}
	return g.DominatesReg(a, b)
}

// DominatesReg is plain dominance of CFG locations (a deferred call counts at
// its registration point).
func (g *Graph) DominatesReg(a, b Loc) bool {
	if a.B == b.B {
		return a.I < b.I
	}
	return g.dom[b.B][a.B]
}

// BlockDominates reports whether block a dominates block b.
func (g *Graph) BlockDominates(a, b int) bool { return g.dom[b][a] }

// reachableFrom returns the set of blocks reachable from start block s
// (including s) with an optional forbidden edge.
func (g *Graph) reachWithoutEdge(from, to int) []bool {
	n := len(g.C.Blocks)
	seen := make([]bool, n)
	stack := []int{0}
	seen[0] = true
	for len(stack) > 0 {
		b := stack[len(stack)-1]
		stack = stack[:len(stack)-1]
		for _, s := range g.succs[b] {
			if b == from && s == to {
				continue
			}
			if !seen[s] {
				seen[s] = true
				stack = append(stack, s)
			}
		}
	}
	return seen
}

// EdgeDominates reports whether every path from entry to the target block
// uses the edge from->to.
func (g *Graph) EdgeDominates(from, to int, target int) bool {
	if !g.live[target] {
		return false
	}
	// if both successors of from are the same block the edge carries no information
	cnt := 0
	for _, s := range g.succs[from] {
		if s == to {
			cnt++
		}
	}
	if cnt != 1 {
		return false
	}
	return !g.reachWithoutEdge(from, to)[target]
}

// A Fact is a branch condition known to hold (Val) at some location.
// For tag switches Tag is the switch tag and Cond the case expression
// (fact: Tag == Cond when Val, Tag != Cond otherwise).
type Fact struct {
	Cond ast.Expr
	Val  bool
	Tag  ast.Expr
}

func unparen(e ast.Expr) ast.Expr {
	for {
		p, ok := e.(*ast.ParenExpr)
		if !ok {
			return e
		}
		e = p.X
	}
}

// decompose splits a condition known to have value val into atomic facts.
func decompose(e ast.Expr, val bool, out []Fact) []Fact {
	e = unparen(e)
	switch x := e.(type) {
	case *ast.UnaryExpr:
		if x.Op == token.NOT {
			return decompose(x.X, !val, out)
		}
	case *ast.BinaryExpr:
		if x.Op == token.LAND && val {
			out = decompose(x.X, true, out)
			return decompose(x.Y, true, out)
		}
		if x.Op == token.LOR && !val {
			out = decompose(x.X, false, out)
			return decompose(x.Y, false, out)
		}
	}
	return append(out, Fact{Cond: e, Val: val})
}

// condOf returns the branching condition of a block with two successors.
func (g *Graph) condOf(b *cfg.Block) (cond ast.Expr, tag ast.Expr, ok bool) {
	if len(b.Succs) != 2 || len(b.Nodes) == 0 {
		return nil, nil, false
	}
	last, isExpr := b.Nodes[len(b.Nodes)-1].(ast.Expr)
	if !isExpr {
		return nil, nil, false
	}
	t := b.Succs[0]
	switch t.Kind {
	case cfg.KindIfThen:
		if s, ok := t.Stmt.(*ast.IfStmt); ok && s.Cond == last {
			return last, nil, true
		}
	case cfg.KindForBody:
		if s, ok := t.Stmt.(*ast.ForStmt); ok && s.Cond == last {
			return last, nil, true
		}
	case cfg.KindSwitchCaseBody:
		// find the switch statement for the case clause
		cc, _ := t.Stmt.(*ast.CaseClause)
		if cc == nil {
			return nil, nil, false
		}
		for _, c := range cc.List {
			if c == last {
				sw := g.switchOf(cc)
				if sw == nil {
					return nil, nil, false
				}
				if sw.Tag == nil {
					return last, nil, true
				}
				return last, sw.Tag, true
			}
		}
	}
	return nil, nil, false
}

var switchParents = map[*ast.CaseClause]*ast.SwitchStmt{}

func (g *Graph) switchOf(cc *ast.CaseClause) *ast.SwitchStmt {
	if s, ok := switchParents[cc]; ok {
		return s
	}
	ast.Inspect(g.Body, func(x ast.Node) bool {
		if s, ok := x.(*ast.SwitchStmt); ok {
			for _, c := range s.Body.List {
				switchParents[c.(*ast.CaseClause)] = s
			}
		}
		return true
	})
	return switchParents[cc]
}

// FactsAt returns every atomic branch fact that holds on all paths reaching
// the block of l (edge-dominance), plus facts of conditions in the same block
// are not included (conditions end blocks).
func (g *Graph) FactsAt(l Loc) []Fact {
	var out []Fact
	for _, b := range g.C.Blocks {
		if !g.live[b.Index] {
			continue
		}
		cond, tag, ok := g.condOf(b)
		if !ok {
			continue
		}
		// pruned succs may differ; use original succs guarded by existence in g.succs
		for k, s := range b.Succs {
			if g.EdgeDominates(int(b.Index), int(s.Index), l.B) {
				if tag != nil {
					out = append(out, Fact{Cond: cond, Val: k == 0, Tag: tag})
				} else {
					out = decompose(cond, k == 0, out)
				}
			}
		}
	}
	return out
}

// ExitKind classifies function exits.
type ExitKind int

const (
	ExitReturn ExitKind = iota
	ExitEnd             // falls off the end of the body
	ExitPanic           // no-return call
)

// exitOf reports whether the block is an exit and which kind.
func (g *Graph) exitOf(b int) (ExitKind, bool) {
	if len(g.succs[b]) != 0 || !g.live[b] {
		return 0, false
	}
	blk := g.C.Blocks[b]
	if blk.Kind == cfg.KindSelectAfterCase && len(blk.Nodes) == 0 {
		return 0, false // "no case ready" of a blocking select: not an exit
	}
	if len(blk.Nodes) > 0 {
		switch n := blk.Nodes[len(blk.Nodes)-1].(type) {
		case *ast.ReturnStmt:
			return ExitReturn, true
		case *ast.ExprStmt:
			if call, ok := n.X.(*ast.CallExpr); ok && !noReturnCall(g.Info)(call) {
				return ExitPanic, true
			}
		}
	}
	// `for {}` or `select {}` without exits have no succs but are not exits;
	// go/cfg gives such blocks successors (loops) so reaching here means end of body.
	return ExitEnd, true
}

// PathStep is one element of a reported path.
type PathStep struct {
	Loc  Loc
	Node ast.Node
}

// SearchOpts controls FindPath.
type SearchOpts struct {
	// Stop: nodes that block the path (the "must pass through" set).
	Stop func(n ast.Node) bool
	// Goal on nodes: a node that must not be reached without passing Stop.
	GoalNode func(n ast.Node) bool
	// GoalExit: whether reaching an exit of this kind is a goal.
	GoalExit func(kind ExitKind, last ast.Node) bool
	// StopBlock: entering a block satisfying this blocks the path.
	StopBlock func(b *cfg.Block) bool
	// GoalBlock: entering a block satisfying this is a goal.
	GoalBlock func(b *cfg.Block) bool
	// EdgeOK filters edges (from block, succ index k, to block); nil = all.
	EdgeOK func(from *cfg.Block, k int, to *cfg.Block) bool
}

// FindPath searches for a path starting right after location `from` (or at
// entry when from.B < 0) that reaches a goal without passing a Stop node.
// It returns the path's nodes (abbreviated) and true when one exists.
func (g *Graph) FindPath(from Loc, o SearchOpts) ([]ast.Node, bool) {
	startB, startI := from.B, from.I+1
	if from.B < 0 {
		startB, startI = 0, 0
	}
	visited := map[int]bool{}
	var path []ast.Node
	var walk func(b, i int) bool
	walk = func(b, i int) bool {
		blk := g.C.Blocks[b]
		mark := len(path)
		for ; i < len(blk.Nodes); i++ {
			n := blk.Nodes[i]
			if o.Stop != nil && o.Stop(n) {
				path = path[:mark]
				return false
			}
			path = append(path, n)
			if o.GoalNode != nil && o.GoalNode(n) {
				return true
			}
		}
		if kind, ok := g.exitOf(b); ok {
			var last ast.Node
			if len(blk.Nodes) > 0 {
				last = blk.Nodes[len(blk.Nodes)-1]
			}
			if o.GoalExit != nil && o.GoalExit(kind, last) {
				return true
			}
			path = path[:mark]
			return false
		}
		for k, s := range blk.Succs {
			si := int(s.Index)
			ok := false
			for _, ps := range g.succs[b] {
				if ps == si {
					ok = true
				}
			}
			if !ok {
				continue
			}
			if o.EdgeOK != nil && !o.EdgeOK(blk, k, s) {
				continue
			}
			if o.StopBlock != nil && o.StopBlock(s) {
				continue
			}
			if o.GoalBlock != nil && o.GoalBlock(s) {
				return true
			}
			if visited[si] {
				continue
			}
			visited[si] = true
			if walk(si, 0) {
				return true
			}
		}
		path = path[:mark]
		return false
	}
	if walk(startB, startI) {
		return path, true
	}
	return nil, false
}

// containsNode reports whether root contains a node satisfying pred, not
// descending into function literals unless deep.
func containsNode(root ast.Node, deep bool, pred func(ast.Node) bool) bool {
	found := false
	ast.Inspect(root, func(x ast.Node) bool {
		if x == nil || found {
			return false
		}
		if pred(x) {
			found = true
			return false
		}
		if _, ok := x.(*ast.FuncLit); ok && !deep {
			return false
		}
		return true
	})
	return found
}

// findNodes collects nodes under root satisfying pred (pre-order).
func findNodes(root ast.Node, deep bool, pred func(ast.Node) bool) []ast.Node {
	var out []ast.Node
	ast.Inspect(root, func(x ast.Node) bool {
		if x == nil {
			return false
		}
		if pred(x) {
			out = append(out, x)
		}
		if _, ok := x.(*ast.FuncLit); ok && !deep && x != root {
			return false
		}
		return true
	})
	return out
}
