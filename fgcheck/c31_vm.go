package main

import (
	"fmt"
	"go/ast"
	"go/token"
	"go/types"
	"sort"
	"strings"
)

// A tiny concurrent-program model extracted from the AST of the gate functions
// and of the channel-based mutexes.  Nothing of the repository is executed:
// the bodies are translated into an instruction list over a handful of
// tracked objects (integer fields, channels, mutexes, one condition variable)
// and the checker explores the interleavings of a few fixed client scenarios
// over that model (explicit-state search, finite).

type c31op int

const (
	c31Nop c31op = iota
	c31Recv
	c31Send
	c31Select
	c31Lock
	c31Unlock
	c31Set
	c31SetLocal
	c31If
	c31Jmp
	c31Wait
	c31Broadcast
	c31Signal
	c31Ret
	c31Panic
)

type c31selCase struct {
	send   bool
	ch     string
	target int
}

type c31instr struct {
	op     c31op
	name   string      // tracked object
	tok    token.Token // c31Set: ASSIGN, INC, DEC, ADD_ASSIGN, ...
	expr   ast.Expr    // c31Set/c31SetLocal: rhs; c31If: condition; c31Ret: result
	typ    types.Type  // c31Set: type of the variable
	local  int         // c31SetLocal: local index
	zero   c31val      // c31SetLocal with expr == nil
	target int         // c31If: target when false; c31Jmp
	cases  []c31selCase
	def    int // c31Select: default target or -1
	node   ast.Node
	defer_ bool // emitted for a deferred call
}

// c31bind names the tracked objects of one model.
type c31bind struct {
	info  *types.Info
	ints  map[string]*types.Var
	chans map[string]*types.Var
	locks map[string]*types.Var
	conds map[string]*types.Var
	flags map[string]*types.Var // configuration booleans assumed true
}

func c31lookup(m map[string]*types.Var, v *types.Var) string {
	if v == nil {
		return ""
	}
	for k, f := range m {
		if sameField(f, v) {
			return k
		}
	}
	return ""
}

func (b *c31bind) kindOf(e ast.Expr) (kind, name string) {
	fv := fieldOfSel(b.info, e)
	if fv == nil {
		return "", ""
	}
	if n := c31lookup(b.ints, fv); n != "" {
		return "int", n
	}
	if n := c31lookup(b.chans, fv); n != "" {
		return "chan", n
	}
	if n := c31lookup(b.locks, fv); n != "" {
		return "lock", n
	}
	if n := c31lookup(b.conds, fv); n != "" {
		return "cond", n
	}
	if n := c31lookup(b.flags, fv); n != "" {
		return "flag", n
	}
	return "", ""
}

// mentions reports whether the subtree selects a tracked object of one of the kinds.
func (b *c31bind) mentions(n ast.Node, kinds string) bool {
	if n == nil {
		return false
	}
	return containsNode(n, true, func(x ast.Node) bool {
		e, ok := x.(ast.Expr)
		if !ok {
			return false
		}
		k, _ := b.kindOf(e)
		return k != "" && strings.Contains(kinds, k)
	})
}

type c31prog struct {
	key    string
	fn     *Func
	ins    []c31instr
	locals []types.Object
	errs   []string
}

type c31compiler struct {
	b      *c31bind
	p      *c31prog
	defers []c31instr
	depth  int
	loops  []*c31loop
}

type c31loop struct {
	top    int
	breaks []int
}

func c31compile(f *Func, b *c31bind) *c31prog {
	p := &c31prog{key: f.Key, fn: f}
	cc := &c31compiler{b: b, p: p}
	cc.block(f.Decl.Body.List)
	cc.emitDefers()
	cc.emit(c31instr{op: c31Ret, node: f.Decl.Body})
	return p
}

func (cc *c31compiler) emit(i c31instr) int {
	cc.p.ins = append(cc.p.ins, i)
	return len(cc.p.ins) - 1
}

func (cc *c31compiler) here() int { return len(cc.p.ins) }

func (cc *c31compiler) unsupported(n ast.Node, why string) {
	cc.p.errs = append(cc.p.errs, fmt.Sprintf("%s: %s (%s)", cc.p.fn.mod.Position(n.Pos()), why, c31short(n)))
}

func c31short(n ast.Node) string {
	s := nodeStr(n)
	if s == "?" {
		s = fmt.Sprintf("%T", n)
	}
	if len(s) > 60 {
		s = s[:60] + "..."
	}
	return s
}

func (cc *c31compiler) emitDefers() {
	for i := len(cc.defers) - 1; i >= 0; i-- {
		d := cc.defers[i]
		d.defer_ = true
		cc.emit(d)
	}
}

func (cc *c31compiler) localIdx(o types.Object) int {
	for i, x := range cc.p.locals {
		if x == o {
			return i
		}
	}
	cc.p.locals = append(cc.p.locals, o)
	return len(cc.p.locals) - 1
}

func (cc *c31compiler) block(list []ast.Stmt) {
	for _, s := range list {
		cc.stmt(s)
	}
}

func c31zero(t types.Type) c31val {
	if b, ok := t.Underlying().(*types.Basic); ok {
		switch {
		case b.Info()&types.IsBoolean != 0:
			return c31bool(false)
		case b.Info()&types.IsInteger != 0:
			return c31int(0)
		}
	}
	return c31unknown
}

// syncCall classifies a call statement on a tracked lock or condition variable.
func (cc *c31compiler) syncCall(call *ast.CallExpr) (c31instr, bool) {
	sel, ok := unparen(call.Fun).(*ast.SelectorExpr)
	if !ok || len(call.Args) != 0 {
		return c31instr{}, false
	}
	kind, name := cc.b.kindOf(sel.X)
	switch kind {
	case "lock":
		switch sel.Sel.Name {
		case "Lock":
			return c31instr{op: c31Lock, name: name, node: call}, true
		case "Unlock":
			return c31instr{op: c31Unlock, name: name, node: call}, true
		}
	case "cond":
		switch sel.Sel.Name {
		case "Wait":
			return c31instr{op: c31Wait, name: name, node: call}, true
		case "Broadcast":
			return c31instr{op: c31Broadcast, name: name, node: call}, true
		case "Signal":
			return c31instr{op: c31Signal, name: name, node: call}, true
		}
	}
	return c31instr{}, false
}

func (cc *c31compiler) isPanic(call *ast.CallExpr) bool {
	id, ok := unparen(call.Fun).(*ast.Ident)
	if !ok || id.Name != "panic" {
		return false
	}
	_, isB := cc.b.info.Uses[id].(*types.Builtin)
	return isB
}

// comm translates a channel operation statement on a tracked channel.
func (cc *c31compiler) comm(s ast.Stmt) (send bool, ch string, ok bool) {
	switch x := s.(type) {
	case *ast.ExprStmt:
		if u, isU := unparen(x.X).(*ast.UnaryExpr); isU && u.Op == token.ARROW {
			if k, n := cc.b.kindOf(u.X); k == "chan" {
				return false, n, true
			}
		}
	case *ast.SendStmt:
		if k, n := cc.b.kindOf(x.Chan); k == "chan" && !cc.b.mentions(x.Value, "int chan lock cond") {
			return true, n, true
		}
	}
	return false, "", false
}

func (cc *c31compiler) stmt(s ast.Stmt) {
	const sync = "chan lock cond"
	const all = "int chan lock cond"
	switch x := s.(type) {
	case nil:
	case *ast.EmptyStmt:
	case *ast.BlockStmt:
		cc.depth++
		cc.block(x.List)
		cc.depth--
	case *ast.LabeledStmt:
		cc.unsupported(x, "labeled statement")
	case *ast.ExprStmt:
		if send, ch, ok := cc.comm(x); ok && !send {
			cc.emit(c31instr{op: c31Recv, name: ch, node: x})
			return
		}
		if call, ok := unparen(x.X).(*ast.CallExpr); ok {
			if in, ok := cc.syncCall(call); ok {
				cc.emit(in)
				return
			}
			if cc.isPanic(call) {
				cc.emitDefers()
				cc.emit(c31instr{op: c31Panic, node: x})
				return
			}
		}
		if cc.b.mentions(x, all) {
			cc.unsupported(x, "statement uses a tracked object in a way the model does not cover")
			return
		}
		cc.emit(c31instr{op: c31Nop, node: x})
	case *ast.SendStmt:
		if send, ch, ok := cc.comm(x); ok && send {
			cc.emit(c31instr{op: c31Send, name: ch, node: x})
			return
		}
		if cc.b.mentions(x, all) {
			cc.unsupported(x, "send involving a tracked object")
		}
	case *ast.IncDecStmt:
		if k, n := cc.b.kindOf(x.X); k == "int" {
			cc.emit(c31instr{op: c31Set, name: n, tok: x.Tok, typ: cc.b.info.Types[x.X].Type, node: x})
			return
		}
		if id, ok := unparen(x.X).(*ast.Ident); ok {
			if o := cc.b.info.Uses[id]; o != nil {
				cc.emit(c31instr{op: c31SetLocal, local: cc.localIdx(o), zero: c31unknown, node: x})
				return
			}
		}
		if cc.b.mentions(x, all) {
			cc.unsupported(x, "increment of an expression involving a tracked object")
		}
	case *ast.AssignStmt:
		cc.assign(x)
	case *ast.DeclStmt:
		gd, ok := x.Decl.(*ast.GenDecl)
		if !ok || gd.Tok != token.VAR {
			return
		}
		for _, sp := range gd.Specs {
			vs := sp.(*ast.ValueSpec)
			if cc.b.mentions(vs, sync) {
				cc.unsupported(x, "declaration reads a tracked synchronisation object")
				continue
			}
			for i, id := range vs.Names {
				o := cc.b.info.Defs[id]
				if o == nil {
					continue
				}
				in := c31instr{op: c31SetLocal, local: cc.localIdx(o), node: x}
				if i < len(vs.Values) && len(vs.Values) == len(vs.Names) {
					in.expr = vs.Values[i]
				} else if len(vs.Values) == 0 {
					in.zero = c31zero(o.Type())
				}
				cc.emit(in)
			}
		}
	case *ast.GoStmt:
		if cc.b.mentions(x, all) {
			cc.unsupported(x, "goroutine started over a tracked object")
		}
	case *ast.DeferStmt:
		if in, ok := cc.syncCall(x.Call); ok && (in.op == c31Unlock || in.op == c31Broadcast) {
			if cc.depth != 0 || len(cc.loops) != 0 {
				cc.unsupported(x, "conditional defer")
				return
			}
			cc.defers = append(cc.defers, in)
			return
		}
		if cc.b.mentions(x, all) {
			cc.unsupported(x, "deferred call over a tracked object")
		}
	case *ast.ReturnStmt:
		in := c31instr{op: c31Ret, node: x}
		if len(x.Results) == 1 {
			in.expr = x.Results[0]
		}
		if cc.b.mentions(x, sync) {
			cc.unsupported(x, "return expression reads a tracked synchronisation object")
		}
		cc.emitDefers()
		cc.emit(in)
	case *ast.IfStmt:
		cc.depth++
		cc.stmt(x.Init)
		if cc.b.mentions(x.Cond, sync) {
			cc.unsupported(x.Cond, "condition reads a tracked synchronisation object")
		}
		br := cc.emit(c31instr{op: c31If, expr: x.Cond, node: x.Cond})
		cc.block(x.Body.List)
		if x.Else != nil {
			j := cc.emit(c31instr{op: c31Jmp, node: x})
			cc.p.ins[br].target = cc.here()
			cc.stmt(x.Else)
			cc.p.ins[j].target = cc.here()
		} else {
			cc.p.ins[br].target = cc.here()
		}
		cc.depth--
	case *ast.ForStmt:
		if x.Init != nil || x.Post != nil {
			if cc.b.mentions(x, all) {
				cc.unsupported(x, "three-clause loop over tracked objects")
			}
			return
		}
		lp := &c31loop{top: cc.here()}
		cc.loops = append(cc.loops, lp)
		br := -1
		if x.Cond != nil {
			if cc.b.mentions(x.Cond, sync) {
				cc.unsupported(x.Cond, "condition reads a tracked synchronisation object")
			}
			br = cc.emit(c31instr{op: c31If, expr: x.Cond, node: x.Cond})
		}
		cc.block(x.Body.List)
		cc.emit(c31instr{op: c31Jmp, target: lp.top, node: x})
		if br >= 0 {
			cc.p.ins[br].target = cc.here()
		}
		for _, j := range lp.breaks {
			cc.p.ins[j].target = cc.here()
		}
		cc.loops = cc.loops[:len(cc.loops)-1]
	case *ast.BranchStmt:
		if x.Label != nil || len(cc.loops) == 0 {
			cc.unsupported(x, "branch statement")
			return
		}
		lp := cc.loops[len(cc.loops)-1]
		switch x.Tok {
		case token.BREAK:
			lp.breaks = append(lp.breaks, cc.emit(c31instr{op: c31Jmp, node: x}))
		case token.CONTINUE:
			cc.emit(c31instr{op: c31Jmp, target: lp.top, node: x})
		default:
			cc.unsupported(x, "branch statement")
		}
	case *ast.SelectStmt:
		cc.depth++
		sel := cc.emit(c31instr{op: c31Select, def: -1, node: x})
		var ends []int
		var cases []c31selCase
		def := -1
		savedLoops := cc.loops
		cc.loops = nil // break inside select leaves the select: not modelled
		for _, c := range x.Body.List {
			cl := c.(*ast.CommClause)
			if cl.Comm == nil {
				def = cc.here()
			} else {
				send, ch, ok := cc.comm(cl.Comm)
				if !ok {
					if cc.b.mentions(x, all) {
						cc.unsupported(cl.Comm, "select case is not a plain send/receive on a tracked channel")
					}
					cc.loops = savedLoops
					cc.depth--
					cc.p.ins = cc.p.ins[:sel]
					cc.emit(c31instr{op: c31Nop, node: x})
					return
				}
				cases = append(cases, c31selCase{send: send, ch: ch, target: cc.here()})
			}
			cc.block(cl.Body)
			ends = append(ends, cc.emit(c31instr{op: c31Jmp, node: cl}))
		}
		cc.loops = savedLoops
		for _, j := range ends {
			cc.p.ins[j].target = cc.here()
		}
		cc.p.ins[sel].cases = cases
		cc.p.ins[sel].def = def
		cc.depth--
	default:
		if cc.b.mentions(x, all) {
			cc.unsupported(x, "statement kind not covered by the model")
			return
		}
		if containsNode(x, false, func(n ast.Node) bool {
			switch n.(type) {
			case *ast.ReturnStmt, *ast.BranchStmt:
				return true
			}
			return false
		}) {
			cc.unsupported(x, "control flow inside a statement kind the model does not cover")
		}
	}
}

func (cc *c31compiler) assign(x *ast.AssignStmt) {
	const sync = "chan lock cond"
	if len(x.Lhs) == 1 {
		if k, n := cc.b.kindOf(x.Lhs[0]); k == "int" {
			if len(x.Rhs) != 1 || cc.b.mentions(x.Rhs[0], sync) {
				cc.unsupported(x, "assignment to a tracked integer from an expression the model does not cover")
				return
			}
			cc.emit(c31instr{op: c31Set, name: n, tok: x.Tok, expr: x.Rhs[0], typ: cc.b.info.Types[x.Lhs[0]].Type, node: x})
			return
		}
	}
	for _, l := range x.Lhs {
		if cc.b.mentions(l, "int chan lock cond") {
			cc.unsupported(x, "assignment to a tracked object")
			return
		}
	}
	if cc.b.mentions(x, sync) {
		cc.unsupported(x, "assignment reads a tracked synchronisation object")
		return
	}
	for i, l := range x.Lhs {
		id, ok := unparen(l).(*ast.Ident)
		if !ok || id.Name == "_" {
			continue
		}
		o := cc.b.info.Defs[id]
		if o == nil {
			o = cc.b.info.Uses[id]
		}
		if o == nil {
			continue
		}
		in := c31instr{op: c31SetLocal, local: cc.localIdx(o), node: x, zero: c31unknown}
		if len(x.Rhs) == len(x.Lhs) && (x.Tok == token.ASSIGN || x.Tok == token.DEFINE) {
			in.expr = x.Rhs[i]
		}
		cc.emit(in)
	}
}

// ---------------------------------------------------------------------------
// Explicit-state exploration

type c31item struct {
	call  string // program key to run, or ""
	try   bool   // boolean result: false skips the next `skip` items
	skip  int
	ghost string // "name+" / "name-" / "name=0" when call == ""
}

type c31chanSpec struct {
	cap, init int
}

type c31scenario struct {
	name      string
	threads   [][]c31item
	progs     map[string]*c31prog
	bind      *c31bind
	chans     map[string]c31chanSpec
	ints      map[string]uint64
	invariant func(g map[string]int) string
}

type c31thread struct {
	item   int
	pc     int
	fn     string
	sleep  int // 0 running, 1 sleeping in Wait, 2 woken (must reacquire the mutex)
	locals []c31val
}

type c31state struct {
	ints   []uint64
	chans  []int
	locks  []int // 0 free, t+1 owner
	ghosts []int
	thr    []c31thread
}

type c31vm struct {
	sc                         *c31scenario
	intN, chanN, lockN, ghostN []string
	intI, chanI, lockI, ghostI map[string]int
	condLock                   map[string]string
	maxStates                  int
}

func c31index(names []string) map[string]int {
	m := map[string]int{}
	for i, n := range names {
		m[n] = i
	}
	return m
}

func (st *c31state) clone() *c31state {
	n := &c31state{
		ints:   append([]uint64(nil), st.ints...),
		chans:  append([]int(nil), st.chans...),
		locks:  append([]int(nil), st.locks...),
		ghosts: append([]int(nil), st.ghosts...),
		thr:    make([]c31thread, len(st.thr)),
	}
	for i, t := range st.thr {
		t.locals = append([]c31val(nil), t.locals...)
		n.thr[i] = t
	}
	return n
}

func (st *c31state) key() string {
	var sb strings.Builder
	fmt.Fprintf(&sb, "%v|%v|%v|%v", st.ints, st.chans, st.locks, st.ghosts)
	for _, t := range st.thr {
		fmt.Fprintf(&sb, "|%d,%d,%s,%d,%v", t.item, t.pc, t.fn, t.sleep, t.locals)
	}
	return sb.String()
}

type c31succ struct {
	st    *c31state
	label string
	err   string
}

func (vm *c31vm) env(st *c31state, t int, p *c31prog) *c31env {
	b := vm.sc.bind
	return &c31env{
		info: b.info,
		field: func(v *types.Var) (c31val, bool) {
			if n := c31lookup(b.ints, v); n != "" {
				return c31int(st.ints[vm.intI[n]]), true
			}
			if n := c31lookup(b.flags, v); n != "" {
				return c31bool(true), true
			}
			return c31unknown, false
		},
		local: func(o types.Object) (c31val, bool) {
			for i, x := range p.locals {
				if x == o && i < len(st.thr[t].locals) {
					return st.thr[t].locals[i], true
				}
			}
			return c31unknown, false
		},
	}
}

// step returns the successors of st when thread t runs up to and including
// its next visible instruction.  No successor and no error: t is blocked or done.
func (vm *c31vm) step(st0 *c31state, t int) []c31succ {
	var out []c31succ
	var run func(st *c31state, fuel int)
	fail := func(st *c31state, label, msg string) { out = append(out, c31succ{st: st, label: label, err: msg}) }
	run = func(st *c31state, fuel int) {
		th := &st.thr[t]
		if fuel <= 0 {
			fail(st, "T"+fmt.Sprint(t), "model does not make progress (loop without a visible step)")
			return
		}
		if th.fn == "" {
			items := vm.sc.threads[t]
			if th.item >= len(items) {
				return
			}
			it := items[th.item]
			if it.call == "" {
				g := it.ghost
				i := vm.ghostI[strings.TrimRight(g, "+-=0")]
				switch {
				case strings.HasSuffix(g, "+"):
					st.ghosts[i]++
				case strings.HasSuffix(g, "-"):
					if st.ghosts[i] > 0 {
						st.ghosts[i]--
					}
				case strings.HasSuffix(g, "=0"):
					st.ghosts[i] = 0
				}
				th.item++
				out = append(out, c31succ{st: st, label: fmt.Sprintf("T%d %s", t, g)})
				return
			}
			p := vm.sc.progs[it.call]
			th.fn = it.call
			th.pc = 0
			th.locals = make([]c31val, len(p.locals))
			run(st, fuel-1)
			return
		}
		p := vm.sc.progs[th.fn]
		in := p.ins[th.pc]
		label := fmt.Sprintf("T%d %s: %s", t, c31leaf(th.fn), c31short(in.node))
		done := func() { out = append(out, c31succ{st: st, label: label}) }
		ev := vm.env(st, t, p)
		switch in.op {
		case c31Nop:
			th.pc++
			run(st, fuel-1)
		case c31Jmp:
			th.pc = in.target
			run(st, fuel-1)
		case c31SetLocal:
			v := in.zero
			if in.expr != nil {
				v = ev.eval(in.expr)
			}
			th.locals[in.local] = v
			th.pc++
			if in.expr != nil && vm.sc.bind.mentions(in.expr, "int") {
				done() // a read of shared state is a visible step
				return
			}
			run(st, fuel-1)
		case c31If:
			v := ev.eval(in.expr)
			shared := vm.sc.bind.mentions(in.expr, "int")
			take := func(s *c31state, val bool) {
				x := &s.thr[t]
				if val {
					x.pc++
				} else {
					x.pc = in.target
				}
				if shared {
					out = append(out, c31succ{st: s, label: fmt.Sprintf("%s is %v", label, val)})
				} else {
					run(s, fuel-1)
				}
			}
			if v.k == 2 {
				take(st, v.b)
			} else {
				take(st.clone(), true)
				take(st, false)
			}
		case c31Set:
			i := vm.intI[in.name]
			old := st.ints[i]
			var nv uint64
			_, uns := c31width(in.typ)
			switch in.tok {
			case token.INC:
				nv = old + 1
			case token.DEC:
				nv = old - 1
			case token.ASSIGN:
				v := ev.eval(in.expr)
				if v.k != 1 {
					fail(st, label, "assigned value is not computable in the model")
					return
				}
				nv = v.u
			default:
				v := ev.eval(in.expr)
				r, ok := c31arith(in.tok, old, v.u, uns)
				if v.k != 1 || !ok {
					fail(st, label, "assigned value is not computable in the model")
					return
				}
				nv = r
			}
			st.ints[i] = c31trunc(nv, in.typ)
			th.pc++
			done()
		case c31Lock:
			i := vm.lockI[in.name]
			if st.locks[i] != 0 {
				return
			}
			st.locks[i] = t + 1
			th.pc++
			done()
		case c31Unlock:
			i := vm.lockI[in.name]
			if st.locks[i] != t+1 {
				fail(st, label, "unlock of "+in.name+" which this goroutine does not hold")
				return
			}
			st.locks[i] = 0
			th.pc++
			done()
		case c31Recv:
			i := vm.chanI[in.name]
			if st.chans[i] == 0 {
				return
			}
			st.chans[i]--
			th.pc++
			done()
		case c31Send:
			i := vm.chanI[in.name]
			if st.chans[i] >= vm.sc.chans[in.name].cap {
				return
			}
			st.chans[i]++
			th.pc++
			done()
		case c31Select:
			n := 0
			for _, c := range in.cases {
				i := vm.chanI[c.ch]
				ready := st.chans[i] > 0
				if c.send {
					ready = st.chans[i] < vm.sc.chans[c.ch].cap
				}
				if !ready {
					continue
				}
				n++
				s := st.clone()
				if c.send {
					s.chans[i]++
				} else {
					s.chans[i]--
				}
				s.thr[t].pc = c.target
				dir := "receive from "
				if c.send {
					dir = "send on "
				}
				out = append(out, c31succ{st: s, label: fmt.Sprintf("T%d %s: select takes %s%s", t, c31leaf(th.fn), dir, c.ch)})
			}
			if n == 0 && in.def >= 0 {
				th.pc = in.def
				out = append(out, c31succ{st: st, label: fmt.Sprintf("T%d %s: select takes default", t, c31leaf(th.fn))})
			}
		case c31Wait:
			li := vm.lockI[vm.condLock[in.name]]
			switch th.sleep {
			case 0:
				if st.locks[li] != t+1 {
					fail(st, label, "Wait without holding the condition's mutex")
					return
				}
				st.locks[li] = 0
				th.sleep = 1
				done()
			case 1:
				return
			case 2:
				if st.locks[li] != 0 {
					return
				}
				st.locks[li] = t + 1
				th.sleep = 0
				th.pc++
				out = append(out, c31succ{st: st, label: fmt.Sprintf("T%d %s: wakes from Wait", t, c31leaf(th.fn))})
			}
		case c31Broadcast:
			for j := range st.thr {
				if st.thr[j].sleep == 1 && vm.waitsOn(st, j, in.name) {
					st.thr[j].sleep = 2
				}
			}
			th.pc++
			done()
		case c31Signal:
			n := 0
			for j := range st.thr {
				if st.thr[j].sleep == 1 && vm.waitsOn(st, j, in.name) {
					n++
					s := st.clone()
					s.thr[j].sleep = 2
					s.thr[t].pc++
					out = append(out, c31succ{st: s, label: fmt.Sprintf("%s (wakes only T%d)", label, j)})
				}
			}
			if n == 0 {
				th.pc++
				done()
			}
		case c31Ret:
			it := vm.sc.threads[t][th.item]
			th.fn = ""
			th.pc = 0
			th.locals = nil
			if it.try {
				v := c31unknown
				if in.expr != nil {
					v = ev.eval(in.expr)
				}
				if v.k != 2 {
					fail(st, label, "boolean result is not computable in the model")
					return
				}
				if v.b {
					th.item++
				} else {
					th.item += 1 + it.skip
				}
				out = append(out, c31succ{st: st, label: fmt.Sprintf("T%d %s returns %v", t, c31leaf(it.call), v.b)})
				return
			}
			th.item++
			out = append(out, c31succ{st: st, label: fmt.Sprintf("T%d %s returns", t, c31leaf(it.call))})
		case c31Panic:
			fail(st, label, "panic reached")
		}
	}
	run(st0.clone(), 200)
	return out
}

func (vm *c31vm) waitsOn(st *c31state, j int, cond string) bool {
	th := st.thr[j]
	if th.fn == "" {
		return false
	}
	in := vm.sc.progs[th.fn].ins[th.pc]
	return in.op == c31Wait && in.name == cond
}

func c31leaf(key string) string {
	if i := strings.LastIndex(key, "."); i >= 0 {
		return key[i+1:]
	}
	return key
}

type c31result struct {
	states int
	err    string
	trace  []string
}

// c31explore runs a breadth-first search over all interleavings.
func c31explore(sc *c31scenario, condLock map[string]string, ghosts []string, budget int) c31result {
	vm := &c31vm{sc: sc, condLock: condLock, maxStates: budget}
	vm.intN = sortedKeys(sc.ints)
	vm.chanN = sortedKeys(sc.chans)
	vm.lockN = sortedKeys(sc.bind.locks)
	vm.ghostN = append([]string(nil), ghosts...)
	sort.Strings(vm.ghostN)
	vm.intI, vm.chanI, vm.lockI, vm.ghostI = c31index(vm.intN), c31index(vm.chanN), c31index(vm.lockN), c31index(vm.ghostN)
	init := &c31state{ints: make([]uint64, len(vm.intN)), chans: make([]int, len(vm.chanN)), locks: make([]int, len(vm.lockN)), ghosts: make([]int, len(vm.ghostN)), thr: make([]c31thread, len(sc.threads))}
	for i, n := range vm.intN {
		init.ints[i] = sc.ints[n]
	}
	for i, n := range vm.chanN {
		init.chans[i] = sc.chans[n].init
	}
	type node struct {
		parent int
		label  string
	}
	var nodes []node
	var states []*c31state
	seen := map[string]bool{init.key(): true}
	states = append(states, init)
	nodes = append(nodes, node{parent: -1})
	traceOf := func(i int, last string) []string {
		var tr []string
		if last != "" {
			tr = append(tr, last)
		}
		for ; i > 0; i = nodes[i].parent {
			tr = append(tr, nodes[i].label)
		}
		for a, b := 0, len(tr)-1; a < b; a, b = a+1, b-1 {
			tr[a], tr[b] = tr[b], tr[a]
		}
		return tr
	}
	ghostMap := func(st *c31state) map[string]int {
		m := map[string]int{}
		for i, n := range vm.ghostN {
			m[n] = st.ghosts[i]
		}
		return m
	}
	for head := 0; head < len(states); head++ {
		st := states[head]
		if sc.invariant != nil {
			if msg := sc.invariant(ghostMap(st)); msg != "" {
				return c31result{states: len(states), err: msg, trace: traceOf(head, "")}
			}
		}
		enabled := 0
		for t := range st.thr {
			for _, s := range vm.step(st, t) {
				if s.err != "" {
					return c31result{states: len(states), err: s.err, trace: traceOf(head, s.label)}
				}
				enabled++
				k := s.st.key()
				if seen[k] {
					continue
				}
				seen[k] = true
				states = append(states, s.st)
				nodes = append(nodes, node{parent: head, label: s.label})
				if len(states) > vm.maxStates {
					return c31result{states: len(states), err: "state space larger than the exploration budget"}
				}
			}
		}
		if enabled == 0 {
			var stuck []string
			for t, th := range st.thr {
				if th.fn != "" || th.item < len(sc.threads[t]) {
					where := "before its next call"
					if th.fn != "" {
						where = "in " + c31leaf(th.fn) + " at `" + c31short(sc.progs[th.fn].ins[th.pc].node) + "`"
						if th.sleep == 1 {
							where += " (asleep in Wait, never woken)"
						}
					}
					stuck = append(stuck, fmt.Sprintf("T%d blocked %s", t, where))
				}
			}
			if len(stuck) > 0 {
				return c31result{states: len(states), err: "deadlock: " + strings.Join(stuck, "; "), trace: traceOf(head, "")}
			}
		}
	}
	return c31result{states: len(states)}
}

func c31traceStr(tr []string) string {
	if len(tr) > 28 {
		tr = append(append([]string(nil), tr[:10]...), append([]string{"..."}, tr[len(tr)-16:]...)...)
	}
	return strings.Join(tr, " ; ")
}
