package main

import (
	"fmt"
	"go/ast"
	"go/token"
	"go/types"
	"os"
	"path/filepath"
	"sort"
	"strings"
)

func init() {
	register(&Prop{
		ID:        "C15",
		Level:     "translation_validation",
		Technique: "translation validation of the generated codec: an independent parser and interpreter of generate/definitions/* produces, per struct type and per version, the linear wire schema; a symbolic extractor partially evaluates every generated AppendTo and readFrom of pkg/kmsg at each concrete version (guards folded, field paths recovered through the shadowing idiom, kbin callees resolved by object) and the three schemas are compared step by step; Default() stores, tag sections, Key/MaxVersion/IsFlexible and the composite kbin append primitives are validated the same way",
		Explanation: "(1) definitions: all files of generate/definitions parse with the checker's own DSL parser (grammar of generate/README.md), anything unrecognised is undecided; " +
			"(2) writer==definition: for every request, response and not-top-level struct with encoding, at every version 0..max, the op sequence written by AppendTo (primitive kind incl. compact/nullable variant, field path, array length kind and nullability, nullable-struct marker, enum conversion, pointer-string handling, raw bytes) equals the schema interpreted from the definition; tag sections: known tags are 0..n-1 in order, each written only under `field != default` (default from the definition, else the zero value), with the size prefix the wire type requires (constant for fixed-size primitives, back-patched otherwise), the tag count includes len(toEncode) and UnknownTags.Len(), unknown tags are appended last; " +
			"(3) reader==definition: same for readFrom, for unsafe=false and unsafe=true (an aliasing Unsafe* read never occurs on the copying path): every read is stored exactly once into the field the definition names; readFrom starts with v.Default() and defaults every freshly allocated array element, embedded struct and nullable struct before reading into it; arrays use the length read + `if !b.Ok()` bail-out + allocation + `i < l` loop idiom, nullable arrays keep nil for a negative length exactly from the nullable version on; each known tag is read from a reader confined to its size and must be fully consumed, the default arm keeps unknown tags under their key; " +
			"(4) writer==reader: the two extracted schemas agree directly (what AppendTo writes is what ReadFrom consumes, same fields); " +
			"(5) default==definition: the stores of every generated Default() are exactly the explicit defaults of the definition, recursively through embedded structs; " +
			"(6) struct fields, Key(), MaxVersion(), IsFlexible() threshold and the ReadFrom/UnsafeReadFrom wrappers match the definition; every AppendTo/readFrom/Default of package kmsg is either validated or a listed exclusion; " +
			"(7) composite kbin append primitives (strings, bytes, array lengths, varint wrappers) symbolically evaluate to the length-prefix + payload sequence of the README wire format over the leaf encoders, for every input (a length-conditional fast path is checked against the uvarint byte boundary); " +
			"(8) tags-container (hand-written kmsg.Tags, the sink and source of all unknown tags): Set stores every (key, val) unconditionally into the map it allocates on demand (no return, delete or condition on the tag); Len is len(map); Each visits every stored key once in ascending key order; AppendEach writes uvarint key, uvarint len(val), val per tag; internalReadTags/ReadTags loop over the count read and store each tag under the key read with b.Span of exactly the size read.",
		NotDecided: "agreement of the definitions with Apache Kafka's JSON message definitions (not in the sandbox); the leaf encoders/decoders of kbin (AppendUint16/32/64, AppendUvarint, appendUvarlong, AppendBool/Int8 and all kbin.Reader methods: C17/C16); hand-written codecs, listed by name as `excluded` obligations: Record (pkg/kmsg/record.go; its definition is commented out in definitions/misc because of the varint->varlong timestamp switch) and StickyMemberMetadata (pkg/kmsg/api.go; `no encoding`, custom v1->v0 fallback); value-level behaviour of Tags beyond the structural clauses of (8) (e.g. aliasing of the stored slice with the input buffer, SkipTags); behaviour of ReadFrom into a dirty (reused) value beyond the Default() call; versions outside 0..MaxVersion.",
		Assumptions: []string{
			"generate/README.md describes the wire format of each DSL type (sizes, compact encodings from the flexible version on, tag sections)",
			"kbin leaf primitives mean what their names say (C17)",
		},
		Run: runC15,
	})
}

type c15Run struct {
	c    *Ctx
	m    *Module
	d    *c15Defs
	goOf map[*c15Struct]*types.Named
	defs map[*types.TypeName]*c15Struct
	root map[*c15Struct]*c15Struct // flexible context of anonymous structs
	cmp  int                       // schema steps compared
	vers int                       // (type, version) pairs compared
}

var c15Excluded = map[string]string{
	"Record":               "hand-written in pkg/kmsg/record.go; its definition is commented out in generate/definitions/misc (varint->varlong timestamp switch)",
	"StickyMemberMetadata": "hand-written in pkg/kmsg/api.go; marked `no encoding` in the definitions (no version on the wire, v1 decode falls back to v0)",
}

func runC15(c *Ctx) {
	m := c.Load("pkg/kmsg")
	if m == nil {
		return
	}
	pkg := m.Pkg("kmsg")
	if pkg == nil {
		c.Undecided("load", "pkg/kmsg", token.NoPos, m, "package kmsg not found")
		return
	}
	dir := filepath.Join(repoRoot, "generate", "definitions")
	d, err := c15LoadDefs(dir)
	if err != nil {
		c.Undecided("definitions", "generate/definitions", token.NoPos, m, err.Error())
		return
	}
	r := &c15Run{c: c, m: m, d: d, goOf: map[*c15Struct]*types.Named{}, defs: map[*types.TypeName]*c15Struct{}, root: map[*c15Struct]*c15Struct{}}

	// (1) definitions
	bad := map[string][]string{}
	for _, e := range d.Errs {
		f := e[:strings.Index(e, ":")]
		bad[f] = append(bad[f], e)
	}
	for _, f := range d.Files {
		if es := bad[f]; len(es) > 0 {
			for i, e := range es {
				if i >= 5 {
					break
				}
				c.Undecided("definitions", "generate/definitions/"+f+"#"+fmt.Sprint(i), token.NoPos, m, "definition line not understood by the independent parser: "+e)
			}
		} else {
			c.OK("definitions", "generate/definitions/"+f, token.NoPos, m, "parsed")
		}
	}
	c.Floor("definitions", len(d.Files), 90)

	// bind definitions to Go types
	for _, s := range d.Structs {
		obj, _ := pkg.Types.Scope().Lookup(s.Name).(*types.TypeName)
		if obj == nil {
			c.Fail("struct-fields", "kmsg."+s.Name, token.NoPos, m, fmt.Sprintf("definition %s (%s:%d) has no Go type in package kmsg", s.Name, s.File, s.Line))
			continue
		}
		n, _ := obj.Type().(*types.Named)
		if n == nil {
			c.Undecided("struct-fields", "kmsg."+s.Name, obj.Pos(), m, "Go type is not a named struct")
			continue
		}
		r.bind(s, n, s)
	}
	r.structFields()

	// (2)-(4) codecs
	nCodec := 0
	for _, s := range d.Structs {
		if why, ex := c15Excluded[s.Name]; ex {
			c.OK("excluded", "kmsg."+s.Name, token.NoPos, m, "codec not validated: "+why)
			continue
		}
		if !s.TopLevel && s.NoEncoding {
			continue // validated inline wherever it is embedded
		}
		nCodec++
		r.codec(s)
	}
	for name, why := range c15Excluded {
		if d.ByName[name] == nil {
			c.OK("excluded", "kmsg."+name, token.NoPos, m, "codec not validated: "+why)
		}
	}
	c.Floor("writer==definition", c.ruleCnt["writer==definition"], 200)
	c.Floor("reader==definition", c.ruleCnt["reader==definition"], 200)
	c.Floor("writer==reader", c.ruleCnt["writer==reader"], 200)
	c.Floor("versions-compared", r.vers, 750)

	// (5) defaults
	r.defaults()
	c.Floor("default==definition", c.ruleCnt["default==definition"], 515)

	// (6) methods and coverage
	r.methods()
	r.coverage()
	c.Floor("type-methods", c.ruleCnt["type-methods"], 950)

	// (7) kbin composites
	c15Kbin(c, m)

	// (8) the unknown-tag container
	c15Tags(c, m)

	c.Set("programs", len(r.goOf))
	c.Set("codec_types", nCodec)
	c.Set("type_versions", r.vers)
	c.Set("disagreements_checked", r.cmp)
	c.Floor("struct-types", len(r.goOf), 515)
	c.Floor("schema-steps-compared", r.cmp, 45000)
}

// bind associates a definition struct with its Go type and recurses through
// field types (anonymous structs are found through the Go field's type).
func (r *c15Run) bind(s *c15Struct, n *types.Named, root *c15Struct) {
	if o, ok := r.goOf[s]; ok {
		if o != n {
			r.c.Fail("struct-fields", "kmsg."+n.Obj().Name(), n.Obj().Pos(), r.m, fmt.Sprintf("definition struct %s is bound to two Go types %s and %s", s.Name, o.Obj().Name(), n.Obj().Name()))
		}
		return
	}
	if o, ok := r.defs[n.Obj()]; ok && o != s {
		r.c.Fail("struct-fields", "kmsg."+n.Obj().Name(), n.Obj().Pos(), r.m, fmt.Sprintf("Go type %s is used for two definition structs %s and %s", n.Obj().Name(), o.Name, s.Name))
		return
	}
	r.goOf[s], r.defs[n.Obj()], r.root[s] = n, s, root
	st, ok := n.Underlying().(*types.Struct)
	if !ok {
		return
	}
	for _, f := range s.Fields {
		t := f.T
		if t.Kind == "array" {
			t = t.Elem
		}
		if t.Kind != "struct" || t.Struct == nil {
			continue
		}
		var gt types.Type
		for i := 0; i < st.NumFields(); i++ {
			if st.Field(i).Name() == f.Name {
				gt = st.Field(i).Type()
			}
		}
		for gt != nil {
			switch u := gt.(type) {
			case *types.Slice:
				gt = u.Elem()
				continue
			case *types.Pointer:
				gt = u.Elem()
				continue
			}
			break
		}
		gn, _ := gt.(*types.Named)
		if gn == nil {
			continue // reported by structFields
		}
		sub := t.Struct
		if sub.Anonymous {
			r.bind(sub, gn, root)
		} else {
			if gn.Obj().Name() != sub.Name {
				r.c.Fail("struct-fields", "kmsg."+n.Obj().Name()+"."+f.Name, n.Obj().Pos(), r.m, fmt.Sprintf("definition says the field is a %s, the Go field is a %s", sub.Name, gn.Obj().Name()))
			}
			r.bind(sub, gn, sub)
		}
	}
}

// goTypeOf renders the Go type a definition type must have.
func (r *c15Run) wantGoType(t *c15Type) string {
	switch t.Kind {
	case "prim", "enum":
		if t.Kind == "enum" {
			return t.Enum
		}
		return map[string]string{"Bool": "bool", "Int8": "int8", "Int16": "int16", "Uint16": "uint16", "Int32": "int32", "Int64": "int64",
			"Float64": "float64", "Uint32": "uint32", "Varint": "int32", "Varlong": "int64", "Uuid": "[16]byte"}[t.Prim]
	case "string", "varint-string":
		return "string"
	case "nullable-string":
		return "*string"
	case "bytes", "nullable-bytes", "varint-bytes", "raw":
		return "[]byte"
	case "array":
		return "[]" + r.wantGoType(t.Elem)
	case "struct":
		n := "?"
		if g := r.goOf[t.Struct]; g != nil {
			n = g.Obj().Name()
		}
		if t.Nullable {
			return "*" + n
		}
		return n
	}
	return "?"
}

func (r *c15Run) structFields() {
	var ss []*c15Struct
	for s := range r.goOf {
		ss = append(ss, s)
	}
	sort.Slice(ss, func(i, j int) bool { return r.goOf[ss[i]].Obj().Name() < r.goOf[ss[j]].Obj().Name() })
	for _, s := range ss {
		n := r.goOf[s]
		cons := "kmsg." + n.Obj().Name()
		st, ok := n.Underlying().(*types.Struct)
		if !ok {
			r.c.Fail("struct-fields", cons, n.Obj().Pos(), r.m, "not a struct type")
			continue
		}
		var want []string
		if s.TopLevel {
			want = append(want, "Version int16")
		}
		for _, f := range s.Fields {
			want = append(want, f.Name+" "+r.wantGoType(f.T))
		}
		if r.root[s].FlexibleAt >= 0 {
			want = append(want, "UnknownTags Tags")
		}
		var got []string
		q := func(p *types.Package) string { return "" }
		for i := 0; i < st.NumFields(); i++ {
			got = append(got, st.Field(i).Name()+" "+types.TypeString(st.Field(i).Type(), q))
		}
		r.c.Check(strings.Join(want, "; ") == strings.Join(got, "; "), "struct-fields", cons, n.Obj().Pos(), r.m,
			fmt.Sprintf("%d fields as defined at %s:%d", len(got), s.File, s.Line),
			fmt.Sprintf("Go struct fields differ from the definition (%s:%d): want {%s}, have {%s}", s.File, s.Line, strings.Join(want, "; "), strings.Join(got, "; ")))
	}
}

// diff returns the first differing line.
func c15Diff(a, b []string) (int, bool) {
	for i := 0; i < len(a) || i < len(b); i++ {
		if i >= len(a) || i >= len(b) || a[i] != b[i] {
			return i, true
		}
	}
	return 0, false
}

func c15At(l []string, i int) string {
	if i < len(l) {
		return strings.TrimSpace(l[i])
	}
	return "(end of message)"
}

// codec validates AppendTo and readFrom of one struct at all its versions.
func (r *c15Run) codec(s *c15Struct) {
	c, m := r.c, r.m
	wf := m.Func("kmsg." + s.Name + ".AppendTo")
	rf := m.Func("kmsg." + s.Name + ".readFrom")
	if wf == nil || rf == nil {
		c.Fail("writer==definition", "kmsg."+s.Name, token.NoPos, m, fmt.Sprintf("definition %s (%s:%d) is encodable but the package has no AppendTo/readFrom for it", s.Name, s.File, s.Line))
		return
	}
	c.Touch(wf)
	c.Touch(rf)
	vers := s.versionsOf()
	type rep struct{ fails, und int }
	reps := map[string]*rep{"writer==definition": {}, "reader==definition": {}, "writer==reader": {}}
	steps := map[string]int{}
	report := func(rule string, f *Func, v int, pos token.Pos, undecided bool, msg string) {
		rp := reps[rule]
		if undecided {
			rp.und++
			if rp.und > 2 {
				return
			}
			c.Undecided(rule, fmt.Sprintf("%s@v%d", f.Key, v), pos, m, msg)
			return
		}
		rp.fails++
		if rp.fails > 3 {
			return
		}
		c.Fail(rule, fmt.Sprintf("%s@v%d", f.Key, v), pos, m, msg)
	}
	for _, v := range vers {
		r.vers++
		din := &c15Interp{d: r.d}
		dw := din.Schema(s, v)
		drn := &c15Interp{d: r.d, reader: true}
		dr := drn.Schema(s, v)
		for _, e := range append(din.errs, drn.errs...) {
			report("writer==definition", wf, v, wf.Pos(), true, "definition not interpretable: "+e)
		}
		if len(din.errs)+len(drn.errs) > 0 {
			continue
		}
		dwl, _ := c15Lines(dw, false)
		drl, _ := c15Lines(dr, false)

		wops, werr := c15ExtractWriter(m, wf, v)
		if werr != nil {
			p := werr.pos
			if !p.IsValid() {
				p = wf.Pos()
			}
			report("writer==definition", wf, v, p, !werr.viol, fmt.Sprintf("AppendTo at version %d: %s", v, werr.msg))
		} else {
			wl, wp := c15Lines(wops, false)
			steps["writer==definition"] += len(dwl)
			if i, diff := c15Diff(dwl, wl); diff {
				p := wf.Pos()
				if i < len(wp) {
					p = wp[i]
				} else if len(wp) > 0 {
					p = wp[len(wp)-1]
				}
				report("writer==definition", wf, v, p, false, fmt.Sprintf("%s version %d, step %d: the definition (%s) requires `%s`, AppendTo writes `%s`: the bytes on the wire differ from the protocol definition", s.Name, v, i+1, s.File, c15At(dwl, i), c15At(wl, i)))
			}
		}
		var rops []*c15Op
		rok := true
		for _, unsafe := range []bool{false, true} {
			ops, rerr := c15ExtractReader(m, rf, v, unsafe)
			if rerr != nil {
				p := rerr.pos
				if !p.IsValid() {
					p = rf.Pos()
				}
				report("reader==definition", rf, v, p, !rerr.viol, fmt.Sprintf("readFrom at version %d (unsafe=%v): %s", v, unsafe, rerr.msg))
				rok = false
				break
			}
			rl, rp := c15Lines(ops, false)
			steps["reader==definition"] += len(drl)
			if i, diff := c15Diff(drl, rl); diff {
				p := rf.Pos()
				if i < len(rp) {
					p = rp[i]
				} else if len(rp) > 0 {
					p = rp[len(rp)-1]
				}
				report("reader==definition", rf, v, p, false, fmt.Sprintf("%s version %d (unsafe=%v), step %d: the definition (%s) requires `%s`, readFrom does `%s`: valid bytes are mis-decoded or a field is not recovered", s.Name, v, unsafe, i+1, s.File, c15At(drl, i), c15At(rl, i)))
				rok = false
				break
			}
			rops = ops
		}
		if os.Getenv("C15_DUMP") == fmt.Sprintf("%s@%d", s.Name, v) {
			wl, _ := c15Lines(wops, false)
			rl, _ := c15Lines(rops, false)
			fmt.Printf("== definition (writer) %s v%d\n%s\n== AppendTo\n%s\n== definition (reader)\n%s\n== readFrom\n%s\n", s.Name, v,
				strings.Join(dwl, "\n"), strings.Join(wl, "\n"), strings.Join(drl, "\n"), strings.Join(rl, "\n"))
		}
		if werr == nil && rok && rops != nil {
			wl, _ := c15Lines(wops, true)
			rl, rp := c15Lines(rops, true)
			steps["writer==reader"] += len(wl)
			if i, diff := c15Diff(wl, rl); diff {
				p := rf.Pos()
				if i < len(rp) {
					p = rp[i]
				}
				report("writer==reader", rf, v, p, false, fmt.Sprintf("%s version %d, step %d: AppendTo writes `%s` but readFrom consumes `%s`", s.Name, v, i+1, c15At(wl, i), c15At(rl, i)))
			}
		}
	}
	for _, rule := range []string{"writer==definition", "reader==definition", "writer==reader"} {
		rp := reps[rule]
		r.cmp += steps[rule]
		f := wf
		if rule != "writer==definition" {
			f = rf
		}
		if rp.fails == 0 && rp.und == 0 {
			c.OK(rule, f.Key, f.Pos(), m, fmt.Sprintf("%d versions, %d schema steps agree (%s:%d)", len(vers), steps[rule], s.File, s.Line))
		} else if rp.fails > 3 || rp.und > 2 {
			c.Fail(rule, f.Key+" (more)", f.Pos(), m, fmt.Sprintf("%d more versions disagree, %d more undecided", max(0, rp.fails-3), max(0, rp.und-2)))
		}
	}
}

// ---- Default() ----

// c15DefaultStores extracts the stores of a Default method.
func c15DefaultStores(m *Module, f *Func) (stores map[string]string, pos map[string]token.Pos, err *c15Abort) {
	x := &c15W{c15X: c15X{m: m, info: f.Info(), fn: f}, env: map[types.Object]*c15wval{}}
	stores, pos = map[string]string{}, map[string]token.Pos{}
	defer func() {
		if r := recover(); r != nil {
			if a, ok := r.(*c15Abort); ok {
				err = a
				return
			}
			panic(r)
		}
	}()
	d := f.Decl
	if d.Recv != nil && len(d.Recv.List) == 1 && len(d.Recv.List[0].Names) == 1 {
		x.env[x.info.Defs[d.Recv.List[0].Names[0]]] = &c15wval{kind: "path"}
	}
	var walk func(list []ast.Stmt)
	walk = func(list []ast.Stmt) {
		for _, s := range list {
			switch s := s.(type) {
			case *ast.BlockStmt:
				walk(s.List)
			case *ast.AssignStmt:
				if len(s.Lhs) != 1 || len(s.Rhs) != 1 {
					x.fail(s, "multi-assignment in Default")
				}
				if id, ok := s.Lhs[0].(*ast.Ident); ok {
					if id.Name == "_" {
						continue
					}
					if s.Tok == token.DEFINE {
						x.env[x.info.Defs[id]] = x.val(s.Rhs[0])
						continue
					}
				}
				sel, ok := unparen(s.Lhs[0]).(*ast.SelectorExpr)
				if !ok || s.Tok != token.ASSIGN {
					x.fail(s, "statement %s in Default is not a field store", nodeStr(s))
				}
				p := x.pathOf(sel)
				var val string
				if tv, ok := x.info.Types[s.Rhs[0]]; ok && tv.Value != nil {
					val = c15ConstStr(tv.Value)
				} else if id, ok := unparen(s.Rhs[0]).(*ast.Ident); ok && x.info.Uses[id] == types.Universe.Lookup("nil") {
					val = "nil"
				} else {
					x.fail(s, "default value %s is not a constant", exprStr(s.Rhs[0]))
				}
				if _, dup := stores[p]; dup {
					x.fail(s, "field %s is defaulted twice", p)
				}
				stores[p], pos[p] = val, s.Pos()
			default:
				x.fail(s, "statement %s in Default is not a field store", nodeStr(s))
			}
		}
	}
	walk(d.Body.List)
	return
}

func (r *c15Run) defaults() {
	c, m := r.c, r.m
	for _, f := range m.FuncsIn("kmsg") {
		if f.Decl.Name.Name != "Default" || f.Decl.Recv == nil {
			continue
		}
		tn := recvTypeName(f.Decl.Recv.List[0].Type)
		if why, ex := c15Excluded[tn]; ex {
			if r.defOfName(tn) == nil {
				c.OK("excluded", f.Key, f.Pos(), m, "Default not validated: "+why)
				continue
			}
		}
		s := r.defOfName(tn)
		if s == nil {
			c.Undecided("default==definition", f.Key, f.Pos(), m, "Default method of a type that no definition struct is bound to")
			continue
		}
		c.Touch(f)
		want, errs := c15DefaultsOf(s, s.WithVersionField)
		if len(errs) > 0 {
			c.Undecided("default==definition", f.Key, f.Pos(), m, strings.Join(errs, "; "))
			continue
		}
		got, pos, err := c15DefaultStores(m, f)
		if err != nil {
			c.Undecided("default==definition", f.Key, err.pos, m, "Default cannot be classified: "+err.msg)
			continue
		}
		var diffs []string
		p := f.Pos()
		for _, k := range sortedKeys(want) {
			if g, ok := got[k]; !ok {
				diffs = append(diffs, fmt.Sprintf("%s: the definition's default %s is not set", k, want[k]))
			} else if g != want[k] {
				diffs = append(diffs, fmt.Sprintf("%s is defaulted to %s, the definition says %s", k, g, want[k]))
				p = pos[k]
			}
		}
		for _, k := range sortedKeys(got) {
			if _, ok := want[k]; !ok {
				diffs = append(diffs, fmt.Sprintf("%s is defaulted to %s, the definition has no default for it", k, got[k]))
				p = pos[k]
			}
		}
		c.Check(len(diffs) == 0, "default==definition", f.Key, p, m, fmt.Sprintf("%d defaults as defined (%s:%d)", len(want), s.File, s.Line),
			fmt.Sprintf("Default() of %s differs from %s:%d: %s; fields absent at a version decode to the wrong value and tagged fields are written/skipped wrongly", tn, s.File, s.Line, strings.Join(diffs, "; ")))
	}
}

func (r *c15Run) defOfName(goName string) *c15Struct {
	obj, _ := r.m.Pkg("kmsg").Types.Scope().Lookup(goName).(*types.TypeName)
	if obj == nil {
		return nil
	}
	return r.defs[obj]
}

// ---- Key / MaxVersion / IsFlexible / ReadFrom wrappers ----

// c15SingleReturn returns the single returned expression of a one-statement method.
func c15SingleReturn(f *Func) ast.Expr {
	if f == nil || len(f.Decl.Body.List) != 1 {
		return nil
	}
	rs, ok := f.Decl.Body.List[0].(*ast.ReturnStmt)
	if !ok || len(rs.Results) != 1 {
		return nil
	}
	return rs.Results[0]
}

func (r *c15Run) methods() {
	c, m := r.c, r.m
	rule := "type-methods"
	constRet := func(s *c15Struct, name string, want int) {
		key := "kmsg." + s.Name + "." + name
		f := m.Func(key)
		if f == nil {
			c.Fail(rule, key, token.NoPos, m, "method missing")
			return
		}
		e := c15SingleReturn(f)
		n, ok := int64(0), false
		if e != nil {
			n, ok = constInt(f.Info(), e)
		}
		if !ok {
			c.Undecided(rule, key, f.Pos(), m, "body is not `return <constant>`")
			return
		}
		c.Check(int(n) == want, rule, key, f.Pos(), m, fmt.Sprintf("returns %d as defined", want),
			fmt.Sprintf("%s() returns %d, the definition (%s:%d) says %d", name, n, s.File, s.Line, want))
	}
	for _, s := range r.d.Structs {
		if _, ex := c15Excluded[s.Name]; ex {
			continue
		}
		if s.TopLevel {
			constRet(s, "Key", s.Key)
			constRet(s, "MaxVersion", s.MaxVersion)
		}
		if s.TopLevel || (!s.NoEncoding && s.FlexibleAt >= 0) {
			key := "kmsg." + s.Name + ".IsFlexible"
			f := m.Func(key)
			if f == nil {
				c.Fail(rule, key, token.NoPos, m, "method missing")
			} else {
				e := c15SingleReturn(f)
				got, und := -2, true
				if e != nil {
					if b, ok := constBool(f.Info(), e); ok && !b {
						got, und = -1, false
					} else if be, ok := unparen(e).(*ast.BinaryExpr); ok && be.Op == token.GEQ {
						if sel, ok := unparen(be.X).(*ast.SelectorExpr); ok && sel.Sel.Name == "Version" && fieldOfSel(f.Info(), sel) != nil {
							if id, ok := unparen(sel.X).(*ast.Ident); ok && f.Decl.Recv != nil && len(f.Decl.Recv.List[0].Names) == 1 && f.Info().Uses[id] == f.Info().Defs[f.Decl.Recv.List[0].Names[0]] {
								if n, ok := constInt(f.Info(), be.Y); ok {
									got, und = int(n), false
								}
							}
						}
					}
				}
				if und {
					c.Undecided(rule, key, f.Pos(), m, "body is neither `return false` nor `return v.Version >= N`")
				} else {
					c.Check(got == s.FlexibleAt, rule, key, f.Pos(), m, fmt.Sprintf("flexible from %d as defined", s.FlexibleAt),
						fmt.Sprintf("IsFlexible() threshold is %d, the definition (%s:%d) says %d: the request header and body would use different encodings", got, s.File, s.Line, s.FlexibleAt))
				}
			}
		}
		if s.TopLevel || !s.NoEncoding {
			for name, want := range map[string]bool{"ReadFrom": false, "UnsafeReadFrom": true} {
				key := "kmsg." + s.Name + "." + name
				f := m.Func(key)
				if f == nil {
					c.Fail(rule, key, token.NoPos, m, "method missing")
					continue
				}
				ok := false
				if call, _ := c15SingleReturn(f).(*ast.CallExpr); call != nil && len(call.Args) == 2 {
					if fn, _ := calleeObj(f.Info(), call).(*types.Func); fn != nil && fn.Name() == "readFrom" {
						rf := m.Func("kmsg." + s.Name + ".readFrom")
						sel, _ := unparen(call.Fun).(*ast.SelectorExpr)
						if rf != nil && fn == rf.Obj && sel != nil {
							rid, _ := unparen(sel.X).(*ast.Ident)
							aid, _ := unparen(call.Args[0]).(*ast.Ident)
							b, okb := constBool(f.Info(), call.Args[1])
							ps := f.Decl.Type.Params
							if rid != nil && aid != nil && okb && b == want && ps != nil && len(ps.List) == 1 && len(ps.List[0].Names) == 1 &&
								f.Info().Uses[aid] == f.Info().Defs[ps.List[0].Names[0]] && f.Info().Uses[rid] == f.Info().Defs[f.Decl.Recv.List[0].Names[0]] {
								ok = true
							}
						}
					}
				}
				c.Check(ok, rule, key, f.Pos(), m, fmt.Sprintf("delegates to readFrom(src, %v)", want), fmt.Sprintf("%s is not `return v.readFrom(src, %v)`", name, want))
			}
		}
	}
}

// coverage: no codec method of the package escapes validation.
func (r *c15Run) coverage() {
	c, m := r.c, r.m
	for _, f := range m.FuncsIn("kmsg") {
		n := f.Decl.Name.Name
		if f.Decl.Recv == nil || (n != "AppendTo" && n != "readFrom" && n != "ReadFrom" && n != "UnsafeReadFrom") {
			continue
		}
		tn := recvTypeName(f.Decl.Recv.List[0].Type)
		if _, ex := c15Excluded[tn]; ex {
			continue
		}
		s := r.d.ByName[tn]
		if s == nil || (!s.TopLevel && s.NoEncoding) {
			c.Undecided("codec-coverage", f.Key, f.Pos(), m, "codec method of a type that has no encodable definition and is not a listed exclusion")
		}
	}
	c.OK("codec-coverage", "kmsg", token.NoPos, m, "every AppendTo/readFrom/ReadFrom/UnsafeReadFrom is validated or a listed exclusion")
}
