package main

import (
	"fmt"
	"go/ast"
	"go/token"
	"go/types"
	"strings"

	"golang.org/x/tools/go/cfg"
)

// ---------------------------------------------------------------- (2) who may call setOffset, and with what

func (x *c04x) setOffsetTable() {
	c, m := x.c, x.m
	rule := "set-offset-callers"
	n := 0
	for _, f := range x.funcs {
		info := f.Info()
		i := 0
		for _, call := range c04calls(f.Decl.Body, info, c04kSet) {
			n++
			i++
			c.Touch(f)
			recv, _, _ := c04recv(info, call, c04kSet)
			cons := fmt.Sprintf("%s: %s.setOffset #%d", f.Key, exprStr(recv), i)
			arg := call.Args[0]
			lit, _ := arg.(*ast.CompositeLit)
			kv := map[string]string{}
			if lit != nil {
				for _, el := range lit.Elts {
					if e, ok := el.(*ast.KeyValueExpr); ok {
						kv[exprStr(e.Key)] = c04str(e.Value)
					}
				}
			}
			sameEntry := func() bool {
				ent, ok := c04entry(info, recv)
				if !ok {
					return false
				}
				sel, ok := unparen(arg).(*ast.SelectorExpr)
				return ok && sel.Sel.Name == "cursorOffset" && c04obj(info, sel.X) != nil && c04obj(info, sel.X) == c04obj(info, ent)
			}
			// set before usable within the block
			g := f.GraphFor(call)
			l, okl := g.LocOf(call)
			usableBefore := false
			if okl {
				for k := 0; k < l.I; k++ {
					ast.Inspect(g.C.Blocks[l.B].Nodes[k], func(z ast.Node) bool {
						if r, _, ok := c04recv(info, z, c04kAllow); ok && c04str(r) == c04str(recv) {
							usableBefore = true
						}
						return true
					})
				}
				// same node (one-line closures): allowUsable textually before
				ast.Inspect(g.C.Blocks[l.B].Nodes[l.I], func(z ast.Node) bool {
					if r, ac, ok := c04recv(info, z, c04kAllow); ok && c04str(r) == c04str(recv) && ac.Pos() < call.Pos() {
						usableBefore = true
					}
					return true
				})
			}
			if usableBefore {
				c.Fail("set-before-usable", cons, call.Pos(), m, "the cursor is made usable before its offset is stored: allowUsable lets a fetch use the cursor immediately, which then requests the old offset again (records returned twice) while this store races it")
			} else {
				c.OK("set-before-usable", cons, call.Pos(), m, "")
			}
			switch f.Key {
			case "kgo.cursor.unset":
				c.Check(lit != nil && kv["offset"] == "-1" && kv["lastConsumedEpoch"] == "-1", rule, cons, call.Pos(), m, "unset: offset -1, epoch -1", "unset does not store the -1 sentinels")
			case c04kFinSet, "kgo.source.takeBuffered":
				c.Check(sameEntry(), rule, cons, call.Pos(), m, "the entry's own frozen offset", "a take path stores `"+exprStr(arg)+"` into `"+exprStr(recv)+"`: not the same entry's frozen offset, so the cursor no longer equals the offset after the last record handed out")
			case "kgo.source.takeNBuffered":
				c.OK(rule, cons, call.Pos(), m, "see taken-offset-value")
			case "kgo.consumer.assignPartitions":
				switch {
				case kv["offset"] == "assignPart.at" && kv["lastConsumedEpoch"] == "assignPart.epoch":
					facts := g.FactsAt(l)
					c.Check(c04fact(facts, "how==assignWithoutInvalidating", false), rule, cons, call.Pos(), m, "SetOffsets: the session is stopped", "a used cursor's offset is overwritten without the session having been stopped")
				case kv["offset"] == "offset.at" && kv["lastConsumedEpoch"] == "-1":
					facts := g.FactsAt(l)
					c.Check(c04fact(facts, "offset.at>=0", true), rule, cons, call.Pos(), m, "new assignment with an exact offset", "exact-offset assignment without the offset.at >= 0 guard")
				default:
					c.Fail(rule, cons, call.Pos(), m, "unrecognised assignment store: "+exprStr(arg))
				}
			case "kgo.consumerSession.handleListOrEpochResults":
				c.Check(lit != nil && kv["offset"] == "load.offset" && kv["lastConsumedEpoch"] == "load.leaderEpoch" && c04str(recv) == "load.cursor", rule, cons, call.Pos(), m, "the loaded offset into the loaded cursor", "a list/epoch result is stored with another offset or into another cursor")
			default:
				c.Fail(rule, cons, call.Pos(), m, "cursor.setOffset is called outside the confirmed table (unset, finishUsingAllWithSet, takeBuffered, takeNBuffered, assignPartitions, handleListOrEpochResults)")
			}
		}
	}
	c.Floor(rule, n, 9)
}

func (x *c04x) directWrites() {
	c, m := x.c, x.m
	rule := "cursor-offset-writers"
	n := 0
	co := fieldMust(c, m, "cursor", "cursorOffset")
	if co != nil {
		for _, st := range StoreSites(x.funcs, co) {
			n++
			cons := st.Fn.Key + ": " + nodeStr(st.Node)
			if st.Kind == "complit" {
				cons = st.Fn.Key + ": cursorOffset: " + exprStr(st.RHS)
			}
			switch {
			case st.Fn.Key == c04kSet && st.Kind == "assign":
				c.Check(len(st.Fn.Decl.Type.Params.List) == 1 && exprStr(st.RHS) == st.Fn.Decl.Type.Params.List[0].Names[0].Name, rule, cons, st.Node.Pos(), m, "setOffset stores its argument", "setOffset does not store its argument")
			case st.Kind == "complit" && st.Fn.Key == "kgo.metadataPartition.newPartition":
				ok := false
				if cl, isCl := st.RHS.(*ast.CompositeLit); isCl {
					for _, el := range cl.Elts {
						if kv, isKv := el.(*ast.KeyValueExpr); isKv && exprStr(kv.Key) == "offset" && c04str(kv.Value) == "-1" {
							ok = true
						}
					}
				}
				c.Check(ok, rule, cons, st.Node.Pos(), m, "a new cursor starts at -1 (not consumable until assigned)", "a new cursor does not start at the -1 sentinel")
			default:
				c.Fail(rule, cons, st.Node.Pos(), m, "cursor.cursorOffset is written outside setOffset")
			}
		}
	}
	for _, fld := range []string{"offset", "lastConsumedEpoch", "lastConsumedTime", "hwm"} {
		fv := fieldMust(c, m, "cursorOffset", fld)
		if fv == nil {
			continue
		}
		for _, st := range StoreSites(x.funcs, fv) {
			if st.Kind == "complit" {
				continue
			}
			n++
			cons := st.Fn.Key + ": " + nodeStr(st.Node)
			base := ""
			if sel, ok := unparen(st.LHS).(*ast.SelectorExpr); ok {
				base = c04namedType(st.Fn.Info(), sel.X)
			}
			switch {
			case base == "cursorOffsetNext" && st.Fn.Key == "kgo.cursorOffsetNext.processRespPartition" && st.Kind == "assign":
				c.OK(rule, cons, st.Node.Pos(), m, "the frozen copy is advanced while its response is processed")
			case base == "cursor":
				c.Fail(rule, cons, st.Node.Pos(), m, "a live cursor's offset field is written directly (not through setOffset on a take / assignment path)")
			default:
				c.Fail(rule, cons, st.Node.Pos(), m, "cursorOffset."+fld+" is written through `"+base+"` outside processRespPartition")
			}
		}
	}
	c.Floor(rule, n, 6)
}

// ---------------------------------------------------------------- (2) plumbing of the frozen offset

func (x *c04x) plumbing() {
	c, m := x.c, x.m
	rule := "frozen-offset-plumbing"
	if f := x.fn("kgo.cursorOffsetNext.processRespPartition"); f != nil {
		info := f.Info()
		recv := ""
		if len(f.Decl.Recv.List[0].Names) == 1 {
			recv = f.Decl.Recv.List[0].Names[0].Name
		}
		okReq, okStore, okLast := false, false, false
		ast.Inspect(f.Decl.Body, func(y ast.Node) bool {
			switch s := y.(type) {
			case *ast.KeyValueExpr:
				if exprStr(s.Key) == "Offset" && c04str(s.Value) == recv+".offset" {
					okReq = true
				}
			case *ast.AssignStmt:
				if len(s.Rhs) == 1 && len(s.Lhs) == 2 {
					if call, ok := s.Rhs[0].(*ast.CallExpr); ok && calleeName(info, call) == "kgo.ProcessFetchPartition" && c04str(s.Lhs[1]) == recv+".offset" && len(call.Args) >= 2 && exprStr(call.Args[0]) == "opts" {
						okStore = true
					}
				}
				if len(s.Lhs) == 1 && c04str(s.Lhs[0]) == recv+".lastConsumedEpoch" && len(s.Rhs) == 1 {
					if sel, ok := s.Rhs[0].(*ast.SelectorExpr); ok && sel.Sel.Name == "LeaderEpoch" {
						if d := c04single(f, c04obj(info, sel.X)); d != nil && c04str(d.rhs) == "fp.Records[len(fp.Records)-1]" {
							okLast = true
						}
					}
				}
			}
			return true
		})
		c.Check(okReq, rule, f.Key+"#requested-offset", f.Pos(), m, "the parser drops records below the entry's frozen offset", "ProcessFetchPartitionOpts.Offset is not the entry's frozen offset: records below the fetch offset are returned again, or records at it are dropped")
		c.Check(okStore, rule, f.Key+"#next-offset", f.Pos(), m, "the parser's next offset is stored back into the same entry", "the next offset returned by ProcessFetchPartition is not stored into the entry's offset: the cursor does not advance past what was returned")
		c.Check(okLast, rule, f.Key+"#last-epoch", f.Pos(), m, "", "lastConsumedEpoch is not taken from the last returned record")
	}
	if f := x.fn("kgo.fetchRequest.AppendTo"); f != nil {
		info := f.Info()
		ok := false
		ast.Inspect(f.Decl.Body, func(y ast.Node) bool {
			as, isAs := y.(*ast.AssignStmt)
			if !isAs || len(as.Lhs) != 1 || len(as.Rhs) != 1 {
				return true
			}
			if sel, isSel := as.Lhs[0].(*ast.SelectorExpr); isSel && sel.Sel.Name == "FetchOffset" {
				if rs, isSel2 := as.Rhs[0].(*ast.SelectorExpr); isSel2 && rs.Sel.Name == "offset" && c04namedType(info, rs.X) == "cursorOffsetNext" {
					// the entry comes from f.usedOffsets[topic][partition]
					if d := c04single(f, c04obj(info, rs.X)); d != nil {
						if ix, isIx := unparen(d.rhs).(*ast.IndexExpr); isIx {
							if d2 := c04single(f, c04obj(info, ix.X)); d2 != nil && strings.HasPrefix(c04str(d2.rhs), "f.usedOffsets[") {
								ok = true
							}
						}
					}
				}
			}
			return true
		})
		c.Check(ok, rule, f.Key+"#wire-offset", f.Pos(), m, "FetchOffset on the wire is the entry's frozen offset", "FetchOffset is not the frozen offset of the request's own usedOffsets entry (e.g. read through the live cursor while a poll may update it)")
	}
}

// ---------------------------------------------------------------- (3) the doneFetch token

type c04tok struct {
	sent, stored int
	flag, buf    bool
}

func c04b2i(b bool) int {
	if b {
		return 1
	}
	return 0
}
func (t c04tok) idx() uint { return uint(t.sent*12 + t.stored*4 + c04b2i(t.flag)*2 + c04b2i(t.buf)) }
func c04tokOf(i uint) c04tok {
	return c04tok{sent: int(i / 12), stored: int(i % 12 / 4), flag: i%4/2 == 1, buf: i%2 == 1}
}

type c04tokSet uint64

func (s c04tokSet) each(fn func(c04tok)) {
	for i := uint(0); i < 36; i++ {
		if s&(1<<i) != 0 {
			fn(c04tokOf(i))
		}
	}
}
func c04inc(v int) int {
	if v >= 2 {
		return 2
	}
	return v + 1
}

type c04tokEng struct {
	f               *Func
	info            *types.Info
	done, flag, buf types.Object
	bufField        *types.Var
	closures        map[types.Object]*ast.FuncLit
	deferLit        *ast.FuncLit
	problems        []string
	sendSites       map[token.Pos]bool
	storeSites      map[token.Pos]bool
	depth           int
}

func (e *c04tokEng) problem(format string, a ...any) {
	e.problems = append(e.problems, fmt.Sprintf(format, a...))
}

// tokOps reports whether the subtree touches the token or its flags.
func (e *c04tokEng) tokOps(root ast.Node) bool {
	return containsNode(root, true, func(y ast.Node) bool {
		switch s := y.(type) {
		case *ast.Ident:
			o := e.info.Uses[s]
			return o != nil && (o == e.done || o == e.flag || o == e.buf)
		case *ast.SelectorExpr:
			return sameField(fieldOfSel(e.info, s), e.bufField) && false
		}
		return false
	})
}

func (e *c04tokEng) node(n ast.Node, in c04tokSet) c04tokSet {
	apply := func(fn func(c04tok) c04tok) c04tokSet {
		var out c04tokSet
		in.each(func(t c04tok) { out |= 1 << fn(t).idx() })
		return out
	}
	switch s := n.(type) {
	case *ast.DeferStmt:
		if s.Call.Fun != ast.Expr(e.deferLit) && e.tokOps(s) {
			e.problem("%s: a second deferred call touches the fetch token or its flags", e.f.mod.Position(s.Pos()))
		}
		return in
	case *ast.GoStmt:
		if e.tokOps(s) {
			e.problem("%s: the fetch token or its flags are used in a spawned goroutine", e.f.mod.Position(s.Pos()))
		}
		return in
	case *ast.SendStmt:
		if o := c04obj(e.info, s.Chan); o != nil && o == e.done {
			e.sendSites[s.Pos()] = true
			return apply(func(t c04tok) c04tok { t.sent = c04inc(t.sent); return t })
		}
	case *ast.AssignStmt:
		// closure definitions are analysed at their call sites
		if len(s.Rhs) == 1 {
			if lit, ok := s.Rhs[0].(*ast.FuncLit); ok && len(s.Lhs) == 1 {
				if o := c04obj(e.info, s.Lhs[0]); o != nil && e.closures[o] == lit {
					return in
				}
			}
		}
		out := in
		for i, l := range s.Lhs {
			o := c04obj(e.info, l)
			if o != nil && (o == e.flag || o == e.buf) {
				if len(s.Rhs) != len(s.Lhs) {
					e.problem("%s: flag assigned from a multi-value expression", e.f.mod.Position(s.Pos()))
					continue
				}
				v, isC := constBool(e.info, s.Rhs[i])
				if !isC {
					e.problem("%s: `%s` is not assigned a constant", e.f.mod.Position(s.Pos()), o.Name())
					continue
				}
				isFlag := o == e.flag
				cur := out
				out = 0
				cur.each(func(t c04tok) {
					if isFlag {
						t.flag = v
					} else {
						t.buf = v
					}
					out |= 1 << t.idx()
				})
			}
			if sameField(fieldOfSel(e.info, l), e.bufField) && len(s.Rhs) == len(s.Lhs) {
				stored := false
				if cl, ok := s.Rhs[i].(*ast.CompositeLit); ok {
					for _, el := range cl.Elts {
						if kv, ok := el.(*ast.KeyValueExpr); ok && exprStr(kv.Key) == "doneFetch" && c04obj(e.info, kv.Value) == e.done {
							stored = true
						}
					}
				}
				if !stored {
					e.problem("%s: s.buffered is stored without the fetch token (takeBufferedFn would send on a nil channel and block forever)", e.f.mod.Position(s.Pos()))
					continue
				}
				e.storeSites[s.Pos()] = true
				cur := out
				out = 0
				cur.each(func(t c04tok) { t.stored = c04inc(t.stored); out |= 1 << t.idx() })
			}
		}
		e.escapes(n, true)
		return out
	case *ast.ExprStmt:
		if call, ok := s.X.(*ast.CallExpr); ok {
			if lit := e.closures[c04obj(e.info, call.Fun)]; lit != nil && e.tokOps(lit) {
				var out c04tokSet
				in.each(func(t c04tok) { out |= e.flow(lit.Body, e.f.LitGraph(lit), 1<<t.idx(), false) })
				return out
			}
		}
	}
	e.escapes(n, false)
	return in
}

// escapes flags uses of the token that the transfer function does not model.
func (e *c04tokEng) escapes(n ast.Node, assign bool) {
	ast.Inspect(n, func(y ast.Node) bool {
		switch s := y.(type) {
		case *ast.FuncLit:
			for _, l := range e.closures {
				if l == s {
					return false
				}
			}
			if s == e.deferLit {
				return false
			}
			if e.tokOps(s) {
				e.problem("%s: the fetch token or its flags are used inside a function literal that is not the backoff closure or the finishing defer", e.f.mod.Position(s.Pos()))
			}
			return false
		case *ast.SendStmt:
			return false
		case *ast.KeyValueExpr:
			if assign && exprStr(s.Key) == "doneFetch" {
				return false
			}
		case *ast.Ident:
			if o := e.info.Uses[s]; o != nil && o == e.done {
				e.problem("%s: the fetch token is used other than by a send or the s.buffered store (it escapes the exactly-once accounting)", e.f.mod.Position(s.Pos()))
			}
		}
		return true
	})
}

func (e *c04tokEng) edgeOK(g *Graph, b *cfg.Block, k int, t c04tok) bool {
	cond, tag, ok := g.condOf(b)
	if !ok || tag != nil {
		return true
	}
	for _, ft := range decompose(cond, k == 0, nil) {
		o := c04obj(e.info, ft.Cond)
		if o == nil {
			continue
		}
		if o == e.flag && t.flag != ft.Val {
			return false
		}
		if o == e.buf && t.buf != ft.Val {
			return false
		}
	}
	return true
}

// flow propagates token states through a body and returns the states at its
// (non-panicking) exits; with applyDefer the finishing defer runs at each exit.
func (e *c04tokEng) flow(body *ast.BlockStmt, g *Graph, in c04tokSet, applyDefer bool) c04tokSet {
	e.depth++
	defer func() { e.depth-- }()
	if e.depth > 4 {
		e.problem("closure nesting too deep")
		return in
	}
	nb := len(g.C.Blocks)
	ins := make([]c04tokSet, nb)
	ins[0] = in
	var exits c04tokSet
	work := []int{0}
	queued := map[int]bool{0: true}
	for len(work) > 0 {
		bi := work[0]
		work = work[1:]
		queued[bi] = false
		st := ins[bi]
		blk := g.C.Blocks[bi]
		for _, nd := range blk.Nodes {
			st = e.node(nd, st)
		}
		if kind, ok := g.exitOf(bi); ok {
			if kind != ExitPanic {
				exits |= st
			}
			continue
		}
		for k, s := range blk.Succs {
			si := int(s.Index)
			feasible := false
			for _, ps := range g.succs[bi] {
				if ps == si {
					feasible = true
				}
			}
			if !feasible {
				continue
			}
			var ns c04tokSet
			st.each(func(t c04tok) {
				if e.edgeOK(g, blk, k, t) {
					ns |= 1 << t.idx()
				}
			})
			if ins[si]|ns != ins[si] {
				ins[si] |= ns
				if !queued[si] {
					queued[si] = true
					work = append(work, si)
				}
			}
		}
	}
	if applyDefer && e.deferLit != nil {
		var out c04tokSet
		exits.each(func(t c04tok) { out |= e.flow(e.deferLit.Body, e.f.LitGraph(e.deferLit), 1<<t.idx(), false) })
		return out
	}
	return exits
}

func (x *c04x) token() {
	c, m := x.c, x.m
	rule := "done-fetch-token-exactly-once"
	ff := x.fetchInfo()
	if ff == nil {
		return
	}
	f := ff.f
	e := &c04tokEng{f: f, info: ff.info, closures: map[types.Object]*ast.FuncLit{}, sendSites: map[token.Pos]bool{}, storeSites: map[token.Pos]bool{}}
	e.done = c04param(f, "doneFetch")
	e.flag = localObj(f, "alreadySentToDoneFetch")
	e.buf = localObj(f, "buffered")
	e.bufField = fieldMust(c, m, "source", "buffered")
	if e.done == nil || e.flag == nil || e.buf == nil || e.bufField == nil {
		c.Undecided(rule, f.Key, f.Pos(), m, "doneFetch parameter or the flags alreadySentToDoneFetch / buffered not found")
		return
	}
	for _, st := range f.Decl.Body.List {
		if as, ok := st.(*ast.AssignStmt); ok && as.Tok == token.DEFINE && len(as.Lhs) == 1 && len(as.Rhs) == 1 {
			if lit, ok := as.Rhs[0].(*ast.FuncLit); ok {
				e.closures[c04obj(ff.info, as.Lhs[0])] = lit
			}
		}
	}
	// closures that touch the token are only ever called directly
	for o, lit := range e.closures {
		if !e.tokOps(lit) {
			continue
		}
		ast.Inspect(f.Decl.Body, func(y ast.Node) bool {
			if call, ok := y.(*ast.CallExpr); ok {
				if c04obj(ff.info, call.Fun) == o {
					for _, a := range call.Args {
						if mentionsObj(a, ff.info, o, true) {
							e.problem("closure %s passed as a value", o.Name())
						}
					}
					return true
				}
			}
			return true
		})
		uses, calls := 0, 0
		ast.Inspect(f.Decl.Body, func(y ast.Node) bool {
			switch s := y.(type) {
			case *ast.Ident:
				if ff.info.Uses[s] == o {
					uses++
				}
			case *ast.ExprStmt:
				if call, ok := s.X.(*ast.CallExpr); ok && c04obj(ff.info, call.Fun) == o {
					calls++
				}
			}
			return true
		})
		if uses != calls {
			e.problem("closure %s (which sends on the fetch token) is used other than as a plain call statement (%d uses, %d call statements)", o.Name(), uses, calls)
		}
	}
	// the finishing defer is the one that sends
	e.deferLit = ff.deferLit
	if !e.tokOps(ff.deferLit) {
		e.problem("the finishing defer does not release the fetch token")
	}
	exits := e.flow(f.Decl.Body, ff.g, 1<<(c04tok{}).idx(), true)
	exits.each(func(t c04tok) {
		if t.sent+t.stored != 1 {
			e.problem("an exit is reachable with %d sends on doneFetch and %d stores into s.buffered (state alreadySentToDoneFetch=%v buffered=%v): the session's fetch slot is %s", t.sent, t.stored, t.flag, t.buf,
				map[bool]string{true: "never released (the source stops fetching, the session cannot be stopped)", false: "released twice (two sources fetch on one slot / a send blocks forever)"}[t.sent+t.stored == 0])
		}
		if t.buf != (t.stored == 1) {
			e.problem("an exit is reachable with buffered=%v but %d stores into s.buffered: the used offsets are %s", t.buf, t.stored, map[bool]string{true: "never finished", false: "finished while the fetch is buffered"}[t.buf])
		}
	})
	e.problems = dedupeKeepOrder(e.problems)
	if len(e.sendSites) < 2 || len(e.storeSites) < 1 {
		c.Undecided(rule, f.Key, f.Pos(), m, fmt.Sprintf("only %d send sites and %d store sites recognised (want >= 2 and >= 1)", len(e.sendSites), len(e.storeSites)))
	} else {
		c.Check(len(e.problems) == 0, rule, f.Key, f.Pos(), m, fmt.Sprintf("on every path exactly one of {send on doneFetch, store into s.buffered}; %d send sites, %d store site", len(e.sendSites), len(e.storeSites)), strings.Join(e.problems, "; "))
	}
	// s.buffered writers
	n := 0
	for _, st := range StoreSites(x.funcs, e.bufField) {
		n++
		cons := st.Fn.Key + ": " + nodeStr(st.Node)
		switch {
		case st.Fn.Key == "kgo.source.fetch" && st.Kind == "assign":
			c.OK("buffered-fetch-writers", cons, st.Node.Pos(), m, "stored with the token, see "+rule)
		case st.Fn.Key == "kgo.source.takeBufferedFn" && st.Kind == "assign":
			c.OK("buffered-fetch-writers", cons, st.Node.Pos(), m, "cleared when taken")
		case st.Fn.Key == "kgo.source.takeNBuffered" && st.Kind == "addr":
			c.OK("buffered-fetch-writers", cons, st.Node.Pos(), m, "partial take works on the buffered fetch in place")
		default:
			c.Fail("buffered-fetch-writers", cons, st.Node.Pos(), m, "source.buffered is written outside fetch / takeBufferedFn / takeNBuffered")
		}
	}
	c.Floor("buffered-fetch-writers", n, 3)
	// loopFetch: a received token goes to exactly one of fetch / a direct send
	if lf := x.fn("kgo.source.loopFetch"); lf != nil {
		info := lf.Info()
		g := lf.Graph()
		var cc *ast.CommClause
		var tokObj types.Object
		ast.Inspect(lf.Decl.Body, func(y ast.Node) bool {
			if cl, ok := y.(*ast.CommClause); ok && cl.Comm != nil {
				if as, ok := cl.Comm.(*ast.AssignStmt); ok && len(as.Lhs) == 1 && as.Tok == token.DEFINE {
					if u, ok := as.Rhs[0].(*ast.UnaryExpr); ok && u.Op == token.ARROW {
						if ch, ok := info.TypeOf(as.Lhs[0]).Underlying().(*types.Chan); ok {
							if b, ok := ch.Elem().(*types.Basic); ok && b.Kind() == types.Bool {
								cc, tokObj = cl, info.Defs[as.Lhs[0].(*ast.Ident)]
							}
						}
					}
				}
			}
			return true
		})
		if cc == nil || len(cc.Body) == 0 {
			c.Undecided(rule, lf.Key+"#token-received", lf.Pos(), m, "`case doneFetch := <-canFetch` not found")
		} else {
			start := -1
			for _, b := range g.C.Blocks {
				if b.Kind == cfg.KindSelectCaseBody && b.Stmt == ast.Stmt(cc) {
					start = int(b.Index)
				}
			}
			cnt := uint8(0)
			if start >= 0 {
				cnt = c04counts(g, start, cc.Body[0].Pos(), cc.Body[len(cc.Body)-1].End(), func(nd ast.Node) bool {
					if s, ok := nd.(*ast.SendStmt); ok {
						return c04obj(info, s.Chan) == tokObj
					}
					return containsNode(nd, false, func(z ast.Node) bool {
						call, ok := z.(*ast.CallExpr)
						return ok && calleeName(info, call) == "kgo.source.fetch" && len(call.Args) == 2 && c04obj(info, call.Args[1]) == tokObj
					})
				})
			}
			c.Check(cnt == 2, rule, lf.Key+"#token-received", cc.Pos(), m, "a received token is passed to fetch or sent back, exactly once", "after `doneFetch := <-canFetch` the token is released "+c04cntStr(cnt)+" times (want exactly once: s.fetch(session, doneFetch) or doneFetch <- false)")
		}
	}
}

// ---------------------------------------------------------------- (5) duplicate-partition guard

type c04hrr struct {
	f       *Func
	g       *Graph
	info    *types.Info
	entry   types.Object // partOffset
	proc    *ast.CallExpr
	procLoc Loc
}

func (x *c04x) hrrInfo() *c04hrr {
	f := x.fn("kgo.source.handleReqResp")
	if f == nil {
		return nil
	}
	h := &c04hrr{f: f, g: f.Graph(), info: f.Info()}
	calls := c04calls(f.Decl.Body, h.info, "kgo.cursorOffsetNext.processRespPartition")
	if len(calls) != 1 {
		x.c.Undecided("anchor", f.Key+"#processRespPartition", f.Pos(), x.m, fmt.Sprintf("%d processRespPartition calls, want 1", len(calls)))
		return nil
	}
	h.proc = calls[0]
	recv, _, _ := c04recv(h.info, h.proc, "kgo.cursorOffsetNext.processRespPartition")
	h.entry = c04obj(h.info, recv)
	var ok bool
	h.procLoc, ok = h.g.LocOf(h.proc)
	if h.entry == nil || !ok {
		x.c.Undecided("anchor", f.Key+"#entry", f.Pos(), x.m, "receiver of processRespPartition is not a local variable")
		return nil
	}
	return h
}

func (x *c04x) dupGuard() {
	c, m := x.c, x.m
	rule := "duplicate-partition-guard"
	h := x.hrrInfo()
	if h == nil {
		return
	}
	f, g, info := h.f, h.g, h.info
	// the entry is the request's own: partOffset, ok := topicOffsets[partition]; topicOffsets, ok := req.usedOffsets[topic]
	var okEntry, okTopic types.Object
	own := false
	if d := c04single(f, h.entry); d != nil && d.idx == 0 {
		if ix, isIx := unparen(d.rhs).(*ast.IndexExpr); isIx {
			if as, isAs := d.stmt.(*ast.AssignStmt); isAs && len(as.Lhs) == 2 {
				okEntry = c04obj(info, as.Lhs[1])
			}
			if d2 := c04single(f, c04obj(info, ix.X)); d2 != nil && d2.idx == 0 {
				if ix2, isIx2 := unparen(d2.rhs).(*ast.IndexExpr); isIx2 && c04str(ix2.X) == "req.usedOffsets" {
					own = true
					if as, isAs := d2.stmt.(*ast.AssignStmt); isAs && len(as.Lhs) == 2 {
						okTopic = c04obj(info, as.Lhs[1])
					}
				}
			}
		}
	}
	c.Check(own, rule, f.Key+"#own-entry", h.proc.Pos(), m, "a response partition is processed against req.usedOffsets[topic][partition]", "the processed entry is not looked up in the request's own usedOffsets")
	// dup variable: _, dup := seen[partOffset]
	var dup types.Object
	var seen types.Object
	ast.Inspect(f.Decl.Body, func(y ast.Node) bool {
		as, ok := y.(*ast.AssignStmt)
		if !ok || as.Tok != token.DEFINE || len(as.Lhs) != 2 || len(as.Rhs) != 1 {
			return true
		}
		if ix, ok := as.Rhs[0].(*ast.IndexExpr); ok && c04obj(info, ix.Index) == h.entry && exprStr(as.Lhs[0]) == "_" {
			dup = c04obj(info, as.Lhs[1])
			seen = c04obj(info, ix.X)
		}
		return true
	})
	if dup == nil || seen == nil {
		c.Fail(rule, f.Key+"#seen-test", h.proc.Pos(), m, "no `_, dup := seen[partOffset]` membership test keyed by the request's entry: a partition repeated in one response is processed twice (offset double-advanced, records appended twice, two move()s for one cursor)")
		return
	}
	// the store seen[partOffset] = struct{}{}
	var storeLoc Loc
	haveStore := false
	ast.Inspect(f.Decl.Body, func(y ast.Node) bool {
		as, ok := y.(*ast.AssignStmt)
		if !ok || len(as.Lhs) != 1 {
			return true
		}
		if ix, ok := as.Lhs[0].(*ast.IndexExpr); ok && c04obj(info, ix.X) == seen && c04obj(info, ix.Index) == h.entry {
			storeLoc, haveStore = g.LocOf(as)
		}
		return true
	})
	guarded := func(l Loc) (bool, string) {
		facts := g.FactsAt(l)
		d := factMatches(facts, func(ft Fact) bool { return ft.Tag == nil && !ft.Val && c04obj(info, ft.Cond) == dup })
		known := true
		if okEntry != nil {
			known = known && factMatches(facts, func(ft Fact) bool { return ft.Tag == nil && ft.Val && c04obj(info, ft.Cond) == okEntry })
		}
		if okTopic != nil {
			known = known && factMatches(facts, func(ft Fact) bool { return ft.Tag == nil && ft.Val && c04obj(info, ft.Cond) == okTopic })
		}
		return d && known && haveStore && g.Dominates(storeLoc, l), c04factsStr(facts)
	}
	sl, _ := guarded(storeLoc)
	_ = sl
	sfacts := g.FactsAt(storeLoc)
	c.Check(haveStore && factMatches(sfacts, func(ft Fact) bool { return ft.Tag == nil && !ft.Val && c04obj(info, ft.Cond) == dup }), rule, f.Key+"#seen-store", h.proc.Pos(), m, "first sight of an entry is recorded", "the entry is not added to the seen set after the membership test failed: a later duplicate of the partition is processed again")
	n := 0
	site := func(cons string, node ast.Node) {
		n++
		l, ok := c04outerLoc(g, node)
		if !ok {
			c.Undecided(rule, cons, node.Pos(), m, "site not located")
			return
		}
		okG, facts := guarded(l)
		c.Check(okG, rule, cons, node.Pos(), m, "only for a requested partition seen for the first time in this response",
			"processing of a response partition is reachable without the seen-set guard ["+facts+"]: a partition repeated in one response double-advances the offset / double-appends records / enqueues two moves, an unrequested one dereferences a nil entry")
	}
	site(f.Key+": "+exprStr(h.proc.Fun), h.proc)
	k := 0
	ast.Inspect(f.Decl.Body, func(y ast.Node) bool {
		as, ok := y.(*ast.AssignStmt)
		if ok && len(as.Rhs) == 1 {
			if ap, ok := as.Rhs[0].(*ast.CallExpr); ok && exprStr(ap.Fun) == "append" && len(ap.Args) == 2 && c04namedType(info, ap.Args[1]) == "cursorOffsetPreferred" {
				k++
				site(fmt.Sprintf("%s: preferreds append #%d", f.Key, k), as)
				// the appended copy is of the entry
				okCopy := false
				if cl, ok := ap.Args[1].(*ast.CompositeLit); ok {
					for _, el := range cl.Elts {
						if kv, ok := el.(*ast.KeyValueExpr); ok && exprStr(kv.Key) == "cursorOffsetNext" && c04str(kv.Value) == "*"+h.entry.Name() {
							okCopy = true
						}
					}
				}
				c.Check(okCopy, rule, fmt.Sprintf("%s: preferreds append #%d value", f.Key, k), as.Pos(), m, "", "the cursor queued for a move is not the processed entry's")
			}
		}
		return true
	})
	j := 0
	for _, call := range c04calls(f.Decl.Body, info, "kgo.listOrEpochLoads.addLoad") {
		j++
		site(fmt.Sprintf("%s: reloadOffsets.addLoad #%d", f.Key, j), call)
	}
	c.Floor(rule, n, 7)
}

// ---------------------------------------------------------------- (1) reload / move hand-off in fetch

func (x *c04x) reloadHandoff() {
	c, m := x.c, x.m
	rule := "reload-and-move-handoff"
	ff := x.fetchInfo()
	if ff == nil {
		return
	}
	f, g, info := ff.f, ff.g, ff.info
	reload, prefs, why := ff.res[1], ff.res[2], ff.res[4]
	// the delete closure
	var delObj types.Object
	var delLit *ast.FuncLit
	for _, st := range f.Decl.Body.List {
		if as, ok := st.(*ast.AssignStmt); ok && as.Tok == token.DEFINE && len(as.Rhs) == 1 {
			if lit, ok := as.Rhs[0].(*ast.FuncLit); ok && containsNode(lit.Body, false, func(y ast.Node) bool {
				call, ok := y.(*ast.CallExpr)
				return ok && exprStr(call.Fun) == "delete"
			}) {
				delObj, delLit = c04obj(info, as.Lhs[0]), lit
			}
		}
	}
	if delLit == nil || len(delLit.Type.Params.List) < 1 {
		c.Fail(rule, f.Key+"#delete-closure", f.Pos(), m, "no closure deleting from req.usedOffsets: moved and reloading cursors stay in the used offsets and are re-enabled (or advanced on poll) although their move / reload owns them")
		return
	}
	// its shape: t := req.usedOffsets[topic]; delete(t, partition); if len(t) == 0 { delete(req.usedOffsets, topic) }
	var pn []string
	for _, fl := range delLit.Type.Params.List {
		for _, id := range fl.Names {
			pn = append(pn, id.Name)
		}
	}
	body := nows(stripComments(printNode(m.Fset, delLit.Body)))
	okShape := false
	if len(pn) == 2 && len(delLit.Body.List) > 0 {
		req := ff.req.Name()
		t := "t"
		if as, ok := delLit.Body.List[0].(*ast.AssignStmt); ok && len(as.Lhs) == 1 {
			t = exprStr(as.Lhs[0])
		}
		re := "{" + t + ":=" + req + ".usedOffsets[" + pn[0] + "]delete(" + t + "," + pn[1] + ")iflen(" + t + ")==0{delete(" + req + ".usedOffsets," + pn[0] + ")}}"
		okShape = body == re
	}
	c.Check(okShape, rule, f.Key+"#delete-closure", delLit.Pos(), m, "deletes exactly req.usedOffsets[topic][partition]", "deleteReqUsedOffset does not delete exactly the named entry of req.usedOffsets")
	// no other delete in fetch
	stray := 0
	ast.Inspect(f.Decl.Body, func(y ast.Node) bool {
		if y == ast.Node(delLit) {
			return false
		}
		if call, ok := y.(*ast.CallExpr); ok && exprStr(call.Fun) == "delete" {
			stray++
		}
		return true
	})
	c.Check(stray == 0, rule, f.Key+"#no-other-delete", f.Pos(), m, "entries leave req.usedOffsets only through the closure", "fetch deletes map entries outside deleteReqUsedOffset: a used cursor can leave req.usedOffsets without move / reload owning it")
	// uses of the closure: after move(), and reloadOffsets.each
	nUse := 0
	ast.Inspect(f.Decl.Body, func(y ast.Node) bool {
		if id, ok := y.(*ast.Ident); ok && info.Uses[id] == delObj {
			nUse++
		}
		return true
	})
	// (a) preferreds.eachPreferred(func(c) { c.move(); delete(c.from.topic, c.from.partition) })
	var prefCall *ast.CallExpr
	okPref := false
	for _, call := range c04calls(f.Decl.Body, info, "kgo.cursorPreferreds.eachPreferred") {
		r, _, _ := c04recv(info, call, "kgo.cursorPreferreds.eachPreferred")
		if c04obj(info, r) != prefs || len(call.Args) != 1 {
			continue
		}
		lit, ok := call.Args[0].(*ast.FuncLit)
		if !ok || len(lit.Type.Params.List) != 1 {
			continue
		}
		prefCall = call
		p := info.Defs[lit.Type.Params.List[0].Names[0]]
		lg := f.LitGraph(lit)
		var mv, dl *Loc
		for _, b := range lg.C.Blocks {
			for i, nd := range b.Nodes {
				ast.Inspect(nd, func(z ast.Node) bool {
					if r, _, ok := c04recv(info, z, c04kMove); ok && c04obj(info, r) == p {
						mv = &Loc{int(b.Index), i}
					}
					if dc, ok := z.(*ast.CallExpr); ok && c04obj(info, dc.Fun) == delObj && len(dc.Args) == 2 && c04str(dc.Args[0]) == p.Name()+".from.topic" && c04str(dc.Args[1]) == p.Name()+".from.partition" {
						dl = &Loc{int(b.Index), i}
					}
					return true
				})
			}
		}
		mvCnt := c04counts(lg, 0, token.NoPos, token.NoPos, func(nd ast.Node) bool { return c04has(nd, info, c04kMove) })
		okPref = mv != nil && dl != nil && lg.Dominates(*mv, *dl) && mvCnt == 2
	}
	skipPref := true
	if prefCall != nil {
		_, skipPref = g.FindPath(ff.hLoc, SearchOpts{
			Stop: func(nd ast.Node) bool {
				return containsNode(nd, false, func(z ast.Node) bool { return z == ast.Node(prefCall) })
			},
			GoalExit: func(ExitKind, ast.Node) bool { return true },
			EdgeOK: func(from *cfg.Block, k int, to *cfg.Block) bool {
				cond, _, ok := g.condOf(from)
				return !(ok && c04str(cond) == "len("+prefs.Name()+")>0" && k == 1)
			},
		})
	}
	c.Check(okPref && !skipPref, rule, f.Key+"#moved-cursors", f.Pos(), m, "every preferred-replica cursor is move()d and then removed from req.usedOffsets, on every path",
		"a cursor with a preferred replica is not move()d exactly once and then removed from req.usedOffsets on every path after handleReqResp: it is re-enabled on the old source as well (two sources fetch one partition) or never re-enabled")
	// (b) reloadOffsets.each(deleteReqUsedOffset) on every path
	var eachCall *ast.CallExpr
	for _, call := range c04calls(f.Decl.Body, info, "kgo.listOrEpochLoads.each") {
		r, _, _ := c04recv(info, call, "kgo.listOrEpochLoads.each")
		if c04obj(info, r) == reload && len(call.Args) == 1 && c04obj(info, call.Args[0]) == delObj {
			eachCall = call
		}
	}
	skipEach := true
	if eachCall != nil {
		_, skipEach = g.FindPath(ff.hLoc, SearchOpts{
			Stop: func(nd ast.Node) bool {
				return containsNode(nd, false, func(z ast.Node) bool { return z == ast.Node(eachCall) })
			},
			GoalExit: func(ExitKind, ast.Node) bool { return true },
		})
	}
	c.Check(!skipEach, rule, f.Key+"#reloading-cursors-removed", f.Pos(), m, "every reloading partition is removed from req.usedOffsets on every path after handleReqResp",
		"partitions queued for a list / epoch reload stay in req.usedOffsets: the fetch re-enables the cursor (and a poll advances it) while the reload's completion will set and re-enable it again - the partition is fetched from two positions")
	c.Check(nUse == 2 || (nUse < 2 && (skipEach || !okPref)), rule, f.Key+"#closure-uses", f.Pos(), m, "", fmt.Sprintf("deleteReqUsedOffset is used %d times (want 2: after move(), for reloads)", nUse))
	// (c) the reloads are handed to loadWithSessionNow
	var loadCall *ast.CallExpr
	for _, call := range c04calls(f.Decl.Body, info, "kgo.listOrEpochLoads.loadWithSessionNow") {
		r, _, _ := c04recv(info, call, "kgo.listOrEpochLoads.loadWithSessionNow")
		if c04obj(info, r) == reload && len(call.Args) == 2 && c04obj(info, call.Args[0]) == c04param(f, f.Decl.Type.Params.List[0].Names[0].Name) {
			loadCall = call
		}
	}
	if loadCall == nil {
		c.Fail(rule, f.Key+"#reloads-issued", f.Pos(), m, "the reloadOffsets returned by handleReqResp are never handed to loadWithSessionNow with this session: their cursors were removed from req.usedOffsets and are never re-enabled")
	} else {
		setObj := localObj(f, "setOffsets")
		var from *Loc
		ast.Inspect(f.Decl.Body, func(y ast.Node) bool {
			if as, ok := y.(*ast.AssignStmt); ok && len(as.Lhs) == 1 && info.Uses[identOf(as.Lhs[0])] == setObj && setObj != nil {
				if l, ok := g.LocOf(as); ok {
					from = &l
				}
			}
			return true
		})
		skip := true
		var path []ast.Node
		if from != nil {
			path, skip = g.FindPath(*from, SearchOpts{
				Stop: func(nd ast.Node) bool {
					return containsNode(nd, false, func(z ast.Node) bool { return z == ast.Node(loadCall) })
				},
				GoalExit: func(ExitKind, ast.Node) bool { return true },
				EdgeOK: func(from *cfg.Block, k int, to *cfg.Block) bool {
					cond, _, ok := g.condOf(from)
					return !(ok && c04str(cond) == why.Name()+"!=nil" && k == 1)
				},
			})
		}
		c.Check(!skip, rule, f.Key+"#reloads-issued", loadCall.Pos(), m, "on the success path loadWithSessionNow runs whenever a partition error was recorded (updateWhy != nil)", "on the success path the reloads can be skipped although updateWhy != nil ("+pathStr(path)+")")
	}
	// (d) handleReqResp: every reload is accompanied by an updateWhy entry
	h := x.hrrInfo()
	if h == nil {
		return
	}
	hf, hg, hinfo := h.f, h.g, h.info
	var sw *ast.SwitchStmt
	ast.Inspect(hf.Decl.Body, func(y ast.Node) bool {
		if s, ok := y.(*ast.SwitchStmt); ok && s.Tag != nil && c04str(s.Tag) == "fp.Err" {
			sw = s
		}
		return true
	})
	var errIf *ast.IfStmt
	ast.Inspect(hf.Decl.Body, func(y ast.Node) bool {
		if s, ok := y.(*ast.IfStmt); ok && c04str(s.Cond) == "fp.Err!=nil" && errIf == nil {
			errIf = s
		}
		return true
	})
	if sw == nil || errIf == nil {
		c.Undecided(rule, hf.Key+"#error-switch", hf.Pos(), m, "`if fp.Err != nil` / `switch fp.Err` not found")
		return
	}
	pm := parentMap(hf.Decl.Body)
	nLoad := 0
	for _, call := range c04calls(hf.Decl.Body, hinfo, "kgo.listOrEpochLoads.addLoad") {
		nLoad++
		var cl *ast.CaseClause
		for p := pm[ast.Node(call)]; p != nil; p = pm[p] {
			if cc, ok := p.(*ast.CaseClause); ok && pm[pm[ast.Node(cc)]] == ast.Node(sw) {
				cl = cc
				break
			}
		}
		nonNil := cl != nil && len(cl.List) > 0
		if cl != nil {
			for _, e := range cl.List {
				if exprStr(e) == "nil" {
					nonNil = false
				}
			}
		}
		c.Check(nonNil, rule, fmt.Sprintf("%s: reloadOffsets.addLoad #%d in an error arm", hf.Key, nLoad), call.Pos(), m, "reloads are queued only for a partition error", "a reload is queued outside a non-nil arm of `switch fp.Err`: fetch hands reloads to loadWithSessionNow only when a partition error was recorded, so this cursor is removed from the used offsets and never re-enabled")
	}
	c.Floor(rule+"#addLoad", nLoad, 4)
	cl, _ := hg.LocOf(errIf.Cond)
	tl, _ := hg.LocOf(sw.Tag)
	condBlk := hg.C.Blocks[cl.B]
	path, skip := hg.FindPath(cl, SearchOpts{
		Stop: func(nd ast.Node) bool {
			return containsNode(nd, false, func(z ast.Node) bool {
				call, ok := z.(*ast.CallExpr)
				return ok && calleeName(hinfo, call) == "kgo.multiUpdateWhy.add" && len(call.Args) == 3 && c04str(call.Args[2]) == "fp.Err"
			})
		},
		GoalNode: func(nd ast.Node) bool { return nd == ast.Node(sw.Tag) },
		EdgeOK:   func(from *cfg.Block, k int, to *cfg.Block) bool { return !(from == condBlk && k == 1) },
	})
	c.Check(hg.Dominates(cl, tl) && !skip, rule, hf.Key+"#error-recorded", errIf.Pos(), m, "every partition error that reaches the error switch was added to updateWhy", "a partition error can reach `switch fp.Err` without updateWhy.add ("+pathStr(path)+"): its reload would never be issued")
}

// ---------------------------------------------------------------- (2) epoch validation keeps the position

func (x *c04x) epochValidation() {
	c, m := x.c, x.m
	rule := "epoch-validation-keeps-position"
	if f := x.fn("kgo.Client.loadEpochsForBrokerLoad"); f != nil {
		info := f.Info()
		g := f.Graph()
		var val types.Object
		var litPos token.Pos
		ast.Inspect(f.Decl.Body, func(y ast.Node) bool {
			cl, ok := y.(*ast.CompositeLit)
			if !ok || c04namedType(info, cl) != "loadedOffset" {
				return true
			}
			var cur, off ast.Expr
			for _, el := range cl.Elts {
				if kv, ok := el.(*ast.KeyValueExpr); ok {
					switch exprStr(kv.Key) {
					case "cursor":
						cur = kv.Value
					case "offset":
						off = kv.Value
					}
				}
			}
			if cur != nil && off != nil {
				val, litPos = c04obj(info, off), cl.Pos()
			}
			return true
		})
		if val == nil {
			c.Undecided(rule, f.Key+"#result", f.Pos(), m, "the successful loadedOffset{cursor:, offset: <local>} was not found")
		} else {
			atField := m.Field("kgo", "Offset", "at")
			var atExpr string
			nDef := 0
			for _, d := range c04defs(f, val) {
				nDef++
				cons := fmt.Sprintf("%s: %s #%d", f.Key, nodeStr(d.stmt), nDef)
				as, _ := d.stmt.(*ast.AssignStmt)
				if as != nil && as.Tok == token.DEFINE {
					ok := d.rhs != nil && sameField(fieldOfSel(info, d.rhs), atField)
					if ok {
						atExpr = c04str(d.rhs)
					}
					c.Check(ok, rule, cons, d.stmt.Pos(), m, "validation starts from the validating position (loadPart.at)",
						"the offset a validated cursor resumes from starts as `"+exprStr(d.rhs)+"`, not the validating position: when nothing was truncated (EndOffset >= at) a lagging consumer is moved to the end of its last consumed epoch and the records in [at, EndOffset) are never returned")
					continue
				}
				if d.rhs == nil || as == nil {
					c.Fail(rule, cons, d.stmt.Pos(), m, "unrecognised update of the resume offset")
					continue
				}
				l, _ := g.LocOf(d.stmt)
				facts := g.FactsAt(l)
				rhs := c04str(d.rhs)
				okGuard := strings.HasSuffix(rhs, ".EndOffset") && factMatches(facts, func(ft Fact) bool {
					if ft.Tag != nil || !ft.Val {
						return false
					}
					s := c04str(ft.Cond)
					return s == rhs+"<0" || s == rhs+"<"+val.Name() || (atExpr != "" && s == rhs+"<"+atExpr)
				})
				c.Check(okGuard, rule, cons, d.stmt.Pos(), m, "moved to the broker's end offset only when that is below the position (truncation) or undefined (-1)",
					"the resume offset is overwritten with `"+exprStr(d.rhs)+"` under ["+c04factsStr(facts)+"]: without an `EndOffset < position` (or `< 0`) guard a consumer that lags within its last consumed epoch skips the records up to the epoch's end")
			}
			c.Floor(rule, nDef, 3)
			_ = litPos
		}
	}
	// epoch loads validate the cursor's own current position
	rule2 := "epoch-load-validates-current-position"
	n := 0
	for _, f := range x.funcs {
		info := f.Info()
		for _, call := range c04calls(f.Decl.Body, info, "kgo.listOrEpochLoads.addLoad") {
			if len(call.Args) != 4 || exprStr(call.Args[2]) != "loadTypeEpoch" {
				continue
			}
			n++
			c.Touch(f)
			cons := fmt.Sprintf("%s: addLoad(loadTypeEpoch) #%d", f.Key, n)
			var at, ep ast.Expr
			whole := ""
			if cl, ok := call.Args[3].(*ast.CompositeLit); ok {
				for _, el := range cl.Elts {
					if kv, ok := el.(*ast.KeyValueExpr); ok && exprStr(kv.Key) == "Offset" {
						if ol, ok := kv.Value.(*ast.CompositeLit); ok {
							for _, e2 := range ol.Elts {
								if kv2, ok := e2.(*ast.KeyValueExpr); ok {
									switch exprStr(kv2.Key) {
									case "at":
										at = kv2.Value
									case "epoch":
										ep = kv2.Value
									}
								}
							}
						} else {
							whole = exprStr(kv.Value)
						}
					}
				}
			}
			switch f.Key {
			case "kgo.consumer.assignPartitions":
				g := f.GraphFor(call)
				l, _ := g.LocOf(call)
				c.Check(whole != "" && c04fact(g.FactsAt(l), whole+".at>=0", true) && c04fact(g.FactsAt(l), whole+".epoch>=0", true), rule2, cons, call.Pos(), m, "an assigned exact offset with an epoch is validated as given", "assignment epoch load without the exact-offset-and-epoch guard")
			case "kgo.source.handleReqResp", "kgo.topicPartition.migrateCursorTo":
				var want string
				if f.Key == "kgo.source.handleReqResp" {
					if h := x.hrrInfo(); h != nil {
						want = h.entry.Name()
					}
				} else {
					for _, uc := range c04calls(f.Decl.Body, info, c04kUse) {
						r, _, _ := c04recv(info, uc, c04kUse)
						want = c04str(r)
					}
				}
				ok := at != nil && ep != nil && want != "" && c04str(at) == want+".offset" && c04str(ep) == want+".lastConsumedEpoch"
				c.Check(ok, rule2, cons, call.Pos(), m, "validates {"+want+".offset, "+want+".lastConsumedEpoch}", "the epoch load validates {at: "+exprStr(at)+", epoch: "+exprStr(ep)+"}, not the used cursor's current offset and last consumed epoch: after validation the cursor resumes from another position (records skipped or returned twice)")
			default:
				c.Fail(rule2, cons, call.Pos(), m, "epoch load outside the confirmed table")
			}
		}
	}
	c.Floor(rule2, n, 4)
}
