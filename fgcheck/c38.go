package main

import (
	"fmt"
	"go/ast"
	"go/token"
	"strings"
)

func init() {
	register(&Prop{
		ID:        "C38",
		Level:     "other",
		Technique: "traversal-shape agreement of the sibling accessors (nested range structure, skip conditions of the iterator state machine, absence of filters), builds-on table (which accessor is implemented on which), guard-fact rules in EachTopic",
		Explanation: "(1) FetchesRecordIter.prepareNext advances fetch -> topic -> partition -> record with exactly the four skip tests `len(fetches) == 0`, `ti >= len(Topics)`, `pi >= len(Partitions)`, `ri >= len(Records)` (no other condition may skip a partition), resetting the lower indices; Next returns Records[ri] of the current position, increments ri and re-prepares; " +
			"(2) EachPartition, EachError, Err and Empty walk fetches -> Topics -> Partitions with three nested unfiltered range loops (no continue/break and no condition other than the leaf test), EachPartition passes every partition with its topic name; " +
			"(3) builds-on: EachRecord and RecordsAll consume RecordIter (Done/Next), Records appends p.Records of every EachPartition visit and NumRecords sums their lengths, Errors collects EachError, Empty returns false exactly on a partition with len(Records) > 0; " +
			"(3b) no builds-on accessor leaves early on a partial view: a guard in front of the traversal may only consult a whole-traversal sibling of the same kind (Err() == nil for errors; Empty()/NumRecords() == 0 for records; len(fs) == 0), never Err0 (first partition only) or an index into fs; an unrecognised guard is undecided; " +
			"(4) EachTopic: with one fetch every topic is passed through; otherwise every topic entry's partitions are appended to its name's group unconditionally and the topic ID kept is any non-zero one (stored exactly under TopicID != zero), then each group is reported once with its ID.",
		NotDecided: "equality of the results on all fetch shapes (value level).",
		Run:        runC38,
	})
}

func runC38(c *Ctx) {
	m := c.Load("")
	if m == nil {
		return
	}
	// (1) iterator
	if f := c.NeedFunc(m, "kgo.FetchesRecordIter.prepareNext"); f != nil {
		rule := "iterator-skip-conditions"
		want := map[string]string{
			"len(i.fetches)==0":            "return",
			"i.ti>=len(fetch0.Topics)":     "i.fetches=i.fetches[1:];i.ti=0;gotobeforeFetch0",
			"i.pi>=len(topic.Partitions)":  "i.ti++;i.pi=0;gotobeforeTopic",
			"i.ri>=len(partition.Records)": "i.pi++;i.ri=0;gotobeforePartition",
		}
		seen := map[string]bool{}
		ast.Inspect(f.Decl.Body, func(x ast.Node) bool {
			ifs, ok := x.(*ast.IfStmt)
			if !ok {
				return true
			}
			cond := nosp(exprStr(ifs.Cond))
			var body []string
			for _, s := range ifs.Body.List {
				body = append(body, nosp(nodeStr(s)))
			}
			w, ok := want[cond]
			if !ok {
				c.Fail(rule, f.Key+": if "+exprStr(ifs.Cond), ifs.Pos(), m, "the iterator skips on a condition other than running off the end of a slice: records that Records()/NumRecords() count are not visited")
				return true
			}
			seen[cond] = true
			c.Check(strings.Join(body, ";") == w && ifs.Else == nil, rule, f.Key+": if "+cond, ifs.Pos(), m, w, "advance step is `"+strings.Join(body, ";")+"`, want `"+w+"`")
			return true
		})
		for cnd := range want {
			c.Check(seen[cnd], rule, f.Key+"#has:"+cnd, f.Pos(), m, "", "skip test `"+cnd+"` not found")
		}
		defs := map[string]string{}
		ast.Inspect(f.Decl.Body, func(x ast.Node) bool {
			if as, ok := x.(*ast.AssignStmt); ok && as.Tok == token.DEFINE && len(as.Lhs) == 1 {
				defs[exprStr(as.Lhs[0])] = nosp(exprStr(as.Rhs[0]))
			}
			return true
		})
		okDefs := defs["fetch0"] == "&i.fetches[0]" && defs["topic"] == "&fetch0.Topics[i.ti]" && defs["partition"] == "&topic.Partitions[i.pi]"
		c.Check(okDefs, rule, f.Key+"#position", f.Pos(), m, "", fmt.Sprintf("current position is not fetches[0].Topics[ti].Partitions[pi]: %v", defs))
	}
	if f := c.NeedFunc(m, "kgo.FetchesRecordIter.Next"); f != nil {
		var ss []string
		for _, s := range f.Decl.Body.List {
			ss = append(ss, nosp(nodeStr(s)))
		}
		c.Check(strings.Join(ss, ";") == "next:=i.fetches[0].Topics[i.ti].Partitions[i.pi].Records[i.ri];i.ri++;i.prepareNext();returnnext", "iterator-skip-conditions", f.Key, f.Pos(), m, "", "Next is `"+strings.Join(ss, ";")+"`")
	}
	if f := c.NeedFunc(m, "kgo.FetchesRecordIter.Done"); f != nil {
		c.Check(nosp(nodeStr(f.Decl.Body.List[0])) == "returnlen(i.fetches)==0", "iterator-skip-conditions", f.Key, f.Pos(), m, "", "Done is not len(fetches) == 0")
	}
	if f := c.NeedFunc(m, "kgo.Fetches.RecordIter"); f != nil {
		var ss []string
		for _, s := range f.Decl.Body.List {
			ss = append(ss, nosp(nodeStr(s)))
		}
		c.Check(len(ss) == 3 && ss[1] == "iter.prepareNext()" && ss[2] == "returniter", "iterator-skip-conditions", f.Key, f.Pos(), m, "", "RecordIter does not prepare the first position")
	}
	// (2) nested unfiltered traversals
	rule2 := "accessor-traversal-shape"
	for _, key := range []string{"kgo.Fetches.EachPartition", "kgo.Fetches.EachError", "kgo.Fetches.Err", "kgo.Fetches.Empty"} {
		f := c.NeedFunc(m, key)
		if f == nil {
			continue
		}
		var loops []*ast.RangeStmt
		ast.Inspect(f.Decl.Body, func(x ast.Node) bool {
			if rs, ok := x.(*ast.RangeStmt); ok {
				loops = append(loops, rs)
			}
			return true
		})
		okShape := len(loops) == 3
		var why []string
		if okShape {
			xs := []string{nosp(exprStr(loops[0].X)), nosp(exprStr(loops[1].X)), nosp(exprStr(loops[2].X))}
			if xs[0] != "fs" || !strings.HasSuffix(xs[1], ".Topics") || !strings.HasSuffix(xs[2], ".Partitions") {
				okShape = false
				why = append(why, "loops range over "+strings.Join(xs, " / "))
			}
			// nesting
			if !(loops[0].Body.Pos() <= loops[1].Pos() && loops[1].End() <= loops[0].Body.End() && loops[1].Body.Pos() <= loops[2].Pos() && loops[2].End() <= loops[1].Body.End()) {
				okShape = false
				why = append(why, "loops are not nested")
			}
			// no filtering statements in the two outer loop bodies: only definitions and the inner loop
			for li := 0; li < 2; li++ {
				for _, st := range loops[li].Body.List {
					switch s := st.(type) {
					case *ast.RangeStmt:
					case *ast.AssignStmt:
						if s.Tok != token.DEFINE {
							okShape = false
							why = append(why, "unexpected statement in an outer loop: "+nodeStr(s))
						}
					default:
						okShape = false
						why = append(why, "filter/extra statement in an outer loop: "+nodeStr(st))
					}
				}
			}
			// no continue/break anywhere
			if containsNode(loops[0], false, func(y ast.Node) bool {
				b, ok := y.(*ast.BranchStmt)
				return ok && (b.Tok == token.CONTINUE || b.Tok == token.BREAK)
			}) {
				okShape = false
				why = append(why, "continue/break inside the traversal")
			}
		} else {
			why = append(why, fmt.Sprintf("%d range loops, want 3", len(loops)))
		}
		c.Check(okShape, rule2, key, f.Pos(), m, "fetches -> Topics -> Partitions, unfiltered", strings.Join(why, "; "))
		if !okShape {
			continue
		}
		leaf := loops[2].Body.List
		switch key {
		case "kgo.Fetches.EachPartition":
			ok := len(leaf) == 1
			if ok {
				s := nosp(nodeStr(leaf[0]))
				ok = strings.HasPrefix(s, "fn(FetchTopicPartition{")
				got := map[string]string{}
				ast.Inspect(leaf[0], func(y ast.Node) bool {
					if kv, isKV := y.(*ast.KeyValueExpr); isKV {
						got[exprStr(kv.Key)] = nosp(exprStr(kv.Value))
					}
					return true
				})
				idx := exprStr(loops[2].Key)
				ok = ok && got["Topic"] == "topic.Topic" && got["FetchPartition"] == "topic.Partitions["+idx+"]"
			}
			c.Check(ok, rule2, key+"#leaf", loops[2].Pos(), m, "fn for every partition with its topic", "EachPartition does not call fn unconditionally with {topic.Topic, topic.Partitions[i]}")
		case "kgo.Fetches.EachError", "kgo.Fetches.Err":
			ok := false
			for _, st := range leaf {
				if ifs, isIf := st.(*ast.IfStmt); isIf && nosp(exprStr(ifs.Cond)) == "fp.Err!=nil" && len(ifs.Body.List) == 1 {
					b := nosp(nodeStr(ifs.Body.List[0]))
					ok = b == "fn(ft.Topic,fp.Partition,fp.Err)" || b == "returnfp.Err"
				}
			}
			c.Check(ok, rule2, key+"#leaf", loops[2].Pos(), m, "exactly the partitions with Err != nil", "the error accessor's leaf test is not `fp.Err != nil`")
		case "kgo.Fetches.Empty":
			ok := len(leaf) == 1
			if ok {
				ifs, isIf := leaf[0].(*ast.IfStmt)
				ok = isIf && strings.HasPrefix(nosp(exprStr(ifs.Cond)), "len(") && strings.HasSuffix(nosp(exprStr(ifs.Cond)), ".Records)>0") && nosp(nodeStr(ifs.Body.List[0])) == "returnfalse"
			}
			last := nosp(nodeStr(f.Decl.Body.List[len(f.Decl.Body.List)-1]))
			c.Check(ok && last == "returntrue", rule2, key+"#leaf", loops[2].Pos(), m, "false exactly when some partition has records", "Empty's leaf test is not len(Records) > 0 -> false, else true")
		}
	}
	// (3) builds-on
	rule3 := "accessor-builds-on"
	bodyStr := func(key string) (string, *Func) {
		f := c.NeedFunc(m, key)
		if f == nil {
			return "", nil
		}
		return nows(printNode(m.Fset, f.Decl.Body)), f
	}
	if s, f := bodyStr("kgo.Fetches.EachRecord"); f != nil {
		c.Check(s == nows("{for iter := fs.RecordIter(); !iter.Done(); {fn(iter.Next())}}"), rule3, f.Key, f.Pos(), m, "drains RecordIter", "EachRecord is not a plain drain of RecordIter")
	}
	if s, f := bodyStr("kgo.Fetches.RecordsAll"); f != nil {
		c.Check(strings.Contains(s, "foriter:=fs.RecordIter();!iter.Done();{if!yield(iter.Next()){return}}"), rule3, f.Key, f.Pos(), m, "drains RecordIter", "RecordsAll is not a plain drain of RecordIter")
	}
	if s, f := bodyStr("kgo.Fetches.Records"); f != nil {
		c.Check(strings.Contains(s, "fs.EachPartition(func(pFetchTopicPartition){rs=append(rs,p.Records...)})") && strings.HasSuffix(s, "returnrs}"), rule3, f.Key, f.Pos(), m, "appends every partition's records", "Records does not append p.Records of every EachPartition visit")
	}
	if s, f := bodyStr("kgo.Fetches.NumRecords"); f != nil {
		c.Check(strings.Contains(s, "fs.EachPartition(func(pFetchTopicPartition){n+=len(p.Records)})") && strings.HasSuffix(s, "returnn}"), rule3, f.Key, f.Pos(), m, "sums len(p.Records)", "NumRecords does not sum len(p.Records) over EachPartition")
	}
	if s, f := bodyStr("kgo.Fetches.Errors"); f != nil {
		c.Check(strings.Contains(s, "fs.EachError(func(tstring,pint32,errerror){errs=append(errs,FetchError{t,p,err})})") && strings.HasSuffix(s, "returnerrs}"), rule3, f.Key, f.Pos(), m, "collects EachError", "Errors does not collect every EachError visit")
	}
	c38shortcuts(c, m)
	// (4) EachTopic
	if f := c.NeedFunc(m, "kgo.Fetches.EachTopic"); f != nil {
		rule4 := "each-topic-merge"
		g := f.Graph()
		nApp, nID := 0, 0
		ast.Inspect(f.Decl.Body, func(x ast.Node) bool {
			as, ok := x.(*ast.AssignStmt)
			if !ok || len(as.Lhs) != 1 {
				return true
			}
			l, okl := g.LocOf(as)
			if !okl {
				return true
			}
			lhs := nosp(exprStr(as.Lhs[0]))
			var conds []string
			for _, ft := range g.FactsAt(l) {
				if _, isCase := ft.Cond.(*ast.BasicLit); isCase || ft.Tag != nil {
					continue
				}
				s := nosp(exprStr(ft.Cond))
				if !ft.Val {
					s = "!(" + s + ")"
				}
				conds = append(conds, s)
			}
			switch lhs {
			case "topics[topic.Topic]":
				nApp++
				c.Check(nosp(exprStr(as.Rhs[0])) == "append(topics[topic.Topic],topic.Partitions...)" && len(conds) == 0, rule4, f.Key+"#merge-partitions", as.Pos(), m, "every entry's partitions are appended", "partitions are merged as `"+exprStr(as.Rhs[0])+"` under "+strings.Join(conds, ","))
			case "ids[topic.Topic]":
				nID++
				c.Check(nosp(exprStr(as.Rhs[0])) == "topic.TopicID" && len(conds) == 1 && conds[0] == "topic.TopicID!=([16]byte{})", rule4, f.Key+"#keep-topic-id", as.Pos(), m, "any non-zero ID is kept", "the topic ID is stored under `"+strings.Join(conds, ",")+"` (must be exactly TopicID != zero): a later non-zero ID is lost when the first entry has none")
			}
			return true
		})
		c.Check(nApp == 1 && nID == 1, rule4, f.Key+"#stores", f.Pos(), m, "", "merge / id stores not found")
		okOut := false
		ast.Inspect(f.Decl.Body, func(x ast.Node) bool {
			rs, ok := x.(*ast.RangeStmt)
			if !ok || exprStr(rs.X) != "topics" || len(rs.Body.List) != 1 {
				return true
			}
			okOut = nosp(nodeStr(rs.Body.List[0])) == "fn(FetchTopic{…})" || strings.HasPrefix(nows(printNode(m.Fset, rs.Body.List[0])), "fn(FetchTopic{topic,ids[topic],partitions,})")
			return true
		})
		c.Check(okOut, rule4, f.Key+"#report", f.Pos(), m, "each group reported once with its ID", "merged topics are not reported as {topic, ids[topic], partitions}")
		okSingle := false
		ast.Inspect(f.Decl.Body, func(x ast.Node) bool {
			rs, ok := x.(*ast.RangeStmt)
			if ok && nosp(exprStr(rs.X)) == "fs[0].Topics" && len(rs.Body.List) == 1 && nosp(nodeStr(rs.Body.List[0])) == "fn("+exprStr(rs.Value)+")" {
				okSingle = true
			}
			return true
		})
		c.Check(okSingle, rule4, f.Key+"#single-fetch", f.Pos(), m, "", "single-fetch shortcut does not pass every topic through")
	}
}

// nows removes all whitespace.
func nows(s string) string {
	return strings.Join(strings.Fields(s), "")
}

// c38shortcuts: the collecting accessors may return early only on a guard
// that itself looks at every partition. Err0 inspects fs[0].Topics[0].Partitions[0]
// only, so `if fs.Err0() == nil { return nil }` in Errors() hides every error
// that is not on the very first partition.
func c38shortcuts(c *Ctx, m *Module) {
	rule := "accessor-no-partial-shortcut"
	complete := map[string]map[string]bool{
		"errors":  {"fs.Err()==nil": true, "len(fs)==0": true, "fs.Err()!=nil": true, "len(fs)>0": true, "len(fs)!=0": true},
		"records": {"fs.Empty()": true, "!fs.Empty()": true, "fs.NumRecords()==0": true, "fs.NumRecords()>0": true, "fs.NumRecords()!=0": true, "len(fs)==0": true, "len(fs)>0": true, "len(fs)!=0": true},
	}
	kinds := map[string]string{
		"kgo.Fetches.Errors": "errors", "kgo.Fetches.EachError": "errors", "kgo.Fetches.Err": "errors",
		"kgo.Fetches.Records": "records", "kgo.Fetches.NumRecords": "records", "kgo.Fetches.EachRecord": "records", "kgo.Fetches.RecordsAll": "records", "kgo.Fetches.EachPartition": "records", "kgo.Fetches.Empty": "records",
	}
	n := 0
	for key, kind := range kinds {
		f := c.NeedFunc(m, key)
		if f == nil {
			continue
		}
		n++
		bad, unk := "", ""
		var walk func(list []ast.Stmt)
		walk = func(list []ast.Stmt) {
			for _, st := range list {
				ifs, ok := st.(*ast.IfStmt)
				if !ok {
					continue
				}
				// only guards that leave the accessor matter
				leaves := containsNode(ifs.Body, false, func(y ast.Node) bool { _, isR := y.(*ast.ReturnStmt); return isR })
				if !leaves {
					continue
				}
				cond := nosp(exprStr(ifs.Cond))
				switch {
				case complete[kind][cond]:
				case strings.Contains(cond, "Err0()") || strings.Contains(cond, "fs[") || (kind == "errors" && (strings.Contains(cond, "Empty()") || strings.Contains(cond, "NumRecords()"))) || (kind == "records" && strings.Contains(cond, "Err()")):
					bad = exprStr(ifs.Cond)
				default:
					unk = exprStr(ifs.Cond)
				}
			}
		}
		walk(f.Decl.Body.List)
		switch {
		case bad != "":
			c.Fail(rule, key+"#early-return", f.Pos(), m, "the accessor returns early on `"+bad+"`, which does not look at every partition of every fetch (Err0 is the first partition of the first topic of the first fetch only): partitions the sibling accessors report are left out")
		case unk != "":
			c.Undecided(rule, key+"#early-return", f.Pos(), m, "unrecognised early-return guard `"+unk+"`")
		default:
			c.OK(rule, key+"#early-return", f.Pos(), m, "no early return on a partial view")
		}
	}
	c.Floor(rule+"/accessors", n, 9)
}
