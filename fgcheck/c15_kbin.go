package main

// C15, part 4: the composite append primitives of pkg/kmsg/internal/kbin that
// the generated AppendTo calls. Each one is symbolically evaluated (calls to
// other composites inlined, nil / flag / length conditions forked) into cases
// of a byte-sequence over the leaf encoders, and compared with the wire format
// of generate/README.md ("string: int16 size specifier followed by that many
// bytes", compact = uvarint(len+1), null = -1 resp. 0). A single-byte fast
// path for a uvarint is accepted only when the path condition bounds the
// value below 0x80.

import (
	"fmt"
	"go/ast"
	"go/token"
	"go/types"
	"strings"
)

type c15kItem struct{ k, e string }

type c15kCond struct {
	kind string // nil | flag | lenlt
	subj string // normalised subject ($1, len($1), ...)
	val  bool
	n    int64 // lenlt: subj < n (val) or subj >= n (!val)
}

type c15kCase struct {
	conds []c15kCond
	seq   []c15kItem
}

var c15kLeaves = map[string]string{
	"AppendUint16": "Uint16", "AppendUint32": "Uint32", "appendUint64": "Uint64", "AppendUvarint": "Uvarint", "appendUvarlong": "Uvarlong",
	"AppendVarint": "Varint", "AppendVarlong": "Varlong", "AppendBool": "Bool", "AppendInt8": "Int8", "AppendUuid": "Uuid",
}

// c15kSpec: expected sequence per selector ("" unconditional; nil/nonnil on $1; true/false on the bool flag $2).
var c15kSpec = map[string]map[string][]c15kItem{
	"AppendInt16":                   {"": {{"Uint16", "$1"}}},
	"AppendInt32":                   {"": {{"Uint32", "$1"}}},
	"AppendInt64":                   {"": {{"Uint64", "$1"}}},
	"AppendFloat64":                 {"": {{"Uint64", "math.Float64bits($1)"}}},
	"AppendString":                  {"": {{"Uint16", "len($1)"}, {"raw", "$1"}}},
	"AppendCompactString":           {"": {{"Uvarint", "1+len($1)"}, {"raw", "$1"}}},
	"AppendNullableString":          {"nil": {{"Uint16", "-1"}}, "nonnil": {{"Uint16", "len(*$1)"}, {"raw", "*$1"}}},
	"AppendCompactNullableString":   {"nil": {{"Uvarint", "0"}}, "nonnil": {{"Uvarint", "1+len(*$1)"}, {"raw", "*$1"}}},
	"AppendBytes":                   {"": {{"Uint32", "len($1)"}, {"raw", "$1"}}},
	"AppendCompactBytes":            {"": {{"Uvarint", "1+len($1)"}, {"raw", "$1"}}},
	"AppendNullableBytes":           {"nil": {{"Uint32", "-1"}}, "nonnil": {{"Uint32", "len($1)"}, {"raw", "$1"}}},
	"AppendCompactNullableBytes":    {"nil": {{"Uvarint", "0"}}, "nonnil": {{"Uvarint", "1+len($1)"}, {"raw", "$1"}}},
	"AppendVarintString":            {"": {{"Varint", "len($1)"}, {"raw", "$1"}}},
	"AppendVarintBytes":             {"nil": {{"Varint", "-1"}}, "nonnil": {{"Varint", "len($1)"}, {"raw", "$1"}}},
	"AppendArrayLen":                {"": {{"Uint32", "$1"}}},
	"AppendCompactArrayLen":         {"": {{"Uvarint", "1+$1"}}},
	"AppendNullableArrayLen":        {"true": {{"Uint32", "-1"}}, "false": {{"Uint32", "$1"}}},
	"AppendCompactNullableArrayLen": {"true": {{"Uvarint", "0"}}, "false": {{"Uvarint", "1+$1"}}},
}

type c15K struct {
	m     *Module
	funcs map[string]*Func
	memo  map[string][]c15kCase
	busy  map[string]bool
}

type c15kEnv struct {
	f     *Func
	info  *types.Info
	subst map[types.Object]string
	dst   types.Object
}

func (k *c15K) fail(n ast.Node, f string, a ...any) {
	p := token.NoPos
	if n != nil {
		p = n.Pos()
	}
	panic(&c15Abort{pos: p, msg: fmt.Sprintf(f, a...)})
}

// norm renders an expression canonically: constants folded, conversions to
// basic types and parentheses dropped, parameters replaced.
func (k *c15K) norm(env *c15kEnv, e ast.Expr) string {
	e = unparen(e)
	if tv, ok := env.info.Types[e]; ok && tv.Value != nil {
		return c15ConstStr(tv.Value)
	}
	switch e := e.(type) {
	case *ast.Ident:
		if s, ok := env.subst[env.info.Uses[e]]; ok {
			return s
		}
		return e.Name
	case *ast.StarExpr:
		return "*" + k.norm(env, e.X)
	case *ast.UnaryExpr:
		return e.Op.String() + k.norm(env, e.X)
	case *ast.BinaryExpr:
		l, r := k.norm(env, e.X), k.norm(env, e.Y)
		if e.Op == token.ADD {
			if tv, ok := env.info.Types[e.Y]; ok && tv.Value != nil {
				if tl, ok := env.info.Types[e.X]; !ok || tl.Value == nil {
					l, r = r, l
				}
			}
		}
		return l + e.Op.String() + r
	case *ast.CallExpr:
		if tv, ok := env.info.Types[e.Fun]; ok && tv.IsType() && len(e.Args) == 1 {
			if _, basic := tv.Type.Underlying().(*types.Basic); basic {
				return k.norm(env, e.Args[0])
			}
		}
		var args []string
		for _, a := range e.Args {
			args = append(args, k.norm(env, a))
		}
		name := exprStr(e.Fun)
		if o := calleeObj(env.info, e); o != nil {
			name = o.Name()
			if o.Pkg() != nil && o.Pkg() != env.f.Pkg.Types {
				name = o.Pkg().Name() + "." + name
			}
		}
		return name + "(" + strings.Join(args, ",") + ")"
	case *ast.SliceExpr:
		if e.Low == nil && e.High == nil {
			return k.norm(env, e.X) + "[:]"
		}
	}
	k.fail(e, "expression %s is not understood", exprStr(e))
	return ""
}

// summary evaluates a composite append function into cases.
func (k *c15K) summary(name string) []c15kCase {
	if s, ok := k.memo[name]; ok {
		return s
	}
	f := k.funcs[name]
	if f == nil {
		k.fail(nil, "kbin.%s not found", name)
	}
	if k.busy[name] {
		k.fail(f.Decl, "kbin.%s is recursive", name)
	}
	k.busy[name] = true
	defer delete(k.busy, name)
	env := &c15kEnv{f: f, info: f.Info(), subst: map[types.Object]string{}}
	i := 0
	for _, fl := range f.Decl.Type.Params.List {
		for _, n := range fl.Names {
			o := env.info.Defs[n]
			if i == 0 {
				env.dst = o
			} else {
				env.subst[o] = fmt.Sprintf("$%d", i)
			}
			i++
		}
	}
	if env.dst == nil {
		k.fail(f.Decl, "kbin.%s has no dst parameter", name)
	}
	var out []c15kCase
	k.exec(env, f.Decl.Body.List, c15kCase{}, &out)
	k.memo[name] = out
	return out
}

func (k *c15K) isDst(env *c15kEnv, e ast.Expr) bool {
	id, ok := unparen(e).(*ast.Ident)
	return ok && env.info.Uses[id] == env.dst
}

// call evaluates F(dst, args...) or append(dst, ...) into alternative continuations.
func (k *c15K) call(env *c15kEnv, e ast.Expr, cur c15kCase) []c15kCase {
	c, ok := unparen(e).(*ast.CallExpr)
	if !ok || len(c.Args) < 1 || !k.isDst(env, c.Args[0]) {
		k.fail(e, "%s does not append to dst", exprStr(e))
	}
	o := calleeObj(env.info, c)
	if b, ok := o.(*types.Builtin); ok && b.Name() == "append" {
		n := c15kCase{conds: cur.conds, seq: append([]c15kItem{}, cur.seq...)}
		if c.Ellipsis.IsValid() {
			if len(c.Args) != 2 {
				k.fail(e, "append form")
			}
			n.seq = append(n.seq, c15kItem{"raw", strings.TrimSuffix(k.norm(env, c.Args[1]), "[:]")})
			return []c15kCase{n}
		}
		for _, a := range c.Args[1:] {
			n.seq = append(n.seq, c15kItem{"byte", k.norm(env, a)})
		}
		return []c15kCase{n}
	}
	fn, ok := o.(*types.Func)
	if !ok || !c15IsKbin(fn) {
		k.fail(e, "call %s is not a kbin append", exprStr(c.Fun))
	}
	var args []string
	for _, a := range c.Args[1:] {
		args = append(args, k.norm(env, a))
	}
	if leaf, ok := c15kLeaves[fn.Name()]; ok {
		if len(args) != 1 {
			k.fail(e, "leaf call arity")
		}
		n := c15kCase{conds: cur.conds, seq: append(append([]c15kItem{}, cur.seq...), c15kItem{leaf, args[0]})}
		return []c15kCase{n}
	}
	sub := func(s string) string {
		for i := len(args); i >= 1; i-- {
			s = strings.ReplaceAll(s, fmt.Sprintf("$%d", i), "\x00"+fmt.Sprint(i)+"\x00")
		}
		for i := len(args); i >= 1; i-- {
			s = strings.ReplaceAll(s, "\x00"+fmt.Sprint(i)+"\x00", args[i-1])
		}
		return s
	}
	var outs []c15kCase
	for _, cs := range k.summary(fn.Name()) {
		n := c15kCase{conds: append([]c15kCond{}, cur.conds...), seq: append([]c15kItem{}, cur.seq...)}
		for _, cd := range cs.conds {
			cd.subj = sub(cd.subj)
			n.conds = append(n.conds, cd)
		}
		for _, it := range cs.seq {
			n.seq = append(n.seq, c15kItem{it.k, sub(it.e)})
		}
		outs = append(outs, n)
	}
	return outs
}

func (k *c15K) cond(env *c15kEnv, e ast.Expr) c15kCond {
	e = unparen(e)
	if id, ok := e.(*ast.Ident); ok {
		if b, ok := env.info.TypeOf(id).Underlying().(*types.Basic); ok && b.Kind() == types.Bool {
			return c15kCond{kind: "flag", subj: k.norm(env, id), val: true}
		}
	}
	if be, ok := e.(*ast.BinaryExpr); ok {
		if id, ok := unparen(be.Y).(*ast.Ident); ok && env.info.Uses[id] == types.Universe.Lookup("nil") && (be.Op == token.EQL || be.Op == token.NEQ) {
			return c15kCond{kind: "nil", subj: k.norm(env, be.X), val: be.Op == token.EQL}
		}
		if n, ok := constInt(env.info, be.Y); ok {
			s := k.norm(env, be.X)
			switch be.Op {
			case token.LSS:
				return c15kCond{kind: "lenlt", subj: s, val: true, n: n}
			case token.LEQ:
				return c15kCond{kind: "lenlt", subj: s, val: true, n: n + 1}
			case token.GEQ:
				return c15kCond{kind: "lenlt", subj: s, val: false, n: n}
			case token.GTR:
				return c15kCond{kind: "lenlt", subj: s, val: false, n: n + 1}
			}
		}
	}
	k.fail(e, "condition %s is not understood", exprStr(e))
	return c15kCond{}
}

// define handles `x := <pure expression>` by substituting x with the expression.
func (k *c15K) define(env *c15kEnv, as *ast.AssignStmt) bool {
	if as.Tok != token.DEFINE || len(as.Lhs) != 1 || len(as.Rhs) != 1 {
		return false
	}
	id, ok := as.Lhs[0].(*ast.Ident)
	if !ok || id.Name == "_" {
		return false
	}
	pure := true
	ast.Inspect(as.Rhs[0], func(n ast.Node) bool {
		if c, ok := n.(*ast.CallExpr); ok {
			if tv, ok := env.info.Types[c.Fun]; ok && tv.IsType() {
				return true
			}
			if b, ok := calleeObj(env.info, c).(*types.Builtin); !ok || b.Name() != "len" {
				pure = false
			}
		}
		return true
	})
	if !pure {
		return false
	}
	env.subst[env.info.Defs[id]] = k.norm(env, as.Rhs[0])
	return true
}

// exec runs statements from state cur; finished cases are appended to out.
func (k *c15K) exec(env *c15kEnv, list []ast.Stmt, cur c15kCase, out *[]c15kCase) {
	if len(list) == 0 {
		k.fail(env.f.Decl, "kbin.%s: a path falls off the end without returning", env.f.Decl.Name.Name)
	}
	s, rest := list[0], list[1:]
	switch s := s.(type) {
	case *ast.ReturnStmt:
		if len(s.Results) != 1 {
			k.fail(s, "return form")
		}
		if k.isDst(env, s.Results[0]) {
			*out = append(*out, cur)
			return
		}
		*out = append(*out, k.call(env, s.Results[0], cur)...)
	case *ast.AssignStmt:
		if k.define(env, s) {
			k.exec(env, rest, cur, out)
			return
		}
		if s.Tok != token.ASSIGN || len(s.Lhs) != 1 || !k.isDst(env, s.Lhs[0]) {
			k.fail(s, "statement %s is not dst = ...", nodeStr(s))
		}
		for _, n := range k.call(env, s.Rhs[0], cur) {
			k.exec(env, rest, n, out)
		}
	case *ast.IfStmt:
		if s.Init != nil {
			// if x := expr; cond { ... }: x is a pure abbreviation
			ia, ok := s.Init.(*ast.AssignStmt)
			if !ok || !k.define(env, ia) {
				k.fail(s, "if with an init statement that is not `x := <pure expression>`")
			}
		}
		cd := k.cond(env, s.Cond)
		neg := cd
		neg.val = !cd.val
		thenCase := c15kCase{conds: append(append([]c15kCond{}, cur.conds...), cd), seq: cur.seq}
		elseCase := c15kCase{conds: append(append([]c15kCond{}, cur.conds...), neg), seq: cur.seq}
		k.exec(env, append(append([]ast.Stmt{}, s.Body.List...), rest...), thenCase, out)
		if s.Else != nil {
			eb, ok := s.Else.(*ast.BlockStmt)
			if !ok {
				k.fail(s, "else-if")
			}
			k.exec(env, append(append([]ast.Stmt{}, eb.List...), rest...), elseCase, out)
		} else {
			k.exec(env, rest, elseCase, out)
		}
	default:
		k.fail(s, "statement %s is not understood", nodeStr(s))
	}
}

func c15Kbin(c *Ctx, m *Module) {
	rule := "kbin-composite"
	k := &c15K{m: m, funcs: map[string]*Func{}, memo: map[string][]c15kCase{}, busy: map[string]bool{}}
	var names []string
	for _, f := range m.FuncsIn("kbin") {
		if !strings.HasSuffix(f.Pkg.PkgPath, "/pkg/kmsg/internal/kbin") || f.Decl.Recv != nil {
			continue
		}
		n := f.Decl.Name.Name
		if !strings.HasPrefix(strings.ToLower(n), "append") {
			continue
		}
		k.funcs[n] = f
		names = append(names, n)
	}
	for _, n := range names {
		f := k.funcs[n]
		if _, leaf := c15kLeaves[n]; leaf {
			continue
		}
		spec, ok := c15kSpec[n]
		if !ok {
			c.Undecided(rule, f.Key, f.Pos(), m, "append primitive with no wire-format specification in the checker")
			continue
		}
		c.Touch(f)
		func() {
			defer func() {
				if r := recover(); r != nil {
					a, ok := r.(*c15Abort)
					if !ok {
						panic(r)
					}
					p := a.pos
					if !p.IsValid() {
						p = f.Pos()
					}
					c.Undecided(rule, f.Key, p, m, "cannot be evaluated symbolically: "+a.msg)
				}
			}()
			cases := k.summary(n)
			var probs []string
			for _, cs := range cases {
				sel := ""
				bound := map[string]int64{} // subj -> exclusive upper bound
				for _, cd := range cs.conds {
					switch cd.kind {
					case "nil":
						if cd.subj == "$1" {
							sel = map[bool]string{true: "nil", false: "nonnil"}[cd.val]
						}
					case "flag":
						sel = fmt.Sprint(cd.val)
					case "lenlt":
						if cd.val {
							if b, ok := bound[cd.subj]; !ok || cd.n < b {
								bound[cd.subj] = cd.n
							}
						}
					}
				}
				want, ok := spec[sel]
				if !ok {
					// a null test the format does not need (nil slice == empty) falls under the unconditional format
					want, ok = spec[""]
				}
				if !ok {
					probs = append(probs, fmt.Sprintf("a path encodes without testing for null (conditions %v)", cs.conds))
					continue
				}
				if len(want) != len(cs.seq) {
					probs = append(probs, fmt.Sprintf("case %q writes %v, the wire format is %v", sel, cs.seq, want))
					continue
				}
				for i := range want {
					g, w := cs.seq[i], want[i]
					if g == w {
						continue
					}
					if g.k == "byte" && w.k == "Uvarint" && g.e == w.e {
						// single-byte fast path: valid iff the value is < 0x80 on this path
						max, known := c15kMax(g.e, bound)
						if known && max < 0x80 {
							continue
						}
						if known {
							probs = append(probs, fmt.Sprintf("single-byte fast path writes byte(%s) where the format is uvarint(%s), but on this path the value reaches %d: 0x80 and above need a continuation byte (e.g. a %d byte payload is written with prefix 0x%02x instead of 0x80 0x01)", g.e, w.e, max, 0x80-c15kConstPart(g.e), 0x80))
						} else {
							probs = append(probs, fmt.Sprintf("byte(%s) written where the format is uvarint(%s) and the value is not bounded below 0x80", g.e, w.e))
						}
						continue
					}
					probs = append(probs, fmt.Sprintf("case %q step %d writes %s(%s), the wire format is %s(%s)", sel, i+1, g.k, g.e, w.k, w.e))
				}
			}
			need := map[string]bool{}
			for s := range spec {
				need[s] = true
			}
			for _, cs := range cases {
				for _, cd := range cs.conds {
					if cd.kind == "nil" && cd.subj == "$1" {
						delete(need, map[bool]string{true: "nil", false: "nonnil"}[cd.val])
					}
					if cd.kind == "flag" {
						delete(need, fmt.Sprint(cd.val))
					}
				}
				if len(cs.conds) == 0 || need[""] {
					delete(need, "")
				}
			}
			for s := range need {
				probs = append(probs, fmt.Sprintf("no path handles the %q case", s))
			}
			c.Check(len(probs) == 0, rule, f.Key, f.Pos(), m, fmt.Sprintf("%d paths match the wire format", len(cases)),
				"kbin."+n+" does not produce the documented wire format for every input: "+strings.Join(probs, "; "))
		}()
	}
	c.Floor(rule, c.ruleCnt[rule], 18)
}

// c15kConstPart returns K of an expression K+len(x) (0 if none).
func c15kConstPart(e string) int64 {
	var k int64
	if i := strings.Index(e, "+"); i > 0 {
		fmt.Sscan(e[:i], &k)
	}
	return k
}

// c15kMax bounds K+subj or subj given exclusive upper bounds of subjects.
func c15kMax(e string, bound map[string]int64) (int64, bool) {
	if b, ok := bound[e]; ok {
		return b - 1, true // the whole expression is bounded by the path condition
	}
	k, rest := int64(0), e
	if i := strings.Index(e, "+"); i > 0 {
		if _, err := fmt.Sscan(e[:i], &k); err == nil {
			rest = e[i+1:]
		}
	}
	b, ok := bound[rest]
	if !ok || !strings.HasPrefix(rest, "len(") {
		return 0, false
	}
	return k + b - 1, true
}
