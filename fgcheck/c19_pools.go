package main

import (
	"fmt"
	"go/ast"
	"go/token"
	"go/types"
	"strings"
)

type c19lit struct {
	f   *Func // nil for package-level initialisers
	lit *ast.FuncLit
	at  ast.Node // where the literal is bound (assignment or composite literal)
}

func (l c19lit) info(e *c19env) *types.Info {
	if l.f != nil {
		return l.f.Info()
	}
	return e.m.Pkg("kgo").TypesInfo
}

// c19poolOfGet: `P.Get().(T)` -> P
func c19poolOfGet(info *types.Info, def ast.Expr) ast.Expr {
	if def == nil {
		return nil
	}
	ta, ok := unparen(def).(*ast.TypeAssertExpr)
	if !ok {
		return nil
	}
	call, ok := unparen(ta.X).(*ast.CallExpr)
	if !ok {
		return nil
	}
	fn, _ := calleeObj(info, call).(*types.Func)
	if fn == nil || keyOfObj(fn) != "sync.Pool.Get" {
		return nil
	}
	return call.Fun.(*ast.SelectorExpr).X
}

// poolNews resolves the function literals that can be the New of the pool
// denoted by expr (a struct field or a package variable).
func (e *c19env) poolNews(pool ast.Expr) ([]c19lit, bool) {
	pinfo := e.m.Pkg("kgo").TypesInfo
	var out []c19lit
	ok := true
	fromLit := func(f *Func, cl ast.Expr, at ast.Node) {
		lit, isLit := unparen(cl).(*ast.CompositeLit)
		if !isLit {
			ok = false
			return
		}
		found := false
		for _, el := range lit.Elts {
			kv, isKV := el.(*ast.KeyValueExpr)
			if !isKV || exprStr(kv.Key) != "New" {
				continue
			}
			found = true
			switch v := unparen(kv.Value).(type) {
			case *ast.FuncLit:
				out = append(out, c19lit{f, v, at})
			case *ast.Ident:
				if f == nil {
					ok = false
					return
				}
				obj := f.Info().Uses[v]
				n := 0
				ast.Inspect(f.Decl.Body, func(x ast.Node) bool {
					a, isA := x.(*ast.AssignStmt)
					if !isA || len(a.Lhs) != len(a.Rhs) {
						return true
					}
					for i, l := range a.Lhs {
						if c19objOf(f.Info(), l) == obj && obj != nil {
							if fl, isFL := unparen(a.Rhs[i]).(*ast.FuncLit); isFL {
								out = append(out, c19lit{f, fl, a})
								n++
							} else {
								ok = false
							}
						}
					}
					return true
				})
				if n == 0 {
					ok = false
				}
			default:
				ok = false
			}
		}
		if !found {
			ok = false
		}
	}
	if fld := fieldOfSel(pinfo, pool); fld != nil {
		sites := StoreSites(e.funcs, fld)
		if len(sites) == 0 {
			return nil, false
		}
		for _, s := range sites {
			if s.RHS == nil {
				return nil, false
			}
			fromLit(s.Fn, s.RHS, s.Node)
		}
		return out, ok
	}
	obj := c19objOf(pinfo, pool)
	if obj == nil {
		return nil, false
	}
	for _, file := range e.m.Pkg("kgo").Syntax {
		for _, d := range file.Decls {
			gd, isG := d.(*ast.GenDecl)
			if !isG || gd.Tok != token.VAR {
				continue
			}
			for _, sp := range gd.Specs {
				vs := sp.(*ast.ValueSpec)
				for i, id := range vs.Names {
					if pinfo.Defs[id] == obj && i < len(vs.Values) {
						fromLit(nil, vs.Values[i], vs)
					}
				}
			}
		}
	}
	return out, ok && len(out) > 0
}

// ---- (6) pool-discipline ----

func (e *c19env) rulePools(fC, fD *Func) {
	c, m := e.c, e.m
	rule := "pool-discipline"
	n := 0
	// compression.go's Compress/Decompress plus every function of package kgo
	// that takes a buffer from the shared byteBuffers pool (whose New returns
	// a buffer of non-zero length and whose users put dirty buffers back)
	bb := m.Object("kgo", "byteBuffers")
	isBBGet := func(f *Func, x ast.Node) bool {
		ta, ok := x.(*ast.TypeAssertExpr)
		if !ok || bb == nil {
			return false
		}
		p := c19poolOfGet(f.Info(), ta)
		return p != nil && c19objOf(f.Info(), p) == bb
	}
	targets := []*Func{fC, fD}
	nbb, nbbSeen := 0, 0
	for _, f := range e.funcs {
		deep := len(findNodes(f.Decl.Body, true, func(x ast.Node) bool { return isBBGet(f, x) }))
		if deep == 0 {
			continue
		}
		nbb += deep
		own := 0
		for _, x := range findNodes(f.Decl.Body, false, func(x ast.Node) bool {
			a, ok := x.(*ast.AssignStmt)
			return ok && len(a.Lhs) == 1 && len(a.Rhs) == 1 && isBBGet(f, unparen(a.Rhs[0]))
		}) {
			_ = x
			own++
		}
		nbbSeen += own
		if own != deep {
			c.Undecided(rule, f.Key+": byteBuffers#shape", f.Pos(), m, "a byteBuffers.Get() is not of the form `x := byteBuffers.Get().(*bytes.Buffer)` in the function's own body (inside a closure or not assigned): its Reset/Put discipline cannot be followed")
		}
		if f != fC && f != fD {
			targets = append(targets, f)
			c.Touch(f)
		}
	}
	c.Floor(rule+"/byteBuffers-gets", nbbSeen, 4)
	for _, f := range targets {
		info := f.Info()
		g := f.Graph()
		for _, x := range findNodes(f.Decl.Body, false, func(x ast.Node) bool {
			a, ok := x.(*ast.AssignStmt)
			return ok && len(a.Lhs) == 1 && len(a.Rhs) == 1 && c19poolOfGet(info, a.Rhs[0]) != nil
		}) {
			as := x.(*ast.AssignStmt)
			pool := c19poolOfGet(info, as.Rhs[0])
			obj := c19objOf(info, as.Lhs[0])
			ps := exprStr(pool)
			base := f.Key + ": " + ps
			T := info.TypeOf(as.Rhs[0])
			// type agreement
			lits, ok := e.poolNews(pool)
			n++
			if !ok {
				c.Undecided(rule, base+"#type", as.Pos(), m, "pool constructor not resolved")
			} else {
				var bad []string
				for _, pl := range lits {
					li := pl.info(e)
					for _, r := range findNodes(pl.lit.Body, false, func(x ast.Node) bool { _, ok := x.(*ast.ReturnStmt); return ok }) {
						rs := r.(*ast.ReturnStmt)
						if len(rs.Results) != 1 {
							continue
						}
						rt := li.TypeOf(rs.Results[0])
						if rt == nil || !types.Identical(rt, T) {
							bad = append(bad, fmt.Sprintf("New at %s returns %v", m.Position(rs.Pos()), rt))
						}
					}
				}
				c.Check(len(bad) == 0, rule, base+"#type", as.Pos(), m, "asserted type "+T.String()+" is what New returns",
					"Get().("+T.String()+") but "+strings.Join(bad, "; ")+": the type assertion panics")
			}
			// defer Put on every path
			gl, _ := g.LocOf(as)
			isPut := func(nd ast.Node) bool {
				d, ok := nd.(*ast.DeferStmt)
				if !ok {
					return false
				}
				if fl, isLit := unparen(d.Call.Fun).(*ast.FuncLit); isLit {
					// defer func() { ...; P.Put(x) }()
					return containsNode(fl.Body, false, func(y ast.Node) bool {
						pc, ok := y.(*ast.CallExpr)
						if !ok || len(pc.Args) != 1 {
							return false
						}
						pf, _ := calleeObj(info, pc).(*types.Func)
						if pf == nil || keyOfObj(pf) != "sync.Pool.Put" {
							return false
						}
						return exprStr(pc.Fun.(*ast.SelectorExpr).X) == ps && c19objOf(info, pc.Args[0]) == obj
					})
				}
				fn, _ := calleeObj(info, d.Call).(*types.Func)
				if fn == nil || keyOfObj(fn) != "sync.Pool.Put" || len(d.Call.Args) != 1 {
					return false
				}
				return exprStr(d.Call.Fun.(*ast.SelectorExpr).X) == ps && c19objOf(info, d.Call.Args[0]) == obj
			}
			isResetStmt := func(nd ast.Node) bool {
				es, ok := nd.(*ast.ExprStmt)
				if !ok {
					return false
				}
				call, ok := es.X.(*ast.CallExpr)
				if !ok {
					return false
				}
				s, ok := unparen(call.Fun).(*ast.SelectorExpr)
				return ok && (s.Sel.Name == "Reset" || s.Sel.Name == "Truncate") && c19objOf(info, s.X) == obj
			}
			_, leak := g.FindPath(gl, SearchOpts{Stop: isPut, GoalExit: func(ExitKind, ast.Node) bool { return true },
				GoalNode: func(nd ast.Node) bool { return !isPut(nd) && !isResetStmt(nd) && mentionsObj(nd, info, obj, false) }})
			n++
			c.Check(!leak, rule, base+"#put", as.Pos(), m, "defer Put(x) directly follows Get", "the pooled object is used or the function exits before `defer "+ps+".Put("+obj.Name()+")`: objects leak from the pool or are returned while in use")
			// reset before use
			ts := T.String()
			streaming := map[string]string{"*compress/gzip.Writer": "w", "*" + c19PathLz4 + ".Writer": "w", "*compress/gzip.Reader": "r", "*" + c19PathLz4 + ".Reader": "r", "*bytes.Buffer": "b"}
			kind, isStream := streaming[ts]
			isReset := func(nd ast.Node) bool {
				return containsNode(nd, false, func(y ast.Node) bool {
					call, ok := y.(*ast.CallExpr)
					if !ok {
						return false
					}
					s, ok := unparen(call.Fun).(*ast.SelectorExpr)
					if !ok || c19objOf(info, s.X) != obj {
						return false
					}
					if s.Sel.Name == "Truncate" && len(call.Args) == 1 {
						v, okc := constInt(info, call.Args[0])
						return okc && v == 0
					}
					return s.Sel.Name == "Reset"
				})
			}
			if isStream {
				_, dirty := g.FindPath(gl, SearchOpts{Stop: isReset, GoalNode: func(nd ast.Node) bool {
					return !isPut(nd) && !isReset(nd) && mentionsObj(nd, info, obj, false)
				}})
				n++
				c.Check(!dirty, rule, base+"#reset", as.Pos(), m, "Reset before first use", "the pooled "+ts+" is used (written, passed to Compress, ...) before it is Reset on some path: the pool's New returns a non-empty buffer and other users put dirty buffers back, so stale bytes / the previous destination precede this batch's output (compressed data no longer decompresses)")
				// reset argument
				for _, y := range findNodes(f.Decl.Body, false, func(y ast.Node) bool {
					call, ok := y.(*ast.CallExpr)
					if !ok {
						return false
					}
					s, ok := unparen(call.Fun).(*ast.SelectorExpr)
					return ok && s.Sel.Name == "Reset" && c19objOf(info, s.X) == obj
				}) {
					call := y.(*ast.CallExpr)
					switch kind {
					case "w":
						n++
						c.Check(len(call.Args) == 1 && c19objOf(info, call.Args[0]) == e.param(f, 0), rule, base+"#reset-arg", call.Pos(), m, "writer reset onto dst", "writer is reset onto `"+exprStr(call)+"`, not onto the dst buffer whose bytes are returned")
					case "r":
						n++
						c.Check(len(call.Args) == 1 && mentionsObj(call.Args[0], info, e.param(f, 0), false), rule, base+"#reset-arg", call.Pos(), m, "reader reset onto src", "reader is reset onto `"+exprStr(call)+"`, which does not read src")
					}
				}
				if kind == "w" {
					n += e.writerFlush(f, g, as, obj, base)
				}
			} else {
				// stateless block codecs: only EncodeAll / DecodeAll / MaxEncodedSize may be used
				var bad []string
				for _, y := range findNodes(f.Decl.Body, false, func(y ast.Node) bool { _, ok := y.(*ast.CallExpr); return ok }) {
					call := y.(*ast.CallExpr)
					s, ok := unparen(call.Fun).(*ast.SelectorExpr)
					if !ok || !mentionsObj(s.X, info, obj, false) {
						continue
					}
					switch s.Sel.Name {
					case "EncodeAll", "DecodeAll", "MaxEncodedSize":
					default:
						bad = append(bad, s.Sel.Name)
					}
				}
				n++
				if len(bad) > 0 {
					c.Undecided(rule, base+"#stateless", as.Pos(), m, "pooled "+ts+" is used through "+strings.Join(bad, ",")+": a streaming use needs a Reset rule that is not in the table")
				} else {
					c.OK(rule, base+"#stateless", as.Pos(), m, "only stateless one-shot calls")
				}
			}
		}
	}
	c.Floor(rule, n, 34)
}

// writerFlush: dst.Bytes() after a streaming writer is read only after Close with all errors checked, and src is written whole.
func (e *c19env) writerFlush(f *Func, g *Graph, get *ast.AssignStmt, w types.Object, base string) int {
	c, m := e.c, e.m
	rule := "pool-discipline"
	info := f.Info()
	dst, src := e.param(f, 0), e.param(f, 1)
	// the case clause holding the Get
	var arm ast.Node = f.Decl.Body
	for _, x := range findNodes(f.Decl.Body, false, func(x ast.Node) bool { _, ok := x.(*ast.CaseClause); return ok }) {
		if x.Pos() <= get.Pos() && get.End() <= x.End() {
			arm = x
		}
	}
	n := 0
	var reads []ast.Node
	for _, x := range findNodes(arm, false, func(x ast.Node) bool {
		call, ok := x.(*ast.CallExpr)
		if !ok {
			return false
		}
		s, ok := unparen(call.Fun).(*ast.SelectorExpr)
		return ok && s.Sel.Name == "Bytes" && c19objOf(info, s.X) == dst
	}) {
		reads = append(reads, x)
	}
	n++
	if len(reads) == 0 {
		c.Undecided(rule, base+"#flush", get.Pos(), m, "no dst.Bytes() read in the arm of the streaming writer")
		return n
	}
	var errObjs []types.Object
	var wrote, closed bool
	for _, x := range findNodes(arm, false, func(x ast.Node) bool { _, ok := x.(*ast.CallExpr); return ok }) {
		call := x.(*ast.CallExpr)
		s, ok := unparen(call.Fun).(*ast.SelectorExpr)
		if !ok || c19objOf(info, s.X) != w {
			continue
		}
		switch s.Sel.Name {
		case "Write":
			if len(call.Args) == 1 && c19objOf(info, call.Args[0]) == src {
				wrote = true
			}
		case "Close":
			closed = true
		default:
			continue
		}
		a := c19assignOf(f, call)
		if a == nil {
			errObjs = append(errObjs, nil)
			continue
		}
		errObjs = append(errObjs, c19objOf(info, a.Lhs[len(a.Lhs)-1]))
	}
	var bad []string
	if !wrote {
		bad = append(bad, "the whole src is not written with Write(src)")
	}
	if !closed {
		bad = append(bad, "the writer is never Closed: the stream trailer (gzip CRC/size, lz4 end mark) is missing and other implementations reject the data")
	}
	for _, rd := range reads {
		rl, _ := g.LocOf(rd)
		facts := g.FactsAt(rl)
		for _, eo := range errObjs {
			if !c19errNil(info, facts, eo) {
				bad = append(bad, "dst.Bytes() at "+m.Position(rd.Pos())+" is reachable without a checked Write/Close error")
			}
		}
		isClose := func(nd ast.Node) bool {
			return containsNode(nd, false, func(y ast.Node) bool {
				call, ok := y.(*ast.CallExpr)
				if !ok {
					return false
				}
				s, ok := unparen(call.Fun).(*ast.SelectorExpr)
				return ok && s.Sel.Name == "Close" && c19objOf(info, s.X) == w
			})
		}
		gl, _ := g.LocOf(get)
		if _, early := g.FindPath(gl, SearchOpts{Stop: isClose, GoalNode: func(nd ast.Node) bool { return containsNode(nd, false, func(y ast.Node) bool { return y == rd }) }}); early {
			bad = append(bad, "dst.Bytes() is reachable before Close")
		}
	}
	c.Check(len(bad) == 0, rule, base+"#flush", get.Pos(), m, "Write(src), Close, errors checked, then dst.Bytes()", strings.Join(bad, "; "))
	return n
}
