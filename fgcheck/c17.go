package main

import (
	"bytes"
	"fmt"
	"go/ast"
	"go/constant"
	"go/parser"
	"go/printer"
	"go/token"
	"go/types"
	"path/filepath"
	"sort"
	"strings"
)

func init() {
	register(&Prop{
		ID:        "C17",
		Level:     "other",
		Technique: "AST identity of the two primitives.go copies; constant evaluation of the uvarint length table; shape regularity of the unrolled varint decoders/encoders (per-step index, mask, shift, guard, return count); width/endianness agreement of fixed-width appenders and readers; compact/nullable length-prefix constants; dominating-guard bounds proof of every index/slice in kbin",
		Explanation: "(1) pkg/kmsg/internal/kbin/primitives.go is declaration-for-declaration identical to pkg/kbin/primitives.go after comment removal; " +
			"(2) uvarintLens[L] == max(1, ceil(L/7)) for every bit length 0..64 and 0 elsewhere, UvarintLen/uvarlongLen index it by bits.Len32/Len64, VarintLen/VarlongLen zig-zag with the same expression as the encoders; " +
			"(3) in Uvarint/uvarlong step k reads in[k], masks 0x7f, shifts by 7k, tests 0x80, returns k+1 and is guarded by len(in) < k+2; the last step compares the byte with 2^(W-7k)-1 and sets overflow = -(k+1); the failure return is (0, overflow); AppendUvarint/appendUvarlong case n emits n bytes with mirrored shifts and continuation bits and the cases cover 1..N; Varint/Varlong un-zig-zag with (x>>1)^-(x&1); " +
			"(4) fixed-width appenders emit descending 8-bit shifts (big endian) of the right count; each Reader fixed-width method guards, decodes with binary.BigEndian of the same width and advances by the same byte count; compact length prefixes are len+1 on write and -1 on read, null is -1 (plain) / 0 (compact) on write and <0 -> nil on read; the compact length is not narrowed through int8/16/32 between Uvarint() and the null test / Span (a prefix >= 2^31 is short input, not null); " +
			"(5) every index, slice and binary.BigEndian call in package kbin is proven in bounds from dominating guards (never reads past the input).",
		NotDecided: "value-level correctness of float encodings and of zig-zag beyond the expression shapes; behaviour of the unsafe string conversion; the compact nullable readers on targets whose int is 32 bits wide.",
		Run:        runC17,
	})
}

// alphaStr prints an expression with the function's parameters and locals
// renamed positionally, so that renaming a local does not change the result.
func alphaStr(f *Func, e ast.Node) string {
	names := map[types.Object]string{}
	n := 0
	assign := func(o types.Object) {
		if o == nil {
			return
		}
		if _, ok := names[o]; !ok {
			names[o] = fmt.Sprintf("v%d", n)
			n++
		}
	}
	if f.Decl.Recv != nil {
		for _, fl := range f.Decl.Recv.List {
			for _, id := range fl.Names {
				assign(f.Info().Defs[id])
			}
		}
	}
	for _, fl := range f.Decl.Type.Params.List {
		for _, id := range fl.Names {
			assign(f.Info().Defs[id])
		}
	}
	ast.Inspect(f.Decl.Body, func(x ast.Node) bool {
		if id, ok := x.(*ast.Ident); ok {
			if o := f.Info().Defs[id]; o != nil {
				if _, isVar := o.(*types.Var); isVar {
					assign(o)
				}
			}
		}
		return true
	})
	var buf bytes.Buffer
	var pr func(x ast.Node)
	s := nodeStr(e)
	// token-wise replacement over identifiers: re-walk and build mapping by name (locals shadowing package names is not used here)
	byName := map[string]string{}
	ast.Inspect(e, func(x ast.Node) bool {
		if id, ok := x.(*ast.Ident); ok {
			o := f.Info().Uses[id]
			if o == nil {
				o = f.Info().Defs[id]
			}
			if r, ok := names[o]; ok {
				byName[id.Name] = r
			}
		}
		return true
	})
	_ = pr
	_ = buf
	// replace whole-word identifiers
	var out strings.Builder
	i := 0
	isId := func(c byte) bool {
		return c == '_' || c >= 'a' && c <= 'z' || c >= 'A' && c <= 'Z' || c >= '0' && c <= '9'
	}
	for i < len(s) {
		if isId(s[i]) && !(s[i] >= '0' && s[i] <= '9') {
			j := i
			for j < len(s) && isId(s[j]) {
				j++
			}
			w := s[i:j]
			prevDot := i > 0 && s[i-1] == '.'
			if r, ok := byName[w]; ok && !prevDot {
				out.WriteString(r)
			} else {
				out.WriteString(w)
			}
			i = j
			continue
		}
		if s[i] >= '0' && s[i] <= '9' {
			j := i
			for j < len(s) && isId(s[j]) {
				j++
			}
			out.WriteString(s[i:j])
			i = j
			continue
		}
		out.WriteByte(s[i])
		i++
	}
	return out.String()
}

func declsNoComments(path string) (map[string]string, []string, error) {
	fset := token.NewFileSet()
	file, err := parser.ParseFile(fset, path, nil, parser.SkipObjectResolution)
	if err != nil {
		return nil, nil, err
	}
	out := map[string]string{}
	var order []string
	put := func(name string, n ast.Node) {
		var b bytes.Buffer
		printer.Fprint(&b, fset, n)
		if _, dup := out[name]; dup {
			name = name + "'"
		}
		out[name] = b.String()
		order = append(order, name)
	}
	for _, d := range file.Decls {
		switch x := d.(type) {
		case *ast.FuncDecl:
			name := x.Name.Name
			if x.Recv != nil && len(x.Recv.List) > 0 {
				name = recvTypeName(x.Recv.List[0].Type) + "." + name
			}
			x.Doc = nil
			put("func "+name, x)
		case *ast.GenDecl:
			x.Doc = nil
			for _, s := range x.Specs {
				switch sp := s.(type) {
				case *ast.ValueSpec:
					sp.Doc, sp.Comment = nil, nil
					put(x.Tok.String()+" "+sp.Names[0].Name, sp)
				case *ast.TypeSpec:
					sp.Doc, sp.Comment = nil, nil
					put("type "+sp.Name.Name, sp)
				case *ast.ImportSpec:
					put("import "+sp.Path.Value, sp)
				}
			}
		}
	}
	return out, order, nil
}

func runC17(c *Ctx) {
	m := c.Load("")
	if m == nil {
		return
	}
	// (1) copy identity
	a, order, err1 := declsNoComments(filepath.Join(repoRoot, "pkg/kbin/primitives.go"))
	b, _, err2 := declsNoComments(filepath.Join(repoRoot, "pkg/kmsg/internal/kbin/primitives.go"))
	if err1 != nil || err2 != nil {
		c.Undecided("kbin-copy-identical", "primitives.go", 0, m, fmt.Sprint(err1, err2))
	} else {
		for _, name := range order {
			bb, ok := b[name]
			c.Check(ok && bb == a[name], "kbin-copy-identical", name, 0, m, "identical in both copies",
				"pkg/kmsg/internal/kbin/primitives.go differs from pkg/kbin/primitives.go in this declaration")
		}
		for name := range b {
			if _, ok := a[name]; !ok {
				c.Fail("kbin-copy-identical", name, 0, m, "declaration exists only in pkg/kmsg/internal/kbin/primitives.go")
			}
		}
		c.Floor("kbin-copy-identical", len(order), 70)
	}

	// (5) bounds
	var keys []string
	for _, f := range m.FuncsIn("kbin") {
		keys = append(keys, f.Key)
	}
	n := boundsRule(c, m, "kbin-bounds", keys, kbinSummaries, nil)
	c.Floor("kbin-bounds", n, 45)

	c17table(c, m)
	c17decoder(c, m, "kbin.Uvarint", 32, 5)
	c17decoder(c, m, "kbin.uvarlong", 64, 10)
	c17encoder(c, m, "kbin.AppendUvarint", "UvarintLen", 5)
	c17encoder(c, m, "kbin.appendUvarlong", "uvarlongLen", 10)
	c17zigzag(c, m)
	c17fixed(c, m)
	c17prefixes(c, m)
	c17compactLen(c, m)
}

func c17table(c *Ctx, m *Module) {
	obj := m.Object("kbin", "uvarintLens")
	cn, ok := obj.(*types.Const)
	if !ok || cn.Val().Kind() != constant.String {
		c.Undecided("uvarint-len-table", "kbin.uvarintLens", 0, m, "constant string table not found")
		return
	}
	s := constant.StringVal(cn.Val())
	c.Check(len(s) == 256, "uvarint-len-table", "kbin.uvarintLens len", obj.Pos(), m, "256 entries (byte index always in range)", fmt.Sprintf("table has %d entries; a byte index can exceed it", len(s)))
	for L := 0; L < len(s); L++ {
		want := 0
		if L <= 64 {
			want = (L + 6) / 7
			if want == 0 {
				want = 1
			}
		}
		c.Check(int(s[L]) == want, "uvarint-len-table", fmt.Sprintf("kbin.uvarintLens[%d]", L), obj.Pos(), m, fmt.Sprint(want),
			fmt.Sprintf("entry for bit length %d is %d, want %d", L, s[L], want))
	}
	for _, t := range []struct{ fn, bits string }{{"kbin.UvarintLen", "Len32"}, {"kbin.uvarlongLen", "Len64"}} {
		f := c.NeedFunc(m, t.fn)
		if f == nil {
			continue
		}
		got := ""
		if len(f.Decl.Body.List) == 1 {
			if r, ok := f.Decl.Body.List[0].(*ast.ReturnStmt); ok && len(r.Results) == 1 {
				got = alphaStr(f, r.Results[0])
			}
		}
		want := "int(uvarintLens[byte(bits." + t.bits + "(v0))])"
		c.Check(nosp(got) == nosp(want), "uvarint-len-lookup", t.fn, f.Pos(), m, want, "length function is "+got+", want "+want)
	}
}

// destructuring helpers
func binop(e ast.Expr, op token.Token) (ast.Expr, ast.Expr, bool) {
	b, ok := unparen(e).(*ast.BinaryExpr)
	if !ok || b.Op != op {
		return nil, nil, false
	}
	return b.X, b.Y, true
}

func convArg(e ast.Expr, typ string) (ast.Expr, bool) {
	c, ok := unparen(e).(*ast.CallExpr)
	if !ok || len(c.Args) != 1 {
		return nil, false
	}
	if id, ok := c.Fun.(*ast.Ident); ok && id.Name == typ {
		return c.Args[0], true
	}
	return nil, false
}

func indexConst(info *types.Info, e ast.Expr, base string) (int64, bool) {
	ix, ok := unparen(e).(*ast.IndexExpr)
	if !ok {
		return 0, false
	}
	if id, ok := ix.X.(*ast.Ident); !ok || id.Name != base {
		return 0, false
	}
	return constInt(info, ix.Index)
}

func c17decoder(c *Ctx, m *Module, key string, W int, N int) {
	f := c.NeedFunc(m, key)
	if f == nil {
		return
	}
	info := f.Info()
	utype := fmt.Sprintf("uint%d", W)
	if len(f.Decl.Type.Params.List) != 1 || len(f.Decl.Type.Params.List[0].Names) != 1 {
		c.Undecided("varint-decoder-step", key, f.Pos(), m, "unexpected signature")
		return
	}
	in := f.Decl.Type.Params.List[0].Names[0].Name
	stmts := f.Decl.Body.List
	rule := "varint-decoder-step"
	steps := 0
	sawFirstGuard := false
	var failLabel string
	for i := 0; i < len(stmts); i++ {
		switch s := stmts[i].(type) {
		case *ast.DeclStmt:
			continue
		case *ast.IfStmt:
			if steps == 0 && !sawFirstGuard {
				// if len(in) < 1 { goto fail }
				x, y, ok := binop(s.Cond, token.LSS)
				k, okk := int64(0), false
				if ok {
					k, okk = constInt(info, y)
				}
				good := ok && exprStr(x) == "len("+in+")" && okk && k == 1 && len(s.Body.List) == 1 && s.Else == nil
				if good {
					if br, ok := s.Body.List[0].(*ast.BranchStmt); ok && br.Tok == token.GOTO {
						failLabel = br.Label.Name
					} else {
						good = false
					}
				}
				c.Check(good, rule, key+"#entry-guard", s.Pos(), m, "len(in) < 1 -> fail", "entry guard is not `if len(in) < 1 { goto fail }`")
				sawFirstGuard = true
				continue
			}
			c.Undecided(rule, key, s.Pos(), m, "unexpected if statement outside a step")
		case *ast.AssignStmt:
			if len(s.Lhs) != 1 || len(s.Rhs) != 1 {
				c.Undecided(rule, key, s.Pos(), m, "unexpected assignment")
				continue
			}
			lhs := exprStr(s.Lhs[0])
			if lhs == "overflow" {
				v, ok := constInt(info, s.Rhs[0])
				c.Check(ok && v == int64(-N) && steps == N, rule, key+"#overflow", s.Pos(), m, fmt.Sprintf("overflow = -%d after the last step", N),
					fmt.Sprintf("overflow marker is %s after %d steps, want -%d after %d", exprStr(s.Rhs[0]), steps, N, N))
				continue
			}
			k := int64(steps)
			cons := fmt.Sprintf("%s#step%d", key, k)
			last := steps == N-1
			var problems []string
			// RHS: utype(in[k] & 0x7f) [<< 7k]   or last: utype(in[k]) << 7k
			rhs := s.Rhs[0]
			shift := int64(0)
			if x, y, ok := binop(rhs, token.SHL); ok {
				sv, okc := constInt(info, y)
				if !okc {
					problems = append(problems, "non-constant shift")
				}
				shift = sv
				rhs = x
			}
			arg, ok := convArg(rhs, utype)
			if !ok {
				problems = append(problems, "value is not converted with "+utype)
				arg = rhs
			}
			if !last {
				x, y, ok := binop(arg, token.AND)
				mv, okm := int64(0), false
				if ok {
					mv, okm = constInt(info, y)
				}
				if !ok || !okm || mv != 0x7f {
					problems = append(problems, "payload mask is not &0x7f")
				} else {
					arg = x
				}
			}
			if idx, ok := indexConst(info, arg, in); !ok || idx != k {
				problems = append(problems, fmt.Sprintf("does not read %s[%d]", in, k))
			}
			if shift != 7*k {
				problems = append(problems, fmt.Sprintf("shift is %d, want %d", shift, 7*k))
			}
			if (k == 0) != (s.Tok == token.ASSIGN) || (k > 0 && s.Tok != token.OR_ASSIGN) {
				problems = append(problems, "accumulation operator is "+s.Tok.String())
			}
			// following if
			if i+1 >= len(stmts) {
				problems = append(problems, "no continuation test after the step")
			} else if ifs, ok := stmts[i+1].(*ast.IfStmt); !ok {
				problems = append(problems, "no continuation test after the step")
			} else {
				i++
				retOK := func(body *ast.BlockStmt) bool {
					if len(body.List) != 1 {
						return false
					}
					r, ok := body.List[0].(*ast.ReturnStmt)
					if !ok || len(r.Results) != 2 {
						return false
					}
					nv, ok := constInt(info, r.Results[1])
					return ok && nv == k+1 && exprStr(r.Results[0]) == lhs
				}
				if !last {
					x, y, ok := binop(ifs.Cond, token.EQL)
					good := false
					if ok {
						zx, zok := constInt(info, y)
						ax, ay, aok := binop(x, token.AND)
						if zok && zx == 0 && aok {
							mv, okm := constInt(info, ay)
							idx, oki := indexConst(info, ax, in)
							good = okm && mv == 0x80 && oki && idx == k
						}
					}
					if !good {
						problems = append(problems, fmt.Sprintf("continuation test is not %s[%d]&0x80 == 0", in, k))
					}
					if !retOK(ifs.Body) {
						problems = append(problems, fmt.Sprintf("terminating arm does not return (x, %d)", k+1))
					}
					els, ok := ifs.Else.(*ast.IfStmt)
					good = false
					if ok {
						x, y, okb := binop(els.Cond, token.LSS)
						if okb {
							lv, okl := constInt(info, y)
							good = exprStr(x) == "len("+in+")" && okl && lv == k+2 && len(els.Body.List) == 1 && els.Else == nil
							if good {
								br, okbr := els.Body.List[0].(*ast.BranchStmt)
								good = okbr && br.Tok == token.GOTO && (failLabel == "" || br.Label.Name == failLabel)
							}
						}
					}
					if !good {
						problems = append(problems, fmt.Sprintf("short-input guard is not `else if len(%s) < %d { goto fail }`", in, k+2))
					}
				} else {
					x, y, ok := binop(ifs.Cond, token.LEQ)
					good := false
					if ok {
						lim, okl := constInt(info, y)
						idx, oki := indexConst(info, x, in)
						want := int64(1)<<(uint(W)-uint(7*k)) - 1
						good = okl && oki && idx == k && lim == want
					}
					if !good {
						problems = append(problems, fmt.Sprintf("overflow test is not %s[%d] <= %#x", in, k, int64(1)<<(uint(W)-uint(7*k))-1))
					}
					if !retOK(ifs.Body) || ifs.Else != nil {
						problems = append(problems, fmt.Sprintf("final arm does not return (x, %d)", k+1))
					}
				}
			}
			c.Check(len(problems) == 0, rule, cons, s.Pos(), m, fmt.Sprintf("in[%d] mask shift %d guard %d return %d", k, 7*k, k+2, k+1), strings.Join(problems, "; "))
			steps++
		case *ast.LabeledStmt:
			r, ok := s.Stmt.(*ast.ReturnStmt)
			good := ok && len(r.Results) == 2 && (failLabel == "" || s.Label.Name == failLabel)
			if good {
				z, okz := constInt(info, r.Results[0])
				good = okz && z == 0 && exprStr(r.Results[1]) == "overflow"
			}
			c.Check(good, rule, key+"#fail-return", s.Pos(), m, "fail: return 0, overflow", "failure exit is not `return 0, overflow`")
		default:
			c.Undecided(rule, key, s.Pos(), m, fmt.Sprintf("unexpected statement %T in unrolled decoder", s))
		}
	}
	c.Check(steps == N && sawFirstGuard, rule, key+"#steps", f.Pos(), m, fmt.Sprintf("%d steps", N), fmt.Sprintf("decoder has %d steps, want %d", steps, N))
	// `overflow` is zero unless set: var overflow int with no initialiser
	for _, s := range stmts {
		if ds, ok := s.(*ast.DeclStmt); ok {
			for _, sp := range ds.Decl.(*ast.GenDecl).Specs {
				vs := sp.(*ast.ValueSpec)
				for i, nm := range vs.Names {
					if nm.Name == "overflow" {
						good := len(vs.Values) == 0
						if !good && i < len(vs.Values) {
							v, ok := constInt(info, vs.Values[i])
							good = ok && v == 0
						}
						c.Check(good, rule, key+"#overflow-init", vs.Pos(), m, "short input returns n == 0", "overflow does not start at 0: short input would not return n == 0")
					}
				}
			}
		}
	}
}

func c17encoder(c *Ctx, m *Module, key, lenFn string, N int) {
	f := c.NeedFunc(m, key)
	if f == nil {
		return
	}
	info := f.Info()
	rule := "varint-encoder-case"
	var sw *ast.SwitchStmt
	for _, s := range f.Decl.Body.List {
		if x, ok := s.(*ast.SwitchStmt); ok {
			sw = x
		}
	}
	if sw == nil || sw.Tag == nil {
		c.Undecided(rule, key, f.Pos(), m, "switch on the encoded length not found")
		return
	}
	params := f.Decl.Type.Params.List
	u := params[len(params)-1].Names[0].Name
	c.Check(exprStr(sw.Tag) == lenFn+"("+u+")", rule, key+"#tag", sw.Pos(), m, "switch "+lenFn+"(u)", "switch tag is "+exprStr(sw.Tag))
	seen := map[int64]bool{}
	for _, cl := range sw.Body.List {
		cc := cl.(*ast.CaseClause)
		if cc.List == nil {
			c.Undecided(rule, key, cc.Pos(), m, "unexpected default case")
			continue
		}
		for _, ce := range cc.List {
			n, ok := constInt(info, ce)
			if !ok {
				c.Undecided(rule, key, ce.Pos(), m, "non-constant case")
				continue
			}
			seen[n] = true
			cons := fmt.Sprintf("%s#case%d", key, n)
			var problems []string
			var call *ast.CallExpr
			if len(cc.Body) == 1 {
				if r, ok := cc.Body[0].(*ast.ReturnStmt); ok && len(r.Results) == 1 {
					call, _ = r.Results[0].(*ast.CallExpr)
				}
			}
			if call == nil || exprStr(call.Fun) != "append" || len(call.Args) < 1 {
				c.Fail(rule, cons, cc.Pos(), m, "case body is not `return append(dst, ...)`")
				continue
			}
			bytesArgs := call.Args[1:]
			if int64(len(bytesArgs)) != n {
				problems = append(problems, fmt.Sprintf("emits %d bytes", len(bytesArgs)))
			}
			for j, be := range bytesArgs {
				arg, ok := convArg(be, "byte")
				if !ok {
					problems = append(problems, fmt.Sprintf("byte %d not converted with byte()", j))
					continue
				}
				lastB := j == len(bytesArgs)-1
				shiftOf := func(e ast.Expr) (int64, bool) {
					e = unparen(e)
					if exprStr(e) == u {
						return 0, true
					}
					x, y, ok := binop(e, token.SHR)
					if !ok || exprStr(x) != u {
						return 0, false
					}
					return constInt(info, y)
				}
				if lastB {
					sv, ok := shiftOf(arg)
					if !ok || sv != int64(7*j) {
						problems = append(problems, fmt.Sprintf("last byte is not %s>>%d", u, 7*j))
					}
				} else {
					x, y, ok := binop(arg, token.OR)
					okAll := false
					if ok {
						cv, okc := constInt(info, y)
						mx, my, okm := binop(x, token.AND)
						if okc && cv == 0x80 && okm {
							mv, okmv := constInt(info, my)
							sv, oks := shiftOf(mx)
							okAll = okmv && mv == 0x7f && oks && sv == int64(7*j)
						}
					}
					if !okAll {
						problems = append(problems, fmt.Sprintf("byte %d is not (%s>>%d)&0x7f|0x80", j, u, 7*j))
					}
				}
			}
			c.Check(len(problems) == 0, rule, cons, cc.Pos(), m, fmt.Sprintf("%d bytes, 7-bit groups little-endian with continuation bits", n), strings.Join(problems, "; "))
		}
	}
	for n := int64(1); n <= int64(N); n++ {
		c.Check(seen[n], rule, fmt.Sprintf("%s#covers%d", key, n), sw.Pos(), m, "", fmt.Sprintf("no case for encoded length %d", n))
	}
	for n := range seen {
		if n < 1 || n > int64(N) {
			c.Fail(rule, fmt.Sprintf("%s#case%d", key, n), sw.Pos(), m, "case outside 1..N")
		}
	}
}

func singleReturnExpr(f *Func) ast.Expr {
	if f == nil || len(f.Decl.Body.List) == 0 {
		return nil
	}
	r, ok := f.Decl.Body.List[len(f.Decl.Body.List)-1].(*ast.ReturnStmt)
	if !ok || len(r.Results) == 0 {
		return nil
	}
	return r.Results[0]
}

func c17zigzag(c *Ctx, m *Module) {
	rule := "zigzag-shape"
	type exp struct{ key, want string }
	for _, e := range []exp{
		{"kbin.Varint", "int32((v1 >> 1) ^ -(v1 & 1))"},
		{"kbin.Varlong", "int64((v1 >> 1) ^ -(v1 & 1))"},
		{"kbin.AppendVarint", "AppendUvarint(v0, uint32(v1)<<1^uint32(v1>>31))"},
		{"kbin.AppendVarlong", "appendUvarlong(v0, uint64(v1)<<1^uint64(v1>>63))"},
	} {
		f := c.NeedFunc(m, e.key)
		if f == nil {
			continue
		}
		got := ""
		if r := singleReturnExpr(f); r != nil {
			got = alphaStr(f, r)
		}
		c.Check(nosp(got) == nosp(e.want), rule, e.key, f.Pos(), m, e.want, "zig-zag expression is `"+got+"`, want `"+e.want+"` (alpha-normalised)")
	}
	// decoders take both results from the unsigned decoder
	for _, p := range [][2]string{{"kbin.Varint", "Uvarint"}, {"kbin.Varlong", "uvarlong"}} {
		f := m.Func(p[0])
		if f == nil {
			continue
		}
		ok := false
		if len(f.Decl.Body.List) == 2 {
			if as, isAs := f.Decl.Body.List[0].(*ast.AssignStmt); isAs && len(as.Lhs) == 2 && len(as.Rhs) == 1 {
				if call, isCall := as.Rhs[0].(*ast.CallExpr); isCall && exprStr(call.Fun) == p[1] {
					if r, isR := f.Decl.Body.List[1].(*ast.ReturnStmt); isR && len(r.Results) == 2 && exprStr(r.Results[1]) == exprStr(as.Lhs[1]) {
						ok = true
					}
				}
			}
		}
		c.Check(ok, rule, p[0]+"#count", f.Pos(), m, "returns the unsigned decoder's byte count", "does not return the byte count of "+p[1]+" unchanged")
	}
	// length functions zig-zag like the encoders
	for _, p := range [][3]string{{"kbin.VarintLen", "uint32(v0)<<1 ^ uint32(v0>>31)", "UvarintLen"}, {"kbin.VarlongLen", "uint64(v0)<<1 ^ uint64(v0>>63)", "uvarlongLen"}} {
		f := c.NeedFunc(m, p[0])
		if f == nil {
			continue
		}
		ok := false
		got := ""
		if len(f.Decl.Body.List) == 2 {
			if as, isAs := f.Decl.Body.List[0].(*ast.AssignStmt); isAs && len(as.Rhs) == 1 {
				got = alphaStr(f, as.Rhs[0])
				if r, isR := f.Decl.Body.List[1].(*ast.ReturnStmt); isR && len(r.Results) == 1 {
					if call, isCall := r.Results[0].(*ast.CallExpr); isCall && exprStr(call.Fun) == p[2] && len(call.Args) == 1 && exprStr(call.Args[0]) == exprStr(as.Lhs[0]) {
						ok = strings.ReplaceAll(got, " ", "") == strings.ReplaceAll(p[1], " ", "")
					}
				}
			}
		}
		c.Check(ok, rule, p[0], f.Pos(), m, p[1], "length function zig-zags with `"+got+"`")
	}
}

func c17fixed(c *Ctx, m *Module) {
	rule := "fixed-width-big-endian"
	// appenders: append(dst, byte(u>>s)...) descending
	for _, t := range []struct {
		key   string
		width int
	}{{"kbin.AppendUint16", 2}, {"kbin.AppendUint32", 4}, {"kbin.appendUint64", 8}} {
		f := c.NeedFunc(m, t.key)
		if f == nil {
			continue
		}
		var problems []string
		call, _ := singleReturnExpr(f).(*ast.CallExpr)
		if call == nil || exprStr(call.Fun) != "append" || len(call.Args) != t.width+1 {
			problems = append(problems, fmt.Sprintf("does not append exactly %d bytes", t.width))
		} else {
			u := f.Decl.Type.Params.List[len(f.Decl.Type.Params.List)-1].Names[0].Name
			for j, be := range call.Args[1:] {
				want := int64(8 * (t.width - 1 - j))
				arg, ok := convArg(be, "byte")
				good := false
				if ok {
					if want == 0 && exprStr(unparen(arg)) == u {
						good = true
					} else if x, y, okb := binop(arg, token.SHR); okb && exprStr(x) == u {
						sv, okc := constInt(f.Info(), y)
						good = okc && sv == want
					}
				}
				if !good {
					problems = append(problems, fmt.Sprintf("byte %d is not byte(%s>>%d)", j, u, want))
				}
			}
		}
		c.Check(len(problems) == 0, rule, t.key, f.Pos(), m, fmt.Sprintf("%d bytes, most significant first", t.width), strings.Join(problems, "; "))
	}
	// signed/float appenders delegate with a plain conversion
	for _, p := range [][2]string{
		{"kbin.AppendInt16", "AppendUint16(v0, uint16(v1))"}, {"kbin.AppendInt32", "AppendUint32(v0, uint32(v1))"},
		{"kbin.AppendInt64", "appendUint64(v0, uint64(v1))"}, {"kbin.AppendFloat64", "appendUint64(v0, math.Float64bits(v1))"},
		{"kbin.AppendInt8", "append(v0, byte(v1))"}, {"kbin.AppendUuid", "append(v0, v1[:]...)"},
	} {
		f := c.NeedFunc(m, p[0])
		if f == nil {
			continue
		}
		got := ""
		if r := singleReturnExpr(f); r != nil && len(f.Decl.Body.List) == 1 {
			got = alphaStr(f, r)
		}
		c.Check(nosp(got) == nosp(p[1]), rule, p[0], f.Pos(), m, p[1], "body is `return "+got+"`, want `return "+p[1]+"`")
	}
	// readers
	for _, t := range []struct {
		key   string
		width int64
	}{{"kbin.Reader.Int16", 2}, {"kbin.Reader.Uint16", 2}, {"kbin.Reader.Int32", 4}, {"kbin.Reader.Uint32", 4}, {"kbin.Reader.readUint64", 8}, {"kbin.Reader.Int8", 1}, {"kbin.Reader.Bool", 1}} {
		f := c.NeedFunc(m, t.key)
		if f == nil {
			continue
		}
		info := f.Info()
		var problems []string
		// guard
		guard := false
		adv := false
		dec := t.width == 1
		ast.Inspect(f.Decl.Body, func(x ast.Node) bool {
			switch s := x.(type) {
			case *ast.IfStmt:
				if a, b, ok := binop(s.Cond, token.LSS); ok && strings.HasPrefix(exprStr(a), "len(") {
					if v, ok := constInt(info, b); ok && v == t.width {
						guard = true
					} else {
						problems = append(problems, "length guard is "+exprStr(s.Cond))
					}
				}
			case *ast.AssignStmt:
				if len(s.Lhs) == 1 && len(s.Rhs) == 1 {
					if se, ok := s.Rhs[0].(*ast.SliceExpr); ok && exprStr(s.Lhs[0]) == exprStr(se.X) && se.High == nil && se.Low != nil {
						if v, ok := constInt(info, se.Low); ok && v == t.width {
							adv = true
						} else {
							problems = append(problems, "advances by "+exprStr(se.Low))
						}
					}
				}
			case *ast.CallExpr:
				if fn, ok := calleeObj(info, s).(*types.Func); ok {
					k := keyOfObj(fn)
					if strings.HasPrefix(k, "binary.") {
						if k == fmt.Sprintf("binary.bigEndian.Uint%d", t.width*8) {
							dec = true
						} else {
							problems = append(problems, "decodes with "+k)
						}
					}
				}
			}
			return true
		})
		if !guard {
			problems = append(problems, fmt.Sprintf("no `len(src) < %d` guard", t.width))
		}
		if !adv {
			problems = append(problems, fmt.Sprintf("does not advance by %d", t.width))
		}
		if !dec {
			problems = append(problems, fmt.Sprintf("does not decode with binary.BigEndian.Uint%d", t.width*8))
		}
		sort.Strings(problems)
		c.Check(len(problems) == 0, rule, t.key, f.Pos(), m, fmt.Sprintf("guard %d, BigEndian, advance %d", t.width, t.width), strings.Join(problems, "; "))
	}
	for _, p := range [][2]string{{"kbin.Reader.Int64", "int64(v0.readUint64())"}, {"kbin.Reader.Float64", "math.Float64frombits(v0.readUint64())"}} {
		f := c.NeedFunc(m, p[0])
		if f == nil {
			continue
		}
		got := ""
		if r := singleReturnExpr(f); r != nil && len(f.Decl.Body.List) == 1 {
			got = alphaStr(f, r)
		}
		c.Check(nosp(got) == nosp(p[1]), rule, p[0], f.Pos(), m, p[1], "body is `return "+got+"`")
	}
}

func c17prefixes(c *Ctx, m *Module) {
	rule := "length-prefix-constants"
	for _, f := range m.FuncsIn("kbin") {
		if f.Pkg.PkgPath != "github.com/twmb/franz-go/pkg/kbin" {
			continue
		}
		name := f.Obj.Name()
		info := f.Info()
		isAppend := strings.HasPrefix(name, "Append") && f.Decl.Recv == nil
		isReader := f.Decl.Recv != nil && recvTypeName(f.Decl.Recv.List[0].Type) == "Reader"
		compact := strings.Contains(name, "Compact")
		if isAppend && (strings.Contains(name, "String") || strings.Contains(name, "Bytes") || strings.Contains(name, "ArrayLen")) {
			// every direct length emission
			for _, call := range findNodes(f.Decl.Body, false, func(x ast.Node) bool { _, ok := x.(*ast.CallExpr); return ok }) {
				ce := call.(*ast.CallExpr)
				fn := exprStr(ce.Fun)
				if fn != "AppendUvarint" && fn != "AppendInt16" && fn != "AppendInt32" && fn != "AppendVarint" {
					continue
				}
				if len(ce.Args) != 2 {
					continue
				}
				cons := f.Key + ": " + exprStr(ce)
				arg := ce.Args[1]
				l, _ := f.Graph().LocOf(ce)
				facts := f.Graph().FactsAt(l)
				underNil := factMatches(facts, func(ft Fact) bool {
					if !ft.Val {
						return false
					}
					if id, ok := ft.Cond.(*ast.Ident); ok && id.Name == "isNil" {
						return true
					}
					_, y, ok := binop(ft.Cond, token.EQL)
					return ok && exprStr(y) == "nil"
				})
				if v, ok := constInt(info, arg); ok {
					want := int64(-1)
					if fn == "AppendUvarint" {
						want = 0
					}
					c.Check(underNil && v == want && (fn == "AppendUvarint") == compact, rule, cons, ce.Pos(), m, fmt.Sprintf("null marker %d", want),
						fmt.Sprintf("constant length %d emitted (null marker must be %d, only on the nil arm)", v, want))
					continue
				}
				s := strings.ReplaceAll(exprStr(arg), " ", "")
				if fn == "AppendUvarint" {
					ok := strings.HasPrefix(s, "1+uint32(") && !underNil && compact
					c.Check(ok, rule, cons, ce.Pos(), m, "compact length is len+1", "compact length prefix is `"+exprStr(arg)+"`, want 1+uint32(len)")
				} else {
					ok := (strings.HasPrefix(s, "int16(len(") || strings.HasPrefix(s, "int32(len(") || s == "int32(l)") && !underNil && !compact
					c.Check(ok, rule, cons, ce.Pos(), m, "plain length is len", "plain length prefix is `"+exprStr(arg)+"`")
				}
			}
		}
		if isReader && compact {
			for _, call := range findNodes(f.Decl.Body, false, func(x ast.Node) bool {
				ce, ok := x.(*ast.CallExpr)
				return ok && strings.HasSuffix(exprStr(ce.Fun), ".Uvarint")
			}) {
				// parent expression must be conv(call) - 1
				cons := f.Key + ": " + exprStr(call)
				ok := false
				ast.Inspect(f.Decl.Body, func(x ast.Node) bool {
					if b, isB := x.(*ast.BinaryExpr); isB && b.Op == token.SUB {
						if v, isC := constInt(info, b.Y); isC && v == 1 {
							if cv, isCall := unparen(b.X).(*ast.CallExpr); isCall && len(cv.Args) == 1 && cv.Args[0] == call.(ast.Expr) {
								ok = true
							}
						}
					}
					return true
				})
				c.Check(ok, rule, cons, call.Pos(), m, "compact length read is uvarint-1", "compact length is not decoded as uvarint - 1")
			}
		}
		if isReader && strings.Contains(name, "Nullable") {
			// `if l < 0 { return nil }`
			ok := false
			for _, n := range findNodes(f.Decl.Body, false, func(x ast.Node) bool { _, ok := x.(*ast.IfStmt); return ok }) {
				ifs := n.(*ast.IfStmt)
				if _, y, okb := binop(ifs.Cond, token.LSS); okb {
					if v, okc := constInt(info, y); okc && v == 0 && len(ifs.Body.List) == 1 {
						if r, okr := ifs.Body.List[0].(*ast.ReturnStmt); okr && len(r.Results) == 1 && exprStr(r.Results[0]) == "nil" {
							ok = true
						}
					}
				}
			}
			c.Check(ok, rule, f.Key+"#null", f.Pos(), m, "negative length -> nil", "nullable reader does not map a negative length to nil")
		}
	}
}

func nosp(s string) string { return strings.ReplaceAll(s, " ", "") }

// compact-length-not-narrowed (seed C17-G applied to both copies): in every
// Reader method whose Span length comes from the compact (uvarint) prefix, the
// conversions between Uvarint() and the local that is tested `< 0` (null) and
// handed to Span never pass through an explicitly sized signed type of at
// most 32 bits: such a narrowing turns a prefix >= 2^31 (a claim of gigabytes)
// into a negative length, which reads as "null" instead of marking the reader
// bad. Conversions to `int` are accepted as written (on 32-bit targets `int`
// has the same width; that platform case is not decided here).
func c17compactLen(c *Ctx, m *Module) {
	rule := "compact-length-not-narrowed"
	n := 0
	for _, f := range m.FuncsIn("kbin") {
		if f.Decl.Recv == nil || recvTypeName(f.Decl.Recv.List[0].Type) != "Reader" || f.Decl.Body == nil {
			continue
		}
		info := f.Info()
		// locals handed to Span
		spanArgs := map[types.Object]bool{}
		for _, x := range findNodes(f.Decl.Body, true, func(x ast.Node) bool { _, ok := x.(*ast.CallExpr); return ok }) {
			ce := x.(*ast.CallExpr)
			if se, ok := ce.Fun.(*ast.SelectorExpr); ok && se.Sel.Name == "Span" && len(ce.Args) == 1 {
				a := ce.Args[0]
				for {
					a = unparen(a)
					if cv, ok := a.(*ast.CallExpr); ok && len(cv.Args) == 1 && info.Types[cv.Fun].IsType() {
						a = cv.Args[0]
						continue
					}
					break
				}
				if id, ok := a.(*ast.Ident); ok && info.Uses[id] != nil {
					spanArgs[info.Uses[id]] = true
				}
			}
		}
		for _, x := range findNodes(f.Decl.Body, true, func(x ast.Node) bool { _, ok := x.(*ast.AssignStmt); return ok }) {
			as := x.(*ast.AssignStmt)
			if len(as.Lhs) != 1 || len(as.Rhs) != 1 {
				continue
			}
			id, ok := as.Lhs[0].(*ast.Ident)
			if !ok {
				continue
			}
			obj := info.Defs[id]
			if obj == nil {
				obj = info.Uses[id]
			}
			if obj == nil || !spanArgs[obj] {
				continue
			}
			// does the right-hand side read the uvarint prefix?
			var narrow []string
			hasUv := false
			ast.Inspect(as.Rhs[0], func(y ast.Node) bool {
				ce, ok := y.(*ast.CallExpr)
				if !ok {
					return true
				}
				if se, ok := ce.Fun.(*ast.SelectorExpr); ok && se.Sel.Name == "Uvarint" && len(ce.Args) == 0 {
					hasUv = true
				}
				if len(ce.Args) == 1 && info.Types[ce.Fun].IsType() {
					if bt, ok := info.Types[ce.Fun].Type.Underlying().(*types.Basic); ok {
						switch bt.Kind() {
						case types.Int8, types.Int16, types.Int32:
							uv := false
							ast.Inspect(ce.Args[0], func(z ast.Node) bool {
								if c2, ok := z.(*ast.CallExpr); ok {
									if s2, ok := c2.Fun.(*ast.SelectorExpr); ok && s2.Sel.Name == "Uvarint" {
										uv = true
									}
								}
								return true
							})
							if uv {
								narrow = append(narrow, exprStr(ce.Fun))
							}
						}
					}
				}
				return true
			})
			if !hasUv {
				continue
			}
			n++
			c.Check(len(narrow) == 0, rule, f.Key+": "+id.Name, as.Pos(), m, "uvarint prefix reaches the null test and Span without a signed narrowing",
				"the compact length `"+nodeStr(as)+"` narrows the unsigned prefix through "+strings.Join(narrow, ", ")+": a prefix >= 2^31 becomes negative and is read as a null value instead of being rejected as short input")
		}
	}
	c.Floor(rule, n, 6)
}
