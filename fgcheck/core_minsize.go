package main

import (
	"go/ast"
	"go/parser"
	"go/token"
	"go/types"
	"path/filepath"
	"strings"
)

// readerWidths: bytes a kbin.Reader method consumes at least when it succeeds.
var readerWidths = map[string]int64{
	"Bool": 1, "Int8": 1, "Int16": 2, "Uint16": 2, "Int32": 4, "Uint32": 4, "Int64": 8, "Float64": 8, "Uuid": 16,
	"Varint": 1, "Uvarint": 1, "Varlong": 1,
	"String": 2, "UnsafeString": 2, "NullableString": 2, "UnsafeNullableString": 2,
	"CompactString": 1, "UnsafeCompactString": 1, "CompactNullableString": 1, "UnsafeCompactNullableString": 1,
	"Bytes": 4, "NullableBytes": 4, "CompactBytes": 1, "CompactNullableBytes": 1,
	"ArrayLen": 4, "CompactArrayLen": 1, "VarintArrayLen": 1, "VarintBytes": 1, "VarintString": 1, "UnsafeVarintString": 1,
}

// kmsgMinSizes computes, for every type with a readFrom(src, unsafe) method
// in the given files, the minimal input length for which it can return nil:
// the sum of the widths of the reader calls executed unconditionally
// (statements of the body and of bare nested blocks), given that the body
// ends in `return b.Complete()` and the reader is sticky-bad.
func kmsgMinSizes(files []string) (map[string]int64, error) {
	out := map[string]int64{}
	fset := token.NewFileSet()
	for _, gf := range files {
		file, err := parser.ParseFile(fset, gf, nil, parser.SkipObjectResolution)
		if err != nil {
			return nil, err
		}
		for _, d := range file.Decls {
			fd, ok := d.(*ast.FuncDecl)
			if !ok || fd.Recv == nil || fd.Body == nil || fd.Name.Name != "readFrom" {
				continue
			}
			tn := recvTypeName(fd.Recv.List[0].Type)
			n := len(fd.Body.List)
			if n == 0 {
				continue
			}
			last, ok := fd.Body.List[n-1].(*ast.ReturnStmt)
			if !ok || len(last.Results) != 1 || types.ExprString(last.Results[0]) != "b.Complete()" {
				continue
			}
			var sum int64
			var walk func(list []ast.Stmt)
			walk = func(list []ast.Stmt) {
				for _, st := range list {
					switch s := st.(type) {
					case *ast.BlockStmt:
						walk(s.List)
					case *ast.AssignStmt:
						for _, r := range s.Rhs {
							if call, ok := r.(*ast.CallExpr); ok {
								if sel, ok := call.Fun.(*ast.SelectorExpr); ok {
									if id, ok := sel.X.(*ast.Ident); ok && id.Name == "b" {
										sum += readerWidths[sel.Sel.Name]
									}
								}
							}
						}
					}
				}
			}
			walk(fd.Body.List)
			out[tn] = sum
		}
	}
	return out, nil
}

// kmsgMinSizeFunc returns the MinSize callback for the kmsg package the
// given package links, restricted to the listed implementations for
// interface-typed receivers.
func kmsgMinSizeFunc(c *Ctx, m *Module, fromPkg string, ifaceImpls []string) func(types.Type) (int64, bool) {
	p := m.Pkg(fromPkg)
	if p == nil {
		return nil
	}
	kp := p.Imports["github.com/twmb/franz-go/pkg/kmsg"]
	if kp == nil || len(kp.GoFiles) == 0 {
		c.Undecided("min-size-summary", "kmsg", 0, m, "linked kmsg package sources not found")
		return nil
	}
	sizes, err := kmsgMinSizes(kp.GoFiles)
	if err != nil {
		c.Undecided("min-size-summary", "kmsg", 0, m, err.Error())
		return nil
	}
	c.Set("kmsg_min_sizes_from", filepath.Dir(kp.GoFiles[0]))
	rec := map[string]int64{}
	for _, t := range append([]string{"Record"}, ifaceImpls...) {
		if v, ok := sizes[t]; ok {
			rec[t] = v
		}
	}
	c.Set("kmsg_min_sizes", rec)
	return func(t types.Type) (int64, bool) {
		if p, ok := t.(*types.Pointer); ok {
			t = p.Elem()
		}
		if n, ok := t.(*types.Named); ok {
			if _, isIface := n.Underlying().(*types.Interface); isIface {
				var min int64 = -1
				for _, impl := range ifaceImpls {
					v, ok := sizes[impl]
					if !ok {
						return 0, false
					}
					if min < 0 || v < min {
						min = v
					}
				}
				return min, min >= 0
			}
			if n.Obj().Pkg() != nil && strings.HasSuffix(n.Obj().Pkg().Path(), "/kmsg") {
				v, ok := sizes[n.Obj().Name()]
				return v, ok
			}
		}
		return 0, false
	}
}
