package main

import (
	"fmt"
	"go/ast"
	"go/token"
	"strings"

	"golang.org/x/tools/go/cfg"
)

// Exactly-once obligation counting over one function body.
//
// An Event is a call (or other node) that discharges the tracked obligation.
// Conditional events discharge depending on a result of the call that is
// stored in a local variable; they are resolved on the CFG edges of branches
// that test that variable.

type EventKind int

const (
	EvNone EventKind = iota
	EvOnce           // discharges unconditionally
	EvCond           // discharges iff result[ResultIdx] satisfies When ("true", "false", "nil", "nonnil")
)

type Event struct {
	Kind      EventKind
	ResultIdx int
	When      string
	Label     string
}

type OnceSpec struct {
	Call func(call *ast.CallExpr) Event
	Node func(n ast.Node) bool // non-call discharging statements
	// Expect returns the number of discharges required at an exit (return
	// statement or nil for falling off the end); -1 = do not care.
	Expect func(ret *ast.ReturnStmt) int
	// NilGuard names the callback variable: on the branch edge where it is
	// known to be nil there is nothing to call and the obligation counts as
	// discharged.
	NilGuard string
}

// state bits: count c in {0,1,2(=2+)} x pending p in {0,1}: bit (c*2+p)
type onceState uint16

func bit(c, p int) onceState { return 1 << uint(c*4+p) }

func (s onceState) inc() onceState {
	var o onceState
	for c := 0; c < 3; c++ {
		for p := 0; p < 4; p++ {
			if s&bit(c, p) != 0 {
				nc := c + 1
				if nc > 2 {
					nc = 2
				}
				o |= bit(nc, p)
			}
		}
	}
	return o
}

func (s onceState) setPending() (onceState, bool) {
	var o onceState
	clash := false
	for c := 0; c < 3; c++ {
		if s&bit(c, 1) != 0 {
			clash = true
		}
		if s&(bit(c, 0)|bit(c, 1)|bit(c, 2)|bit(c, 3)) != 0 {
			o |= bit(c, 1)
		}
	}
	return o, clash
}

// setConst records that the pending variable holds a known constant and no
// conditional discharge is outstanding.
func (s onceState) setConst(v bool) onceState {
	var o onceState
	p := 3
	if v {
		p = 2
	}
	for c := 0; c < 3; c++ {
		if s&(bit(c, 0)|bit(c, 1)|bit(c, 2)|bit(c, 3)) != 0 {
			o |= bit(c, p)
		}
	}
	return o
}

// resolveVal: the branch establishes that the variable has value val.
// discharged(val) tells whether an outstanding conditional discharge with
// that result counts. States whose known constant contradicts val are dropped.
func (s onceState) resolveVal(val bool, discharged bool) onceState {
	var o onceState
	for c := 0; c < 3; c++ {
		if s&bit(c, 0) != 0 {
			o |= bit(c, 0)
		}
		if s&bit(c, 1) != 0 {
			nc := c
			if discharged {
				nc = c + 1
				if nc > 2 {
					nc = 2
				}
			}
			o |= bit(nc, 0)
		}
		if s&bit(c, 2) != 0 && val {
			o |= bit(c, 0)
		}
		if s&bit(c, 3) != 0 && !val {
			o |= bit(c, 0)
		}
	}
	return o
}

// resolve pending: discharged => inc and clear, else just clear
func (s onceState) resolve(discharged bool) onceState {
	var o onceState
	for c := 0; c < 3; c++ {
		if s&bit(c, 0) != 0 {
			o |= bit(c, 0)
		}
		if s&bit(c, 1) != 0 {
			nc := c
			if discharged {
				nc = c + 1
				if nc > 2 {
					nc = 2
				}
			}
			o |= bit(nc, 0)
		}
	}
	return o
}

func (s onceState) counts() (zero, one, many, pending bool) {
	zero = s&(bit(0, 0)|bit(0, 1)|bit(0, 2)|bit(0, 3)) != 0
	one = s&(bit(1, 0)|bit(1, 1)|bit(1, 2)|bit(1, 3)) != 0
	many = s&(bit(2, 0)|bit(2, 1)|bit(2, 2)|bit(2, 3)) != 0
	pending = s&(bit(0, 1)|bit(1, 1)|bit(2, 1)) != 0
	return
}

type OnceResult struct {
	Problems []string
	Events   int
	Exits    int
}

// CheckOnce runs the counting dataflow over body.
func CheckOnce(f *Func, body *ast.BlockStmt, g *Graph, spec OnceSpec) OnceResult {
	var res OnceResult
	info := f.Info()
	nb := len(g.C.Blocks)
	// pending variable (object name) for conditional events: single variable supported
	type condInfo struct {
		varName string
		when    string
	}
	var pend *condInfo
	inlineCalls := map[*ast.CallExpr]bool{}
	// pre-scan: the variable that receives a conditional discharge result
	ast.Inspect(body, func(x ast.Node) bool {
		if _, isLit := x.(*ast.FuncLit); isLit && x != ast.Node(body) {
			return false
		}
		as, ok := x.(*ast.AssignStmt)
		if !ok || len(as.Rhs) != 1 {
			return true
		}
		call, ok := unparen(as.Rhs[0]).(*ast.CallExpr)
		if !ok {
			return true
		}
		if ev := spec.Call(call); ev.Kind == EvCond && ev.ResultIdx < len(as.Lhs) {
			if id, ok := as.Lhs[ev.ResultIdx].(*ast.Ident); ok && id.Name != "_" && pend == nil {
				pend = &condInfo{id.Name, ev.When}
			}
		}
		return true
	})
	// node transfer
	nodeEvents := func(n ast.Node, st onceState) onceState {
		switch n.(type) {
		case *ast.GoStmt, *ast.DeferStmt:
			return st
		}
		if spec.Node != nil && spec.Node(n) {
			res.Events++
			st = st.inc()
		}
		if as, ok := n.(*ast.AssignStmt); ok && pend != nil && len(as.Lhs) == len(as.Rhs) {
			for i, l := range as.Lhs {
				if id, ok := l.(*ast.Ident); ok && id.Name == pend.varName {
					if v, isC := constBool(info, as.Rhs[i]); isC {
						st = st.setConst(v)
					}
				}
			}
		}
		ast.Inspect(n, func(x ast.Node) bool {
			if x == nil {
				return false
			}
			if _, ok := x.(*ast.FuncLit); ok {
				return false
			}
			call, ok := x.(*ast.CallExpr)
			if !ok {
				return true
			}
			ev := spec.Call(call)
			switch ev.Kind {
			case EvOnce:
				res.Events++
				st = st.inc()
			case EvCond:
				res.Events++
				// find the variable receiving the result
				as, _ := n.(*ast.AssignStmt)
				name := ""
				if as != nil && len(as.Rhs) == 1 && unparen(as.Rhs[0]) == ast.Expr(call) && ev.ResultIdx < len(as.Lhs) {
					if id, ok := as.Lhs[ev.ResultIdx].(*ast.Ident); ok && id.Name != "_" {
						name = id.Name
					}
				}
				if name == "" {
					// the call is tested directly in a branch condition
					if e, isExpr := n.(ast.Expr); isExpr && containsNode(e, false, func(y ast.Node) bool { return y == ast.Node(call) }) {
						name = "#inline"
						inlineCalls[call] = true
					}
				}
				if name == "" {
					res.Problems = append(res.Problems, fmt.Sprintf("conditional discharge %s: result is not stored in a local variable", ev.Label))
					st = st.inc()
					return true
				}
				if pend != nil && pend.varName != "#inline" && name != "#inline" && (pend.varName != name || pend.when != ev.When) {
					res.Problems = append(res.Problems, "more than one conditional discharge variable")
				}
				if pend != nil && name == "#inline" {
					name = pend.varName
				}
				pend = &condInfo{name, ev.When}
				var clash bool
				st, clash = st.setPending()
				_ = clash
			}
			return true
		})
		return st
	}
	_ = info
	// edge transfer: resolve pending when the branch condition tests the pending variable
	edgeResolve := func(b *cfg.Block, k int, st onceState) onceState {
		if pend == nil && spec.NilGuard == "" {
			return st
		}
		cond, tag, ok := g.condOf(b)
		if !ok || tag != nil {
			return st
		}
		if spec.NilGuard != "" {
			for _, ft := range decompose(cond, k == 0, nil) {
				if be, ok := unparen(ft.Cond).(*ast.BinaryExpr); ok && (be.Op == token.EQL || be.Op == token.NEQ) && exprStr(be.Y) == "nil" && exprStr(be.X) == spec.NilGuard {
					if (be.Op == token.EQL) == ft.Val {
						return st.inc()
					}
				}
			}
		}
		if pend == nil {
			return st
		}
		for _, ft := range decompose(cond, k == 0, nil) {
			e := unparen(ft.Cond)
			if call, ok := e.(*ast.CallExpr); ok && inlineCalls[call] {
				val := ft.Val
				if pend.when == "false" {
					val = !val
				}
				return st.resolve(val)
			}
			switch pend.when {
			case "true", "false":
				if id, ok := e.(*ast.Ident); ok && id.Name == pend.varName {
					disch := ft.Val
					if pend.when == "false" {
						disch = !disch
					}
					return st.resolveVal(ft.Val, disch)
				}
			case "nil", "nonnil":
				if be, ok := e.(*ast.BinaryExpr); ok && (be.Op == token.EQL || be.Op == token.NEQ) && exprStr(be.Y) == "nil" {
					if id, ok := unparen(be.X).(*ast.Ident); ok && id.Name == pend.varName {
						isNil := (be.Op == token.EQL) == ft.Val
						val := isNil
						if pend.when == "nonnil" {
							val = !isNil
						}
						return st.resolve(val)
					}
				}
			}
		}
		return st
	}
	in := make([]onceState, nb)
	out := make([]onceState, nb)
	if nb == 0 {
		return res
	}
	in[0] = bit(0, 0)
	// two passes: first to discover pend, then fixpoint
	for iter := 0; iter < 50; iter++ {
		changed := false
		evBefore := res.Events
		res.Events = 0
		_ = evBefore
		for _, b := range g.C.Blocks {
			bi := int(b.Index)
			if !g.live[bi] {
				continue
			}
			st := in[bi]
			for _, n := range b.Nodes {
				st = nodeEvents(n, st)
			}
			if st != out[bi] {
				out[bi] = st
				changed = true
			}
			for k, s := range b.Succs {
				si := int(s.Index)
				feasible := false
				for _, ps := range g.succs[bi] {
					if ps == si {
						feasible = true
					}
				}
				if !feasible {
					continue
				}
				ns := edgeResolve(b, k, st)
				if in[si]|ns != in[si] {
					in[si] |= ns
					changed = true
				}
			}
		}
		if !changed {
			break
		}
	}
	// exits
	for _, b := range g.C.Blocks {
		bi := int(b.Index)
		kind, ok := g.exitOf(bi)
		if !ok || kind == ExitPanic {
			continue
		}
		var ret *ast.ReturnStmt
		if len(b.Nodes) > 0 {
			ret, _ = b.Nodes[len(b.Nodes)-1].(*ast.ReturnStmt)
		}
		want := 1
		if spec.Expect != nil {
			want = spec.Expect(ret)
		}
		if want < 0 {
			continue
		}
		res.Exits++
		zero, one, many, pending := out[bi].counts()
		where := "end of function"
		if ret != nil {
			where = "`" + nodeStr(ret) + "`"
		}
		pos := ""
		if ret != nil {
			pos = fmt.Sprintf(" (%s)", f.mod.Position(ret.Pos()))
		}
		if pending {
			res.Problems = append(res.Problems, "exit "+where+pos+" is reachable with an unresolved conditional discharge")
		}
		switch want {
		case 1:
			if zero {
				res.Problems = append(res.Problems, "exit "+where+pos+" is reachable without discharging the obligation (lost)")
			}
			if many {
				res.Problems = append(res.Problems, "exit "+where+pos+" is reachable after discharging the obligation twice (double)")
			}
		case 0:
			if one || many {
				res.Problems = append(res.Problems, "exit "+where+pos+" must not have discharged the obligation but a discharge can precede it")
			}
		}
	}
	res.Problems = dedupeKeepOrder(res.Problems)
	return res
}

func dedupeKeepOrder(s []string) []string {
	seen := map[string]bool{}
	var out []string
	for _, x := range s {
		if !seen[x] {
			seen[x] = true
			out = append(out, x)
		}
	}
	return out
}

// onceRule records the result of CheckOnce as one obligation.
func onceRule(c *Ctx, m *Module, rule string, f *Func, body *ast.BlockStmt, g *Graph, construct string, spec OnceSpec, minEvents int) {
	r := CheckOnce(f, body, g, spec)
	if r.Events < minEvents {
		c.Undecided(rule, construct, body.Pos(), m, fmt.Sprintf("only %d discharge events recognised (expected at least %d): event table does not match the code", r.Events, minEvents))
		return
	}
	c.Check(len(r.Problems) == 0, rule, construct, body.Pos(), m, fmt.Sprintf("exactly once on all %d exits (%d discharge sites)", r.Exits, r.Events), strings.Join(r.Problems, "; "))
}
