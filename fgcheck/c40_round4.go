package main

import (
	"fmt"
	"go/ast"
	"go/token"
	"go/types"
	"strings"
)

// Round-4 rule of C40.
//
//	epoch-load-truncation-detected  in loadEpochsForBrokerLoad the validated offset starts as
//	                                the requested `at`; the arms of the result switch are a
//	                                closed table: every arm replaces the offset by the broker's
//	                                EndOffset (no arm keeps the requested offset), and the
//	                                data-loss arm (`EndOffset < offset`: ErrDataLoss + take the
//	                                end offset) is preceded only by tests of EndOffset against a
//	                                constant (the undefined-epoch sentinel), so no other
//	                                condition can bypass truncation detection.
func c40round4(c *Ctx, m *Module) {
	rule := "epoch-load-truncation-detected"
	f := c.NeedFunc(m, "kgo.Client.loadEpochsForBrokerLoad")
	atF := fieldMust(c, m, "Offset", "at")
	edl := m.Object("kgo", "ErrDataLoss")
	if f == nil || atF == nil || edl == nil {
		return
	}
	info := f.Info()
	g := f.Graph()
	// the validated offset: local initialised from loadPart.at
	var offObj types.Object
	ast.Inspect(f.Decl.Body, func(x ast.Node) bool {
		as, ok := x.(*ast.AssignStmt)
		if ok && as.Tok == token.DEFINE && len(as.Lhs) == 1 && len(as.Rhs) == 1 && sameField(fieldOfSel(info, as.Rhs[0]), atF) {
			if id, ok := as.Lhs[0].(*ast.Ident); ok {
				offObj = info.Defs[id]
			}
		}
		return true
	})
	if offObj == nil {
		c.Undecided(rule, f.Key+"#requested-offset", f.Pos(), m, "`offset := loadPart.at` not found")
		return
	}
	isEnd := func(e ast.Expr) bool {
		v := fieldOfSel(info, e)
		return v != nil && v.Name() == "EndOffset"
	}
	isOff := func(e ast.Expr) bool {
		id, ok := unparen(e).(*ast.Ident)
		return ok && info.Uses[id] == offObj
	}
	// classify a fact at the data-loss arm
	classify := func(ft Fact) string {
		be, ok := unparen(ft.Cond).(*ast.BinaryExpr)
		if !ok || ft.Tag != nil {
			return "other"
		}
		if be.Op == token.LSS && isEnd(be.X) && isOff(be.Y) || be.Op == token.GTR && isOff(be.X) && isEnd(be.Y) {
			if ft.Val {
				return "truncated"
			}
			return "other"
		}
		if isEnd(be.X) {
			if _, ok := constInt(info, be.Y); ok {
				return "sentinel"
			}
		}
		if isEnd(be.Y) {
			if _, ok := constInt(info, be.X); ok {
				return "sentinel"
			}
		}
		return "other"
	}
	// the switch whose arms assign the offset
	var sw *ast.SwitchStmt
	ast.Inspect(f.Decl.Body, func(x ast.Node) bool {
		s, ok := x.(*ast.SwitchStmt)
		if !ok || s.Tag != nil {
			return true
		}
		for _, cc := range s.Body.List {
			for _, e := range cc.(*ast.CaseClause).List {
				if be, ok := unparen(e).(*ast.BinaryExpr); ok && isEnd(be.X) && isOff(be.Y) {
					sw = s
				}
			}
		}
		return true
	})
	if sw == nil {
		c.Fail(rule, f.Key+"#data-loss-arm", f.Pos(), m, "no arm `rPartition.EndOffset < offset` found: a reply whose end offset is below the validated position (truncation) is not detected")
		return
	}
	// every arm takes the broker's end offset
	for i, st := range sw.Body.List {
		cc := st.(*ast.CaseClause)
		takes := false
		for _, b := range cc.Body {
			if as, ok := b.(*ast.AssignStmt); ok && as.Tok == token.ASSIGN && len(as.Lhs) == 1 && len(as.Rhs) == 1 && isOff(as.Lhs[0]) && isEnd(as.Rhs[0]) {
				takes = true
			}
		}
		cond := "default"
		if len(cc.List) > 0 {
			cond = nosp(exprStr(cc.List[0]))
		}
		c.Check(takes && len(cc.List) > 0, rule, fmt.Sprintf("%s: arm %d takes the broker's end offset", f.Key, i+1), cc.Pos(), m, cond,
			"the arm `case "+cond+"` of the epoch-validation result keeps the requested offset: the arms that keep it are a closed table (only the fall-through `EndOffset >= offset`); with this arm a reply whose end offset is below the validated position is ignored and At(x).WithEpoch(e) starts at x, silently skipping the truncated range instead of reporting ErrDataLoss and resuming at the broker's end offset")
	}
	c.Floor(rule+"#arms", len(sw.Body.List), 2)
	// the data-loss report and its guards
	n := 0
	ast.Inspect(sw, func(x ast.Node) bool {
		lit, ok := x.(*ast.CompositeLit)
		if !ok || !types.Identical(info.TypeOf(lit), edl.Type()) {
			return true
		}
		n++
		l, _ := g.LocOf(lit)
		var bad []string
		trunc := false
		for _, ft := range g.FactsAt(l) {
			switch classify(ft) {
			case "truncated":
				trunc = true
			case "sentinel":
			default:
				// facts of enclosing statements hold at the switch itself too
				if sl, ok := g.LocOf(sw.Body.List[0].(*ast.CaseClause).List[0]); ok {
					outer := false
					for _, of := range g.FactsAt(sl) {
						if of.Cond == ft.Cond && of.Val == ft.Val {
							outer = true
						}
					}
					if outer {
						continue
					}
				}
				bad = append(bad, c39factStr(ft))
			}
		}
		if !trunc {
			bad = append(bad, "not under `EndOffset < offset`")
		}
		c.Check(len(bad) == 0, rule, f.Key+"#data-loss-reported-whenever-truncated", lit.Pos(), m, "ErrDataLoss under EndOffset < offset, preceded only by the undefined-epoch sentinel test",
			"ErrDataLoss is reported only when "+strings.Join(bad, ", ")+": another condition intercepts replies whose end offset is below the validated position, so truncation goes unreported and the requested offset is kept")
		return true
	})
	c.Check(n == 1, rule, f.Key+"#data-loss-arm", sw.Pos(), m, "", "the ErrDataLoss report of the epoch validation was not found (or is duplicated)")
	// the result carries the (possibly replaced) offset and the error
	okRes := false
	lo := m.Object("kgo", "loadedOffset")
	ast.Inspect(f.Decl.Body, func(x ast.Node) bool {
		lit, ok := x.(*ast.CompositeLit)
		if !ok || lo == nil || !types.Identical(info.TypeOf(lit), lo.Type()) || lit.Pos() < sw.End() {
			return true
		}
		hasOff, hasErr := false, false
		for _, e := range lit.Elts {
			if kv, ok := e.(*ast.KeyValueExpr); ok {
				k, _ := kv.Key.(*ast.Ident)
				if k != nil && k.Name == "offset" && isOff(kv.Value) {
					hasOff = true
				}
				if k != nil && k.Name == "err" {
					hasErr = true
				}
			}
		}
		if hasOff && hasErr {
			okRes = true
		}
		return true
	})
	c.Check(okRes, rule, f.Key+"#result-carries-offset-and-error", f.Pos(), m, "", "the epoch-validation result does not carry the validated offset and the data-loss error")
}
