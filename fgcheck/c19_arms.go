package main

import (
	"fmt"
	"go/ast"
	"go/token"
	"go/types"
	"sort"
	"strings"
)

// ---- (1) codec-arms ----

func (e *c19env) ruleArms(fDC, fC, fD *Func) {
	c, m := e.c, e.m
	rule := "codec-arms"
	n := 0
	for _, f := range []*Func{fDC, fC, fD} {
		sw := e.codecSwitch(f)
		if sw == nil {
			c.Undecided(rule, f.Key+"#switch", f.Pos(), m, "expected exactly one switch over CompressionCodecType in the function body")
			continue
		}
		arms, def := e.arms(f, sw)
		for _, v := range e.vals {
			cons := f.Key + "#" + e.names[v]
			n++
			if arms[v] != nil {
				c.OK(rule, cons, arms[v].Pos(), m, "arm present")
				continue
			}
			if f == fD && v == 0 && e.noneEarlyReturn(f, sw) {
				c.OK(rule, cons, sw.Pos(), m, "CodecNone returns the input before the switch")
				continue
			}
			c.Fail(rule, cons, sw.Pos(), m, "the codec switch has no arm for "+e.names[v]+": the codec falls into the default/zero behaviour instead of its own (de)compressor")
		}
		for v, cc := range arms {
			if _, ok := e.names[v]; !ok {
				c.Fail(rule, fmt.Sprintf("%s#case-%d", f.Key, v), cc.Pos(), m, "case value is not a declared codec constant")
			}
		}
		if f == fD {
			good := def != nil
			if def != nil {
				for _, r := range findNodes(def, false, func(x ast.Node) bool { _, ok := x.(*ast.ReturnStmt); return ok }) {
					rs := r.(*ast.ReturnStmt)
					if len(rs.Results) != 2 || c19isNil(f.Info(), rs.Results[1]) {
						good = false
					}
				}
				if len(def.Body) == 0 {
					good = false
				}
			}
			n++
			c.Check(good, rule, f.Key+"#default", sw.Pos(), m, "unknown codec rejected with an error", "unknown codec types are not rejected with an error by the default arm")
		}
		if f == fC {
			// CodecNone arm returns the input and reports CodecNone
			if cc := arms[0]; cc != nil {
				good := false
				for _, r := range findNodes(cc, false, func(x ast.Node) bool { _, ok := x.(*ast.ReturnStmt); return ok }) {
					rs := r.(*ast.ReturnStmt)
					if len(rs.Results) == 2 {
						v, ok := constInt(f.Info(), rs.Results[1])
						good = ok && v == 0 && c19objOf(f.Info(), rs.Results[0]) == e.param(f, 1)
					}
				}
				n++
				c.Check(good, rule, f.Key+"#none-passthrough", cc.Pos(), m, "returns src, CodecNone", "the CodecNone arm does not return the input slice with codec 0")
			}
		}
	}
	// validity range in DefaultCompressor equals [min,max]
	lo, hi, pos, ok := e.validRange(fDC)
	n++
	if !ok {
		c.Undecided(rule, fDC.Key+"#valid-range", fDC.Pos(), m, "no `codec.codec < lo || codec.codec > hi` rejection found")
	} else {
		c.Check(lo == e.vals[0] && hi == e.vals[len(e.vals)-1], rule, fDC.Key+"#valid-range", pos, m,
			fmt.Sprintf("accepted range [%d,%d] equals the declared constants", lo, hi),
			fmt.Sprintf("accepted codec range [%d,%d] differs from the declared constants [%d,%d]: an unknown codec is accepted and never compressed, or a known one is rejected", lo, hi, e.vals[0], e.vals[len(e.vals)-1]))
	}
	c.Floor(rule, n, 18)
}

// param returns the i-th parameter object (0-based, receiver excluded).
func (e *c19env) param(f *Func, i int) types.Object {
	k := 0
	for _, fl := range f.Decl.Type.Params.List {
		for _, id := range fl.Names {
			if k == i {
				return f.Info().Defs[id]
			}
			k++
		}
	}
	return nil
}

func (e *c19env) noneEarlyReturn(f *Func, sw *ast.SwitchStmt) bool {
	info := f.Info()
	tag := c19objOf(info, sw.Tag)
	for _, st := range f.Decl.Body.List {
		if st.Pos() >= sw.Pos() {
			break
		}
		ifs, ok := st.(*ast.IfStmt)
		if !ok || ifs.Init != nil {
			continue
		}
		be, ok := unparen(ifs.Cond).(*ast.BinaryExpr)
		if !ok || be.Op != token.EQL {
			continue
		}
		var k ast.Expr
		if c19objOf(info, be.X) == tag && tag != nil {
			k = be.Y
		} else if c19objOf(info, be.Y) == tag && tag != nil {
			k = be.X
		} else {
			continue
		}
		if v, ok := constInt(info, k); !ok || v != 0 {
			continue
		}
		if len(ifs.Body.List) != 1 {
			continue
		}
		rs, ok := ifs.Body.List[0].(*ast.ReturnStmt)
		if ok && len(rs.Results) == 2 && c19objOf(info, rs.Results[0]) == e.param(f, 0) && c19isNil(info, rs.Results[1]) {
			return true
		}
	}
	return false
}

func (e *c19env) validRange(f *Func) (lo, hi int64, pos token.Pos, ok bool) {
	info := f.Info()
	fld := e.m.Field("kgo", "CompressionCodec", "codec")
	for _, x := range findNodes(f.Decl.Body, false, func(x ast.Node) bool { _, ok := x.(*ast.IfStmt); return ok }) {
		ifs := x.(*ast.IfStmt)
		var disj []ast.Expr
		var split func(ex ast.Expr)
		split = func(ex ast.Expr) {
			if b, ok := unparen(ex).(*ast.BinaryExpr); ok && b.Op == token.LOR {
				split(b.X)
				split(b.Y)
				return
			}
			disj = append(disj, unparen(ex))
		}
		split(ifs.Cond)
		if len(disj) != 2 {
			continue
		}
		haveLo, haveHi := false, false
		good := true
		for _, d := range disj {
			b, ok := d.(*ast.BinaryExpr)
			if !ok || !sameField(fieldOfSel(info, b.X), fld) {
				good = false
				break
			}
			k, okc := constInt(info, b.Y)
			if !okc {
				good = false
				break
			}
			switch b.Op {
			case token.LSS:
				lo, haveLo = k, true
			case token.LEQ:
				lo, haveLo = k+1, true
			case token.GTR:
				hi, haveHi = k, true
			case token.GEQ:
				hi, haveHi = k-1, true
			default:
				good = false
			}
		}
		if !good || !haveLo || !haveHi {
			continue
		}
		// body must return a non-nil error
		ret := false
		for _, st := range ifs.Body.List {
			if rs, ok := st.(*ast.ReturnStmt); ok && len(rs.Results) == 2 && !c19isNil(info, rs.Results[1]) {
				ret = true
			}
		}
		if ret {
			return lo, hi, ifs.Pos(), true
		}
	}
	return 0, 0, token.NoPos, false
}

// ---- (2) codec-library ----

func (e *c19env) ruleLibrary(fC, fD *Func) {
	c, m := e.c, e.m
	rule := "codec-library"
	n := 0
	perFunc := map[*Func]map[int64]string{}
	for _, f := range []*Func{fC, fD} {
		sw := e.codecSwitch(f)
		if sw == nil {
			continue
		}
		arms, _ := e.arms(f, sw)
		perFunc[f] = map[int64]string{}
		for _, v := range e.vals {
			cc := arms[v]
			if cc == nil || v == 0 {
				continue
			}
			set := map[string]bool{}
			e.libs(f, cc, map[string]bool{}, set)
			got := strings.Join(sortedKeys(set), ",")
			perFunc[f][v] = got
			want := c19LibOf[e.names[v]]
			n++
			if want == "" {
				c.Undecided(rule, f.Key+"#"+e.names[v], cc.Pos(), m, "no library table entry for this codec constant")
				continue
			}
			c.Check(got == want, rule, f.Key+"#"+e.names[v], cc.Pos(), m, "arm uses "+want,
				"arm for "+e.names[v]+" uses codec library {"+got+"}, expected "+want+": the bytes are produced/consumed by another codec than the one reported in the batch attributes")
		}
	}
	for _, v := range e.vals {
		if v == 0 || perFunc[fC] == nil || perFunc[fD] == nil {
			continue
		}
		a, okA := perFunc[fC][v]
		b, okB := perFunc[fD][v]
		if !okA || !okB {
			continue
		}
		n++
		c.Check(a == b, rule, "compress-vs-decompress#"+e.names[v], fC.Pos(), m, "same library on both sides", "compress arm uses {"+a+"} but decompress arm uses {"+b+"}")
	}
	// snappy must be written in the snappy block format
	if sw := e.codecSwitch(fC); sw != nil {
		arms, _ := e.arms(fC, sw)
		for v, name := range e.names {
			if c19LibOf[name] != c19PathS2 || arms[v] == nil {
				continue
			}
			var encs []string
			var pos token.Pos
			for _, x := range findNodes(arms[v], true, func(x ast.Node) bool { _, ok := x.(*ast.CallExpr); return ok }) {
				call := x.(*ast.CallExpr)
				if fn, ok := calleeObj(fC.Info(), call).(*types.Func); ok && fn.Pkg() != nil && fn.Pkg().Path() == c19PathS2 && strings.HasPrefix(fn.Name(), "Encode") {
					encs = append(encs, fn.Name())
					pos = call.Pos()
				}
			}
			good := len(encs) > 0
			for _, en := range encs {
				if !strings.HasPrefix(en, "EncodeSnappy") {
					good = false
				}
			}
			n++
			c.Check(good, rule, fC.Key+"#snappy-format", pos, m, "s2.EncodeSnappy*", "snappy arm encodes with s2."+strings.Join(encs, ",")+": the output is s2-only and does not decode with snappy implementations (brokers, other clients)")
		}
	}
	// reported codec
	if sw := e.codecSwitch(fC); sw != nil {
		info := fC.Info()
		tag := c19objOf(info, sw.Tag)
		arms, _ := e.arms(fC, sw)
		k := 0
		for _, x := range findNodes(fC.Decl.Body, false, func(x ast.Node) bool { _, ok := x.(*ast.ReturnStmt); return ok }) {
			rs := x.(*ast.ReturnStmt)
			if len(rs.Results) != 2 {
				continue
			}
			k++
			cons := fmt.Sprintf("%s#return-%d", fC.Key, k)
			n++
			if o := c19objOf(info, rs.Results[1]); o != nil && o == tag {
				c.OK(rule, cons, rs.Pos(), m, "reports the switch tag")
				continue
			}
			v, ok := constInt(info, rs.Results[1])
			if ok && v == -1 {
				c.Check(c19isNil(info, rs.Results[0]), rule, cons, rs.Pos(), m, "nil, CodecError", "CodecError is reported together with non-nil data")
				continue
			}
			inArm := false
			if ok {
				if cc := arms[v]; cc != nil && cc.Pos() <= rs.Pos() && rs.End() <= cc.End() {
					inArm = true
				}
			}
			c.Check(inArm, rule, cons, rs.Pos(), m, "reports the arm's constant", "Compress reports `"+exprStr(rs.Results[1])+"`, which is neither the selected codec nor the constant of the enclosing arm")
		}
	}
	c.Floor(rule, n, 18)
}

// ---- attribute bits at the call sites ----

func (e *c19env) ruleAttrs() {
	c, m := e.c, e.m
	rule := "codec-attrs"
	n := 0
	maxCodec := e.vals[len(e.vals)-1]
	if cm := m.Method("kgo", "Compressor", "Compress"); cm != nil {
		for _, s := range CallSites(e.funcs, cm) {
			f := s.Fn
			info := f.Info()
			as, ok := enclosingStmt(f.Decl.Body, s.Node).(*ast.AssignStmt)
			if !ok || len(as.Lhs) != 2 {
				continue
			}
			data, codec := c19objOf(info, as.Lhs[0]), c19objOf(info, as.Lhs[1])
			// only the record batch / message set writers own an attrs field
			var ors []*ast.AssignStmt
			for _, x := range findNodes(f.Decl.Body, true, func(x ast.Node) bool {
				a, ok := x.(*ast.AssignStmt)
				if !ok || len(a.Lhs) != 1 {
					return false
				}
				fv := fieldOfSel(info, a.Lhs[0])
				return fv != nil && fv.Name() == "attrs"
			}) {
				ors = append(ors, x.(*ast.AssignStmt))
			}
			usesAttrs := containsNode(f.Decl.Body, true, func(y ast.Node) bool {
				ex, ok := y.(ast.Expr)
				if !ok {
					return false
				}
				fv := fieldOfSel(info, ex)
				return fv != nil && fv.Name() == "attrs"
			})
			if !usesAttrs {
				continue // e.g. client metrics: codec is returned to the caller
			}
			n++
			cons := f.Key + "#attrs-or"
			good := false
			why := "the codec reported by Compress is never ORed into the batch attributes"
			for _, a := range ors {
				if a.Tok != token.OR_ASSIGN || c19objOf(info, c19strip(info, a.Rhs[0])) != codec {
					continue
				}
				g := f.GraphFor(a)
				l, _ := g.LocOf(a)
				nonNil := factMatches(g.FactsAt(l), func(ft Fact) bool {
					be, ok := unparen(ft.Cond).(*ast.BinaryExpr)
					return ok && ft.Val && be.Op == token.NEQ && c19objOf(info, be.X) == data && c19isNil(info, be.Y)
				})
				if nonNil {
					good = true
				} else {
					why = "attrs |= codec is not guarded by compressed != nil (CodecError would be ORed in)"
				}
			}
			c.Check(good, rule, cons, s.Node.Pos(), m, "attrs |= int16(codec) under compressed != nil", why)
		}
	}
	c.Floor(rule+"/produce", n, 2)
	nd := 0
	if dm := m.Method("kgo", "Decompressor", "Decompress"); dm != nil {
		for _, s := range CallSites(e.funcs, dm) {
			f := s.Fn
			info := f.Info()
			call := s.Node.(*ast.CallExpr)
			if len(call.Args) != 2 {
				continue
			}
			obj := c19objOf(info, call.Args[1])
			def := singleDef(f, obj)
			nd++
			cons := fmt.Sprintf("%s#mask-%d", f.Key, nd)
			conv, ok := unparen(def).(*ast.CallExpr)
			if def == nil || !ok || len(conv.Args) != 1 {
				c.Undecided(rule, cons, call.Pos(), m, "codec argument is not a single definition CompressionCodecType(attrs & mask)")
				continue
			}
			be, ok := unparen(conv.Args[0]).(*ast.BinaryExpr)
			if !ok || be.Op != token.AND {
				c.Undecided(rule, cons, call.Pos(), m, "codec argument is not attrs & mask")
				continue
			}
			mask, okm := constInt(info, be.Y)
			need := int64(3)
			if t := info.TypeOf(unparen(be.X)); t != nil {
				if sel, ok := unparen(be.X).(*ast.SelectorExpr); ok {
					if bt := info.TypeOf(sel.X); bt != nil && strings.HasSuffix(strings.TrimPrefix(bt.String(), "*"), "RecordBatch") {
						need = maxCodec
					}
				}
			}
			c.Check(okm && mask&(mask+1) == 0 && mask >= need, rule, cons, call.Pos(), m, fmt.Sprintf("mask %#x covers codecs <= %d", mask, need),
				fmt.Sprintf("attribute mask %#x is not an all-ones mask covering codec values up to %d: batches of a higher codec are treated as another codec", mask, need))
		}
	}
	c.Floor(rule+"/fetch", nd, 3)
}

var _ = sort.Strings
