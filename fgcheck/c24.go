package main

import (
	"fmt"
	"go/ast"
	"go/parser"
	"go/token"
	"go/types"
	"os"
	"path/filepath"
	"sort"
	"strconv"
	"strings"
)

func init() {
	register(&Prop{
		ID:        "C24",
		Level:     "proof",
		Technique: "exhaustive constant evaluation of the protocol tables (go/types constants, switch case lists, straight-line evaluation of the kversion release builders) with CFG check of the lookup functions",
		Explanation: "One obligation per table entry: (a) every kerr.code2err entry maps key k to the *Error variable whose Code is k (0 -> nil), every *Error variable is in the table, and ErrorForCode/TypedErrorForCode return UnknownServerError exactly on the !exists edge; " +
			"(b) for every API key k in RequestForKey/ResponseForKey/NameForKey the returned types have Key()==k, equal MaxVersion(), paired ResponseKind/RequestKind, and a non-empty name; the three switches cover the same keys; " +
			"(c) every named kversion release, evaluated statement by statement from its builder function (clone/incmax/addkey/addkeyver/setmin/delete/composite literal), has vmax <= the codec's MaxVersion() for every key, against both the tree's pkg/kmsg and the kmsg version the root module links.",
		NotDecided:  "agreement of the tables with Apache Kafka's own definitions (not in the sandbox).",
		Assumptions: []string{"go/types constant evaluation", "the builder evaluator accepts only the straight-line statement shapes listed; anything else is reported undecided"},
		Run:         runC24,
	})
}

// constReturn returns the constant integer a one-statement function returns.
func constReturn(f *Func) (int64, bool) {
	if f == nil || len(f.Decl.Body.List) != 1 {
		return 0, false
	}
	r, ok := f.Decl.Body.List[0].(*ast.ReturnStmt)
	if !ok || len(r.Results) != 1 {
		return 0, false
	}
	return constInt(f.Info(), r.Results[0])
}

func namedOfPtr(t types.Type) *types.Named {
	if p, ok := t.(*types.Pointer); ok {
		t = p.Elem()
	}
	n, _ := t.(*types.Named)
	return n
}

func runC24(c *Ctx) {
	c24kerr(c)
	keyMax := c24kmsg(c)
	c24kversion(c, keyMax)
}

func c24kerr(c *Ctx) {
	m := c.Load("")
	if m == nil {
		return
	}
	p := m.Pkg("kerr")
	if p == nil {
		c.Undecided("anchor", "kerr", token.NoPos, m, "package kerr not found")
		return
	}
	info := p.TypesInfo
	// collect *Error variables and their codes
	type ev struct {
		code int64
		pos  token.Pos
	}
	errVars := map[string]ev{}
	var table *ast.CompositeLit
	for _, f := range p.Syntax {
		for _, d := range f.Decls {
			gd, ok := d.(*ast.GenDecl)
			if !ok || gd.Tok != token.VAR {
				continue
			}
			for _, s := range gd.Specs {
				vs := s.(*ast.ValueSpec)
				for i, name := range vs.Names {
					if i >= len(vs.Values) {
						continue
					}
					val := vs.Values[i]
					if name.Name == "code2err" {
						table, _ = val.(*ast.CompositeLit)
						continue
					}
					u, ok := val.(*ast.UnaryExpr)
					if !ok || u.Op != token.AND {
						continue
					}
					cl, ok := u.X.(*ast.CompositeLit)
					if !ok {
						continue
					}
					if tn, ok := info.Types[cl].Type.(*types.Named); !ok || tn.Obj().Name() != "Error" {
						continue
					}
					var codeExpr ast.Expr
					if len(cl.Elts) >= 2 {
						if _, kv := cl.Elts[0].(*ast.KeyValueExpr); !kv {
							codeExpr = cl.Elts[1]
						}
					}
					for _, e := range cl.Elts {
						if kv, ok := e.(*ast.KeyValueExpr); ok {
							if id, ok := kv.Key.(*ast.Ident); ok && id.Name == "Code" {
								codeExpr = kv.Value
							}
						}
					}
					if codeExpr == nil {
						c.Undecided("kerr-error-var", "kerr."+name.Name, name.Pos(), m, "cannot find Code in literal")
						continue
					}
					code, ok := constInt(info, codeExpr)
					if !ok {
						c.Undecided("kerr-error-var", "kerr."+name.Name, name.Pos(), m, "Code is not constant")
						continue
					}
					errVars[name.Name] = ev{code, name.Pos()}
				}
			}
		}
	}
	if table == nil {
		c.Undecided("anchor", "kerr.code2err", token.NoPos, m, "table literal not found")
		return
	}
	inTable := map[string]bool{}
	seenCodes := map[int64]string{}
	n := 0
	for _, e := range table.Elts {
		kv, ok := e.(*ast.KeyValueExpr)
		if !ok {
			c.Undecided("code2err-entry", "entry", e.Pos(), m, "not key:value")
			continue
		}
		k, ok := constInt(info, kv.Key)
		if !ok {
			c.Undecided("code2err-entry", exprStr(kv.Key), e.Pos(), m, "non-constant key")
			continue
		}
		n++
		cons := fmt.Sprintf("code2err[%d]", k)
		if prev, dup := seenCodes[k]; dup {
			c.Fail("code2err-entry", cons, kv.Pos(), m, "duplicate code, also "+prev)
			continue
		}
		id, ok := kv.Value.(*ast.Ident)
		if !ok {
			c.Undecided("code2err-entry", cons, kv.Pos(), m, "value is not an identifier")
			continue
		}
		seenCodes[k] = id.Name
		if k == 0 {
			c.Check(id.Name == "nil", "code2err-entry", cons, kv.Pos(), m, "0 -> nil", "code 0 must map to nil, maps to "+id.Name)
			continue
		}
		v, ok := errVars[id.Name]
		if !ok {
			c.Fail("code2err-entry", cons, kv.Pos(), m, "value "+id.Name+" is not a kerr *Error variable")
			continue
		}
		inTable[id.Name] = true
		c.Check(v.code == k, "code2err-entry", cons, kv.Pos(), m, fmt.Sprintf("%s.Code == %d", id.Name, k),
			fmt.Sprintf("code %d maps to %s whose Code is %d", k, id.Name, v.code))
	}
	c.Floor("code2err-entry", n, 100)
	for _, name := range sortedKeys(errVars) {
		c.Check(inTable[name], "error-var-in-table", "kerr."+name, errVars[name].pos, m, "present in code2err", "error variable is missing from code2err")
	}
	// codes are distinct across variables
	byCode := map[int64]string{}
	for _, name := range sortedKeys(errVars) {
		v := errVars[name]
		if o, dup := byCode[v.code]; dup {
			c.Fail("error-var-code-unique", "kerr."+name, v.pos, m, fmt.Sprintf("code %d also used by %s", v.code, o))
		} else {
			byCode[v.code] = name
			c.OK("error-var-code-unique", "kerr."+name, v.pos, m, "")
		}
	}
	// lookup functions
	for _, key := range []string{"kerr.ErrorForCode", "kerr.TypedErrorForCode"} {
		f := c.NeedFunc(m, key)
		if f == nil {
			continue
		}
		g := f.Graph()
		// find `err, exists := code2err[code]`
		var existsObj, errObj types.Object
		ast.Inspect(f.Decl.Body, func(x ast.Node) bool {
			as, ok := x.(*ast.AssignStmt)
			if !ok || len(as.Lhs) != 2 || len(as.Rhs) != 1 {
				return true
			}
			ix, ok := as.Rhs[0].(*ast.IndexExpr)
			if !ok {
				return true
			}
			if id, ok := ix.X.(*ast.Ident); ok && id.Name == "code2err" {
				if p, ok := ix.Index.(*ast.Ident); ok && f.Info().Uses[p] != nil && f.Info().Uses[p].Name() == "code" {
					errObj = f.Info().Defs[as.Lhs[0].(*ast.Ident)]
					existsObj = f.Info().Defs[as.Lhs[1].(*ast.Ident)]
				}
			}
			return true
		})
		if existsObj == nil || errObj == nil {
			c.Undecided("lookup-unknown-exactly-on-miss", key, f.Pos(), m, "lookup `err, exists := code2err[code]` not found")
			continue
		}
		rets := findNodes(f.Decl.Body, false, func(x ast.Node) bool { _, ok := x.(*ast.ReturnStmt); return ok })
		for i, rn := range rets {
			r := rn.(*ast.ReturnStmt)
			cons := fmt.Sprintf("%s#return%d", key, i)
			l, _ := g.LocOf(r)
			facts := g.FactsAt(l)
			miss := factMatches(facts, func(ft Fact) bool {
				id, ok := ft.Cond.(*ast.Ident)
				return ok && f.Info().Uses[id] == existsObj && !ft.Val
			})
			hit := factMatches(facts, func(ft Fact) bool {
				id, ok := ft.Cond.(*ast.Ident)
				return ok && f.Info().Uses[id] == existsObj && ft.Val
			})
			if len(r.Results) != 1 {
				c.Undecided("lookup-unknown-exactly-on-miss", cons, r.Pos(), m, "unexpected result count")
				continue
			}
			res := unparen(r.Results[0])
			isUnknown := false
			if id, ok := res.(*ast.Ident); ok && id.Name == "UnknownServerError" {
				isUnknown = true
			}
			usesErr := mentionsObj(res, f.Info(), errObj, false)
			isNil := false
			if id, ok := res.(*ast.Ident); ok && id.Name == "nil" {
				// nil only under err == nil
				isNil = factMatches(facts, func(ft Fact) bool {
					b, ok := ft.Cond.(*ast.BinaryExpr)
					return ok && ft.Val && b.Op == token.EQL && mentionsObj(b.X, f.Info(), errObj, false) && exprStr(b.Y) == "nil"
				})
			}
			switch {
			case miss && !hit:
				c.Check(isUnknown, "lookup-unknown-exactly-on-miss", cons, r.Pos(), m, "miss -> UnknownServerError", "on a missing code the function returns "+exprStr(res))
			default:
				// not on the miss edge: the miss test must dominate (so exists holds)
				dom := false
				for _, ft := range g.FactsAt(l) {
					_ = ft
				}
				// exists is true here iff the `if !exists {return}` precedes: check that no path from entry reaches r with exists false:
				// equivalently the if-!exists block ends in return and dominates. We accept when some return under miss exists and this return is after it.
				dom = hit || c24afterMissReturn(f, g, existsObj, r)
				c.Check(dom && !isUnknown && (usesErr || isNil), "lookup-unknown-exactly-on-miss", cons, r.Pos(), m, "hit -> table value",
					"return "+exprStr(res)+" is not the table value on the found path (or is reachable on a miss)")
			}
		}
		c.Floor("lookup-returns:"+key, len(rets), 2)
	}
}

// c24afterMissReturn: r is reachable only after an `if !exists { return ... }`.
func c24afterMissReturn(f *Func, g *Graph, exists types.Object, r *ast.ReturnStmt) bool {
	rl, _ := g.LocOf(r)
	for _, n := range findNodes(f.Decl.Body, false, func(x ast.Node) bool { _, ok := x.(*ast.IfStmt); return ok }) {
		ifs := n.(*ast.IfStmt)
		u, ok := unparen(ifs.Cond).(*ast.UnaryExpr)
		if !ok || u.Op != token.NOT {
			continue
		}
		id, ok := unparen(u.X).(*ast.Ident)
		if !ok || f.Info().Uses[id] != exists {
			continue
		}
		// body must end in return, no else
		if ifs.Else != nil || len(ifs.Body.List) == 0 {
			continue
		}
		if _, ok := ifs.Body.List[len(ifs.Body.List)-1].(*ast.ReturnStmt); !ok {
			continue
		}
		cl, _ := g.LocOf(ifs.Cond)
		if g.Dominates(cl, rl) {
			return true
		}
	}
	return false
}

type keyInfo struct {
	reqType, respType string
	reqMax, respMax   int64
}

// c24kmsg checks the key switches and returns key -> request max version.
func c24kmsg(c *Ctx) map[int64]int64 {
	m := c.Load("pkg/kmsg")
	if m == nil {
		return nil
	}
	type arm struct {
		typ *types.Named
		pos token.Pos
		str string
	}
	readSwitch := func(key string) (map[int64]ast.Expr, map[int64]token.Pos, *Func) {
		f := c.NeedFunc(m, key)
		if f == nil {
			return nil, nil, nil
		}
		out := map[int64]ast.Expr{}
		pos := map[int64]token.Pos{}
		var sw *ast.SwitchStmt
		for _, s := range f.Decl.Body.List {
			if x, ok := s.(*ast.SwitchStmt); ok {
				sw = x
			}
		}
		if sw == nil || len(f.Decl.Body.List) != 1 {
			c.Undecided("key-switch-shape", key, f.Pos(), m, "body is not a single switch")
			return nil, nil, f
		}
		for _, cl := range sw.Body.List {
			cc := cl.(*ast.CaseClause)
			if cc.List == nil {
				continue
			}
			if len(cc.Body) != 1 {
				c.Undecided("key-switch-shape", key, cc.Pos(), m, "case body is not a single return")
				continue
			}
			r, ok := cc.Body[0].(*ast.ReturnStmt)
			if !ok || len(r.Results) != 1 {
				c.Undecided("key-switch-shape", key, cc.Pos(), m, "case body is not a single return")
				continue
			}
			for _, e := range cc.List {
				k, ok := constInt(f.Info(), e)
				if !ok {
					c.Undecided("key-switch-shape", key, e.Pos(), m, "non-constant case")
					continue
				}
				out[k] = r.Results[0]
				pos[k] = cc.Pos()
			}
		}
		return out, pos, f
	}
	reqArms, reqPos, rf := readSwitch("kmsg.RequestForKey")
	respArms, _, pf := readSwitch("kmsg.ResponseForKey")
	nameArms, _, nf := readSwitch("kmsg.NameForKey")
	if rf == nil || pf == nil || nf == nil {
		return nil
	}
	typeOf := func(f *Func, e ast.Expr) *types.Named {
		tv, ok := f.Info().Types[e]
		if !ok {
			return nil
		}
		return namedOfPtr(tv.Type)
	}
	methConst := func(n *types.Named, meth string) (int64, bool) {
		return constReturn(m.Func("kmsg." + n.Obj().Name() + "." + meth))
	}
	// X.ResponseKind() returns &YResponse{...}: type of the (single) return expr in its last return
	kindType := func(n *types.Named, meth string) *types.Named {
		f := m.Func("kmsg." + n.Obj().Name() + "." + meth)
		if f == nil {
			return nil
		}
		rets := findNodes(f.Decl.Body, false, func(x ast.Node) bool { _, ok := x.(*ast.ReturnStmt); return ok })
		if len(rets) == 0 {
			return nil
		}
		r := rets[len(rets)-1].(*ast.ReturnStmt)
		if len(r.Results) != 1 {
			return nil
		}
		tv := f.Info().Types[r.Results[0]]
		return namedOfPtr(tv.Type)
	}
	keyMax := map[int64]int64{}
	var keys []int64
	for k := range reqArms {
		keys = append(keys, k)
	}
	sort.Slice(keys, func(i, j int) bool { return keys[i] < keys[j] })
	for _, k := range keys {
		cons := fmt.Sprintf("api-key[%d]", k)
		rt := typeOf(rf, reqArms[k])
		if rt == nil {
			c.Undecided("key-tables", cons, reqPos[k], m, "cannot resolve request type")
			continue
		}
		re, ok := respArms[k]
		if !ok {
			c.Fail("key-tables", cons, reqPos[k], m, "ResponseForKey has no arm for this key")
			continue
		}
		pt := typeOf(pf, re)
		if pt == nil {
			c.Undecided("key-tables", cons, reqPos[k], m, "cannot resolve response type")
			continue
		}
		var problems []string
		rk, ok1 := methConst(rt, "Key")
		pk, ok2 := methConst(pt, "Key")
		rm, ok3 := methConst(rt, "MaxVersion")
		pm, ok4 := methConst(pt, "MaxVersion")
		if !ok1 || !ok2 || !ok3 || !ok4 {
			c.Undecided("key-tables", cons, reqPos[k], m, "Key()/MaxVersion() of "+rt.Obj().Name()+"/"+pt.Obj().Name()+" are not single constant returns")
			continue
		}
		if rk != k {
			problems = append(problems, fmt.Sprintf("%s.Key()=%d", rt.Obj().Name(), rk))
		}
		if pk != k {
			problems = append(problems, fmt.Sprintf("%s.Key()=%d", pt.Obj().Name(), pk))
		}
		if rm != pm {
			problems = append(problems, fmt.Sprintf("MaxVersion %d (request) != %d (response)", rm, pm))
		}
		if kt := kindType(rt, "ResponseKind"); kt == nil || kt.Obj() != pt.Obj() {
			problems = append(problems, rt.Obj().Name()+".ResponseKind() is not "+pt.Obj().Name())
		}
		if kt := kindType(pt, "RequestKind"); kt == nil || kt.Obj() != rt.Obj() {
			problems = append(problems, pt.Obj().Name()+".RequestKind() is not "+rt.Obj().Name())
		}
		ne, ok := nameArms[k]
		if !ok {
			problems = append(problems, "NameForKey has no arm")
		} else if tv := nf.Info().Types[ne]; tv.Value == nil || strings.Trim(tv.Value.ExactString(), `"`) == "" {
			problems = append(problems, "NameForKey returns an empty/non-constant name")
		} else {
			name := strings.Trim(tv.Value.ExactString(), `"`)
			if name+"Request" != rt.Obj().Name() || name+"Response" != pt.Obj().Name() {
				problems = append(problems, fmt.Sprintf("name %q does not match types %s/%s", name, rt.Obj().Name(), pt.Obj().Name()))
			}
		}
		keyMax[k] = rm
		c.Check(len(problems) == 0, "key-tables", cons, reqPos[k], m,
			fmt.Sprintf("%s/%s key=%d max=%d", rt.Obj().Name(), pt.Obj().Name(), k, rm), strings.Join(problems, "; "))
	}
	for k := range respArms {
		if _, ok := reqArms[k]; !ok {
			c.Fail("key-tables", fmt.Sprintf("api-key[%d]", k), pf.Pos(), m, "ResponseForKey has an arm RequestForKey lacks")
		}
	}
	for k := range nameArms {
		if _, ok := reqArms[k]; !ok {
			c.Fail("key-tables", fmt.Sprintf("api-key[%d]", k), nf.Pos(), m, "NameForKey has an arm RequestForKey lacks")
		}
	}
	c.Floor("key-tables", len(keys), 80)
	// every type with Key()+ResponseKind() is routed by RequestForKey under its key
	routed := map[string]bool{}
	for _, k := range keys {
		if rt := typeOf(rf, reqArms[k]); rt != nil {
			routed[rt.Obj().Name()] = true
		}
	}
	for _, f := range m.FuncsIn("kmsg") {
		if strings.HasSuffix(f.Key, ".ResponseKind") && f.Decl.Recv != nil {
			tn := recvTypeName(f.Decl.Recv.List[0].Type)
			c.Check(routed[tn], "request-type-routed", "kmsg."+tn, f.Pos(), m, "returned by RequestForKey", "request type is not returned by RequestForKey")
		}
	}
	return keyMax
}

// --- kversion builder evaluation ---

type relState map[int64][2]int64 // key -> {vmin, vmax}

type relEval struct {
	c     *Ctx
	m     *Module
	memo  map[string]relState
	stmts int
	fail  map[string]bool
}

func (e *relEval) eval(name string) relState {
	if s, ok := e.memo[name]; ok {
		return s
	}
	f := e.m.Func("kversion." + name)
	if f == nil {
		e.undecided(name, token.NoPos, "builder function not found")
		return nil
	}
	e.c.Touch(f)
	info := f.Info()
	vars := map[types.Object]relState{}
	var result relState
	done := false
	cloneOf := func(s relState) relState {
		o := relState{}
		for k, v := range s {
			o[k] = v
		}
		return o
	}
	// evalExpr: builder call `z081()`, `x.clone(a,b)`, identifier, &release{...}
	var evalExpr func(x ast.Expr) relState
	evalExpr = func(x ast.Expr) relState {
		x = unparen(x)
		switch v := x.(type) {
		case *ast.Ident:
			if s, ok := vars[info.Uses[v]]; ok {
				return s
			}
		case *ast.CallExpr:
			if id, ok := v.Fun.(*ast.Ident); ok && len(v.Args) == 0 {
				if fn, ok := info.Uses[id].(*types.Func); ok && fn.Pkg() == f.Obj.Pkg() {
					return e.eval(fn.Name())
				}
			}
			if sel, ok := v.Fun.(*ast.SelectorExpr); ok && sel.Sel.Name == "clone" && len(v.Args) == 2 {
				base := evalExpr(sel.X)
				if base == nil {
					return nil
				}
				return cloneOf(base)
			}
		case *ast.UnaryExpr:
			if cl, ok := v.X.(*ast.CompositeLit); ok && v.Op == token.AND {
				for _, el := range cl.Elts {
					kv, ok := el.(*ast.KeyValueExpr)
					if !ok {
						return nil
					}
					if id, ok := kv.Key.(*ast.Ident); ok && id.Name == "reqs" {
						ml, ok := kv.Value.(*ast.CompositeLit)
						if !ok {
							return nil
						}
						st := relState{}
						for _, me := range ml.Elts {
							mkv, ok := me.(*ast.KeyValueExpr)
							if !ok {
								return nil
							}
							k, ok := constInt(info, mkv.Key)
							if !ok {
								return nil
							}
							rl, ok := mkv.Value.(*ast.CompositeLit)
							if !ok {
								return nil
							}
							var vv [2]int64
							for _, re := range rl.Elts {
								rkv, ok := re.(*ast.KeyValueExpr)
								if !ok {
									return nil
								}
								val, ok := constInt(info, rkv.Value)
								if !ok {
									return nil
								}
								switch rkv.Key.(*ast.Ident).Name {
								case "key":
									if val != k {
										e.c.Fail("release-literal-key", fmt.Sprintf("kversion.%s[%d]", name, k), rkv.Pos(), e.m, fmt.Sprintf("entry key %d != map key %d", val, k))
									}
								case "vmin":
									vv[0] = val
								case "vmax":
									vv[1] = val
								default:
									return nil
								}
							}
							st[k] = vv
							e.stmts++
						}
						return st
					}
				}
			}
		}
		return nil
	}
	for _, s := range f.Decl.Body.List {
		if done {
			e.undecided(name, s.Pos(), "statement after return")
			break
		}
		e.stmts++
		switch st := s.(type) {
		case *ast.AssignStmt:
			if len(st.Lhs) == 1 && len(st.Rhs) == 1 && st.Tok == token.DEFINE {
				v := evalExpr(st.Rhs[0])
				if v == nil {
					e.undecided(name, st.Pos(), "unrecognised initialiser "+exprStr(st.Rhs[0]))
					return nil
				}
				vars[info.Defs[st.Lhs[0].(*ast.Ident)]] = v
				continue
			}
			e.undecided(name, st.Pos(), "unrecognised assignment")
			return nil
		case *ast.ReturnStmt:
			if len(st.Results) != 1 {
				e.undecided(name, st.Pos(), "unrecognised return")
				return nil
			}
			result = evalExpr(st.Results[0])
			if result == nil {
				e.undecided(name, st.Pos(), "unrecognised return value "+exprStr(st.Results[0]))
				return nil
			}
			done = true
		case *ast.ExprStmt:
			call, ok := st.X.(*ast.CallExpr)
			if !ok {
				e.undecided(name, st.Pos(), "unrecognised statement")
				return nil
			}
			// delete(now.reqs, k)
			if id, ok := call.Fun.(*ast.Ident); ok && id.Name == "delete" && len(call.Args) == 2 {
				sel, ok := call.Args[0].(*ast.SelectorExpr)
				if !ok || sel.Sel.Name != "reqs" {
					e.undecided(name, st.Pos(), "unrecognised delete")
					return nil
				}
				base, ok := sel.X.(*ast.Ident)
				k, ok2 := constInt(info, call.Args[1])
				if !ok || !ok2 || vars[info.Uses[base]] == nil {
					e.undecided(name, st.Pos(), "unrecognised delete")
					return nil
				}
				delete(vars[info.Uses[base]], k)
				continue
			}
			sel, ok := call.Fun.(*ast.SelectorExpr)
			if !ok {
				e.undecided(name, st.Pos(), "unrecognised call "+exprStr(call))
				return nil
			}
			base, ok := sel.X.(*ast.Ident)
			if !ok || vars[info.Uses[base]] == nil {
				e.undecided(name, st.Pos(), "unrecognised call receiver "+exprStr(call))
				return nil
			}
			state := vars[info.Uses[base]]
			var args []int64
			for _, a := range call.Args {
				v, ok := constInt(info, a)
				if !ok {
					e.undecided(name, st.Pos(), "non-constant argument in "+exprStr(call))
					return nil
				}
				args = append(args, v)
			}
			cons := fmt.Sprintf("kversion.%s: %s", name, exprStr(call))
			switch {
			case sel.Sel.Name == "incmax" && len(args) == 2:
				cur, ok := state[args[0]]
				if !ok {
					e.c.Fail("release-builder-step", cons, st.Pos(), e.m, "incmax on a key that does not exist (would panic at run time)")
					return nil
				}
				if cur[1]+1 != args[1] {
					e.c.Fail("release-builder-step", cons, st.Pos(), e.m, fmt.Sprintf("incmax expects current max %d+1 == %d (would panic at run time)", cur[1], args[1]))
					return nil
				}
				cur[1]++
				state[args[0]] = cur
			case sel.Sel.Name == "addkey" && len(args) == 1:
				if _, ok := state[args[0]]; ok {
					e.c.Fail("release-builder-step", cons, st.Pos(), e.m, "addkey on an existing key (would panic at run time)")
					return nil
				}
				state[args[0]] = [2]int64{0, 0}
			case sel.Sel.Name == "addkeyver" && len(args) == 2:
				if _, ok := state[args[0]]; ok {
					e.c.Fail("release-builder-step", cons, st.Pos(), e.m, "addkeyver on an existing key (would panic at run time)")
					return nil
				}
				state[args[0]] = [2]int64{0, args[1]}
			case sel.Sel.Name == "setmin" && len(args) == 2:
				cur, ok := state[args[0]]
				if !ok {
					e.c.Fail("release-builder-step", cons, st.Pos(), e.m, "setmin on a key that does not exist")
					return nil
				}
				cur[0] = args[1]
				state[args[0]] = cur
			default:
				e.undecided(name, st.Pos(), "unrecognised builder call "+exprStr(call))
				return nil
			}
		default:
			e.undecided(name, s.Pos(), fmt.Sprintf("unrecognised statement %T", s))
			return nil
		}
	}
	if !done {
		e.undecided(name, f.Pos(), "no return")
		return nil
	}
	e.memo[name] = result
	return result
}

func (e *relEval) undecided(name string, pos token.Pos, why string) {
	if e.fail[name] {
		return
	}
	e.fail[name] = true
	e.c.Undecided("release-builder-eval", "kversion."+name, pos, e.m, why)
}

// linkedKmsgMax parses the kmsg version linked by the root module (module
// cache) syntactically: request types are those with a ResponseKind method.
func linkedKmsgMax(c *Ctx, root *Module) (map[int64]int64, string) {
	p := root.Pkg("kversion")
	if p == nil {
		return nil, ""
	}
	kp := p.Imports["github.com/twmb/franz-go/pkg/kmsg"]
	if kp == nil || len(kp.GoFiles) == 0 {
		return nil, ""
	}
	dir := filepath.Dir(kp.GoFiles[0])
	if strings.HasPrefix(dir, repoRoot+string(os.PathSeparator)) {
		return nil, dir // linked to the tree itself
	}
	fset := token.NewFileSet()
	keyOf := map[string]int64{}
	maxOf := map[string]int64{}
	isReq := map[string]bool{}
	for _, gf := range kp.GoFiles {
		file, err := parser.ParseFile(fset, gf, nil, parser.SkipObjectResolution)
		if err != nil {
			c.Undecided("linked-kmsg", gf, token.NoPos, root, err.Error())
			return nil, dir
		}
		for _, d := range file.Decls {
			fd, ok := d.(*ast.FuncDecl)
			if !ok || fd.Recv == nil || fd.Body == nil {
				continue
			}
			tn := recvTypeName(fd.Recv.List[0].Type)
			switch fd.Name.Name {
			case "ResponseKind":
				isReq[tn] = true
			case "Key", "MaxVersion":
				if len(fd.Body.List) == 1 {
					if r, ok := fd.Body.List[0].(*ast.ReturnStmt); ok && len(r.Results) == 1 {
						if bl, ok := r.Results[0].(*ast.BasicLit); ok {
							v, err := strconv.ParseInt(bl.Value, 0, 64)
							if err == nil {
								if fd.Name.Name == "Key" {
									keyOf[tn] = v
								} else {
									maxOf[tn] = v
								}
							}
						}
					}
				}
			}
		}
	}
	out := map[int64]int64{}
	for tn := range isReq {
		k, ok1 := keyOf[tn]
		mx, ok2 := maxOf[tn]
		if ok1 && ok2 {
			out[k] = mx
		}
	}
	return out, dir
}

func c24kversion(c *Ctx, treeMax map[int64]int64) {
	m := c.Load("")
	if m == nil || treeMax == nil {
		return
	}
	kv := m.Pkg("kversion")
	if kv == nil {
		c.Undecided("anchor", "kversion", token.NoPos, m, "package not found")
		return
	}
	linkedMax, linkedDir := linkedKmsgMax(c, m)
	c.Set("linked_kmsg", linkedDir)
	// every function of kversion with no params returning *release is a release builder
	var builders []string
	for _, f := range m.FuncsIn("kversion") {
		sig := f.Obj.Type().(*types.Signature)
		if sig.Recv() == nil && sig.Params().Len() == 0 && sig.Results().Len() == 1 {
			if n := namedOfPtr(sig.Results().At(0).Type()); n != nil && n.Obj().Name() == "release" {
				builders = append(builders, f.Obj.Name())
			}
		}
	}
	sort.Strings(builders)
	e := &relEval{c: c, m: m, memo: map[string]relState{}, fail: map[string]bool{}}
	nchecks := 0
	for _, b := range builders {
		st := e.eval(b)
		if st == nil {
			continue
		}
		var ks []int64
		for k := range st {
			ks = append(ks, k)
		}
		sort.Slice(ks, func(i, j int) bool { return ks[i] < ks[j] })
		f := m.Func("kversion." + b)
		for _, k := range ks {
			v := st[k]
			cons := fmt.Sprintf("kversion.%s[key %d]", b, k)
			nchecks++
			var problems []string
			tm, ok := treeMax[k]
			if !ok {
				problems = append(problems, "key unknown to the tree's kmsg")
			} else if v[1] > tm {
				problems = append(problems, fmt.Sprintf("vmax %d > tree kmsg MaxVersion %d", v[1], tm))
			}
			if linkedMax != nil {
				lm, ok := linkedMax[k]
				if !ok {
					problems = append(problems, "key unknown to the linked kmsg")
				} else if v[1] > lm {
					problems = append(problems, fmt.Sprintf("vmax %d > linked kmsg MaxVersion %d", v[1], lm))
				}
			}
			if v[0] > v[1] {
				problems = append(problems, fmt.Sprintf("vmin %d > vmax %d", v[0], v[1]))
			}
			c.Check(len(problems) == 0, "release-vmax-within-codec", cons, f.Pos(), m, fmt.Sprintf("vmin=%d vmax=%d codec=%d", v[0], v[1], tm), strings.Join(problems, "; "))
		}
	}
	c.Set("builder_statements_evaluated", e.stmts)
	c.Floor("release-builders", len(builders), 60)
	c.Floor("release-vmax-within-codec", nchecks, 2000)
	// the public constructors use only builders (relversion(fn...))
	for _, f := range m.FuncsIn("kversion") {
		for _, call := range callsNamed(f.Decl.Body, f.Info(), "relversion", true) {
			for _, a := range call.Args {
				id, ok := a.(*ast.Ident)
				okb := false
				if ok {
					for _, b := range builders {
						if b == id.Name {
							okb = true
						}
					}
				}
				c.Check(okb, "relversion-arg-is-builder", f.Key+": "+exprStr(a), a.Pos(), m, "", "argument is not an evaluated release builder")
			}
		}
	}
}
