package main

import (
	"fmt"
	"go/ast"
	"go/token"
	"go/types"
	"strings"
)

// Round-3 rules of C34.
//
//  acl-identity-includes-permission (clusterACLs.add): the new entry is dropped
//  only when an existing entry equals it in every field of the acl struct
//  (whole-struct == on unmodified values, or a conjunction covering each field,
//  permission included); otherwise it is appended.  ALLOW and DENY for the same
//  pattern/principal/host/operation are two bindings that coexist.
//  acl-entry-immutable: no field of an acl value is written outside its
//  construction (a stored DENY can never turn into an ALLOW).
//  acl-delete-partitions / acl-filter-field-coverage: delete keeps exactly the
//  entries its filter does not match, and the filter compares every acl field.
//  acl-raw-matcher-callers: clusterACLs.allowed/anyAllowed (no superuser /
//  enableACLs short-circuit) are called only by the wrappers allowedACL /
//  anyAllowedACL or behind an explicit `!isSuperuser` fact.
//  acl-authorized-ops-per-op: the authorized-operations bitfield sets the bit
//  of op exactly under allowedACL(creq, resource, resourceType, op).

func c34obj(info *types.Info, e ast.Expr) types.Object {
	id, ok := unparen(e).(*ast.Ident)
	if !ok {
		return nil
	}
	if o := info.Uses[id]; o != nil {
		return o
	}
	return info.Defs[id]
}

func c34factStrs(facts []Fact) string {
	var out []string
	for _, ft := range facts {
		s := exprStr(ft.Cond)
		if b, ok := unparen(ft.Cond).(*ast.BinaryExpr); ok && (b.Op == token.LOR || b.Op == token.LAND) {
			s = "(" + s + ")"
		}
		if ft.Tag != nil {
			s = exprStr(ft.Tag) + " == " + s
		}
		if !ft.Val {
			s = "!(" + s + ")"
		}
		out = append(out, s)
	}
	if len(out) == 0 {
		return "no condition"
	}
	return strings.Join(out, " && ")
}

func c34aclStruct(m *Module) (types.Type, *types.Struct) {
	o := m.Object("kfake", "acl")
	if o == nil {
		return nil, nil
	}
	st, _ := o.Type().Underlying().(*types.Struct)
	return o.Type(), st
}

func runC34round3(c *Ctx, m *Module) {
	aclT, aclS := c34aclStruct(m)
	aclsFld := m.Field("kfake", "clusterACLs", "acls")
	if aclT == nil || aclS == nil || aclsFld == nil {
		c.Undecided("anchor", "kfake.acl / kfake.clusterACLs.acls", 0, m, "type or field not found")
		return
	}
	c34immutable(c, m, aclS)
	c34add(c, m, aclT, aclS, aclsFld)
	c34delete(c, m, aclsFld)
	c34filterCoverage(c, m, aclS)
	c34rawCallers(c, m)
	c34authorizedOps(c, m)
}

// ---- acl-entry-immutable

func c34immutable(c *Ctx, m *Module, aclS *types.Struct) {
	rule := "acl-entry-immutable"
	funcs := m.FuncsIn("kfake")
	n := 0
	for i := 0; i < aclS.NumFields(); i++ {
		fld := aclS.Field(i)
		nf := 0
		for _, s := range StoreSites(funcs, fld) {
			nf++
			n++
			if s.Kind == "complit" {
				continue
			}
			c.Fail(rule, fmt.Sprintf("%s: %s", s.Fn.Key, nodeStr(s.Node)), s.Node.Pos(), m,
				"field `"+fld.Name()+"` of an acl value is written after construction ("+s.Kind+"): ACL bindings are immutable in Kafka; overwriting e.g. the permission of a stored entry lets a later ALLOW erase an earlier DENY, and editing a copy before comparing it hides a field from the duplicate check")
		}
		c.Check(nf >= 2, rule, "kfake.acl."+fld.Name()+"#constructed", fld.Pos(), m, fmt.Sprintf("%d construction sites, no other write", nf), "fewer than 2 construction sites found for the field (CreateACLs handler and persistence loader)")
	}
	c.Floor(rule, n, 2*aclS.NumFields())
}

// c34isAclsSel: e is <x>.acls for the clusterACLs.acls field.
func c34isAclsSel(info *types.Info, e ast.Expr, aclsFld *types.Var) bool {
	return sameField(fieldOfSel(info, e), aclsFld)
}

// ---- acl-identity-includes-permission

func c34add(c *Ctx, m *Module, aclT types.Type, aclS *types.Struct, aclsFld *types.Var) {
	rule := "acl-identity-includes-permission"
	f := c.NeedFunc(m, "kfake.clusterACLs.add")
	if f == nil {
		return
	}
	c.Touch(f)
	info := f.Info()
	g := f.Graph()
	sig := f.Obj.Type().(*types.Signature)
	if sig.Params().Len() != 1 || !types.Identical(sig.Params().At(0).Type(), aclT) {
		c.Undecided(rule, f.Key+"#signature", f.Pos(), m, "add no longer takes a single acl value")
		return
	}
	param := types.Object(sig.Params().At(0))
	// values modified inside add (assigned as a whole, or a field of them stored)
	modified := map[types.Object]string{}
	nDefs := map[types.Object]int{}
	defRHS := map[types.Object]ast.Expr{}
	rangeElem := map[types.Object]bool{} // value variable of `range <x>.acls`
	rangeIdx := map[types.Object]bool{}  // key variable of `range <x>.acls`
	ast.Inspect(f.Decl.Body, func(x ast.Node) bool {
		switch s := x.(type) {
		case *ast.AssignStmt:
			for i, l := range s.Lhs {
				if o := c34obj(info, l); o != nil {
					nDefs[o]++
					if len(s.Rhs) == len(s.Lhs) {
						defRHS[o] = s.Rhs[i]
					}
					continue
				}
				// a.b = ..., a[i].b = ..., (*p).b = ...
				base := unparen(l)
				for {
					switch b := base.(type) {
					case *ast.SelectorExpr:
						base = unparen(b.X)
						continue
					case *ast.IndexExpr:
						base = unparen(b.X)
						continue
					case *ast.StarExpr:
						base = unparen(b.X)
						continue
					}
					break
				}
				if o := c34obj(info, base); o != nil {
					if tv, ok := info.Types[l]; ok && tv.Type != nil {
						// stores into a field of an acl-typed local / parameter
						if sel, ok := unparen(l).(*ast.SelectorExpr); ok {
							if xt, ok := info.Types[sel.X]; ok && xt.Type != nil && types.Identical(xt.Type, aclT) {
								modified[o] = nodeStr(s)
							}
						}
					}
				}
			}
		case *ast.IncDecStmt:
			if o := c34obj(info, s.X); o != nil {
				nDefs[o] += 2
			}
		case *ast.UnaryExpr:
			if s.Op == token.AND {
				if o := c34obj(info, s.X); o != nil {
					if t := o.Type(); types.Identical(t, aclT) {
						modified[o] = "address taken: " + exprStr(s)
					}
				}
			}
		case *ast.RangeStmt:
			if c34isAclsSel(info, s.X, aclsFld) {
				if o := c34obj(info, s.Value); o != nil {
					rangeElem[o] = true
				}
				if o := c34obj(info, s.Key); o != nil {
					rangeIdx[o] = true
				}
			}
		}
		return true
	})
	if nDefs[param] > 0 {
		modified[param] = "parameter reassigned"
	}
	// pristine(e): e denotes the new entry exactly as passed in
	isNew := func(e ast.Expr) bool {
		o := c34obj(info, e)
		return o != nil && o == param && modified[o] == ""
	}
	// elem(e): e denotes one stored entry, unmodified
	var isElem func(e ast.Expr, depth int) bool
	isElem = func(e ast.Expr, depth int) bool {
		e = unparen(e)
		if depth > 3 {
			return false
		}
		switch x := e.(type) {
		case *ast.Ident:
			o := c34obj(info, x)
			if o == nil || modified[o] != "" {
				return false
			}
			if rangeElem[o] && nDefs[o] == 0 {
				return true
			}
			if nDefs[o] == 1 && defRHS[o] != nil {
				return isElem(defRHS[o], depth+1)
			}
		case *ast.IndexExpr:
			return c34isAclsSel(info, x.X, aclsFld)
		case *ast.UnaryExpr:
			if x.Op == token.AND {
				return isElem(x.X, depth+1)
			}
		case *ast.StarExpr:
			if u, ok := unparen(x.X).(*ast.UnaryExpr); ok && u.Op == token.AND {
				return isElem(u.X, depth+1)
			}
			if o := c34obj(info, x.X); o != nil && nDefs[o] == 1 && defRHS[o] != nil {
				if u, ok := unparen(defRHS[o]).(*ast.UnaryExpr); ok && u.Op == token.AND {
					return isElem(u.X, depth+1)
				}
			}
		}
		return false
	}
	// equalFact: the facts establish entry == newACL on every field
	equalFact := func(facts []Fact) (bool, string) {
		covered := map[string]bool{}
		for _, ft := range facts {
			b, ok := unparen(ft.Cond).(*ast.BinaryExpr)
			if !ok || ft.Tag != nil {
				continue
			}
			if !((b.Op == token.EQL && ft.Val) || (b.Op == token.NEQ && !ft.Val)) {
				continue
			}
			xt, yt := info.Types[b.X].Type, info.Types[b.Y].Type
			if xt != nil && yt != nil && types.Identical(xt, aclT) && types.Identical(yt, aclT) {
				if (isElem(b.X, 0) && isNew(b.Y)) || (isElem(b.Y, 0) && isNew(b.X)) {
					return true, ""
				}
				continue
			}
			// field-wise: <elem>.f == newACL.f
			sx, okx := unparen(b.X).(*ast.SelectorExpr)
			sy, oky := unparen(b.Y).(*ast.SelectorExpr)
			if !okx || !oky {
				continue
			}
			fx, fy := fieldOfSel(info, sx), fieldOfSel(info, sy)
			if fx == nil || !sameField(fx, fy) {
				continue
			}
			if (isElem(sx.X, 0) && isNew(sy.X)) || (isElem(sy.X, 0) && isNew(sx.X)) {
				covered[fx.Name()] = true
			}
		}
		var missing []string
		for i := 0; i < aclS.NumFields(); i++ {
			if !covered[aclS.Field(i).Name()] {
				missing = append(missing, aclS.Field(i).Name())
			}
		}
		if len(missing) == 0 {
			return true, ""
		}
		return false, strings.Join(missing, ", ")
	}
	nRet := 0
	for _, rn := range findNodes(f.Decl.Body, false, func(x ast.Node) bool { _, ok := x.(*ast.ReturnStmt); return ok }) {
		r := rn.(*ast.ReturnStmt)
		nRet++
		l, _ := g.LocOf(r)
		facts := g.FactsAt(l)
		ok, missing := equalFact(facts)
		why := ""
		for o, s := range modified {
			why += "; `" + o.Name() + "` is modified before the comparison (" + s + ")"
		}
		c.Check(ok, rule, fmt.Sprintf("%s#duplicate-return%d", f.Key, nRet), r.Pos(), m, "the new entry is dropped only when an identical entry (all fields) exists",
			"add drops the new entry under `"+c34factStrs(facts)+"`, which does not establish equality with a stored entry on the field(s) "+missing+why+
				": e.g. DENY then ALLOW for the same resource/principal/host/operation leaves a single binding and the DENY no longer wins")
	}
	c.Floor(rule+"#duplicate-return", nRet, 1)
	// the append
	nApp := 0
	for _, s := range storesTo(f.Decl.Body, info, aclsFld, true) {
		nApp++
		cons := f.Key + ": " + nodeStr(s.Node)
		call, isCall := unparen(s.RHS).(*ast.CallExpr)
		okApp := false
		if isCall && s.Kind == "assign" && len(call.Args) == 2 && !call.Ellipsis.IsValid() {
			if b, ok := calleeObj(info, call).(*types.Builtin); ok && b.Name() == "append" {
				okApp = c34isAclsSel(info, call.Args[0], aclsFld) && isNew(call.Args[1])
			}
		}
		if !okApp {
			c.Fail(rule, cons, s.Node.Pos(), m, "add writes the entry list with something other than append(a.acls, newACL) of the unmodified new entry")
			continue
		}
		l, _ := g.LocOf(s.Node)
		facts := g.FactsAt(l)
		if len(facts) == 0 {
			c.OK(rule, cons, s.Node.Pos(), m, "every entry that is not an exact duplicate is appended")
		} else {
			c.Undecided(rule, cons, s.Node.Pos(), m, "the append is conditional on `"+c34factStrs(facts)+"`; cannot show that every entry that is not an exact duplicate is stored")
		}
	}
	c.Check(nApp == 1, rule, f.Key+"#append", f.Pos(), m, "", fmt.Sprintf("expected exactly one store to the entry list in add, found %d", nApp))
}

// ---- acl-delete-partitions

func c34delete(c *Ctx, m *Module, aclsFld *types.Var) {
	rule := "acl-delete-partitions"
	f := c.NeedFunc(m, "kfake.clusterACLs.delete")
	if f == nil {
		return
	}
	c.Touch(f)
	info := f.Info()
	g := f.Graph()
	matches := m.Method("kfake", "aclFilter", "matches")
	if matches == nil {
		c.Undecided(rule, "kfake.aclFilter.matches", f.Pos(), m, "method not found")
		return
	}
	var filterParam types.Object
	if ps := f.Obj.Type().(*types.Signature).Params(); ps.Len() == 1 {
		filterParam = ps.At(0)
	}
	// the loop over all entries
	var loop *ast.RangeStmt
	nLoops := 0
	ast.Inspect(f.Decl.Body, func(x ast.Node) bool {
		if rs, ok := x.(*ast.RangeStmt); ok && c34isAclsSel(info, rs.X, aclsFld) {
			loop = rs
			nLoops++
		}
		return true
	})
	if nLoops != 1 {
		c.Undecided(rule, f.Key+"#loop", f.Pos(), m, fmt.Sprintf("expected one `range a.acls`, found %d", nLoops))
		return
	}
	// element: the range value, or a.acls[key]
	valObj, keyObj := c34obj(info, loop.Value), c34obj(info, loop.Key)
	isElem := func(e ast.Expr) bool {
		e = unparen(e)
		if u, ok := e.(*ast.UnaryExpr); ok && u.Op == token.AND {
			e = unparen(u.X)
		}
		if o := c34obj(info, e); o != nil && valObj != nil && o == valObj {
			return true
		}
		if ix, ok := e.(*ast.IndexExpr); ok && keyObj != nil {
			return c34isAclsSel(info, ix.X, aclsFld) && c34obj(info, ix.Index) == keyObj
		}
		return false
	}
	isMatchFact := func(ft Fact, val bool) bool {
		call, ok := unparen(ft.Cond).(*ast.CallExpr)
		if !ok || ft.Val != val || ft.Tag != nil || !sameObj(calleeObj(info, call), matches) || len(call.Args) != 1 || !isElem(call.Args[0]) {
			return false
		}
		sel, ok := unparen(call.Fun).(*ast.SelectorExpr)
		return ok && c34obj(info, sel.X) == filterParam && filterParam != nil
	}
	// final store a.acls = kept
	var keptObj types.Object
	nStore := 0
	for _, s := range storesTo(f.Decl.Body, info, aclsFld, true) {
		nStore++
		l, _ := g.LocOf(s.Node)
		facts := g.FactsAt(l)
		keptObj = c34obj(info, s.RHS)
		inLoop := s.Node.Pos() >= loop.Pos() && s.Node.End() <= loop.End()
		c.Check(keptObj != nil && s.Kind == "assign" && len(facts) == 0 && !inLoop, rule, f.Key+": "+nodeStr(s.Node), s.Node.Pos(), m, "the entry list becomes the kept entries",
			"delete replaces the entry list with `"+exprStr(s.RHS)+"` (conditional: "+c34factStrs(facts)+"): the list after a delete must be exactly the entries the filter did not match")
	}
	c.Check(nStore == 1, rule, f.Key+"#store", f.Pos(), m, "", fmt.Sprintf("expected one store to the entry list, found %d", nStore))
	if keptObj == nil {
		return
	}
	// every append to kept: inside the loop, the element, exactly under !filter.matches(&elem)
	nKeep := 0
	ast.Inspect(f.Decl.Body, func(x ast.Node) bool {
		as, ok := x.(*ast.AssignStmt)
		if !ok || len(as.Lhs) != 1 || len(as.Rhs) != 1 || c34obj(info, as.Lhs[0]) != keptObj {
			return true
		}
		inLoop := as.Pos() >= loop.Pos() && as.End() <= loop.End()
		call, isCall := unparen(as.Rhs[0]).(*ast.CallExpr)
		isAppend := false
		if isCall {
			if b, ok := calleeObj(info, call).(*types.Builtin); ok && b.Name() == "append" {
				isAppend = true
			}
		}
		cons := f.Key + ": " + nodeStr(as)
		if !inLoop {
			// initialisation: empty (a.acls[:0], nil, make(..., 0, n))
			okInit := !isAppend
			if se, ok := unparen(as.Rhs[0]).(*ast.SliceExpr); ok {
				okInit = false
				if se.High != nil {
					hi, isC := constInt(info, se.High)
					okInit = isC && hi == 0
				}
			}
			c.Check(okInit && as.Pos() < loop.Pos(), rule, cons, as.Pos(), m, "kept starts empty", "the kept list does not start empty before the loop")
			return true
		}
		nKeep++
		l, _ := g.LocOf(as)
		facts := g.FactsAt(l)
		okKeep := isAppend && len(call.Args) == 2 && !call.Ellipsis.IsValid() && c34obj(info, call.Args[0]) == keptObj && isElem(call.Args[1]) &&
			len(facts) == 1 && isMatchFact(facts[0], false)
		c.Check(okKeep, rule, cons, as.Pos(), m, "kept exactly when the filter does not match",
			"an entry is kept under `"+c34factStrs(facts)+"` instead of exactly `!filter.matches(&entry)`: a delete would remove entries the filter does not select, or leave selected ones in force")
		return true
	})
	c.Floor(rule+"#keep", nKeep, 1)
	// no early exit of the loop; an iteration is cut short only for a matched entry
	nBr := 0
	pm := parentMap(loop)
	ast.Inspect(loop.Body, func(x ast.Node) bool {
		switch s := x.(type) {
		case *ast.BranchStmt:
			nBr++
			cons := fmt.Sprintf("%s#branch%d: %s", f.Key, nBr, nodeStr(x))
			if s.Tok == token.CONTINUE && s.Label == nil {
				facts := c34guardChain(pm, x)
				c.Check(factMatches(facts, func(ft Fact) bool { return isMatchFact(ft, true) }), rule, cons, x.Pos(), m, "only a matched entry skips the keep",
					"an entry is skipped under `"+c34factStrs(facts)+"` without having matched the filter: it is neither kept nor reported as deleted")
			} else {
				c.Fail(rule, cons, x.Pos(), m, "the delete loop is left early: later entries are neither kept nor deleted correctly")
			}
		case *ast.ReturnStmt:
			nBr++
			c.Fail(rule, fmt.Sprintf("%s#branch%d: %s", f.Key, nBr, nodeStr(x)), x.Pos(), m, "the delete loop is left early: later entries are neither kept nor deleted correctly")
		}
		return true
	})
}

// ---- acl-filter-field-coverage

// c34guardChain: the enclosing if conditions of n (with polarity), decomposed.
func c34guardChain(pm map[ast.Node]ast.Node, n ast.Node) []Fact {
	var facts []Fact
	child := n
	for p := pm[n]; p != nil; child, p = p, pm[p] {
		if s, ok := p.(*ast.IfStmt); ok {
			if child == ast.Node(s.Body) {
				facts = decompose(s.Cond, true, facts)
			} else if s.Else != nil && child == ast.Node(s.Else) {
				facts = decompose(s.Cond, false, facts)
			}
		}
	}
	return facts
}

func c34filterCoverage(c *Ctx, m *Module, aclS *types.Struct) {
	rule := "acl-filter-field-coverage"
	f := c.NeedFunc(m, "kfake.aclFilter.matches")
	if f == nil {
		return
	}
	c.Touch(f)
	info := f.Info()
	covered := map[string]bool{}
	nTrue, nFalse := 0, 0
	pm := parentMap(f.Decl.Body)
	for _, rn := range findNodes(f.Decl.Body, false, func(x ast.Node) bool { _, ok := x.(*ast.ReturnStmt); return ok }) {
		r := rn.(*ast.ReturnStmt)
		if len(r.Results) != 1 {
			continue
		}
		v, isConst := constBool(info, r.Results[0])
		if !isConst {
			c.Undecided(rule, f.Key+": "+nodeStr(r), r.Pos(), m, "non-constant result")
			continue
		}
		if v {
			nTrue++
			last := len(f.Decl.Body.List) > 0 && f.Decl.Body.List[len(f.Decl.Body.List)-1] == ast.Stmt(r)
			c.Check(last, rule, fmt.Sprintf("%s#match%d", f.Key, nTrue), r.Pos(), m, "matches only after every field was compared",
				"aclFilter.matches returns true before all fields were compared (under `"+c34factStrs(c34guardChain(pm, r))+"`): the filter selects entries that differ in the remaining fields")
			continue
		}
		// the conditions under which this return rejects: the enclosing ifs (earlier
		// rejections that were not taken are classified at their own return)
		facts := c34guardChain(pm, r)
		// every fact that looks at the entry is a mismatch fact <filter>.f != <acl>.f (filter side
		// possibly dereferenced), or the MATCH arm's test of the entry's pattern kind
		nFalse++
		underMatch := factMatches(facts, func(ft Fact) bool {
			b, ok := unparen(ft.Cond).(*ast.BinaryExpr)
			if !ok || ft.Tag != nil || !((b.Op == token.EQL && ft.Val) || (b.Op == token.NEQ && !ft.Val)) {
				return false
			}
			fx, fy := fieldOfSel(info, b.X), fieldOfSel(info, b.Y)
			pf := m.Field("kfake", "aclFilter", "pattern")
			return (sameField(fx, pf) && strings.HasSuffix(exprStr(b.Y), "ACLResourcePatternTypeMatch")) || (sameField(fy, pf) && strings.HasSuffix(exprStr(b.X), "ACLResourcePatternTypeMatch"))
		})
		var narrowing []string
		for _, ft := range facts {
			mentionsEntry := false
			for i := 0; i < aclS.NumFields(); i++ {
				if mentionsField(ft.Cond, info, aclS.Field(i), true) {
					mentionsEntry = true
				}
			}
			if !mentionsEntry {
				continue
			}
			classified := false
			if b, ok := unparen(ft.Cond).(*ast.BinaryExpr); ok && ft.Tag == nil && ((b.Op == token.NEQ && ft.Val) || (b.Op == token.EQL && !ft.Val)) {
				strip := func(e ast.Expr) ast.Expr {
					e = unparen(e)
					if s, ok := e.(*ast.StarExpr); ok {
						return unparen(s.X)
					}
					return e
				}
				fx, fy := fieldOfSel(info, strip(b.X)), fieldOfSel(info, strip(b.Y))
				if fx != nil && fy != nil && fx.Name() == fy.Name() {
					for i := 0; i < aclS.NumFields(); i++ {
						af := aclS.Field(i)
						ff := m.Field("kfake", "aclFilter", af.Name())
						if ff == nil {
							continue
						}
						if (sameField(fx, af) && sameField(fy, ff)) || (sameField(fy, af) && sameField(fx, ff)) {
							covered[af.Name()] = true
							classified = true
						}
					}
				}
				// MATCH arm: entry.pattern != <constant>
				if !classified && underMatch {
					pa := m.Field("kfake", "acl", "pattern")
					_, cx := info.Types[b.X]
					_, cy := info.Types[b.Y]
					if cx && cy && ((sameField(fieldOfSel(info, b.X), pa) && info.Types[b.Y].Value != nil) || (sameField(fieldOfSel(info, b.Y), pa) && info.Types[b.X].Value != nil)) {
						classified = true
					}
				}
			}
			if !classified {
				narrowing = append(narrowing, c34factStrs([]Fact{ft}))
			}
		}
		c.Check(len(narrowing) == 0, rule, fmt.Sprintf("%s#mismatch%d", f.Key, nFalse), r.Pos(), m, "rejected only on a field mismatch",
			"aclFilter.matches rejects an entry under `"+strings.Join(narrowing, " && ")+"`, which is not a filter-field vs entry-field mismatch: entries selected by Kafka's filter semantics are not deleted/described")
	}
	for i := 0; i < aclS.NumFields(); i++ {
		name := aclS.Field(i).Name()
		c.Check(covered[name], rule, f.Key+"#"+name, f.Pos(), m, "a differing "+name+" makes the filter not match",
			"no `return false` of aclFilter.matches is guarded by filter."+name+" != acl."+name+": DeleteACLs/DescribeACLs ignore the field, e.g. deleting the ALLOW binding also deletes the DENY binding for the same resource")
	}
	c.Check(nTrue >= 1, rule, f.Key+"#match", f.Pos(), m, "", "no `return true` found")
}

// ---- acl-raw-matcher-callers

func c34rawCallers(c *Ctx, m *Module) {
	rule := "acl-raw-matcher-callers"
	funcs := m.FuncsIn("kfake")
	isSuper := m.Method("kfake", "Cluster", "isSuperuser")
	n := 0
	for _, t := range [][2]string{{"allowed", "kfake.Cluster.allowedACL"}, {"anyAllowed", "kfake.Cluster.anyAllowedACL"}} {
		obj := m.Method("kfake", "clusterACLs", t[0])
		if obj == nil || isSuper == nil {
			c.Undecided(rule, "kfake.clusterACLs."+t[0], 0, m, "method not found")
			continue
		}
		sites := CallSites(funcs, obj)
		idx := map[string]int{}
		for _, s := range sites {
			n++
			call := s.Node.(*ast.CallExpr)
			idx[s.Fn.Key]++
			cons := fmt.Sprintf("%s -> clusterACLs.%s#%d", s.Fn.Key, t[0], idx[s.Fn.Key])
			if s.Fn.Key == t[1] && s.Lit == nil {
				c.OK(rule, cons, call.Pos(), m, "called from the wrapper that short-circuits disabled ACLs and superusers (rule acl-superuser-before-lookup)")
				continue
			}
			info := s.Fn.Info()
			g := s.Fn.GraphFor(call)
			l, okl := g.LocOf(call)
			guarded := false
			if okl {
				guarded = factMatches(g.FactsAt(l), func(ft Fact) bool {
					cc, ok := unparen(ft.Cond).(*ast.CallExpr)
					return ok && !ft.Val && ft.Tag == nil && sameObj(calleeObj(info, cc), isSuper)
				})
			}
			c.Check(guarded, rule, cons, call.Pos(), m, "behind an explicit !isSuperuser test",
				"the raw ACL matcher clusterACLs."+t[0]+" is called from "+s.Fn.Key+" without the superuser short-circuit that "+t[1]+" performs: a superuser is judged by ACL entries alone (denied without entries, or by a DENY for User:*), although Kafka always allows superusers")
		}
		// the method is not taken as a value
		uses := 0
		for _, f := range funcs {
			ast.Inspect(f.Decl.Body, func(x ast.Node) bool {
				if sel, ok := x.(*ast.SelectorExpr); ok && sameObj(f.Info().Uses[sel.Sel], obj) {
					uses++
				}
				return true
			})
		}
		c.Check(uses == len(sites), rule, "kfake.clusterACLs."+t[0]+"#method-values", obj.Pos(), m, "", fmt.Sprintf("%d references but %d calls: the raw matcher escapes as a method value", uses, len(sites)))
	}
	c.Floor(rule, n, 2)
}

// ---- acl-authorized-ops-per-op

func c34authorizedOps(c *Ctx, m *Module) {
	rule := "acl-authorized-ops-per-op"
	f := c.NeedFunc(m, "kfake.Cluster.authorizedOps")
	if f == nil {
		return
	}
	c.Touch(f)
	info := f.Info()
	g := f.Graph()
	allowedACL := m.Method("kfake", "Cluster", "allowedACL")
	ps := f.Obj.Type().(*types.Signature).Params()
	if allowedACL == nil || ps.Len() != 4 {
		c.Undecided(rule, f.Key+"#anchors", f.Pos(), m, "Cluster.allowedACL not found or authorizedOps signature changed")
		return
	}
	// the range over the ops parameter
	var loop *ast.RangeStmt
	ast.Inspect(f.Decl.Body, func(x ast.Node) bool {
		if rs, ok := x.(*ast.RangeStmt); ok && loop == nil {
			loop = rs
		}
		return true
	})
	if loop == nil || c34obj(info, loop.X) != types.Object(ps.At(3)) || loop.Value == nil {
		c.Fail(rule, f.Key+"#loop", f.Pos(), m, "authorizedOps does not range over the whole list of valid operations it is given")
		return
	}
	opObj := c34obj(info, loop.Value)
	// the returned bitfield
	var bitObj types.Object
	for _, rn := range findNodes(f.Decl.Body, false, func(x ast.Node) bool { _, ok := x.(*ast.ReturnStmt); return ok }) {
		r := rn.(*ast.ReturnStmt)
		if len(r.Results) == 1 {
			bitObj = c34obj(info, r.Results[0])
		}
		if r.Pos() >= loop.Pos() && r.End() <= loop.End() {
			c.Fail(rule, f.Key+"#early-return", r.Pos(), m, "return inside the operations loop: later operations are never evaluated")
		}
	}
	if bitObj == nil {
		c.Undecided(rule, f.Key+"#result", f.Pos(), m, "result is not a local variable")
		return
	}
	n := 0
	ast.Inspect(f.Decl.Body, func(x ast.Node) bool {
		if br, ok := x.(*ast.BranchStmt); ok && !(br.Tok == token.CONTINUE && br.Label == nil) {
			// (a plain continue is judged through the guard facts of the bit store below)
			c.Fail(rule, f.Key+"#"+br.Tok.String(), br.Pos(), m, "the operations loop is cut short or an operation is skipped")
		}
		as, ok := x.(*ast.AssignStmt)
		if !ok || len(as.Lhs) != 1 || len(as.Rhs) != 1 || c34obj(info, as.Lhs[0]) != bitObj || as.Tok == token.DEFINE {
			return true
		}
		n++
		cons := f.Key + ": " + nodeStr(as)
		// bitfield |= 1 << int32(op)
		okBit := false
		if as.Tok == token.OR_ASSIGN {
			if b, ok := unparen(as.Rhs[0]).(*ast.BinaryExpr); ok && b.Op == token.SHL {
				one, isC := constInt(info, b.X)
				y := unparen(b.Y)
				if cv, ok := y.(*ast.CallExpr); ok && len(cv.Args) == 1 && info.Types[cv.Fun].IsType() {
					y = unparen(cv.Args[0])
				}
				okBit = isC && one == 1 && c34obj(info, y) == opObj && opObj != nil
			}
		}
		l, _ := g.LocOf(as)
		facts := g.FactsAt(l)
		okGuard := len(facts) == 1 && facts[0].Val && facts[0].Tag == nil
		if okGuard {
			cond := unparen(facts[0].Cond)
			if o := c34obj(info, cond); o != nil {
				// a local holding the decision: exactly one definition inside the loop
				var def ast.Expr
				nDef := 0
				ast.Inspect(f.Decl.Body, func(y ast.Node) bool {
					if a2, ok := y.(*ast.AssignStmt); ok && len(a2.Lhs) == len(a2.Rhs) {
						for i, lh := range a2.Lhs {
							if c34obj(info, lh) == o {
								nDef++
								def = a2.Rhs[i]
								if a2.Pos() < loop.Pos() || a2.End() > loop.End() {
									nDef++
								}
							}
						}
					}
					return true
				})
				if nDef == 1 && def != nil {
					cond = unparen(def)
				}
			}
			call, isCall := cond.(*ast.CallExpr)
			okGuard = isCall && sameObj(calleeObj(info, call), allowedACL) && len(call.Args) == 4 &&
				c34obj(info, call.Args[0]) == types.Object(ps.At(0)) && c34obj(info, call.Args[1]) == types.Object(ps.At(1)) &&
				c34obj(info, call.Args[2]) == types.Object(ps.At(2)) && c34obj(info, call.Args[3]) == opObj
		}
		c.Check(okBit && okGuard, rule, cons, as.Pos(), m, "bit of op set exactly when allowedACL(creq, resource, resourceType, op)",
			"the authorized-operations bit is set under `"+c34factStrs(facts)+"` (store `"+nodeStr(as)+"`), not exactly under c.allowedACL(creq, resource, resourceType, op) for the iterated op: the advertised operations differ from what the authorizer (superuser and disabled-ACL short-circuits included) would allow")
		return true
	})
	c.Floor(rule, n, 1)
}
