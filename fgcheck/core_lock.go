package main

import (
	"go/ast"
	"go/types"
	"sort"
	"strings"
)

// Must-lockset analysis over one function body.
//
// Locks are identified by the canonical access path of the mutex expression
// (local pointer aliases such as `p := &cl.producer` are resolved).  The
// analysis is a forward must-dataflow (intersection at joins); `defer
// X.Unlock()` keeps X held until exit.  Read locks are recorded as "path:r".

type LockSet map[string]bool

func (s LockSet) clone() LockSet {
	o := LockSet{}
	for k := range s {
		o[k] = true
	}
	return o
}

func (s LockSet) String() string {
	var ks []string
	for k := range s {
		ks = append(ks, k)
	}
	sort.Strings(ks)
	return "{" + strings.Join(ks, ", ") + "}"
}

func intersect(a, b LockSet) LockSet {
	o := LockSet{}
	for k := range a {
		if b[k] {
			o[k] = true
		}
	}
	return o
}

// canonPath resolves local aliases in an access path.
func canonPath(f *Func, e ast.Expr) string {
	return canonPathD(f, e, 0)
}

func canonPathD(f *Func, e ast.Expr, depth int) string {
	e = unparen(e)
	switch x := e.(type) {
	case *ast.Ident:
		if depth < 5 {
			if v, ok := f.Info().Uses[x].(*types.Var); ok && !v.IsField() && v.Pkg() != nil && v.Parent() != v.Pkg().Scope() {
				if def := singleDef(f, v); def != nil {
					d := unparen(def)
					if u, ok := d.(*ast.UnaryExpr); ok && u.Op.String() == "&" {
						d = unparen(u.X)
					}
					switch d.(type) {
					case *ast.SelectorExpr, *ast.Ident:
						return canonPathD(f, d, depth+1)
					}
				}
			}
		}
		return x.Name
	case *ast.SelectorExpr:
		return canonPathD(f, x.X, depth) + "." + x.Sel.Name
	case *ast.StarExpr:
		return canonPathD(f, x.X, depth)
	case *ast.UnaryExpr:
		if x.Op.String() == "&" {
			return canonPathD(f, x.X, depth)
		}
	case *ast.IndexExpr:
		return canonPathD(f, x.X, depth) + "[" + exprStr(x.Index) + "]"
	}
	return exprStr(e)
}

// lockOp classifies a call as a lock operation.
func lockOp(f *Func, call *ast.CallExpr) (path string, op string, ok bool) {
	sel, isSel := unparen(call.Fun).(*ast.SelectorExpr)
	if !isSel || len(call.Args) != 0 {
		return "", "", false
	}
	switch sel.Sel.Name {
	case "Lock", "Unlock", "RLock", "RUnlock":
	default:
		return "", "", false
	}
	t := f.Info().Types[sel.X].Type
	if t == nil {
		return "", "", false
	}
	ts := t.String()
	if !(strings.Contains(ts, "Mutex") || strings.Contains(ts, "Locker")) {
		return "", "", false
	}
	return canonPath(f, sel.X), sel.Sel.Name, true
}

type LockInfo struct {
	f    *Func
	g    *Graph
	body *ast.BlockStmt
	in   []LockSet
	// Summaries: callee key -> lock paths (relative: "recv.mu") acquired-and-held on return / released
	Acquires map[string][]string
}

func applyLockNode(f *Func, n ast.Node, st LockSet, extra func(call *ast.CallExpr, st LockSet)) {
	if _, isDefer := n.(*ast.DeferStmt); isDefer {
		return
	}
	if _, isGo := n.(*ast.GoStmt); isGo {
		return
	}
	ast.Inspect(n, func(x ast.Node) bool {
		if x == nil {
			return false
		}
		if _, ok := x.(*ast.FuncLit); ok {
			return false
		}
		call, ok := x.(*ast.CallExpr)
		if !ok {
			return true
		}
		if p, op, ok := lockOp(f, call); ok {
			switch op {
			case "Lock":
				st[p] = true
			case "Unlock":
				delete(st, p)
			case "RLock":
				st[p+":r"] = true
			case "RUnlock":
				delete(st, p+":r")
			}
		} else if extra != nil {
			extra(call, st)
		}
		return true
	})
}

// ComputeLocks runs the must-lockset dataflow with the given entry lockset.
func ComputeLocks(f *Func, body *ast.BlockStmt, g *Graph, entry LockSet, extra func(call *ast.CallExpr, st LockSet)) *LockInfo {
	li := &LockInfo{f: f, g: g, body: body}
	n := len(g.C.Blocks)
	li.in = make([]LockSet, n)
	if n == 0 {
		return li
	}
	li.in[0] = entry.clone()
	out := make([]LockSet, n)
	changed := true
	for iter := 0; changed && iter < 100; iter++ {
		changed = false
		for _, b := range g.C.Blocks {
			bi := int(b.Index)
			if !g.live[bi] || li.in[bi] == nil {
				continue
			}
			st := li.in[bi].clone()
			for _, nd := range b.Nodes {
				applyLockNode(f, nd, st, extra)
			}
			out[bi] = st
			for _, s := range g.succs[bi] {
				if li.in[s] == nil {
					li.in[s] = st.clone()
					changed = true
				} else {
					nw := intersect(li.in[s], st)
					if len(nw) != len(li.in[s]) {
						li.in[s] = nw
						changed = true
					}
				}
			}
		}
	}
	return li
}

// HeldAt returns the must-lockset just before the node at loc executes
// (lock operations inside the same CFG node that precede are not applied).
func (li *LockInfo) HeldAt(l Loc, extra func(call *ast.CallExpr, st LockSet)) LockSet {
	if li.in[l.B] == nil {
		return LockSet{}
	}
	st := li.in[l.B].clone()
	blk := li.g.C.Blocks[l.B]
	for i := 0; i < l.I && i < len(blk.Nodes); i++ {
		applyLockNode(li.f, blk.Nodes[i], st, extra)
	}
	return st
}

// Holds reports whether path (write mode) or path:r is in the set.
func (s LockSet) Holds(path string, write bool) bool {
	if s[path] {
		return true
	}
	return !write && s[path+":r"]
}

// FieldAccess is one read or write of a struct field.
type FieldAccess struct {
	Node  ast.Node
	Base  string // canonical path of the struct expression
	Write bool
	Lit   *ast.FuncLit
}

// accessesOf lists accesses of field in f (all bodies).
func accessesOf(f *Func, field *types.Var) []FieldAccess {
	var out []FieldAccess
	writes := map[ast.Node]bool{}
	for _, st := range storesTo(f.Decl.Body, f.Info(), field, true) {
		if st.LHS != nil {
			writes[unparen(st.LHS)] = true
		}
	}
	for _, r := range readsOf(f.Decl.Body, f.Info(), field, true) {
		sel, ok := unparen(r.(ast.Expr)).(*ast.SelectorExpr)
		if !ok {
			continue
		}
		out = append(out, FieldAccess{Node: sel, Base: canonPath(f, sel.X), Write: writes[sel], Lit: innermostLit(f, sel)})
	}
	return out
}
