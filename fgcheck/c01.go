package main

import (
	"fmt"
	"go/ast"
	"go/token"
	"go/types"
	"sort"
	"strings"

	"golang.org/x/tools/go/cfg"
)

func init() {
	register(&Prop{
		ID:        "C01",
		Level:     "other",
		Technique: "exactly-once discharge counting (dataflow over go/cfg with conditional-discharge resolution on branch edges) of the produced record through the produce path; who-may-call / who-may-write tables for the promise callback, the promise worker and the buffered counters; take-then-promise rules at every site that empties a holding container; dominance rules for the close sweep",
		Explanation: "(1) on every path of Client.produce (including its cancel closure), loadPartsAndPartition, partitionsForTopicProduce, doPartition, addUnknownTopicRecord, promiseRecord, promiseRecordBeforeBuf and promiseBatch the record is handed on exactly once (promised, pushed to the promise ring, appended to a batch or parked as unknown-topic); recBuf.bufferRecord returns false only on the abort-on-new-batch arm having discharged nothing, and its caller re-offers the record; " +
			"(2) take-then-promise: every statement that empties a holding container (batch.records = nil, delete(p.unknownTopics, t)) passes exactly the removed records to promiseBatch / doPartition on every path, and the removed entry is the one currently in the map (identity re-check in the asynchronous waiter); " +
			"(3) the callback field promisedRec.promise is invoked only in finishRecordPromise, exactly once on every path; finishRecordPromise is called only from finishPromises, once per record of the batch; finishPromises is started only with `go` under first==true of a ring push in promiseBatch / promiseRecordBeforeBuf and loops on dropPeek while more; beforeBuf batches are built only in promiseRecordBeforeBuf, which is called only from produce; " +
			"(4) counter discipline: bufferedRecords/bufferedBytes are incremented only in produce and decremented only in finishRecordPromise on the !beforeBuffering path; in produce every before-buffer promise precedes the increment and every counted hand-off follows it; " +
			"(5) close sweep: bufferRecord's append path is dominated by the non-blocking cl.ctx.Done() check under recBuf.mu; Client.close calls failBufferedRecords(ErrClientClosed) after ctxCancel() and <-cl.metadone; failBufferedRecords and purgeTopics sweep every partition (the full partitions list) and every unknown-topic entry; " +
			"(6) gauge symmetry: the amount finishRecordPromise subtracts from bufferedBytes is a variable whose every definition is userSize() of the promised record located before (not reachable from) the user's promise call, one of them dominating both the promise and the decrement; after the promise nothing in finishRecordPromise calls userSize or reads Record.Key/Value/Headers; produce adds a single-assignment userSize() value; " +
			"(7) killable rings: ring fields are enumerated from their uses (type-resolved, incl. methods named init); a ring is killable when die() is called on it (or its dead flag is stored) anywhere; every push/pushForce on a killable ring (broker.reqs, brokerCxn.resps) must bind the dead result and, evaluating branch conditions with dead=true/first=false, every path to a return calls the pushed element's completion callback (a func-typed field of the element, or the variable its literal stored there) with a non-nil error; rings never killed (batchPromises, seqResps, callbackRing) may discard dead; a ring that is aliased, copied or whose methods are taken as values is undecided.",
		NotDecided:  "that a schedule cannot interleave two individually correct paths into a double completion beyond what the lock/ownership structure excludes; eventual completion (liveness of the promise worker and of sinks); that the dead-arm completion of a killable ring carries the right error value (only non-nil-ness is decided) and that the worker side of a killed ring fails the elements already queued (C30); whether a promise's mutation of the record is otherwise observable.",
		Assumptions: []string{"the promise ring hands each pushed element to exactly one worker invocation (C30)"},
		Run:         runC01,
	})
}

func calleeName(info *types.Info, call *ast.CallExpr) string {
	o := calleeObj(info, call)
	if o == nil {
		return ""
	}
	if fn, ok := o.(*types.Func); ok {
		return keyOfObj(fn)
	}
	return o.Name()
}

func runC01(c *Ctx) {
	m := c.Load("")
	if m == nil {
		return
	}
	c01once(c, m)
	c01bufferRecord(c, m)
	c01take(c, m)
	c01who(c, m)
	c01counters(c, m)
	c01close(c, m)
	c01retry(c, m)
	c01drainKick(c, m)
	c01round4(c, m)
}

// hasPromisedRecArg: some argument has type promisedRec.
func hasPromisedRecArg(info *types.Info, call *ast.CallExpr) bool {
	for _, a := range call.Args {
		if t := info.Types[a].Type; t != nil {
			if n, ok := t.(*types.Named); ok && n.Obj().Name() == "promisedRec" {
				return true
			}
		}
	}
	return false
}

// c01retry: a batch whose request failed is either failed (its promises run) or
// rewound so that it is sent again; on no path of the per-batch retry handler is
// the owner's first batch left drained-but-unsent (its promise would never run).
func c01retry(c *Ctx, m *Module) {
	rule := "retry-rewinds-or-fails"
	f := c.NeedFunc(m, "kgo.sink.handleRetryBatches")
	if f == nil {
		return
	}
	info := f.Info()
	var lit *ast.FuncLit
	for _, call := range callsNamed(f.Decl.Body, info, "eachOwnerLocked", false) {
		if len(call.Args) == 1 {
			lit, _ = call.Args[0].(*ast.FuncLit)
		}
	}
	if lit == nil {
		c.Undecided(rule, f.Key+"#per-batch closure", f.Pos(), m, "retry.eachOwnerLocked(func...) not found")
		return
	}
	g := f.LitGraph(lit)
	// the "not the owner's first batch" early return is the only exit that may skip the rewind
	var firstIf *ast.IfStmt
	for _, st := range lit.Body.List {
		if ifs, ok := st.(*ast.IfStmt); ok && nosp(exprStr(ifs.Cond)) == "!batch.isOwnersFirstBatch()" {
			firstIf = ifs
		}
	}
	if firstIf == nil {
		c.Undecided(rule, f.Key+"#first-batch test", lit.Pos(), m, "the `!batch.isOwnersFirstBatch()` early return was not found")
		return
	}
	cl, _ := g.LocOf(firstIf.Cond)
	condBlk := g.C.Blocks[cl.B]
	settles := func(n ast.Node) bool {
		if _, isDefer := n.(*ast.DeferStmt); isDefer {
			return false
		}
		return containsNode(n, false, func(y ast.Node) bool {
			call, ok := y.(*ast.CallExpr)
			if !ok {
				return false
			}
			switch calleeName(info, call) {
			case "kgo.recBuf.resetBatchDrainIdx", "kgo.recBuf.failAllRecords":
				return true
			}
			return false
		})
	}
	path, found := g.FindPath(cl, SearchOpts{
		Stop:     settles,
		EdgeOK:   func(from *cfg.Block, k int, to *cfg.Block) bool { return from != condBlk || k == 1 },
		GoalExit: func(kind ExitKind, last ast.Node) bool { return kind != ExitPanic },
	})
	c.Check(!found, rule, f.Key+": first batch is failed or rewound on every path", lit.Pos(), m, "resetBatchDrainIdx or failAllRecords on every path", "a batch that must be retried can leave the retry handler without resetBatchDrainIdx() or failAllRecords() ("+pathStr(path)+"): its drain index stays past it, it is never sent again and its promises never run (Flush hangs)")
}

func c01once(c *Ctx, m *Module) {
	rule := "record-handed-on-exactly-once"
	// produce
	if f := c.NeedFunc(m, "kgo.Client.produce"); f != nil {
		info := f.Info()
		// local closures that discharge once: verify and collect
		closureOnce := map[types.Object]bool{}
		ast.Inspect(f.Decl.Body, func(x ast.Node) bool {
			as, ok := x.(*ast.AssignStmt)
			if !ok || len(as.Lhs) != 1 || len(as.Rhs) != 1 {
				return true
			}
			lit, ok := as.Rhs[0].(*ast.FuncLit)
			if !ok {
				return true
			}
			id, ok := as.Lhs[0].(*ast.Ident)
			if !ok {
				return true
			}
			spec := OnceSpec{Call: func(call *ast.CallExpr) Event {
				switch calleeName(info, call) {
				case "kgo.producer.promiseRecordBeforeBuf", "kgo.producer.promiseRecord", "kgo.Client.loadPartsAndPartition":
					return Event{Kind: EvOnce}
				}
				return Event{}
			}}
			r := CheckOnce(f, lit.Body, f.LitGraph(lit), spec)
			if r.Events > 0 {
				c.Check(len(r.Problems) == 0, rule, f.Key+"#closure:"+id.Name, lit.Pos(), m, "closure promises the record exactly once", strings.Join(r.Problems, "; "))
				if len(r.Problems) == 0 {
					closureOnce[info.Defs[id]] = true
				}
			}
			return true
		})
		spec := OnceSpec{Call: func(call *ast.CallExpr) Event {
			switch calleeName(info, call) {
			case "kgo.producer.promiseRecordBeforeBuf", "kgo.producer.promiseRecord", "kgo.Client.loadPartsAndPartition":
				return Event{Kind: EvOnce}
			}
			if id, ok := unparen(call.Fun).(*ast.Ident); ok && closureOnce[info.Uses[id]] {
				return Event{Kind: EvOnce}
			}
			return Event{}
		}}
		onceRule(c, m, rule, f, f.Decl.Body, f.Graph(), f.Key, spec, 6)
	}
	if f := c.NeedFunc(m, "kgo.Client.loadPartsAndPartition"); f != nil {
		info := f.Info()
		spec := OnceSpec{Call: func(call *ast.CallExpr) Event {
			switch calleeName(info, call) {
			case "kgo.Client.partitionsForTopicProduce":
				return Event{Kind: EvCond, ResultIdx: 0, When: "nil", Label: "partitionsForTopicProduce"}
			case "kgo.Client.doPartition":
				return Event{Kind: EvOnce}
			}
			return Event{}
		}}
		onceRule(c, m, rule, f, f.Decl.Body, f.Graph(), f.Key, spec, 2)
	}
	if f := c.NeedFunc(m, "kgo.Client.partitionsForTopicProduce"); f != nil {
		info := f.Info()
		spec := OnceSpec{
			Call: func(call *ast.CallExpr) Event {
				if calleeName(info, call) == "kgo.Client.addUnknownTopicRecord" {
					return Event{Kind: EvOnce}
				}
				if hasPromisedRecArg(info, call) {
					return Event{Kind: EvOnce} // any other hand-off of the record counts
				}
				return Event{}
			},
			Expect: func(ret *ast.ReturnStmt) int {
				if ret == nil {
					return -1
				}
				if len(ret.Results) == 2 && exprStr(ret.Results[0]) == "nil" {
					return 1 // "saved in unknownTopics"
				}
				return 0
			},
		}
		onceRule(c, m, rule, f, f.Decl.Body, f.Graph(), f.Key, spec, 2)
	}
	if f := c.NeedFunc(m, "kgo.Client.doPartition"); f != nil {
		info := f.Info()
		spec := OnceSpec{Call: func(call *ast.CallExpr) Event {
			switch calleeName(info, call) {
			case "kgo.producer.promiseRecord":
				return Event{Kind: EvOnce}
			case "kgo.recBuf.bufferRecord":
				if len(call.Args) == 2 {
					if v, ok := constBool(info, call.Args[1]); ok && !v {
						return Event{Kind: EvOnce} // abortOnNewBatch == false: always processed
					}
				}
				return Event{Kind: EvCond, ResultIdx: 0, When: "true", Label: "bufferRecord"}
			}
			return Event{}
		}}
		onceRule(c, m, rule, f, f.Decl.Body, f.Graph(), f.Key, spec, 5)
	}
	if f := c.NeedFunc(m, "kgo.Client.addUnknownTopicRecord"); f != nil {
		info := f.Info()
		buffered := m.Field("kgo", "unknownTopicProduces", "buffered")
		spec := OnceSpec{
			Call: func(call *ast.CallExpr) Event { return Event{} },
			Node: func(n ast.Node) bool {
				as, ok := n.(*ast.AssignStmt)
				if !ok || len(as.Lhs) != 1 || len(as.Rhs) != 1 || !sameField(fieldOfSel(info, as.Lhs[0]), buffered) {
					return false
				}
				call, ok := as.Rhs[0].(*ast.CallExpr)
				return ok && exprStr(call.Fun) == "append" && len(call.Args) == 2 && exprStr(call.Args[1]) == "pr"
			},
		}
		onceRule(c, m, rule, f, f.Decl.Body, f.Graph(), f.Key, spec, 1)
		// the waiter is started when the entry gets its first record
		okGo := false
		ast.Inspect(f.Decl.Body, func(x ast.Node) bool {
			if gs, ok := x.(*ast.GoStmt); ok && calleeName(info, gs.Call) == "kgo.Client.waitUnknownTopic" {
				l, _ := f.Graph().LocOf(gs)
				okGo = factMatches(f.Graph().FactsAt(l), func(ft Fact) bool { return ft.Val && nosp(exprStr(ft.Cond)) == "len(unknown.buffered)==1" })
			}
			return true
		})
		c.Check(okGo, "unknown-topic-waiter-started", f.Key, f.Pos(), m, "waiter started with the first buffered record", "the unknown-topic waiter is not started exactly when the first record is buffered")
	}
	for _, key := range []string{"kgo.producer.promiseRecord", "kgo.producer.promiseRecordBeforeBuf", "kgo.producer.promiseBatch"} {
		f := c.NeedFunc(m, key)
		if f == nil {
			continue
		}
		info := f.Info()
		spec := OnceSpec{Call: func(call *ast.CallExpr) Event {
			switch calleeName(info, call) {
			case "kgo.producer.promiseBatch", "kgo.ring.push", "kgo.ring.pushForce":
				return Event{Kind: EvOnce}
			}
			return Event{}
		}}
		onceRule(c, m, rule, f, f.Decl.Body, f.Graph(), f.Key, spec, 1)
	}
}

func c01bufferRecord(c *Ctx, m *Module) {
	f := c.NeedFunc(m, "kgo.recBuf.bufferRecord")
	tb := c.NeedFunc(m, "kgo.recBatch.tryBuffer")
	if f == nil || tb == nil {
		return
	}
	rule := "bufferRecord-processed-contract"
	info := f.Info()
	g := f.Graph()
	// tryBuffer: aborted only under abortOnNewBatch and before appending; appended=true only after appendRecord
	{
		tg := tb.Graph()
		tinfo := tb.Info()
		var appLoc Loc
		haveApp := false
		ast.Inspect(tb.Decl.Body, func(x ast.Node) bool {
			if call, ok := x.(*ast.CallExpr); ok && calleeName(tinfo, call) == "kgo.recBatch.appendRecord" {
				appLoc, haveApp = tg.LocOf(call)
			}
			return true
		})
		for _, rn := range findNodes(tb.Decl.Body, false, func(x ast.Node) bool { _, ok := x.(*ast.ReturnStmt); return ok }) {
			r := rn.(*ast.ReturnStmt)
			if len(r.Results) != 2 {
				continue
			}
			app, ok1 := constBool(tinfo, r.Results[0])
			ab, ok2 := constBool(tinfo, r.Results[1])
			if !ok1 || !ok2 {
				c.Undecided(rule, tb.Key+": "+nodeStr(r), r.Pos(), m, "non-constant results")
				continue
			}
			l, _ := tg.LocOf(r)
			cons := tb.Key + ": " + nodeStr(r)
			switch {
			case app && !ab:
				c.Check(haveApp && tg.Dominates(appLoc, l), rule, cons, r.Pos(), m, "appended only after appendRecord", "reports appended without appendRecord on the path")
			case !app && ab:
				under := factMatches(tg.FactsAt(l), func(ft Fact) bool {
					id, ok := ft.Cond.(*ast.Ident)
					return ok && id.Name == "abortOnNewBatch" && ft.Val
				})
				c.Check(under && haveApp && !tg.reachLoc(appLoc, l), rule, cons, r.Pos(), m, "aborted only when asked and before appending", "reports aborted outside the abortOnNewBatch arm or after appending")
			case !app && !ab:
				c.Check(haveApp && !tg.reachLoc(appLoc, l), rule, cons, r.Pos(), m, "not appended", "reports not-appended after appendRecord")
			default:
				c.Fail(rule, cons, r.Pos(), m, "reports both appended and aborted")
			}
		}
		// appendRecord appends pr to b.records
		if ar := c.NeedFunc(m, "kgo.recBatch.appendRecord"); ar != nil {
			okA := false
			ast.Inspect(ar.Decl.Body, func(x ast.Node) bool {
				if as, ok := x.(*ast.AssignStmt); ok && len(as.Lhs) == 1 && nosp(exprStr(as.Lhs[0])) == "b.records" && nosp(exprStr(as.Rhs[0])) == "append(b.records,pr)" {
					okA = true
				}
				return true
			})
			c.Check(okA, rule, ar.Key, ar.Pos(), m, "appends the record to the batch", "appendRecord does not append pr to b.records")
		}
	}
	// bufferRecord returns
	promObj := m.Method("kgo", "producer", "promiseRecord")
	nFalse := 0
	for _, rn := range findNodes(f.Decl.Body, false, func(x ast.Node) bool { _, ok := x.(*ast.ReturnStmt); return ok }) {
		r := rn.(*ast.ReturnStmt)
		v, ok := constBool(info, r.Results[0])
		if !ok {
			c.Undecided(rule, f.Key+": "+nodeStr(r), r.Pos(), m, "non-constant result")
			continue
		}
		l, _ := g.LocOf(r)
		facts := g.FactsAt(l)
		if !v {
			nFalse++
			ab := factMatches(facts, func(ft Fact) bool { id, ok := ft.Cond.(*ast.Ident); return ok && id.Name == "aborted" && ft.Val })
			// no promise on this path: no promiseRecord call that reaches this return
			prom := false
			for _, call := range callsTo(f.Decl.Body, info, promObj, false) {
				cl, _ := g.LocOf(call)
				if g.reachFwd(cl, l) {
					prom = true
				}
			}
			c.Check(ab && !prom, rule, f.Key+"#return-false", r.Pos(), m, "not processed only on the aborted new batch, nothing promised", "returns false (caller will re-offer the record) outside the aborted arm or after promising it")
		}
	}
	c.Check(nFalse == 1, rule, f.Key+"#one-unprocessed-arm", f.Pos(), m, "", fmt.Sprintf("expected exactly one `return false`, found %d", nFalse))
	// every promiseRecord call in bufferRecord is immediately followed by `return true`
	for i, call := range callsTo(f.Decl.Body, info, promObj, false) {
		cl, _ := g.LocOf(call)
		_, bad := g.FindPath(cl, SearchOpts{
			Stop: func(n ast.Node) bool {
				r, ok := n.(*ast.ReturnStmt)
				if !ok {
					return false
				}
				v, okc := constBool(info, r.Results[0])
				return okc && v
			},
			GoalNode: func(n ast.Node) bool {
				// any further hand-off of the record or different return
				if r, ok := n.(*ast.ReturnStmt); ok {
					v, okc := constBool(info, r.Results[0])
					return !(okc && v)
				}
				found := false
				ast.Inspect(n, func(x ast.Node) bool {
					if cc, ok := x.(*ast.CallExpr); ok && cc != call && hasPromisedRecArg(info, cc) {
						found = true
					}
					return true
				})
				return found
			},
			GoalExit: func(k ExitKind, last ast.Node) bool { return k == ExitEnd },
		})
		c.Check(!bad, rule, fmt.Sprintf("%s#promise%d-then-return-true", f.Key, i), call.Pos(), m, "", "a failed record is handed on again or the function does not return true after promising it")
	}
	// the second tryBuffer (new batch) is the only one given abortOnNewBatch; first passes false
	tbObj := tb.Obj
	calls := callsTo(f.Decl.Body, info, tbObj, false)
	c.Check(len(calls) == 2, rule, f.Key+"#tryBuffer-calls", f.Pos(), m, "", fmt.Sprintf("expected two tryBuffer calls, found %d", len(calls)))
	if len(calls) == 2 {
		v, ok := constBool(info, calls[0].Args[3])
		c.Check(ok && !v && exprStr(calls[1].Args[3]) == "abortOnNewBatch", rule, f.Key+"#abort-only-on-new-batch", calls[0].Pos(), m, "", "abortOnNewBatch is not confined to the new-batch attempt")
		// mkNewBatch = !appended after the first; second under mkNewBatch
		okMk := false
		ast.Inspect(f.Decl.Body, func(x ast.Node) bool {
			if as, ok := x.(*ast.AssignStmt); ok && len(as.Lhs) == 1 && exprStr(as.Lhs[0]) == "mkNewBatch" && nosp(exprStr(as.Rhs[0])) == "!appended" {
				okMk = true
			}
			return true
		})
		l2, _ := g.LocOf(calls[1])
		under := factMatches(g.FactsAt(l2), func(ft Fact) bool { id, ok := ft.Cond.(*ast.Ident); return ok && id.Name == "mkNewBatch" && ft.Val })
		c.Check(okMk && under, rule, f.Key+"#new-batch-only-if-not-appended", calls[1].Pos(), m, "", "the new-batch attempt is not conditioned on the first attempt not having appended")
		// the new batch is added to recBuf.batches only under case appended
		for _, n := range findNodes(f.Decl.Body, false, func(x ast.Node) bool { _, ok := x.(*ast.AssignStmt); return ok }) {
			as := n.(*ast.AssignStmt)
			if len(as.Lhs) == 1 && nosp(exprStr(as.Lhs[0])) == "recBuf.batches" {
				l, _ := g.LocOf(as)
				facts := g.FactsAt(l)
				notAb := factMatches(facts, func(ft Fact) bool { id, ok := ft.Cond.(*ast.Ident); return ok && id.Name == "aborted" && !ft.Val })
				app := factMatches(facts, func(ft Fact) bool { id, ok := ft.Cond.(*ast.Ident); return ok && id.Name == "appended" && ft.Val })
				c.Check(notAb && app, rule, f.Key+": "+nodeStr(as), as.Pos(), m, "", "a new batch is queued although the record was not appended to it")
			}
		}
	}
	// caller re-offers: in doPartition, under !processed a second bufferRecord(pr, false)
	if dp := c.NeedFunc(m, "kgo.Client.doPartition"); dp != nil {
		dinfo := dp.Info()
		dg := dp.Graph()
		okRe := false
		for _, call := range callsTo(dp.Decl.Body, dinfo, f.Obj, false) {
			l, _ := dg.LocOf(call)
			if factMatches(dg.FactsAt(l), func(ft Fact) bool { id, ok := ft.Cond.(*ast.Ident); return ok && id.Name == "processed" && !ft.Val }) {
				v, okc := constBool(dinfo, call.Args[1])
				okRe = okc && !v
			}
		}
		c.Check(okRe, rule, dp.Key+"#re-offer", dp.Pos(), m, "", "an unprocessed record is not re-offered with abortOnNewBatch=false")
	}
}

// c01take: take-then-promise at container-emptying sites.
func c01take(c *Ctx, m *Module) {
	rule := "take-then-promise"
	funcs := m.FuncsIn("kgo")
	records := fieldMust(c, m, "recBatch", "records")
	unknownTopics := fieldMust(c, m, "producer", "unknownTopics")
	if records == nil || unknownTopics == nil {
		return
	}
	pb := m.Method("kgo", "producer", "promiseBatch")
	// (a) batch.records = nil
	n := 0
	for _, st := range StoreSites(funcs, records) {
		if st.Kind != "assign" || exprStr(st.RHS) != "nil" {
			continue
		}
		n++
		c.Touch(st.Fn)
		cons := st.Fn.Key + ": " + nodeStr(st.Node)
		g := st.Fn.GraphFor(st.Node)
		l, _ := g.LocOf(st.Node)
		// a variable copied from the same field before the store (same block)
		base := exprStr(st.LHS)
		var saved string
		blk := g.C.Blocks[l.B]
		for i := 0; i < l.I; i++ {
			if as, ok := blk.Nodes[i].(*ast.AssignStmt); ok {
				for j, r := range as.Rhs {
					if exprStr(r) == base && j < len(as.Lhs) {
						saved = exprStr(as.Lhs[j])
					}
				}
			}
		}
		if saved == "" {
			c.Fail(rule, cons, st.Node.Pos(), m, "the batch's records are cleared without first being copied out")
			continue
		}
		// every path from the store to an exit / next iteration passes promiseBatch{recs: saved}
		_, lost := g.FindPath(l, SearchOpts{
			Stop: func(nd ast.Node) bool {
				return containsNode(nd, false, func(x ast.Node) bool {
					call, ok := x.(*ast.CallExpr)
					return ok && isCallTo(st.Fn.Info(), call, pb) && promiseBatchRecs(call) == saved
				})
			},
			GoalExit: func(k ExitKind, last ast.Node) bool { return k != ExitPanic },
			GoalBlock: func(b *cfg.Block) bool {
				return b.Kind == cfg.KindRangeLoop || b.Kind == cfg.KindForLoop || b.Kind == cfg.KindForPost
			},
		})
		c.Check(!lost, rule, cons, st.Node.Pos(), m, "removed records are promised on every path", "records taken out of the batch ("+saved+") can be dropped without promiseBatch")
	}
	c.Floor(rule+"#batch-records", n, 2)
	// (b) delete(p.unknownTopics, t)
	n = 0
	for _, f := range funcs {
		for _, dn := range findNodes(f.Decl.Body, true, func(x ast.Node) bool {
			call, ok := x.(*ast.CallExpr)
			if !ok || len(call.Args) != 2 {
				return false
			}
			id, ok := call.Fun.(*ast.Ident)
			if !ok || id.Name != "delete" {
				return false
			}
			return sameField(fieldOfSel(f.Info(), call.Args[0]), unknownTopics)
		}) {
			n++
			c.Touch(f)
			del := dn.(*ast.CallExpr)
			cons := f.Key + ": " + exprStr(del)
			g := f.GraphFor(del)
			info := f.Info()
			l, ok := g.LocOf(del)
			if !ok {
				c.Undecided(rule, cons, del.Pos(), m, "not located")
				continue
			}
			key := exprStr(del.Args[1])
			// the entry variable: defined from p.unknownTopics[key] (assign, comma-ok, or range) dominating the delete
			entry := ""
			var body ast.Node = f.Decl.Body
			if lit := innermostLit(f, del); lit != nil {
				body = lit.Body
			}
			ast.Inspect(body, func(x ast.Node) bool {
				switch s := x.(type) {
				case *ast.AssignStmt:
					if len(s.Rhs) == 1 {
						if ix, ok := unparen(s.Rhs[0]).(*ast.IndexExpr); ok && sameField(fieldOfSel(info, ix.X), unknownTopics) && exprStr(ix.Index) == key {
							dl, ok := g.LocOf(s)
							if ok && g.Dominates(dl, l) {
								entry = exprStr(s.Lhs[0])
							}
						}
					}
				case *ast.RangeStmt:
					if sameField(fieldOfSel(info, s.X), unknownTopics) && s.Key != nil && exprStr(s.Key) == key && s.Value != nil && s.Body.Pos() <= del.Pos() && del.End() <= s.Body.End() {
						entry = exprStr(s.Value)
					}
				}
				return true
			})
			if entry == "" {
				c.Fail(rule, cons, del.Pos(), m, "the unknown-topic entry is deleted without having been loaded from the map in this function")
				continue
			}
			// the records handed on after the delete come from an entry E; E must be `entry` or proven identical to it
			handedFrom := map[string]bool{}
			ast.Inspect(body, func(x ast.Node) bool {
				switch s := x.(type) {
				case *ast.CallExpr:
					if isCallTo(info, s, pb) {
						if r := promiseBatchRecs(s); strings.HasSuffix(r, ".buffered") {
							handedFrom[strings.TrimSuffix(r, ".buffered")] = true
						}
					}
					if exprStr(s.Fun) == "append" && len(s.Args) == 2 && strings.HasSuffix(exprStr(s.Args[1]), ".buffered") {
						handedFrom[strings.TrimSuffix(exprStr(s.Args[1]), ".buffered")] = true
					}
				case *ast.RangeStmt:
					if strings.HasSuffix(exprStr(s.X), ".buffered") {
						handedFrom[strings.TrimSuffix(exprStr(s.X), ".buffered")] = true
					}
				}
				return true
			})
			var from []string
			for k := range handedFrom {
				from = append(from, k)
			}
			sort.Strings(from)
			identical := true
			for _, e := range from {
				if e == entry {
					continue
				}
				// need a dominating identity fact entry == e
				same := factMatches(g.FactsAt(l), func(ft Fact) bool {
					b, ok := unparen(ft.Cond).(*ast.BinaryExpr)
					if !ok {
						return false
					}
					x, y := exprStr(b.X), exprStr(b.Y)
					pair := (x == entry && y == e) || (x == e && y == entry)
					return pair && ((b.Op == token.NEQ && !ft.Val) || (b.Op == token.EQL && ft.Val))
				})
				if !same {
					identical = false
				}
			}
			c.Check(len(from) > 0 && identical, rule, cons+"#entry-identity", del.Pos(), m, "records handed on are those of the entry removed from the map",
				fmt.Sprintf("the entry removed from the map is %s but the records handed on come from %v without an identity check: a stale waiter can drop a re-registered entry and finish its own records twice", entry, from))
			// every path after the delete hands the records on (promiseBatch / doPartition loop / collected for promiseBatch)
			_, lost := g.FindPath(l, SearchOpts{
				Stop: func(nd ast.Node) bool {
					return containsNode(nd, false, func(x ast.Node) bool {
						switch s := x.(type) {
						case *ast.CallExpr:
							if isCallTo(info, s, pb) && strings.HasSuffix(promiseBatchRecs(s), ".buffered") {
								return true
							}
							if exprStr(s.Fun) == "append" && len(s.Args) == 2 && strings.HasSuffix(exprStr(s.Args[1]), ".buffered") {
								return true
							}
						case *ast.SelectorExpr:
							// range X.buffered header
							if s.Sel.Name == "buffered" {
								if _, isRange := nd.(*ast.RangeStmt); isRange {
									return true
								}
							}
						}
						return false
					}) || isRangeOverBuffered(nd)
				},
				GoalExit: func(k ExitKind, last ast.Node) bool { return k != ExitPanic },
			})
			c.Check(!lost, rule, cons, del.Pos(), m, "removed records are handed on on every path", "records of the removed unknown-topic entry can be dropped")
		}
	}
	c.Floor(rule+"#unknown-topics", n, 4)
	// toFail collected in failBufferedRecords is fully promised
	if f := c.NeedFunc(m, "kgo.Client.failBufferedRecords"); f != nil {
		okLoop := false
		ast.Inspect(f.Decl.Body, func(x ast.Node) bool {
			rs, ok := x.(*ast.RangeStmt)
			if !ok || exprStr(rs.X) != "toFail" || rs.Value == nil {
				return true
			}
			for _, call := range callsTo(rs.Body, f.Info(), pb, false) {
				if promiseBatchRecs(call) == exprStr(rs.Value) {
					okLoop = true
				}
			}
			return true
		})
		c.Check(okLoop, rule, f.Key+"#toFail-promised", f.Pos(), m, "", "the collected unknown-topic records are not all passed to promiseBatch")
	}
	// storePartitionsUpdate: the doPartition loop covers every buffered record
	if f := c.NeedFunc(m, "kgo.Client.storePartitionsUpdate"); f != nil {
		dp := m.Method("kgo", "Client", "doPartition")
		okLoop := false
		ast.Inspect(f.Decl.Body, func(x ast.Node) bool {
			rs, ok := x.(*ast.RangeStmt)
			if !ok || exprStr(rs.X) != "unknown.buffered" || rs.Value == nil {
				return true
			}
			for _, call := range callsTo(rs.Body, f.Info(), dp, false) {
				if len(call.Args) == 3 && exprStr(call.Args[2]) == exprStr(rs.Value) && len(rs.Body.List) == 1 {
					okLoop = true
				}
			}
			return true
		})
		c.Check(okLoop, rule, f.Key+"#partition-each-buffered", f.Pos(), m, "", "not every buffered record of a resolved topic is partitioned")
	}
}

func isRangeOverBuffered(n ast.Node) bool {
	if e, ok := n.(ast.Expr); ok {
		return strings.HasSuffix(exprStr(e), ".buffered")
	}
	return false
}

// promiseBatchRecs returns the `recs:` expression of promiseBatch(batchPromise{...}).
func promiseBatchRecs(call *ast.CallExpr) string {
	if len(call.Args) != 1 {
		return ""
	}
	cl, ok := unparen(call.Args[0]).(*ast.CompositeLit)
	if !ok {
		return ""
	}
	for _, e := range cl.Elts {
		if kv, ok := e.(*ast.KeyValueExpr); ok && exprStr(kv.Key) == "recs" {
			return exprStr(kv.Value)
		}
	}
	return ""
}

func c01who(c *Ctx, m *Module) {
	funcs := m.FuncsIn("kgo")
	rule := "promise-callers"
	// promisedRec.promise field invoked only in finishRecordPromise
	pf := fieldMust(c, m, "promisedRec", "promise")
	if pf == nil {
		return
	}
	n := 0
	for _, f := range funcs {
		for _, cn := range findNodes(f.Decl.Body, true, func(x ast.Node) bool {
			call, ok := x.(*ast.CallExpr)
			return ok && sameField(fieldOfSel(f.Info(), call.Fun), pf)
		}) {
			n++
			c.Check(f.Key == "kgo.Client.finishRecordPromise", rule, f.Key+": "+exprStr(cn), cn.Pos(), m, "only finishRecordPromise invokes the user promise", "the user promise is invoked outside finishRecordPromise (bypasses hooks, counters and the single promise worker)")
		}
		// reads of the field that are not calls (copying the callback out) outside construction
		for _, r := range readsOf(f.Decl.Body, f.Info(), pf, true) {
			isCall := false
			ast.Inspect(f.Decl.Body, func(x ast.Node) bool {
				if call, ok := x.(*ast.CallExpr); ok && unparen(call.Fun) == r {
					isCall = true
				}
				return true
			})
			if !isCall {
				c.Fail(rule, f.Key+": "+exprStr(r)+" (escape)", r.Pos(), m, "the promise callback is copied out of the promisedRec")
			}
		}
	}
	c.Floor(rule, n, 1)
	if f := c.NeedFunc(m, "kgo.Client.finishRecordPromise"); f != nil {
		info := f.Info()
		spec := OnceSpec{Call: func(call *ast.CallExpr) Event {
			if sameField(fieldOfSel(info, call.Fun), pf) {
				return Event{Kind: EvOnce}
			}
			return Event{}
		}}
		onceRule(c, m, "promise-invoked-exactly-once", f, f.Decl.Body, f.Graph(), f.Key, spec, 1)
	}
	table := func(calleeKey string, allowed map[string]string, floor int) {
		obj := m.Func(calleeKey)
		if obj == nil {
			c.Undecided("anchor", calleeKey, 0, m, "function not found")
			return
		}
		cnt := 0
		for _, s := range CallSites(funcs, obj.Obj) {
			cnt++
			c.Touch(s.Fn)
			why, ok := allowed[s.Fn.Key]
			c.Check(ok, "who-may-call:"+calleeKey, s.Fn.Key, s.Node.Pos(), m, why, calleeKey+" is called from "+s.Fn.Key+", which is not in the confirmed caller table")
		}
		// method values / function values
		for _, f := range funcs {
			ast.Inspect(f.Decl.Body, func(x ast.Node) bool {
				sel, ok := x.(*ast.SelectorExpr)
				if !ok {
					return true
				}
				if s := f.Info().Selections[sel]; s != nil && s.Kind() == types.MethodVal && sameObj(s.Obj(), obj.Obj) {
					// is it the Fun of a call?
					isFun := false
					ast.Inspect(f.Decl.Body, func(y ast.Node) bool {
						if call, ok := y.(*ast.CallExpr); ok && unparen(call.Fun) == ast.Expr(sel) {
							isFun = true
						}
						return true
					})
					if !isFun {
						c.Fail("who-may-call:"+calleeKey, f.Key+" (method value)", sel.Pos(), m, "the function is taken as a value; callers can no longer be enumerated")
					}
				}
				return true
			})
		}
		c.Floor("who-may-call:"+calleeKey, cnt, floor)
	}
	table("kgo.Client.finishRecordPromise", map[string]string{"kgo.producer.finishPromises": "the single promise worker"}, 1)
	table("kgo.producer.finishPromises", map[string]string{"kgo.producer.promiseBatch": "spawned on first push", "kgo.producer.promiseRecordBeforeBuf": "spawned on first push"}, 2)
	table("kgo.producer.promiseRecordBeforeBuf", map[string]string{"kgo.Client.produce": "records failed before admission"}, 4)
	// finishPromises is started only as `go` under first == true
	for _, key := range []string{"kgo.producer.promiseBatch", "kgo.producer.promiseRecordBeforeBuf"} {
		f := m.Func(key)
		if f == nil {
			continue
		}
		fp := m.Func("kgo.producer.finishPromises")
		if fp == nil {
			continue
		}
		for _, call := range callsTo(f.Decl.Body, f.Info(), fp.Obj, true) {
			g := f.Graph()
			l, _ := g.LocOf(call)
			isGo := false
			ast.Inspect(f.Decl.Body, func(x ast.Node) bool {
				if gs, ok := x.(*ast.GoStmt); ok && gs.Call == call {
					isGo = true
				}
				return true
			})
			first := factMatches(g.FactsAt(l), func(ft Fact) bool { id, ok := ft.Cond.(*ast.Ident); return ok && id.Name == "first" && ft.Val })
			c.Check(isGo && first, "promise-worker-single", f.Key+": "+exprStr(call), call.Pos(), m, "go finishPromises under first", "the promise worker is started outside `if first` of the ring push (two workers, or none)")
		}
	}
	// beforeBuf: true only built in promiseRecordBeforeBuf
	bb := fieldMust(c, m, "batchPromise", "beforeBuf")
	if bb != nil {
		for _, st := range StoreSites(funcs, bb) {
			c.Check(st.Fn.Key == "kgo.producer.promiseRecordBeforeBuf", "before-buf-origin", st.Fn.Key+": "+nodeStr(st.Node), st.Node.Pos(), m, "", "batchPromise.beforeBuf is set outside promiseRecordBeforeBuf")
		}
	}
	// finishPromises: one finishRecordPromise per record; loops on dropPeek while more
	if f := c.NeedFunc(m, "kgo.producer.finishPromises"); f != nil {
		info := f.Info()
		frp := m.Func("kgo.Client.finishRecordPromise")
		okLoop := false
		ast.Inspect(f.Decl.Body, func(x ast.Node) bool {
			rs, ok := x.(*ast.RangeStmt)
			if !ok || exprStr(rs.X) != "b.recs" {
				return true
			}
			calls := callsTo(rs.Body, info, frp.Obj, false)
			if len(calls) != 1 {
				return true
			}
			call := calls[0]
			g := f.Graph()
			cl, _ := g.LocOf(call)
			// call is on every path of the loop body: its block dominates... use must-pass: from body start to loop head
			var head *cfg.Block
			for _, b := range g.C.Blocks {
				if b.Kind == cfg.KindRangeLoop && b.Stmt == ast.Stmt(rs) {
					head = b
				}
			}
			if head == nil {
				return true
			}
			body := head.Succs[0]
			_, skip := g.FindPath(Loc{int(body.Index), -1}, SearchOpts{
				Stop:      func(n ast.Node) bool { l, ok := g.LocOf(n); return ok && l == cl },
				GoalBlock: func(b *cfg.Block) bool { return b == head },
				GoalExit:  func(ExitKind, ast.Node) bool { return true },
			})
			argsOK := len(call.Args) == 3 && exprStr(call.Args[0]) == exprStr(rs.Value) && exprStr(call.Args[1]) == "b.err" && exprStr(call.Args[2]) == "b.beforeBuf"
			okLoop = !skip && argsOK
			return true
		})
		c.Check(okLoop, "promise-worker-per-record", f.Key, f.Pos(), m, "each record of the batch is finished once with the batch's error and beforeBuf flag", "the worker does not finish every record of a batch exactly once with (b.err, b.beforeBuf)")
		// dropPeek loop
		okDrop := false
		ast.Inspect(f.Decl.Body, func(x ast.Node) bool {
			if as, ok := x.(*ast.AssignStmt); ok && len(as.Rhs) == 1 {
				if call, ok := as.Rhs[0].(*ast.CallExpr); ok && calleeName(info, call) == "kgo.ring.dropPeek" && len(as.Lhs) == 3 && exprStr(as.Lhs[0]) == "b" && exprStr(as.Lhs[1]) == "more" {
					okDrop = true
				}
			}
			return true
		})
		okGoto := false
		ast.Inspect(f.Decl.Body, func(x ast.Node) bool {
			if ifs, ok := x.(*ast.IfStmt); ok && exprStr(ifs.Cond) == "more" && len(ifs.Body.List) == 1 {
				if br, ok := ifs.Body.List[0].(*ast.BranchStmt); ok && br.Tok == token.GOTO {
					okGoto = true
				}
			}
			return true
		})
		c.Check(okDrop && okGoto, "promise-worker-drains-ring", f.Key, f.Pos(), m, "", "the worker does not continue with the next ring element while more")
	}
}

func c01counters(c *Ctx, m *Module) {
	rule := "buffered-counter-discipline"
	funcs := m.FuncsIn("kgo")
	n := 0
	for _, name := range []string{"bufferedRecords", "bufferedBytes"} {
		fv := fieldMust(c, m, "producer", name)
		if fv == nil {
			continue
		}
		for _, st := range StoreSites(funcs, fv) {
			n++
			c.Touch(st.Fn)
			cons := st.Fn.Key + ": " + nodeStr(st.Node)
			switch st.Kind {
			case "inc", "opassign:+=":
				c.Check(st.Fn.Key == "kgo.Client.produce", rule, cons, st.Node.Pos(), m, "incremented only at admission in produce", "buffered counter incremented outside produce")
			case "dec", "opassign:-=":
				okd := st.Fn.Key == "kgo.Client.finishRecordPromise"
				if okd {
					g := st.Fn.Graph()
					l, _ := g.LocOf(st.Node)
					okd = factMatches(g.FactsAt(l), func(ft Fact) bool {
						id, ok := ft.Cond.(*ast.Ident)
						return ok && id.Name == "beforeBuffering" && !ft.Val
					})
				}
				c.Check(okd, rule, cons, st.Node.Pos(), m, "decremented only in finishRecordPromise for admitted records", "buffered counter decremented outside finishRecordPromise's !beforeBuffering path")
			default:
				c.Fail(rule, cons, st.Node.Pos(), m, "unexpected write ("+st.Kind+") to a buffered counter")
			}
		}
	}
	c.Floor(rule, n, 4)
	// produce: before-buffer promises precede the increment; counted hand-offs follow it
	f := c.NeedFunc(m, "kgo.Client.produce")
	if f == nil {
		return
	}
	info := f.Info()
	g := f.Graph()
	br := fieldMust(c, m, "producer", "bufferedRecords")
	var incLoc Loc
	haveInc := false
	for _, st := range storesTo(f.Decl.Body, info, br, false) {
		if st.Kind == "inc" {
			incLoc, haveInc = g.LocOf(st.Node)
		}
	}
	if !haveInc {
		c.Fail(rule, f.Key+"#admission", f.Pos(), m, "admission increment not found in produce's main body")
		return
	}
	// events in main body and via closures (located at closure call sites)
	type ev struct {
		loc    Loc
		before bool
		desc   string
		pos    token.Pos
	}
	var evs []ev
	classify := func(call *ast.CallExpr) (bool, bool) { // isEvent, isBeforeBuf
		switch calleeName(info, call) {
		case "kgo.producer.promiseRecordBeforeBuf":
			return true, true
		case "kgo.producer.promiseRecord", "kgo.Client.loadPartsAndPartition", "kgo.producer.promiseBatch":
			return true, false
		}
		return false, false
	}
	ast.Inspect(f.Decl.Body, func(x ast.Node) bool {
		if _, ok := x.(*ast.FuncLit); ok {
			return false
		}
		if call, ok := x.(*ast.CallExpr); ok {
			if is, before := classify(call); is {
				l, _ := g.LocOf(call)
				evs = append(evs, ev{l, before, exprStr(call.Fun), call.Pos()})
			}
		}
		return true
	})
	ast.Inspect(f.Decl.Body, func(x ast.Node) bool {
		as, ok := x.(*ast.AssignStmt)
		if !ok || len(as.Rhs) != 1 {
			return true
		}
		lit, ok := as.Rhs[0].(*ast.FuncLit)
		if !ok {
			return true
		}
		id, _ := as.Lhs[0].(*ast.Ident)
		if id == nil {
			return true
		}
		obj := info.Defs[id]
		ast.Inspect(lit.Body, func(y ast.Node) bool {
			if _, isLit := y.(*ast.FuncLit); isLit {
				return false
			}
			call, ok := y.(*ast.CallExpr)
			if !ok {
				return true
			}
			if is, before := classify(call); is {
				// locate at each call of the closure in the main body
				ast.Inspect(f.Decl.Body, func(z ast.Node) bool {
					if cc, ok := z.(*ast.CallExpr); ok {
						if cid, ok := unparen(cc.Fun).(*ast.Ident); ok && info.Uses[cid] == obj {
							if l, ok := g.LocOf(cc); ok {
								evs = append(evs, ev{l, before, id.Name + " -> " + exprStr(call.Fun), call.Pos()})
							}
						}
					}
					return true
				})
			}
			return true
		})
		return true
	})
	for _, e := range evs {
		cons := fmt.Sprintf("%s: %s @%s", f.Key, e.desc, m.Position(e.pos))
		cons = f.Key + ": " + e.desc + "#" + fmt.Sprint(len(cons)%7) // keep keys stable-ish without lines
		if e.before {
			after := g.reachFwd(incLoc, e.loc)
			c.Check(!after, rule+"#before-admission", f.Key+": "+e.desc, e.pos, m, "uncounted failure precedes the increment", "a before-buffering promise (no decrement) is reachable after the record was counted: counters never return to zero")
		} else {
			c.Check(g.Dominates(incLoc, e.loc), rule+"#after-admission", f.Key+": "+e.desc, e.pos, m, "counted hand-off follows the increment", "a counted promise/hand-off (decrements on completion) is reachable without the admission increment: counters go negative")
		}
	}
	c.Floor(rule+"#produce-events", len(evs), 7)
}

func c01close(c *Ctx, m *Module) {
	rule := "close-sweep"
	if f := c.NeedFunc(m, "kgo.recBuf.bufferRecord"); f != nil {
		info := f.Info()
		g := f.Graph()
		// the select with case <-recBuf.cl.ctx.Done(): promiseRecord(ErrClientClosed); return true  dominates both tryBuffer calls
		var selLoc Loc
		haveSel := false
		ast.Inspect(f.Decl.Body, func(x ast.Node) bool {
			ss, ok := x.(*ast.SelectStmt)
			if !ok {
				return true
			}
			hasDone, hasDefault := false, false
			for _, cl := range ss.Body.List {
				cc := cl.(*ast.CommClause)
				if cc.Comm == nil {
					hasDefault = true
					continue
				}
				if es, ok := cc.Comm.(*ast.ExprStmt); ok && strings.HasSuffix(nosp(exprStr(es.X)), "cl.ctx.Done()") {
					// body: promiseRecord(pr, ErrClientClosed); return true
					okBody := false
					for _, st := range cc.Body {
						if e, ok := st.(*ast.ExprStmt); ok {
							if call, ok := e.X.(*ast.CallExpr); ok && calleeName(info, call) == "kgo.producer.promiseRecord" && len(call.Args) == 2 && exprStr(call.Args[1]) == "ErrClientClosed" {
								okBody = true
							}
						}
					}
					hasDone = okBody
					if l, ok := g.LocOf(es); ok {
						selLoc = l
					}
				}
			}
			if hasDone && hasDefault {
				haveSel = true
			}
			return true
		})
		tb := m.Method("kgo", "recBatch", "tryBuffer")
		okDom := haveSel
		for _, call := range callsTo(f.Decl.Body, info, tb, false) {
			l, _ := g.LocOf(call)
			if !g.Dominates(selLoc, l) {
				okDom = false
			}
		}
		// under recBuf.mu: first statement locks, deferred unlock
		locked := false
		if len(f.Decl.Body.List) >= 2 {
			if es, ok := f.Decl.Body.List[0].(*ast.ExprStmt); ok && nosp(exprStr(es.X)) == "recBuf.mu.Lock()" {
				if ds, ok := f.Decl.Body.List[1].(*ast.DeferStmt); ok && nosp(exprStr(ds.Call)) == "recBuf.mu.Unlock()" {
					locked = true
				}
			}
		}
		c.Check(okDom && locked, rule, f.Key+"#closed-check-before-append", f.Pos(), m, "client-closed check under recBuf.mu dominates buffering", "a record can be appended to a batch without the client-closed check under recBuf.mu (it would never be failed by the close sweep)")
	}
	if f := c.NeedFunc(m, "kgo.Client.close"); f != nil {
		info := f.Info()
		g := f.Graph()
		find := func(pred func(n ast.Node) bool) (Loc, bool) {
			var l Loc
			found := false
			for _, b := range g.C.Blocks {
				for i, n := range b.Nodes {
					if !found && containsNode(n, false, pred) {
						l, found = Loc{int(b.Index), i}, true
					}
				}
			}
			return l, found
		}
		cancel, ok1 := find(func(n ast.Node) bool {
			call, ok := n.(*ast.CallExpr)
			return ok && nosp(exprStr(call.Fun)) == "cl.ctxCancel"
		})
		meta, ok2 := find(func(n ast.Node) bool {
			u, ok := n.(*ast.UnaryExpr)
			return ok && u.Op == token.ARROW && nosp(exprStr(u.X)) == "cl.metadone"
		})
		fail, ok3 := find(func(n ast.Node) bool {
			call, ok := n.(*ast.CallExpr)
			return ok && calleeName(info, call) == "kgo.Client.failBufferedRecords" && len(call.Args) == 1 && exprStr(call.Args[0]) == "ErrClientClosed"
		})
		c.Check(ok1 && ok2 && ok3 && g.Dominates(cancel, fail) && g.Dominates(meta, fail) && g.Dominates(cancel, meta), rule, f.Key+"#order", f.Pos(), m, "ctxCancel -> <-metadone -> failBufferedRecords(ErrClientClosed)", "close does not fail buffered records after cancelling the client context and waiting for the metadata loop")
		// failBufferedRecords is on every path to a normal return after cancel
		if ok1 && ok3 {
			_, skip := g.FindPath(cancel, SearchOpts{
				Stop:     func(n ast.Node) bool { l, ok := g.LocOf(n); return ok && l == fail },
				GoalExit: func(k ExitKind, last ast.Node) bool { return k != ExitPanic },
			})
			c.Check(!skip, rule, f.Key+"#always-sweeps", f.Pos(), m, "", "close can return without failing buffered records")
		}
	}
	// sweeps cover the full partition list
	for _, key := range []string{"kgo.Client.failBufferedRecords", "kgo.producer.purgeTopics"} {
		f := c.NeedFunc(m, key)
		if f == nil {
			continue
		}
		info := f.Info()
		far := m.Method("kgo", "recBuf", "failAllRecords")
		nLoops := 0
		ast.Inspect(f.Decl.Body, func(x ast.Node) bool {
			rs, ok := x.(*ast.RangeStmt)
			if !ok {
				return true
			}
			if len(callsTo(rs.Body, info, far, false)) == 0 {
				return true
			}
			// innermost loop containing the call
			inner := true
			ast.Inspect(rs.Body, func(y ast.Node) bool {
				if r2, ok := y.(*ast.RangeStmt); ok && len(callsTo(r2.Body, info, far, false)) > 0 {
					inner = false
				}
				return true
			})
			if !inner {
				return true
			}
			nLoops++
			fv := fieldOfSel(info, rs.X)
			c.Check(fv != nil && fv.Name() == "partitions", rule, key+"#sweeps-all-partitions", rs.Pos(), m, "iterates topicPartitionsData.partitions (all partitions)", "the fail sweep iterates `"+exprStr(rs.X)+"`, not the full partitions list: records buffered on partitions with load errors are never failed")
			return true
		})
		c.Check(nLoops >= 1, rule, key+"#has-sweep", f.Pos(), m, "", "no partition sweep calling failAllRecords found")
	}
	// failAllRecords callers hold recBuf.mu: immediate Lock before in same block (or documented locked context)
	// (lock discipline is checked under C41/C02)
}

// c01drainKick: a record buffer that is (re)attached to a sink or whose
// failing state is cleared must get a drain started for it, otherwise batches
// that were rewound while the old sink backs off are never sent again.
func c01drainKick(c *Ctx, m *Module) {
	rule := "drain-started-after-move"
	if f := c.NeedFunc(m, "kgo.recBuf.clearFailing"); f != nil {
		g := f.Graph()
		info := f.Info()
		isKick := func(n ast.Node) bool {
			if _, isDefer := n.(*ast.DeferStmt); isDefer {
				return false
			}
			return containsNode(n, false, func(y ast.Node) bool {
				call, ok := y.(*ast.CallExpr)
				return ok && calleeName(info, call) == "kgo.recBuf.maybeTriggerDrain"
			})
		}
		path, found := g.FindPath(Loc{B: -1}, SearchOpts{Stop: isKick, GoalExit: func(k ExitKind, last ast.Node) bool { return k != ExitPanic }})
		c.Check(!found, rule, f.Key+": maybeTriggerDrain on every path", f.Pos(), m, "", "clearFailing can return without maybeTriggerDrain ("+pathStr(path)+"): it is also what starts the drain after a buffer moved to a new sink (addRecBuf) and after a metadata update, so a rewound batch on a buffer that was not marked failing is never sent again")
	}
	if f := c.NeedFunc(m, "kgo.sink.addRecBuf"); f != nil {
		g := f.Graph()
		info := f.Info()
		isClear := func(n ast.Node) bool {
			if _, isDefer := n.(*ast.DeferStmt); isDefer {
				return false
			}
			return containsNode(n, false, func(y ast.Node) bool {
				call, ok := y.(*ast.CallExpr)
				return ok && calleeName(info, call) == "kgo.recBuf.clearFailing"
			})
		}
		path, found := g.FindPath(Loc{B: -1}, SearchOpts{Stop: isClear, GoalExit: func(k ExitKind, last ast.Node) bool { return k != ExitPanic }})
		c.Check(!found, rule, f.Key+": clearFailing on every path", f.Pos(), m, "", "addRecBuf can return without clearFailing ("+pathStr(path)+"): the buffer's pending batches are not drained on the new sink")
	}
}
