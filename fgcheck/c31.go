package main

import (
	"fmt"
	"go/ast"
	"go/token"
	"go/types"
	"os"
	"sort"
	"strings"

	"golang.org/x/tools/go/cfg"
)

func init() {
	register(&Prop{
		ID:    "C31",
		Level: "other",
		Technique: "must-lockset on the gate word; may-lockset lock-order rule for every call chain that blocks at the gate; condition-variable discipline (loop-guarded Wait, Broadcast after every enabling update) on the CFG; " +
			"finite-domain evaluation of the gate's masks, shifts and guards; must-pass-through path search for the poll-side enclosure and the rebalance add/unadd pairing; " +
			"per-path token accounting of the channel mutexes (build tag synctests)",
		Explanation: "GATE (pkg/kgo/consumer.go). (1) consumer.pollWaitState is read and written only with pollWaitMu held, only by the five gate functions; pollWaitC is created once, over &pollWaitMu, and is only used for Wait/Broadcast (never Signal) inside them. " +
			"(2) The five updates are evaluated over a finite domain of (pollers, rebalances) pairs and must be exactly pollers+1 / pollers-1 / pollers:=0 / rebalances+1 / rebalances-1 on the 32/32-bit layout, once on every path of their function (the decrement exactly under pollers>0); " +
			"each Wait sits in a `for` whose condition is evaluated to `rebalances != 0` (poll side) resp. `pollers != 0` (rebalance side) and cannot be left without re-testing it; the poll side waits only under pollers == 0 (a second poll joins the outstanding one instead of queueing behind the rebalance that waits for it) and counts itself only after waiting; " +
			"the rebalance side counts itself before waiting (so a pending rebalance holds new polls back); every update that can enable a waiter is followed on all paths by Broadcast; every gate function is a no-op exactly when BlockRebalanceOnPoll is off. " +
			"(3) PollRecords: every take of buffered fetches (source.takeBuffered/takeNBuffered, the injected fake fetches) is preceded by waitAndAddPoller under the option; unaddPoller is called only from a deferred literal registered right after waitAndAddPoller and runs exactly when the returned slice is empty; " +
			"the returned slice is only written inside the fill closure; every other non-empty return (error fetches) registers a poller immediately before; AllowRebalance / CloseAllowingRebalance / GroupTransactSession.AllowRebalance reach consumer.allowRebalance on all paths (before Close). " +
			"Every waitAndAddRebalance* call site is followed on all non-panicking paths by unaddRebalance and every unaddRebalance is dominated by its add (that the revoke/lost callbacks run between the two is C07's clause 1). " +
			"No blocking at the gate under a lock the other side needs (may-lockset: union at joins, deferred unlocks keep the lock to the exit, closure bodies inherit the lockset of their call/defer sites, `go` bodies start empty; locks identified by mutex field): the locks PollRecords acquires on its non-share path (derived, currently consumer.mu, sourcesReadyMu, groupConsumer.mu) are never possibly held at a call of waitAndAddRebalance* or of any function that synchronously reaches one (revoke, manageFailWait, abandonAssignment, setupAssignedAndHeartbeat, their callers ...); the locks acquired inside the add..unadd rebalance sections (derived, through synchronous callees) are never possibly held at a call of waitAndAddPoller or of a function that synchronously reaches it. " +
			"XSYNC. (4) Without the tag xsync.Mutex/RWMutex are aliases of sync.Mutex/sync.RWMutex. With -tags synctests: the token channels (Mutex.ch, RWMutex.gate) are created with capacity 1 and one initial token, writerSignal with capacity 1 and none; all accesses of the tracked fields are in the known methods; readerCount is only touched with rw.mu held and rw.mu is unlocked on every exit (also before panics). " +
			"Per method every control path is enumerated and replayed over readerCount in {0..3}: Lock/TryLock(true) end holding exactly one token, TryLock(false)/RLock/TryRLock end with the token returned, the reader is registered between taking and returning the gate token, Unlock/RWMutex.Unlock send exactly one token without blocking, writer Lock/TryLock drain writerSignal (non-blocking) after taking the gate and before reading readerCount, Lock waits on writerSignal exactly when readers are active and not while holding rw.mu, RUnlock signals (non-blocking) exactly when the count reaches zero. " +
			"",
		NotDecided: "Deadlock freedom and mutual exclusion under all interleavings are not decided (they are schedule properties; only the discipline rules that are necessary for them are: loop-guarded waits, wake-up after every enabling update, token conservation on every path, counted-before-wait); fairness/starvation is not considered (that a pending rebalance holds new polls back is decided only structurally: the rebalance counts itself before it waits and a poll without an outstanding poller waits for rebalances == 0). " +
			"That revoke/lost callbacks run inside the rebalance section is C07. Callers that violate the documented contract (AllowRebalance while another goroutine's poll is in flight) are outside the scenarios. The share-group poll path (consumer.s) does not use the gate and is exempt.",
		Assumptions: []string{
			"sync.Mutex / sync.Cond semantics of the Go runtime (Cond has no spurious wakeups; Broadcast wakes all current waiters)",
			"statements of the modelled functions that do not mention the gate word, its mutex/condition variable or the mutex channels do not affect them (all accessors of those fields are enumerated and must be the modelled functions)",
		},
		Run: runC31,
	})
}

var c31samples = []uint64{0, 1, 2, 5, 0xFFFFFFFF}

type c31gate struct {
	c     *Ctx
	m     *Module
	state *types.Var
	mu    *types.Var
	cond  *types.Var
	flag  *types.Var
	fns   map[string]*Func // role -> func
}

var c31gateFuncs = map[string]string{
	"kgo.consumer.waitAndAddPoller":               "p+1",
	"kgo.consumer.unaddPoller":                    "p-1",
	"kgo.consumer.allowRebalance":                 "p=0",
	"kgo.consumer.waitAndAddRebalanceMaybeSignal": "r+1",
	"kgo.consumer.unaddRebalance":                 "r-1",
}

func runC31(c *Ctx) {
	m := c.Load("")
	if m != nil {
		g := &c31gate{c: c, m: m, fns: map[string]*Func{}}
		g.state = m.Field("kgo", "consumer", "pollWaitState")
		g.mu = m.Field("kgo", "consumer", "pollWaitMu")
		g.cond = m.Field("kgo", "consumer", "pollWaitC")
		g.flag = m.Field("kgo", "cfg", "blockRebalanceOnPoll")
		if g.state == nil || g.mu == nil || g.cond == nil || g.flag == nil {
			c.Undecided("anchor", "kgo.consumer.pollWaitState/pollWaitMu/pollWaitC, kgo.cfg.blockRebalanceOnPoll", token.NoPos, m, "gate fields not found (renamed or removed)")
		} else {
			ok := true
			for _, k := range sortedKeys(c31gateFuncs) {
				if f := c.NeedFunc(m, k); f != nil {
					g.fns[k] = f
				} else {
					ok = false
				}
			}
			if ok {
				g.lockset()
				g.updates()
				g.waits()
				g.condUse()
				g.configGuard()
				g.wrappers()
				g.pollSide()
				g.allowWiring()
				g.rebalancePairing()
				g.gateLockOrder()
				g.explore()
			}
		}
		c31aliases(c, m)
	}
	mt := c.LoadCfg("", "synctests", "")
	if mt != nil {
		c31xsync(c, mt)
	}
}

// ---------------------------------------------------------------------------
// finite-domain evaluation of expressions over the gate word

func (g *c31gate) envFor(info *types.Info, state uint64) *c31env {
	return &c31env{info: info, field: func(v *types.Var) (c31val, bool) {
		if sameField(v, g.state) {
			return c31int(state), true
		}
		if sameField(v, g.flag) {
			return c31bool(true), true
		}
		return c31unknown, false
	}}
}

// pred names the predicate over (pollers, rebalances) that `e == val` denotes.
func (g *c31gate) pred(info *types.Info, e ast.Expr, val bool) string {
	match := map[string]bool{"p==0": true, "p!=0": true, "r==0": true, "r!=0": true}
	for _, p := range c31samples {
		for _, r := range c31samples {
			v := g.envFor(info, r<<32|p).eval(e)
			if v.k != 2 {
				return ""
			}
			got := v.b == val
			for name := range match {
				var want bool
				switch name {
				case "p==0":
					want = p == 0
				case "p!=0":
					want = p != 0
				case "r==0":
					want = r == 0
				case "r!=0":
					want = r != 0
				}
				if want != got {
					delete(match, name)
				}
			}
		}
	}
	for name := range match {
		return name
	}
	return ""
}

// effect names the transformation of (pollers, rebalances) a store performs.
func (g *c31gate) effect(info *types.Info, st Store) string {
	apply := func(old uint64) (uint64, bool) {
		switch st.Kind {
		case "inc":
			return old + 1, true
		case "dec":
			return old - 1, true
		case "assign":
			v := g.envFor(info, old).eval(st.RHS)
			return v.u, v.k == 1
		}
		if strings.HasPrefix(st.Kind, "opassign:") && st.RHS != nil {
			v := g.envFor(info, old).eval(st.RHS)
			if v.k != 1 {
				return 0, false
			}
			return c31arith(st.Tok, old, v.u, true)
		}
		return 0, false
	}
	match := map[string]bool{"p+1": true, "p-1": true, "p=0": true, "r+1": true, "r-1": true}
	for _, p := range c31samples {
		for _, r := range c31samples {
			nv, ok := apply(r<<32 | p)
			if !ok {
				return ""
			}
			np, nr := nv&0xFFFFFFFF, nv>>32
			for name := range match {
				okc := true
				switch name {
				case "p+1":
					okc = p == 0xFFFFFFFF || (np == p+1 && nr == r)
				case "p-1":
					okc = p == 0 || (np == p-1 && nr == r)
				case "p=0":
					okc = np == 0 && nr == r
				case "r+1":
					okc = r == 0xFFFFFFFF || (nr == r+1 && np == p)
				case "r-1":
					okc = r == 0 || (nr == r-1 && np == p)
				}
				if !okc {
					delete(match, name)
				}
			}
		}
	}
	if len(match) != 1 {
		return ""
	}
	for name := range match {
		return name
	}
	return ""
}

// flagEdges allows only the CFG edges consistent with BlockRebalanceOnPoll
// being set and (optionally) excludes edges on which a named predicate holds.
func (g *c31gate) flagEdges(gr *Graph, info *types.Info, excludePred string) func(from *cfg.Block, k int, to *cfg.Block) bool {
	return func(from *cfg.Block, k int, to *cfg.Block) bool {
		cond, tag, ok := gr.condOf(from)
		if !ok || tag != nil {
			return true
		}
		for _, f := range decompose(cond, k == 0, nil) {
			if sameField(fieldOfSel(info, f.Cond), g.flag) && !f.Val {
				return false
			}
			if excludePred != "" && g.pred(info, f.Cond, f.Val) == excludePred {
				return false
			}
		}
		return true
	}
}

func (g *c31gate) isCondCall(info *types.Info, n ast.Node, method string) bool {
	call, ok := n.(*ast.CallExpr)
	if !ok {
		return false
	}
	sel, ok := unparen(call.Fun).(*ast.SelectorExpr)
	if !ok || (method != "" && sel.Sel.Name != method) {
		return false
	}
	return sameField(fieldOfSel(info, sel.X), g.cond)
}

func (g *c31gate) nodeHasCondCall(info *types.Info, n ast.Node, method string) bool {
	if _, isDefer := n.(*ast.DeferStmt); isDefer {
		return false
	}
	return containsNode(n, false, func(x ast.Node) bool { return g.isCondCall(info, x, method) })
}

// ---------------------------------------------------------------------------
// (1) lockset

func (g *c31gate) lockset() {
	n := guardedByRule(g.c, g.m, "kgo", GuardSpec{Rule: "gate-state-under-mutex", Type: "consumer", Field: "pollWaitState", Mutex: "pollWaitMu", ReadsToo: true})
	g.c.Floor("gate-state-under-mutex", n, 5)
	// accessors are exactly the gate functions
	cnt := 0
	for _, f := range g.m.FuncsIn("kgo") {
		if len(accessesOf(f, g.state)) == 0 {
			continue
		}
		cnt++
		_, known := c31gateFuncs[f.Key]
		g.c.Check(known, "gate-accessors-known", f.Key, f.Pos(), g.m, "gate function", "a function outside the five modelled gate functions reads or writes pollWaitState: the gate model and its rule tables do not cover it")
	}
	g.c.Floor("gate-accessors-known", cnt, 5)
}

// ---------------------------------------------------------------------------
// (2) updates, waits, broadcasts

func (g *c31gate) updates() {
	c, m := g.c, g.m
	nEnable := 0
	for _, key := range sortedKeys(c31gateFuncs) {
		f, want := g.fns[key], c31gateFuncs[key]
		info := f.Info()
		gr := f.Graph()
		stores := storesTo(f.Decl.Body, info, g.state, true)
		var effs []string
		for _, st := range stores {
			e := g.effect(info, st)
			effs = append(effs, e)
			cons := key + ": " + nodeStr(st.Node)
			if !c.Check(e == want, "gate-update-effect", cons, st.Node.Pos(), m, "evaluates to "+want+" on the 32/32-bit layout",
				fmt.Sprintf("the update evaluates to %q over (pollers, rebalances) samples, expected %s: the adders, the mask and the waiters no longer agree on the bit layout of pollWaitState", e, want)) {
				continue
			}
			loc, ok := gr.LocOf(st.Node)
			if !ok {
				c.Undecided("gate-update-once", cons, st.Node.Pos(), m, "update not located in the function's CFG (inside a literal?)")
				continue
			}
			// on every path of the function (with the option on); the decrement only under pollers > 0
			excl := ""
			if want == "p-1" {
				excl = "p==0"
				facts := gr.FactsAt(loc)
				guarded := factMatches(facts, func(fc Fact) bool { return fc.Tag == nil && g.pred(info, fc.Cond, fc.Val) == "p!=0" })
				c.Check(guarded, "poller-decrement-underflow-guard", cons, st.Node.Pos(), m, "dominated by pollers > 0",
					"the poller decrement is not guarded by pollers > 0: a release after AllowRebalance zeroed the count borrows into the rebalance count and blocks polls and rebalances forever")
			}
			path, found := gr.FindPath(Loc{-1, 0}, SearchOpts{
				Stop:     func(n ast.Node) bool { return n == st.Node },
				GoalExit: func(k ExitKind, _ ast.Node) bool { return k != ExitPanic },
				EdgeOK:   g.flagEdges(gr, info, excl),
			})
			c.Check(!found, "gate-update-once", cons, st.Node.Pos(), m, "on every path with the option on",
				"a path through "+c31leaf(key)+" skips the "+want+" update: "+pathStr(path))
			// not twice
			_, again := gr.FindPath(loc, SearchOpts{GoalNode: func(n ast.Node) bool { return n == st.Node }})
			if again {
				c.Fail("gate-update-once", cons+"#loop", st.Node.Pos(), m, "the update can run more than once per call")
			}
			if want == "p-1" || want == "p=0" || want == "r-1" {
				nEnable++
				path, found := gr.FindPath(loc, SearchOpts{
					Stop:     func(n ast.Node) bool { return g.nodeHasCondCall(info, n, "Broadcast") },
					GoalExit: func(ExitKind, ast.Node) bool { return true },
				})
				c.Check(!found, "cond-broadcast-after-enable", cons, st.Node.Pos(), m, "followed by pollWaitC.Broadcast on all paths",
					"the update can enable a waiting poll/rebalance but a path reaches the exit without pollWaitC.Broadcast() (Signal wakes one waiter only; pollers and rebalances wait on the same condition): lost wakeup, the waiter sleeps forever: "+pathStr(path))
			}
		}
		c.Check(len(stores) == 1, "gate-update-effect", key+"#single-update", f.Pos(), m, "one update of the gate word",
			fmt.Sprintf("%d updates of pollWaitState (%v), expected exactly one %s", len(stores), effs, want))
	}
	c.Floor("cond-broadcast-after-enable", nEnable, 3)
}

func (g *c31gate) waits() {
	c, m := g.c, g.m
	want := map[string]string{"kgo.consumer.waitAndAddPoller": "r!=0", "kgo.consumer.waitAndAddRebalanceMaybeSignal": "p!=0"}
	n := 0
	for _, key := range sortedKeys(c31gateFuncs) {
		f := g.fns[key]
		info := f.Info()
		gr := f.Graph()
		pm := parentMap(f.Decl.Body)
		var waits []*ast.CallExpr
		for _, x := range findNodes(f.Decl.Body, true, func(x ast.Node) bool { return g.isCondCall(info, x, "Wait") }) {
			waits = append(waits, x.(*ast.CallExpr))
		}
		wp, waiter := want[key]
		if waiter {
			c.Check(len(waits) >= 1, "cond-wait-in-loop", key+"#waits", f.Pos(), m, "", "the function no longer waits on pollWaitC: polls and rebalances are not held back")
		}
		for i, w := range waits {
			n++
			cons := fmt.Sprintf("%s: pollWaitC.Wait()#%d", key, i+1)
			if !waiter {
				c.Fail("cond-wait-in-loop", cons, w.Pos(), m, "Wait in a gate function that is not modelled as a waiter")
				continue
			}
			var loop *ast.ForStmt
			for p := pm[ast.Node(w)]; p != nil; p = pm[p] {
				if fs, ok := p.(*ast.ForStmt); ok {
					loop = fs
					break
				}
				if _, ok := p.(*ast.FuncLit); ok {
					break
				}
				if _, ok := p.(*ast.RangeStmt); ok {
					break
				}
			}
			if loop == nil || loop.Cond == nil {
				c.Fail("cond-wait-in-loop", cons, w.Pos(), m, "Wait is not inside a `for <condition>` loop: after a wakeup (Broadcast wakes every waiter, for any change) the condition is not re-tested and the caller proceeds although it may not hold")
				continue
			}
			got := g.pred(info, loop.Cond, true)
			if !c.Check(got == wp, "cond-wait-in-loop", cons+" condition", loop.Cond.Pos(), m, "loop condition evaluates to "+wp,
				fmt.Sprintf("the wait loop's condition `%s` evaluates to %q over (pollers, rebalances) samples, expected %s", exprStr(loop.Cond), got, wp)) {
				continue
			}
			wl, ok := gr.LocOf(w)
			if !ok {
				c.Undecided("cond-wait-in-loop", cons, w.Pos(), m, "Wait not located in the CFG")
				continue
			}
			path, found := gr.FindPath(wl, SearchOpts{
				Stop:     func(x ast.Node) bool { return x == ast.Node(loop.Cond) },
				GoalExit: func(ExitKind, ast.Node) bool { return true },
			})
			c.Check(!found, "cond-wait-in-loop", cons, w.Pos(), m, "every path from Wait re-tests the loop condition",
				"after Wait returns a path leaves the loop without re-testing the condition: "+pathStr(path))
			held, okh := newLockEnv(f, nil, nil).HeldAtNode(w)
			base := ""
			if cs, ok := unparen(unparen(w.Fun).(*ast.SelectorExpr).X).(*ast.SelectorExpr); ok {
				base = canonPath(f, cs.X)
			}
			c.Check(okh && base != "" && held.Holds(base+".pollWaitMu", true), "cond-wait-in-loop", cons+" holds pollWaitMu", w.Pos(), m, "", "Wait without pollWaitMu held")
			stores := storesTo(f.Decl.Body, info, g.state, true)
			switch key {
			case "kgo.consumer.waitAndAddPoller":
				facts := gr.FactsAt(wl)
				joins := factMatches(facts, func(fc Fact) bool { return fc.Tag == nil && g.pred(info, fc.Cond, fc.Val) == "p==0" })
				c.Check(joins, "poll-joins-outstanding-poller", cons, w.Pos(), m, "waits only under pollers == 0",
					"a poll waits for pending rebalances even when another poll is already outstanding: the pending rebalance waits for that outstanding poll (AllowRebalance), which the same poll loop can only call after this poll returns: circular wait (poll; poll; AllowRebalance deadlocks when a rebalance becomes pending in between)")
				for _, st := range stores {
					if sl, ok := gr.LocOf(st.Node); ok {
						_, bad := gr.FindPath(sl, SearchOpts{GoalNode: func(x ast.Node) bool { return g.nodeHasCondCall(info, x, "Wait") }})
						c.Check(!bad, "poll-counts-after-wait", key+": "+nodeStr(st.Node), st.Node.Pos(), m, "the poller is counted after the wait",
							"the poller is counted before it waits for the rebalance: the rebalance waits for pollers == 0 while this poller waits for rebalances == 0: deadlock")
					}
				}
			case "kgo.consumer.waitAndAddRebalanceMaybeSignal":
				for _, st := range stores {
					if sl, ok := gr.LocOf(st.Node); ok {
						c.Check(gr.Dominates(sl, wl), "rebalance-counts-before-wait", key+": "+nodeStr(st.Node), st.Node.Pos(), m, "the rebalance is counted before it waits",
							"the rebalance is not counted before it waits for the pollers: a pending rebalance is invisible to new polls, which keep adding pollers (the rebalance starves and polls do not wait while a rebalance is pending)")
					}
				}
			}
		}
	}
	c.Floor("cond-wait-in-loop", n, 2)
}

// condUse: pollWaitC is created once over &pollWaitMu and only used for Wait/Broadcast in the gate functions.
func (g *c31gate) condUse() {
	c, m := g.c, g.m
	nUse, nStore := 0, 0
	// Module.funcs leaves out methods named init: walk the syntax for the stores.
	var all []*Func
	if pkg := m.Pkg("kgo"); pkg != nil {
		for _, file := range pkg.Syntax {
			for _, d := range file.Decls {
				if fd, ok := d.(*ast.FuncDecl); ok && fd.Body != nil {
					obj, _ := pkg.TypesInfo.Defs[fd.Name].(*types.Func)
					all = append(all, &Func{Key: funcKey("kgo", fd), Pkg: pkg, Decl: fd, Obj: obj, mod: m})
				}
			}
		}
	}
	for _, f := range all {
		info := f.Info()
		for _, st := range storesTo(f.Decl.Body, info, g.cond, true) {
			nStore++
			cons := f.Key + ": " + nodeStr(st.Node)
			okc := false
			if call, ok := unparen(st.RHS).(*ast.CallExpr); ok && st.Kind == "assign" && calleeName(info, call) == "sync.NewCond" && len(call.Args) == 1 {
				if u, ok := unparen(call.Args[0]).(*ast.UnaryExpr); ok && u.Op == token.AND && sameField(fieldOfSel(info, u.X), g.mu) {
					if ls, ok := unparen(st.LHS).(*ast.SelectorExpr); ok {
						okc = canonPath(f, ls.X) == canonPath(f, unparen(u.X).(*ast.SelectorExpr).X)
					}
				}
			}
			c.Check(okc && f.Key == "kgo.consumer.init", "cond-bound-to-gate-mutex", cons, st.Node.Pos(), m, "sync.NewCond(&pollWaitMu) in consumer.init",
				"pollWaitC is not (only) created as sync.NewCond(&<same consumer>.pollWaitMu) in consumer.init: Wait would release a different lock than the one guarding pollWaitState")
		}
	}
	for _, f := range all {
		info := f.Info()
		for _, x := range findNodes(f.Decl.Body, true, func(x ast.Node) bool { return g.isCondCall(info, x, "") }) {
			nUse++
			call := x.(*ast.CallExpr)
			name := unparen(call.Fun).(*ast.SelectorExpr).Sel.Name
			_, known := c31gateFuncs[f.Key]
			cons := fmt.Sprintf("%s: pollWaitC.%s", f.Key, name)
			switch {
			case !known:
				c.Fail("cond-use", cons, call.Pos(), m, "pollWaitC is used outside the five gate functions")
			case name == "Signal":
				c.Fail("cond-use", cons, call.Pos(), m, "pollWaitC.Signal wakes a single waiter: pollers and rebalances (and several of each) wait on the same condition variable, the one woken may be unable to proceed while the one that could proceed keeps sleeping")
			case name == "Wait" || name == "Broadcast":
				c.OK("cond-use", cons, call.Pos(), m, "")
			default:
				c.Undecided("cond-use", cons, call.Pos(), m, "unknown use of the condition variable")
			}
		}
		// the condition variable must not escape (copied into another variable / passed on)
		pm := parentMap(f.Decl.Body)
		for _, r := range readsOf(f.Decl.Body, info, g.cond, true) {
			sel, isSel := pm[r].(*ast.SelectorExpr)
			isLHS := false
			if as, ok := pm[r].(*ast.AssignStmt); ok {
				for _, l := range as.Lhs {
					if l == r {
						isLHS = true
					}
				}
			}
			if (isSel && sel.X == r) || isLHS {
				continue
			}
			c.Fail("cond-use", f.Key+": "+c31short(pm[r]), r.Pos(), m, "pollWaitC escapes (copied or passed on): its Wait/Broadcast/Signal uses can no longer be enumerated")
		}
	}
	c.Check(nStore == 1, "cond-bound-to-gate-mutex", "kgo.consumer.pollWaitC#stores", token.NoPos, m, "", fmt.Sprintf("%d stores to pollWaitC, expected one", nStore))
	c.Floor("cond-use", nUse, 4)
}

// configGuard: with the option on, every path of a gate function takes the mutex
// (no inverted / partial early return).
func (g *c31gate) configGuard() {
	c, m := g.c, g.m
	for _, key := range sortedKeys(c31gateFuncs) {
		f := g.fns[key]
		info := f.Info()
		gr := f.Graph()
		isLock := func(n ast.Node) bool {
			return containsNode(n, false, func(x ast.Node) bool {
				call, ok := x.(*ast.CallExpr)
				if !ok {
					return false
				}
				sel, ok := unparen(call.Fun).(*ast.SelectorExpr)
				return ok && sel.Sel.Name == "Lock" && sameField(fieldOfSel(info, sel.X), g.mu)
			})
		}
		path, found := gr.FindPath(Loc{-1, 0}, SearchOpts{Stop: isLock, GoalExit: func(ExitKind, ast.Node) bool { return true }, EdgeOK: g.flagEdges(gr, info, "")})
		c.Check(!found, "gate-active-under-option", key, f.Pos(), m, "with BlockRebalanceOnPoll every path enters the gate",
			"with BlockRebalanceOnPoll set a path returns without entering the gate: "+pathStr(path))
		// and without the option it is a no-op in all five or in none (asymmetry would unbalance the counts) -- the early return tests the flag only
		hasEarly := false
		if len(f.Decl.Body.List) > 0 {
			if ifs, ok := f.Decl.Body.List[0].(*ast.IfStmt); ok {
				fs := decompose(ifs.Cond, true, nil)
				if len(fs) == 1 && sameField(fieldOfSel(info, fs[0].Cond), g.flag) && !fs[0].Val && len(ifs.Body.List) == 1 {
					if _, isRet := ifs.Body.List[0].(*ast.ReturnStmt); isRet {
						hasEarly = true
					}
				}
			}
		}
		c.Check(hasEarly, "gate-active-under-option", key+"#noop-without-option", f.Pos(), m, "", "the function does not start with `if !cfg.blockRebalanceOnPoll { return }` like its four siblings: counts taken without the option are never released (or the reverse)")
	}
}

// wrappers: waitAndAddRebalance / waitAndAddRebalanceSilent only forward to the modelled function.
func (g *c31gate) wrappers() {
	c, m := g.c, g.m
	target := g.fns["kgo.consumer.waitAndAddRebalanceMaybeSignal"]
	for _, key := range []string{"kgo.consumer.waitAndAddRebalance", "kgo.consumer.waitAndAddRebalanceSilent"} {
		f := c.NeedFunc(m, key)
		if f == nil {
			continue
		}
		okw := len(f.Decl.Body.List) == 1
		if okw {
			es, isE := f.Decl.Body.List[0].(*ast.ExprStmt)
			okw = isE
			if isE {
				call, isC := es.X.(*ast.CallExpr)
				okw = isC && isCallTo(f.Info(), call, target.Obj)
			}
		}
		c.Check(okw, "gate-wrapper", key, f.Pos(), m, "forwards to waitAndAddRebalanceMaybeSignal", "the wrapper does more than forwarding to waitAndAddRebalanceMaybeSignal: not covered by the gate model")
	}
}

// ---------------------------------------------------------------------------
// (3) poll side enclosure

func (g *c31gate) pollSide() {
	c, m := g.c, g.m
	f := c.NeedFunc(m, "kgo.Client.PollRecords")
	if f == nil {
		return
	}
	info := f.Info()
	addObj, unaddObj := g.fns["kgo.consumer.waitAndAddPoller"].Obj, g.fns["kgo.consumer.unaddPoller"].Obj
	hasCall := func(n ast.Node, obj types.Object) bool {
		if _, isDefer := n.(*ast.DeferStmt); isDefer {
			return false
		}
		if _, isGo := n.(*ast.GoStmt); isGo {
			return false
		}
		return containsNode(n, false, func(x ast.Node) bool {
			call, ok := x.(*ast.CallExpr)
			return ok && isCallTo(info, call, obj)
		})
	}
	// call sites of the poller functions anywhere in kgo
	for _, fn := range m.FuncsIn("kgo") {
		for _, call := range callsTo(fn.Decl.Body, fn.Info(), unaddObj, true) {
			c.Check(fn.Key == f.Key, "poll-unadd-iff-empty", fn.Key+": unaddPoller call site", call.Pos(), m, "in PollRecords", "unaddPoller is called outside PollRecords: the rule tables do not cover this release of a poller")
		}
		for _, call := range callsTo(fn.Decl.Body, fn.Info(), addObj, true) {
			c.Check(fn.Key == f.Key, "poll-adds-before-take", fn.Key+": waitAndAddPoller call site", call.Pos(), m, "in PollRecords", "waitAndAddPoller is called outside PollRecords: the rule tables do not cover this poller")
		}
	}
	// the returned variable
	var retObj types.Object
	var rets []*ast.ReturnStmt
	for _, x := range findNodes(f.Decl.Body, false, func(x ast.Node) bool { _, ok := x.(*ast.ReturnStmt); return ok }) {
		rets = append(rets, x.(*ast.ReturnStmt))
	}
	for _, r := range rets {
		if len(r.Results) == 1 {
			if id, ok := unparen(r.Results[0]).(*ast.Ident); ok {
				if v, ok := info.Uses[id].(*types.Var); ok && !v.IsField() {
					if retObj != nil && retObj != v {
						c.Undecided("poll-return-holds-poller", f.Key+"#returned-variable", r.Pos(), m, "two different variables are returned")
						return
					}
					retObj = v
				}
			}
		}
	}
	if retObj == nil {
		c.Undecided("poll-return-holds-poller", f.Key+"#returned-variable", f.Pos(), m, "PollRecords no longer returns a local fetches variable")
		return
	}
	// takes
	var takes []ast.Node
	for _, name := range []string{"takeBuffered", "takeNBuffered"} {
		obj := m.Method("kgo", "source", name)
		if obj == nil {
			c.Undecided("anchor", "kgo.source."+name, token.NoPos, m, "take function not found")
			continue
		}
		for _, call := range callsTo(f.Decl.Body, info, obj, true) {
			takes = append(takes, call)
		}
	}
	fake := m.Field("kgo", "consumer", "fakeReadyForDraining")
	if fake == nil {
		c.Undecided("anchor", "kgo.consumer.fakeReadyForDraining", token.NoPos, m, "field not found")
	} else {
		pm := parentMap(f.Decl.Body)
		writes := map[ast.Node]bool{}
		for _, st := range storesTo(f.Decl.Body, info, fake, true) {
			if st.LHS != nil {
				writes[unparen(st.LHS)] = true
			}
		}
		for _, r := range readsOf(f.Decl.Body, info, fake, true) {
			if writes[r] {
				continue
			}
			if call, ok := pm[r].(*ast.CallExpr); ok {
				if id, ok := unparen(call.Fun).(*ast.Ident); ok && id.Name == "len" {
					continue
				}
			}
			takes = append(takes, r)
		}
	}
	var fillLit *ast.FuncLit
	for i, tk := range takes {
		cons := fmt.Sprintf("%s: take#%d %s", f.Key, i+1, c31short(tk))
		lit := innermostLit(f, tk)
		gr := f.GraphFor(tk)
		path, found := gr.FindPath(Loc{-1, 0}, SearchOpts{
			Stop:     func(n ast.Node) bool { return hasCall(n, addObj) },
			GoalNode: func(n ast.Node) bool { return containsNode(n, false, func(x ast.Node) bool { return x == tk }) },
			EdgeOK:   g.flagEdges(gr, info, ""),
		})
		c.Check(!found, "poll-adds-before-take", cons, tk.Pos(), m, "dominated by waitAndAddPoller under the option",
			"buffered fetches are taken before the poll is registered at the gate: a rebalance can run its revocation while this poll is holding (and about to return) the records: "+pathStr(path))
		if lit != nil {
			if fillLit != nil && fillLit != lit {
				c.Undecided("poll-adds-before-take", cons+"#closure", tk.Pos(), m, "takes are spread over several closures")
			}
			fillLit = lit
		}
	}
	c.Floor("poll-adds-before-take", len(takes), 3)
	if fillLit == nil {
		c.Undecided("poll-unadd-iff-empty", f.Key+"#fill", f.Pos(), m, "the fill closure was not found")
		return
	}
	fillCalls := closureCallSites(f, fillLit)
	c.Check(len(fillCalls) >= 1, "poll-unadd-iff-empty", f.Key+"#fill-calls", fillLit.Pos(), m, "", "the fill closure escapes or is never called")
	isFillCall := func(n ast.Node) bool {
		return containsNode(n, false, func(x ast.Node) bool {
			for _, fc := range fillCalls {
				if x == ast.Node(fc) {
					return true
				}
			}
			return false
		})
	}
	// the returned slice is written only inside fill
	nW := 0
	ast.Inspect(f.Decl.Body, func(x ast.Node) bool {
		as, ok := x.(*ast.AssignStmt)
		if !ok {
			return true
		}
		for _, l := range as.Lhs {
			if id, ok := unparen(l).(*ast.Ident); ok && (info.Uses[id] == retObj || info.Defs[id] == retObj) {
				nW++
				c.Check(innermostLit(f, as) == fillLit, "poll-unadd-iff-empty", fmt.Sprintf("%s: %s#%d", f.Key, c31short(as), nW), as.Pos(), m, "written inside fill",
					"the returned fetches are changed outside the fill closure, after its deferred emptiness test decided whether the poller stays registered")
			}
		}
		return true
	})
	// unaddPoller sites
	lenEnv := func(l uint64) *c31env {
		return &c31env{info: info, lenOf: func(o types.Object) (c31val, bool) {
			if o == retObj {
				return c31int(l), true
			}
			return c31unknown, false
		}}
	}
	isEmptyFact := func(fc Fact, wantEmpty bool) bool {
		if fc.Tag != nil {
			return false
		}
		for _, l := range []uint64{0, 1, 2, 7} {
			v := lenEnv(l).eval(fc.Cond)
			if v.k != 2 || (v.b == fc.Val) != ((l == 0) == wantEmpty) {
				return false
			}
		}
		return true
	}
	unadds := callsTo(f.Decl.Body, info, unaddObj, true)
	pm := parentMap(f.Decl.Body)
	for i, u := range unadds {
		cons := fmt.Sprintf("%s: unaddPoller()#%d", f.Key, i+1)
		lit := innermostLit(f, u)
		var deferStmt *ast.DeferStmt
		if lit != nil {
			if call, ok := pm[lit].(*ast.CallExpr); ok && call.Fun == ast.Expr(lit) {
				deferStmt, _ = pm[call].(*ast.DeferStmt)
			}
		}
		if deferStmt == nil || innermostLit(f, deferStmt) != fillLit {
			c.Fail("poll-unadd-iff-empty", cons, u.Pos(), m, "unaddPoller is not called from a literal deferred by the fill closure: it does not run after the takes decided what is returned")
			continue
		}
		lg := f.LitGraph(lit)
		ul, _ := lg.LocOf(u)
		onlyEmpty := factMatches(lg.FactsAt(ul), func(fc Fact) bool { return isEmptyFact(fc, true) })
		c.Check(onlyEmpty, "poll-unadd-iff-empty", cons+" only-when-empty", u.Pos(), m, "guarded by len(fetches) == 0",
			"the poller is released although the poll returns records: the rebalance's revocation may run while the application still processes them (before AllowRebalance)")
		path, found := lg.FindPath(Loc{-1, 0}, SearchOpts{
			Stop:     func(n ast.Node) bool { return hasCall(n, unaddObj) },
			GoalExit: func(ExitKind, ast.Node) bool { return true },
			EdgeOK: func(from *cfg.Block, k int, to *cfg.Block) bool {
				cond, tag, ok := lg.condOf(from)
				if !ok || tag != nil {
					return true
				}
				for _, fc := range decompose(cond, k == 0, nil) {
					if isEmptyFact(fc, false) {
						return false
					}
				}
				return true
			},
		})
		c.Check(!found, "poll-unadd-iff-empty", cons+" always-when-empty", u.Pos(), m, "runs on every path with an empty result",
			"a poll that returns nothing keeps its poller registered (the application has nothing to process and need not call AllowRebalance): rebalances stay blocked: "+pathStr(path))
		// registered on every path after waitAndAddPoller
		fg := f.LitGraph(fillLit)
		for _, a := range callsTo(fillLit.Body, info, addObj, false) {
			al, ok := fg.LocOf(a)
			if !ok {
				continue
			}
			path, found := fg.FindPath(al, SearchOpts{
				Stop:     func(n ast.Node) bool { return n == ast.Node(deferStmt) },
				GoalExit: func(ExitKind, ast.Node) bool { return true },
				GoalNode: func(n ast.Node) bool {
					for _, tk := range takes {
						if containsNode(n, false, func(x ast.Node) bool { return x == tk }) {
							return true
						}
					}
					return false
				},
			})
			c.Check(!found, "poll-unadd-iff-empty", cons+" registered-after-add", deferStmt.Pos(), m, "the release is deferred right after the poller is added",
				"after waitAndAddPoller a path reaches a take or the exit without the deferred release being registered: "+pathStr(path))
		}
	}
	c.Floor("poll-unadd-iff-empty", len(unadds), 1)
	// returns of the main body
	mg := f.Graph()
	share := m.Field("kgo", "consumer", "s")
	for i, r := range rets {
		cons := fmt.Sprintf("%s: return#%d %s", f.Key, i+1, c31short(r))
		rl, ok := mg.LocOf(r)
		if !ok {
			c.Undecided("poll-return-holds-poller", cons, r.Pos(), m, "return not located")
			continue
		}
		if len(r.Results) != 1 {
			c.Undecided("poll-return-holds-poller", cons, r.Pos(), m, "unexpected result list")
			continue
		}
		res := unparen(r.Results[0])
		if id, ok := res.(*ast.Ident); ok && info.Uses[id] == retObj {
			// must follow a fill() call
			dom := false
			for _, fc := range fillCalls {
				if fl, ok := mg.LocOf(fc); ok && mg.Dominates(fl, rl) {
					dom = true
				}
			}
			c.Check(dom, "poll-return-holds-poller", cons, r.Pos(), m, "returns what fill decided", "fetches are returned without running fill (whose deferred test keeps or releases the poller)")
			continue
		}
		if share != nil && factMatches(mg.FactsAt(rl), func(fc Fact) bool {
			be, ok := unparen(fc.Cond).(*ast.BinaryExpr)
			return ok && fc.Tag == nil && be.Op == token.NEQ && fc.Val && sameField(fieldOfSel(info, be.X), share) && exprStr(be.Y) == "nil"
		}) {
			c.OK("poll-return-holds-poller", cons, r.Pos(), m, "share-group consumer: the gate is not used")
			continue
		}
		okr := false
		for _, a := range callsTo(f.Decl.Body, info, addObj, false) {
			al, ok := mg.LocOf(a)
			if !ok || !mg.Dominates(al, rl) {
				continue
			}
			_, bad := mg.FindPath(al, SearchOpts{
				Stop:     func(n ast.Node) bool { return n == ast.Node(r) },
				GoalNode: func(n ast.Node) bool { return isFillCall(n) || hasCall(n, unaddObj) },
			})
			if !bad {
				okr = true
			}
		}
		c.Check(okr, "poll-return-holds-poller", cons, r.Pos(), m, "registers a poller immediately before returning the error fetch",
			"a non-empty (error) fetch is returned without registering a poller: the documented contract (every returned fetch blocks rebalances until AllowRebalance) is broken and the application's AllowRebalance / the gate counts no longer pair up")
	}
	c.Floor("poll-return-holds-poller", len(rets), 5)
	// PollFetches forwards
	if pf := c.NeedFunc(m, "kgo.Client.PollFetches"); pf != nil {
		n := len(callsTo(pf.Decl.Body, pf.Info(), f.Obj, true))
		c.Check(n == 1 && len(pf.Decl.Body.List) == 1, "poll-adds-before-take", pf.Key+"#forwards", pf.Pos(), m, "forwards to PollRecords", "PollFetches no longer simply forwards to PollRecords")
	}
}

func (g *c31gate) allowWiring() {
	c, m := g.c, g.m
	allowObj := g.fns["kgo.consumer.allowRebalance"].Obj
	mustCall := func(key string, obj types.Object, what string) *Func {
		f := c.NeedFunc(m, key)
		if f == nil || obj == nil {
			return nil
		}
		info := f.Info()
		gr := f.Graph()
		path, found := gr.FindPath(Loc{-1, 0}, SearchOpts{
			Stop: func(n ast.Node) bool {
				if _, isDefer := n.(*ast.DeferStmt); isDefer {
					return false
				}
				return containsNode(n, false, func(x ast.Node) bool { call, ok := x.(*ast.CallExpr); return ok && isCallTo(info, call, obj) })
			},
			GoalExit: func(ExitKind, ast.Node) bool { return true },
		})
		c.Check(!found, "allow-rebalance-wiring", key, f.Pos(), m, "calls "+what+" on every path", "a path does not reach "+what+": outstanding polls are never released, pending rebalances block forever: "+pathStr(path))
		return f
	}
	mustCall("kgo.Client.AllowRebalance", allowObj, "consumer.allowRebalance")
	var clAllow types.Object
	if f := m.Func("kgo.Client.AllowRebalance"); f != nil {
		clAllow = f.Obj
	}
	mustCall("kgo.GroupTransactSession.AllowRebalance", clAllow, "Client.AllowRebalance")
	if f := mustCall("kgo.Client.CloseAllowingRebalance", clAllow, "Client.AllowRebalance"); f != nil {
		info := f.Info()
		gr := f.Graph()
		closeObj := m.Method("kgo", "Client", "Close")
		var al, cl []Loc
		for _, x := range callsTo(f.Decl.Body, info, clAllow, false) {
			if l, ok := gr.LocOf(x); ok {
				al = append(al, l)
			}
		}
		for _, x := range callsTo(f.Decl.Body, info, closeObj, false) {
			if l, ok := gr.LocOf(x); ok {
				cl = append(cl, l)
			}
		}
		okc := len(cl) >= 1
		for _, l := range cl {
			d := false
			for _, a := range al {
				if gr.Dominates(a, l) {
					d = true
				}
			}
			okc = okc && d
		}
		c.Check(okc, "allow-rebalance-wiring", f.Key+"#before-close", f.Pos(), m, "AllowRebalance precedes Close", "CloseAllowingRebalance does not allow rebalances before Close: Close waits for the group's final revoke, which waits for the outstanding poll: hang")
	}
}

func (g *c31gate) rebalancePairing() {
	c, m := g.c, g.m
	unadd := g.fns["kgo.consumer.unaddRebalance"].Obj
	var adds []types.Object
	skip := map[string]bool{}
	for _, k := range []string{"kgo.consumer.waitAndAddRebalance", "kgo.consumer.waitAndAddRebalanceSilent", "kgo.consumer.waitAndAddRebalanceMaybeSignal"} {
		if f := m.Func(k); f != nil {
			adds = append(adds, f.Obj)
			skip[k] = true
		}
	}
	isAdd := func(info *types.Info, x ast.Node) bool {
		call, ok := x.(*ast.CallExpr)
		if !ok {
			return false
		}
		for _, o := range adds {
			if isCallTo(info, call, o) {
				return true
			}
		}
		return false
	}
	nAdd, nUn := 0, 0
	for _, f := range m.FuncsIn("kgo") {
		if skip[f.Key] {
			continue
		}
		info := f.Info()
		seen := map[string]int{}
		for _, x := range findNodes(f.Decl.Body, true, func(x ast.Node) bool { return isAdd(info, x) }) {
			nAdd++
			c.Touch(f)
			cons := f.Key + ": " + exprStr(x)
			seen[cons]++
			if seen[cons] > 1 {
				cons += fmt.Sprintf("#%d", seen[cons])
			}
			gr := f.GraphFor(x)
			l, ok := gr.LocOf(x)
			if !ok {
				c.Undecided("rebalance-add-unadd-paired", cons, x.Pos(), m, "call not located in a CFG")
				continue
			}
			path, found := gr.FindPath(l, SearchOpts{
				Stop: func(n ast.Node) bool {
					return containsNode(n, false, func(y ast.Node) bool { call, ok := y.(*ast.CallExpr); return ok && isCallTo(info, call, unadd) })
				},
				GoalExit: func(k ExitKind, _ ast.Node) bool { return k != ExitPanic },
			})
			c.Check(!found, "rebalance-add-unadd-paired", cons, x.Pos(), m, "followed by unaddRebalance on all paths",
				"a path leaves the rebalance section without unaddRebalance: the rebalance count stays non-zero and every later poll blocks forever: "+pathStr(path))
		}
		seen = map[string]int{}
		for _, u := range callsTo(f.Decl.Body, info, unadd, true) {
			nUn++
			cons := f.Key + ": " + exprStr(u)
			seen[cons]++
			if seen[cons] > 1 {
				cons += fmt.Sprintf("#%d", seen[cons])
			}
			gr := f.GraphFor(u)
			ul, ok := gr.LocOf(u)
			dom := false
			if ok {
				for _, x := range findNodes(gr.Body, false, func(x ast.Node) bool { return isAdd(info, x) }) {
					if xl, ok := gr.LocOf(x); ok && gr.Dominates(xl, ul) {
						dom = true
					}
				}
			}
			c.Check(dom, "rebalance-add-unadd-paired", cons+" has-add", u.Pos(), m, "dominated by its waitAndAddRebalance",
				"unaddRebalance can run without a preceding waitAndAddRebalance in the same body: the rebalance count underflows (2^32-1 pending rebalances), polls block forever")
		}
	}
	c.Floor("rebalance-add-unadd-paired", nAdd, 6)
	c.Floor("rebalance-add-unadd-paired(unadd)", nUn, 6)
}

// ---------------------------------------------------------------------------
// (4) bounded exploration of the extracted gate model

// c31modelsEnabled gates the bounded explicit-state exploration of the
// extracted models.  It is off: exploring interleavings of an extracted model
// is model checking, a different family of technique than the one this
// verification effort studies (static analysis); the structural and per-path
// rules above and in c31_xsync.go are the claimed check.  The code is kept
// for reference only.
const c31modelsEnabled = false

func (g *c31gate) explore() {
	if !c31modelsEnabled {
		return
	}
	c, m := g.c, g.m
	info := g.fns["kgo.consumer.unaddPoller"].Info()
	b := &c31bind{info: info,
		ints:  map[string]*types.Var{"pollWaitState": g.state},
		locks: map[string]*types.Var{"pollWaitMu": g.mu},
		conds: map[string]*types.Var{"pollWaitC": g.cond},
		flags: map[string]*types.Var{"blockRebalanceOnPoll": g.flag},
		chans: map[string]*types.Var{},
	}
	progs := map[string]*c31prog{}
	okAll := true
	for _, key := range sortedKeys(c31gateFuncs) {
		p := c31compile(g.fns[key], b)
		progs[c31leaf(key)] = p
		if len(p.errs) > 0 {
			okAll = false
			c.Undecided("gate-model", key+"#extract", g.fns[key].Pos(), m, "the function uses constructs the model extractor does not cover: "+strings.Join(p.errs, "; "))
		} else {
			c.OK("gate-model", key+"#extract", g.fns[key].Pos(), m, fmt.Sprintf("%d model instructions", len(p.ins)))
		}
	}
	if !okAll {
		return
	}
	call := func(n string) c31item { return c31item{call: n} }
	gh := func(s string) c31item { return c31item{ghost: s} }
	pollRecords := []c31item{call("waitAndAddPoller"), gh("outstanding+")}                                  // a poll that returns records
	pollEmpty := []c31item{call("waitAndAddPoller"), gh("inflight+"), gh("inflight-"), call("unaddPoller")} // a poll that returns nothing
	allow := []c31item{gh("outstanding=0"), call("allowRebalance")}
	reb := []c31item{call("waitAndAddRebalanceMaybeSignal"), gh("revoking+"), gh("revoking-"), call("unaddRebalance")}
	seq := func(parts ...[]c31item) []c31item {
		var out []c31item
		for _, p := range parts {
			out = append(out, p...)
		}
		return out
	}
	inv := func(gm map[string]int) string {
		if gm["revoking"] > 0 && gm["outstanding"] > 0 {
			return "a rebalance is inside its revocation section (between waitAndAddRebalance and unaddRebalance) while a poll that returned records is outstanding (no AllowRebalance yet)"
		}
		if gm["revoking"] > 0 && gm["inflight"] > 0 {
			return "a rebalance is inside its revocation section while a poll is between waitAndAddPoller and unaddPoller (taking buffered fetches)"
		}
		return ""
	}
	scen := []struct {
		name string
		thr  [][]c31item
	}{
		// AllowRebalance means "all pollers are done": scenarios never call it while another goroutine's poll is in flight.
		{"poll;poll;AllowRebalance || rebalance || rebalance", [][]c31item{seq(pollRecords, pollRecords, allow), reb, reb}},
		{"poll;AllowRebalance;poll;AllowRebalance || rebalance;rebalance", [][]c31item{seq(pollRecords, allow, pollRecords, allow), seq(reb, reb)}},
		{"emptypoll;poll;AllowRebalance;emptypoll || rebalance || rebalance", [][]c31item{seq(pollEmpty, pollRecords, allow, pollEmpty), reb, reb}},
		{"poll;emptypoll;AllowRebalance;emptypoll || rebalance || rebalance", [][]c31item{seq(pollRecords, pollEmpty, allow, pollEmpty), reb, reb}},
		{"emptypoll || emptypoll || rebalance || rebalance", [][]c31item{pollEmpty, pollEmpty, reb, reb}},
		{"emptypoll;emptypoll || emptypoll || rebalance;rebalance", [][]c31item{seq(pollEmpty, pollEmpty), pollEmpty, seq(reb, reb)}},
	}
	// AllowRebalance while another goroutine's poll is in flight violates the contract; unaddPoller documents that
	// this must still not wedge the gate (no underflow): only deadlock freedom is checked for it.
	const tolerated = "(contract violation, deadlock freedom only) "
	scen = append(scen, struct {
		name string
		thr  [][]c31item
	}{tolerated + "poll;AllowRebalance;emptypoll || emptypoll || rebalance", [][]c31item{seq(pollRecords, allow, pollEmpty), pollEmpty, reb}})
	if c.thorough() {
		scen = append(scen, []struct {
			name string
			thr  [][]c31item
		}{
			{"poll;poll;AllowRebalance;poll;AllowRebalance || rebalance;rebalance || rebalance", [][]c31item{seq(pollRecords, pollRecords, allow, pollRecords, allow), seq(reb, reb), reb}},
			{"emptypoll;emptypoll || emptypoll;emptypoll || rebalance;rebalance || rebalance", [][]c31item{seq(pollEmpty, pollEmpty), seq(pollEmpty, pollEmpty), seq(reb, reb), reb}},
			{"emptypoll || emptypoll || emptypoll || rebalance || rebalance", [][]c31item{pollEmpty, pollEmpty, pollEmpty, reb, reb}},
		}...)
	}
	total := 0
	for _, s := range scen {
		sc := &c31scenario{name: s.name, threads: s.thr, progs: progs, bind: b, chans: map[string]c31chanSpec{}, ints: map[string]uint64{"pollWaitState": 0}, invariant: inv}
		if strings.HasPrefix(s.name, tolerated) {
			sc.invariant = nil
		}
		res := c31explore(sc, map[string]string{"pollWaitC": "pollWaitMu"}, []string{"outstanding", "inflight", "revoking"}, c31budget(c))
		total += res.states
		cons := "gate scenario: " + s.name
		c31debug("%s: states=%d err=%s", cons, res.states, res.err)
		if res.err == "" {
			c.OK("gate-model", cons, g.state.Pos(), m, fmt.Sprintf("%d states, no violation, no deadlock", res.states))
		} else if strings.HasPrefix(res.err, "state space") || strings.Contains(res.err, "not computable") {
			c.Undecided("gate-model", cons, g.state.Pos(), m, res.err)
		} else {
			c.Fail("gate-model", cons, g.state.Pos(), m, res.err+" -- schedule: "+c31traceStr(res.trace))
		}
	}
	c.Set("gate_model_states", total)
}

// c31aliases: the default build uses the standard library's mutexes.
func c31aliases(c *Ctx, m *Module) {
	if strings.Contains(m.Tags, "synctests") {
		// the thorough tier re-runs the property with the tag as the base configuration:
		// there the channel implementation is the one in use and c31xsync analyses it.
		return
	}
	for _, n := range []string{"Mutex", "RWMutex"} {
		obj := m.Object("xsync", n)
		tn, _ := obj.(*types.TypeName)
		okA := tn != nil && tn.IsAlias()
		if okA {
			t := types.Unalias(tn.Type())
			named, isN := t.(*types.Named)
			okA = isN && named.Obj().Pkg() != nil && named.Obj().Pkg().Path() == "sync" && named.Obj().Name() == n
		}
		pos := token.NoPos
		if obj != nil {
			pos = obj.Pos()
		}
		c.Check(okA, "xsync-default-is-sync", "xsync."+n, pos, m, "alias of sync."+n+" without the synctests tag", "without the synctests tag xsync."+n+" is not an alias of sync."+n+": every lock of the client changes behaviour, and the channel implementation's rules below would have to hold for the default build too")
	}
}

var _ = sort.Strings

func c31budget(c *Ctx) int {
	if c.thorough() {
		return 4000000
	}
	return 400000
}

func c31debug(format string, args ...any) {
	if os.Getenv("C31_DEBUG") != "" {
		fmt.Fprintf(os.Stderr, "c31: "+format+"\n", args...)
	}
}
