package main

import (
	"fmt"
	"go/ast"
	"go/token"
	"go/types"
)

// ---- (7) compression-bounds ----

func (e *c19env) ruleBounds(fD, fX *Func) {
	c, m := e.c, e.m
	rule := "compression-bounds"
	total := 0
	// entry fact of xerialDecode: every call site proves len(src) >= 16
	var entry []dbc
	srcParam := e.param(fX, 1)
	nsites := 0
	allOK := true
	for _, s := range CallSites(e.funcs, fX.Obj) {
		nsites++
		call := s.Node.(*ast.CallExpr)
		f := s.Fn
		g := f.GraphFor(call)
		l, _ := g.LocOf(call)
		info := f.Info()
		arg := exprStr(call.Args[1])
		good := false
		for _, r := range c19upper(g.FactsAt(l)) {
			// k <= len(arg) / k < len(arg)
			ln, ok := unparen(r.b).(*ast.CallExpr)
			if !ok || exprStr(ln.Fun) != "len" || len(ln.Args) != 1 || exprStr(ln.Args[0]) != arg {
				continue
			}
			if k, ok := constInt(info, r.a); ok && k >= 16 {
				good = true
			}
		}
		// the argument must not be reassigned between the guard and the call: it is a parameter never assigned
		if o := c19objOf(info, call.Args[1]); o == nil || len(assignsTo(f, o)) > 0 {
			good = false
		}
		total++
		if !c.Check(good, rule, fmt.Sprintf("%s: xerialDecode call #%d", f.Key, nsites), call.Pos(), m, "len(src) >= 16 at the call",
			"xerialDecode skips a 16 byte header with src[16:] but this call site does not establish len(src) >= 16: a short xerial-prefixed input panics") {
			allOK = false
		}
	}
	c.Floor(rule+"/xerial-callers", nsites, 1)
	if allOK && nsites > 0 && srcParam != nil {
		entry = []dbc{{fmt.Sprintf("len(%s#%d)", srcParam.Name(), srcParam.Pos()), "", 16, "every caller: len(src) >= 16"}}
	}
	emit := func(f *Func, sinks []Sink, exempt map[string]string) {
		seen := map[string]int{}
		for _, s := range sinks {
			cons := f.Key + ": " + s.Desc
			seen[cons]++
			if seen[cons] > 1 {
				cons = fmt.Sprintf("%s #%d", cons, seen[cons])
			}
			total++
			if s.OK {
				c.OK(rule, cons, s.Node.Pos(), m, "in bounds on every path")
			} else if why, ok := exempt[s.Desc]; ok {
				c.OK(rule, cons, s.Node.Pos(), m, why)
				delete(exempt, s.Desc)
			} else {
				c.Fail(rule, cons, s.Node.Pos(), m, s.Why)
			}
		}
		for k := range exempt {
			c.Undecided(rule, f.Key+": "+k, f.Pos(), m, "side argument matches no unproven sink (the code moved; re-confirm)")
		}
	}
	// xerialDecode with the entry fact
	{
		o := BoundsOpts{Sums: kgoSummaries, Entry: entry}
		sinks := BoundsCheck(fX, fX.Decl.Body, fX.Graph(), o, nil)
		sinks = append(sinks, AllocCheck(fX, fX.Decl.Body, fX.Graph(), o, 1<<16)...)
		emit(fX, sinks, map[string]string{})
	}
	// DefaultCompressor: compaction loop invariant + options non-empty
	if f := e.c.NeedFunc(m, "kgo.DefaultCompressor"); f != nil {
		ex := map[string]string{}
		e.compaction(f, ex)
		e.optionsNonEmpty(f, ex)
		o := BoundsOpts{Sums: kgoSummaries}
		var sinks []Sink
		bodies := []*ast.BlockStmt{f.Decl.Body}
		graphs := []*Graph{f.Graph()}
		ast.Inspect(f.Decl.Body, func(x ast.Node) bool {
			if l, ok := x.(*ast.FuncLit); ok {
				bodies = append(bodies, l.Body)
				graphs = append(graphs, f.LitGraph(l))
			}
			return true
		})
		for i := range bodies {
			sinks = append(sinks, BoundsCheck(f, bodies[i], graphs[i], o, nil)...)
			sinks = append(sinks, AllocCheck(f, bodies[i], graphs[i], o, 1<<16)...)
		}
		emit(f, sinks, ex)
	}
	total += boundsRuleX(c, m, rule, []string{"kgo.decompressor.Decompress", "kgo.compressor.Compress", "kgo.DefaultDecompressor", "kgo.mkCompressFlags"}, kgoSummaries, nil, 1<<16)
	c.Floor(rule, total, 12)
}

// compaction recognises
//
//	var k int; for _, v := range S { ...; S[k] = v; k++ }; S = S[:k]
//
// where k is modified only by the single k++ in the loop body (not nested in
// an inner loop) and S is not reassigned inside the loop.  Then k <= index of
// the current iteration < len(S) at S[k] and k <= len(S) after the loop.
func (e *c19env) compaction(f *Func, ex map[string]string) {
	info := f.Info()
	for _, x := range findNodes(f.Decl.Body, false, func(x ast.Node) bool { _, ok := x.(*ast.RangeStmt); return ok }) {
		rs := x.(*ast.RangeStmt)
		S := c19objOf(info, rs.X)
		if S == nil {
			continue
		}
		// candidate counters: k++ directly in the loop body (any nesting except loops/closures)
		var incs []*ast.IncDecStmt
		innerLoop := false
		ast.Inspect(rs.Body, func(y ast.Node) bool {
			switch s := y.(type) {
			case *ast.ForStmt, *ast.RangeStmt, *ast.FuncLit:
				if containsNode(s, true, func(z ast.Node) bool { _, ok := z.(*ast.IncDecStmt); return ok }) {
					innerLoop = true
				}
				return false
			case *ast.IncDecStmt:
				if s.Tok == token.INC {
					incs = append(incs, s)
				}
			}
			return true
		})
		if innerLoop || len(incs) != 1 {
			continue
		}
		k := c19objOf(info, incs[0].X)
		if k == nil {
			continue
		}
		// k: declared `var k int` (zero) and modified nowhere else in the function
		mods := 0
		zeroDecl := false
		ast.Inspect(f.Decl.Body, func(y ast.Node) bool {
			switch s := y.(type) {
			case *ast.AssignStmt:
				for _, l := range s.Lhs {
					if c19objOf(info, l) == k {
						mods++
					}
				}
			case *ast.IncDecStmt:
				if c19objOf(info, s.X) == k {
					mods++
				}
			case *ast.UnaryExpr:
				if s.Op == token.AND && c19objOf(info, s.X) == k {
					mods += 10
				}
			case *ast.ValueSpec:
				for _, id := range s.Names {
					if info.Defs[id] == k && len(s.Values) == 0 {
						if b, ok := k.Type().Underlying().(*types.Basic); ok && b.Info()&types.IsInteger != 0 {
							zeroDecl = true
						}
					}
				}
			}
			return true
		})
		if mods != 1 || !zeroDecl {
			continue
		}
		// S not reassigned in the loop (element stores are fine)
		reassigned := false
		ast.Inspect(rs.Body, func(y ast.Node) bool {
			if s, ok := y.(*ast.AssignStmt); ok {
				for _, l := range s.Lhs {
					if c19objOf(info, l) == S {
						reassigned = true
					}
				}
			}
			return true
		})
		if reassigned {
			continue
		}
		// S[k] inside the loop lexically before the k++ ; S[:k] after the loop
		ast.Inspect(f.Decl.Body, func(y ast.Node) bool {
			switch s := y.(type) {
			case *ast.IndexExpr:
				if c19objOf(info, s.X) == S && c19objOf(info, s.Index) == k && s.Pos() >= rs.Body.Pos() && s.End() <= incs[0].Pos() {
					ex[exprStr(s)] = "compaction loop: " + k.Name() + " is incremented at most once per iteration, so " + k.Name() + " <= iteration index < len(" + S.Name() + ")"
				}
			case *ast.SliceExpr:
				if c19objOf(info, s.X) == S && s.Low == nil && s.Max == nil && s.High != nil && c19objOf(info, s.High) == k && s.Pos() > rs.End() {
					// S must not be reassigned between the loop and this slice other than by this statement
					ex[exprStr(s)] = "compaction loop: after the loop " + k.Name() + " <= len(" + S.Name() + ")"
				}
			}
			return true
		})
	}
}

// optionsNonEmpty: c.options[0] after the codec loop.  Structural part: the
// function returns early for len(codecs) == 0 and the first statement of the
// loop over codecs appends to c.options unconditionally.  That the
// de-duplication keeps at least one element is argued by hand (the first
// element is never a duplicate).
func (e *c19env) optionsNonEmpty(f *Func, ex map[string]string) {
	info := f.Info()
	fld := e.m.Field("kgo", "compressor", "options")
	emptyGuard := false
	for _, st := range f.Decl.Body.List {
		ifs, ok := st.(*ast.IfStmt)
		if !ok {
			continue
		}
		if be, ok := unparen(ifs.Cond).(*ast.BinaryExpr); ok && be.Op == token.EQL && exprStr(be.X) == "len("+e.param(f, 0).Name()+")" {
			if v, ok := constInt(info, be.Y); ok && v == 0 && len(ifs.Body.List) == 1 {
				if _, isRet := ifs.Body.List[0].(*ast.ReturnStmt); isRet {
					emptyGuard = true
				}
			}
		}
	}
	appendFirst := false
	for _, x := range findNodes(f.Decl.Body, false, func(x ast.Node) bool { _, ok := x.(*ast.RangeStmt); return ok }) {
		rs := x.(*ast.RangeStmt)
		if c19objOf(info, rs.X) != e.param(f, 0) || len(rs.Body.List) == 0 {
			continue
		}
		if as, ok := rs.Body.List[0].(*ast.AssignStmt); ok && len(as.Lhs) == 1 && sameField(fieldOfSel(info, as.Lhs[0]), fld) {
			if call, ok := unparen(as.Rhs[0]).(*ast.CallExpr); ok && exprStr(call.Fun) == "append" && sameField(fieldOfSel(info, call.Args[0]), fld) {
				appendFirst = true
			}
		}
	}
	if emptyGuard && appendFirst {
		for _, x := range findNodes(f.Decl.Body, false, func(x ast.Node) bool { _, ok := x.(*ast.IndexExpr); return ok }) {
			ix := x.(*ast.IndexExpr)
			if sameField(fieldOfSel(info, ix.X), fld) {
				if v, ok := constInt(info, ix.Index); ok && v == 0 {
					ex[exprStr(ix)] = "exempt: empty codec lists return early and the loop over the (non-empty, hand-argued) de-duplicated list appends to options first in every iteration"
				}
			}
		}
	}
}
