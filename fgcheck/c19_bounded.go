package main

import (
	"fmt"
	"go/ast"
	"go/token"
	"go/types"
)

// ---- (3) decompress-bounded ----

func (e *c19env) isMax(info *types.Info, x ast.Expr) bool {
	o := c19objOf(info, c19strip(info, x))
	return o != nil && o == e.maxVar
}

// isMaxPlus1: maxDecompressedSize + 1
func (e *c19env) isMaxPlus1(info *types.Info, x ast.Expr) bool {
	be, ok := unparen(x).(*ast.BinaryExpr)
	if !ok || be.Op != token.ADD {
		return false
	}
	if v, ok := constInt(info, be.Y); ok && v == 1 && e.isMax(info, be.X) {
		return true
	}
	if v, ok := constInt(info, be.X); ok && v == 1 && e.isMax(info, be.Y) {
		return true
	}
	return false
}

// assignOf returns the assignment defining the results of call (call is its single RHS).
func c19assignOf(f *Func, call *ast.CallExpr) *ast.AssignStmt {
	var out *ast.AssignStmt
	ast.Inspect(f.Decl.Body, func(x ast.Node) bool {
		if a, ok := x.(*ast.AssignStmt); ok && len(a.Rhs) == 1 && unparen(a.Rhs[0]) == ast.Expr(call) {
			out = a
		}
		return out == nil
	})
	return out
}

func (e *c19env) ruleBounded(fD, fX *Func) {
	c, m := e.c, e.m
	rule := "decompress-bounded"
	sw := e.codecSwitch(fD)
	if sw == nil {
		return
	}
	arms, _ := e.arms(fD, sw)
	total := 0
	seenFn := map[string]bool{}
	var scan func(f *Func, root ast.Node, arm string) int
	scan = func(f *Func, root ast.Node, arm string) int {
		info := f.Info()
		sinks := 0
		k := 0
		for _, x := range findNodes(root, true, func(x ast.Node) bool { _, ok := x.(*ast.CallExpr); return ok }) {
			call := x.(*ast.CallExpr)
			fn, ok := calleeObj(info, call).(*types.Func)
			if !ok || fn.Pkg() == nil {
				continue
			}
			path, name := fn.Pkg().Path(), fn.Name()
			key := keyOfObj(fn)
			k++
			cons := fmt.Sprintf("%s#%s: %s", f.Key, arm, key)
			switch {
			case fn.Pkg().Name() == "kgo":
				if g := m.Func(key); g != nil && g != fD && !seenFn[key] {
					seenFn[key] = true
					c.Touch(g)
					sinks += scan(g, g.Decl.Body, arm)
				}
			case path == "io" && name == "Copy":
				sinks++
				total++
				e.checkCopy(f, call, cons)
			case path == "io" && name == "LimitReader":
				// judged with its io.Copy
			case path == "io" || key == "bytes.Buffer.ReadFrom" || key == "bufio.Reader.WriteTo":
				sinks++
				total++
				c.Fail(rule, cons, call.Pos(), m, "decoded data is drained with "+key+", which has no recognised bound (expected io.Copy from io.LimitReader(_, maxDecompressedSize+1) with the n > maxDecompressedSize test)")
			case !c19isCodecLib(path):
				// bytes.NewReader, slices.Clone, errors.New, sync.Pool...: not a decoding sink
			case name == "Decode" && (path == c19PathS2 || path == "github.com/golang/snappy" || path == "github.com/klauspost/compress/snappy"):
				sinks++
				total++
				e.checkBlockDecode(f, call, cons)
			case name == "DecodeAll" && path == c19PathZstd:
				sinks++
				total++
				e.checkZstd(f, call, cons)
			case name == "DecodedLen" || name == "Reset" || name == "Close":
				// no output
			default:
				total++
				c.Undecided(rule, cons, call.Pos(), m, "call into a codec library that is not classified as bounded sink or harmless: "+exprStr(call))
			}
		}
		return sinks
	}
	for _, v := range e.vals {
		cc := arms[v]
		if cc == nil || v == 0 {
			continue
		}
		n := scan(fD, cc, e.names[v])
		total++
		c.Check(n > 0, rule, fD.Key+"#"+e.names[v]+"#has-sink", cc.Pos(), m, fmt.Sprintf("%d bounded sinks", n), "no decoding sink recognised in this arm: its bound cannot be established")
	}
	c.Floor(rule, total, 9)
}

// checkCopy: io.Copy(dst, io.LimitReader(r, max+1)); every success return after it has n <= max and err == nil.
func (e *c19env) checkCopy(f *Func, call *ast.CallExpr, cons string) {
	c, m := e.c, e.m
	rule := "decompress-bounded"
	info := f.Info()
	if len(call.Args) != 2 {
		c.Undecided(rule, cons, call.Pos(), m, "io.Copy arity")
		return
	}
	lim, ok := unparen(call.Args[1]).(*ast.CallExpr)
	var lfn *types.Func
	if ok {
		lfn, _ = calleeObj(info, lim).(*types.Func)
	}
	if !ok || lfn == nil || lfn.Pkg() == nil || lfn.Pkg().Path() != "io" || lfn.Name() != "LimitReader" || len(lim.Args) != 2 {
		c.Fail(rule, cons, call.Pos(), m, "io.Copy source is `"+exprStr(call.Args[1])+"`, not io.LimitReader(_, maxDecompressedSize+1): the decompressed output is unbounded (decompression bomb)")
		return
	}
	if !e.isMaxPlus1(info, lim.Args[1]) {
		c.Fail(rule, cons, call.Pos(), m, "LimitReader limit is `"+exprStr(lim.Args[1])+"`, not maxDecompressedSize+1: either the bound differs from the maximum or an over-long stream is silently truncated instead of rejected")
		return
	}
	as := c19assignOf(f, call)
	if as == nil || len(as.Lhs) != 2 {
		c.Fail(rule, cons, call.Pos(), m, "the byte count and error of io.Copy are not captured: the over-limit case cannot be rejected")
		return
	}
	nObj, errObj := c19objOf(info, as.Lhs[0]), c19objOf(info, as.Lhs[1])
	g := f.GraphFor(call)
	cl, _ := g.LocOf(call)
	nret := 0
	var bad []string
	for _, x := range findNodes(g.Body, false, func(x ast.Node) bool { _, ok := x.(*ast.ReturnStmt); return ok }) {
		rs := x.(*ast.ReturnStmt)
		rl, ok := g.LocOf(rs)
		if !ok || !g.Reachable(rl) || !g.Dominates(cl, rl) || len(rs.Results) != 2 || !c19isNil(info, rs.Results[1]) {
			continue
		}
		nret++
		facts := g.FactsAt(rl)
		bounded := false
		for _, r := range c19upper(facts) {
			if c19objOf(info, c19strip(info, r.a)) == nObj && nObj != nil && e.isMax(info, r.b) {
				bounded = true
			}
		}
		if !bounded {
			bad = append(bad, fmt.Sprintf("success return at %s is reachable without n <= maxDecompressedSize", m.Position(rs.Pos())))
		}
		if !c19errNil(info, facts, errObj) {
			bad = append(bad, fmt.Sprintf("success return at %s is reachable without checking io.Copy's error", m.Position(rs.Pos())))
		}
	}
	if nret == 0 {
		c.Undecided(rule, cons, call.Pos(), m, "no success return dominated by the io.Copy found")
		return
	}
	c.Check(len(bad) == 0, rule, cons, call.Pos(), m, "LimitReader(max+1), n <= max and err == nil on every success return", fmt.Sprint(bad))
}

// checkBlockDecode: s2.Decode(dst, src) dominated by l, err := s2.DecodedLen(src) with the budget test.
func (e *c19env) checkBlockDecode(f *Func, call *ast.CallExpr, cons string) {
	c, m := e.c, e.m
	rule := "decompress-bounded"
	info := f.Info()
	if len(call.Args) != 2 {
		c.Undecided(rule, cons, call.Pos(), m, "Decode arity")
		return
	}
	g := f.GraphFor(call)
	cl, _ := g.LocOf(call)
	srcStr := exprStr(call.Args[1])
	// find the dominating DecodedLen(src) call
	var lenAs *ast.AssignStmt
	for _, x := range findNodes(g.Body, false, func(x ast.Node) bool { _, ok := x.(*ast.CallExpr); return ok }) {
		dl := x.(*ast.CallExpr)
		fn, _ := calleeObj(info, dl).(*types.Func)
		if fn == nil || fn.Name() != "DecodedLen" || fn.Pkg() == nil || !c19isCodecLib(fn.Pkg().Path()) || len(dl.Args) != 1 || exprStr(dl.Args[0]) != srcStr {
			continue
		}
		ll, ok := g.LocOf(dl)
		if !ok || !g.Dominates(ll, cl) {
			continue
		}
		if a := c19assignOf(f, dl); a != nil && len(a.Lhs) == 2 {
			lenAs = a
		}
	}
	if lenAs == nil {
		c.Fail(rule, cons, call.Pos(), m, "block decode of `"+srcStr+"` is not dominated by DecodedLen of the same source: the header-claimed length (up to 4 GiB) is allocated unchecked")
		return
	}
	// the source must not be reassigned between the length check and the decode
	roots := map[types.Object]bool{}
	ast.Inspect(call.Args[1], func(x ast.Node) bool {
		if id, ok := x.(*ast.Ident); ok {
			if o := info.Uses[id]; o != nil {
				if _, isVar := o.(*types.Var); isVar {
					roots[o] = true
				}
			}
		}
		return true
	})
	for _, x := range findNodes(g.Body, false, func(x ast.Node) bool { _, ok := x.(*ast.AssignStmt); return ok }) {
		a := x.(*ast.AssignStmt)
		if a.Pos() <= lenAs.Pos() || a.Pos() >= call.Pos() || a == lenAs {
			continue
		}
		for _, l := range a.Lhs {
			if roots[c19objOf(info, l)] && unparen(a.Rhs[0]) != ast.Expr(call) {
				c.Fail(rule, cons, call.Pos(), m, "`"+exprStr(l)+"` is reassigned between DecodedLen and Decode: the checked length belongs to other bytes")
				return
			}
		}
	}
	lObj, errObj := c19objOf(info, lenAs.Lhs[0]), c19objOf(info, lenAs.Lhs[1])
	facts := g.FactsAt(cl)
	if !c19errNil(info, facts, errObj) {
		c.Fail(rule, cons, call.Pos(), m, "Decode is reachable without checking DecodedLen's error")
		return
	}
	// accumulation: is the call inside a loop whose result is appended to an accumulator?
	var loop ast.Node
	for _, x := range findNodes(g.Body, false, func(x ast.Node) bool {
		switch x.(type) {
		case *ast.ForStmt, *ast.RangeStmt:
			return x.Pos() <= call.Pos() && call.End() <= x.End()
		}
		return false
	}) {
		loop = x
	}
	var acc types.Object
	if loop != nil {
		var resObj types.Object
		if a := c19assignOf(f, call); a != nil && len(a.Lhs) >= 1 {
			resObj = c19objOf(info, a.Lhs[0])
		}
		for _, x := range findNodes(loop, false, func(x ast.Node) bool { _, ok := x.(*ast.AssignStmt); return ok }) {
			a := x.(*ast.AssignStmt)
			if len(a.Lhs) != 1 || len(a.Rhs) != 1 {
				continue
			}
			ap, ok := unparen(a.Rhs[0]).(*ast.CallExpr)
			if !ok || exprStr(ap.Fun) != "append" || len(ap.Args) != 2 || !ap.Ellipsis.IsValid() {
				continue
			}
			if c19objOf(info, a.Lhs[0]) == c19objOf(info, ap.Args[0]) && c19objOf(info, ap.Args[1]) == resObj && resObj != nil {
				acc = c19objOf(info, a.Lhs[0])
			}
		}
		if acc == nil {
			c.Undecided(rule, cons, call.Pos(), m, "Decode runs in a loop but the accumulator of the decoded chunks was not recognised")
			return
		}
		returned := false
		for _, x := range findNodes(g.Body, false, func(x ast.Node) bool { _, ok := x.(*ast.ReturnStmt); return ok }) {
			rs := x.(*ast.ReturnStmt)
			if len(rs.Results) == 2 && c19objOf(info, rs.Results[0]) == acc {
				returned = true
			}
		}
		if !returned {
			c.Undecided(rule, cons, call.Pos(), m, "the accumulator is not what the function returns")
			return
		}
	}
	ok := false
	why := "no fact int64(l) <= budget dominates the Decode"
	for _, r := range c19upper(facts) {
		if c19objOf(info, c19strip(info, r.a)) != lObj || lObj == nil {
			continue
		}
		if acc == nil {
			if e.isMax(info, r.b) || e.isBudget(info, r.b, nil) {
				ok = true
			} else {
				why = "the claimed length is compared with `" + exprStr(r.b) + "`, not with maxDecompressedSize"
			}
			continue
		}
		if e.isBudget(info, r.b, acc) {
			ok = true
		} else {
			why = "chunks accumulate into `" + acc.Name() + "` but the claimed chunk length is compared with `" + exprStr(r.b) + "` instead of maxDecompressedSize - int64(len(" + acc.Name() + ")): the total output of a multi-chunk frame is unbounded"
		}
	}
	c.Check(ok, rule, cons, call.Pos(), m, "DecodedLen guard against the (remaining) budget", why)
}

// isBudget: maxDecompressedSize - int64(len(acc)) (acc nil: any len term)
func (e *c19env) isBudget(info *types.Info, x ast.Expr, acc types.Object) bool {
	be, ok := unparen(x).(*ast.BinaryExpr)
	if !ok || be.Op != token.SUB || !e.isMax(info, be.X) {
		return false
	}
	ln, ok := c19strip(info, be.Y).(*ast.CallExpr)
	if !ok || exprStr(ln.Fun) != "len" || len(ln.Args) != 1 {
		return false
	}
	if _, isB := info.Uses[ln.Fun.(*ast.Ident)].(*types.Builtin); !isB {
		return false
	}
	return acc == nil || c19objOf(info, ln.Args[0]) == acc
}

// checkZstd: DecodeAll on X.inner where X comes from a pool whose New passes WithDecoderMaxMemory(uint64(max)).
func (e *c19env) checkZstd(f *Func, call *ast.CallExpr, cons string) {
	c, m := e.c, e.m
	rule := "decompress-bounded"
	info := f.Info()
	sel, ok := unparen(call.Fun).(*ast.SelectorExpr)
	if !ok {
		c.Undecided(rule, cons, call.Pos(), m, "receiver not recognised")
		return
	}
	// root variable of the receiver
	root := sel.X
	for {
		if s, ok := unparen(root).(*ast.SelectorExpr); ok {
			root = s.X
			continue
		}
		break
	}
	def := singleDef(f, c19objOf(info, root))
	pool := c19poolOfGet(info, def)
	if pool == nil {
		c.Undecided(rule, cons, call.Pos(), m, "the zstd decoder does not come from a pool.Get().(T) definition")
		return
	}
	lits, ok := e.poolNews(pool)
	if !ok || len(lits) == 0 {
		c.Undecided(rule, cons, call.Pos(), m, "constructor of pool `"+exprStr(pool)+"` not resolved")
		return
	}
	var bad []string
	ctor := 0
	for _, pl := range lits {
		for _, x := range findNodes(pl.lit, true, func(x ast.Node) bool { _, ok := x.(*ast.CallExpr); return ok }) {
			nr := x.(*ast.CallExpr)
			fn, _ := calleeObj(pl.f.Info(), nr).(*types.Func)
			if fn == nil || fn.Pkg() == nil || fn.Pkg().Path() != c19PathZstd || fn.Name() != "NewReader" {
				continue
			}
			ctor++
			has := false
			for _, a := range nr.Args {
				oc, ok := unparen(a).(*ast.CallExpr)
				if !ok {
					continue
				}
				ofn, _ := calleeObj(pl.f.Info(), oc).(*types.Func)
				if ofn != nil && ofn.Name() == "WithDecoderMaxMemory" && len(oc.Args) == 1 {
					if e.isMax(pl.f.Info(), oc.Args[0]) {
						has = true
					} else {
						bad = append(bad, "WithDecoderMaxMemory(`"+exprStr(oc.Args[0])+"`) is not maxDecompressedSize")
					}
				}
			}
			if nr.Ellipsis.IsValid() {
				bad = append(bad, "decoder options are passed as a slice: cannot see WithDecoderMaxMemory")
			} else if !has {
				bad = append(bad, "zstd.NewReader at "+m.Position(nr.Pos())+" has no WithDecoderMaxMemory(maxDecompressedSize): DecodeAll honours a frame's declared size up to the library default of 64 GiB")
			}
		}
	}
	if ctor == 0 {
		bad = append(bad, "no zstd.NewReader in the pool constructor")
	}
	c.Check(len(bad) == 0, rule, cons, call.Pos(), m, "decoder built with WithDecoderMaxMemory(uint64(maxDecompressedSize))", fmt.Sprint(bad))
}
