package main

import (
	"fmt"
	"go/ast"
	"go/token"
	"go/types"
	"strings"

	"golang.org/x/tools/go/packages"
)

// Channel-based Mutex / RWMutex of pkg/kgo/internal/xsync (build tag synctests).

type c31event struct {
	kind     string // recv send default lock unlock set read ret panic
	name     string
	blocking bool
	old, new uint64
	val      c31val
	muHeld   bool
	node     ast.Node
}

type c31path struct {
	evs  []c31event
	loop bool
}

func (p *c31path) String() string {
	var parts []string
	for _, e := range p.evs {
		s := e.kind + " " + e.name
		switch e.kind {
		case "recv", "send":
			if e.blocking {
				s += " (blocking)"
			} else {
				s += " (select)"
			}
		case "set":
			s = fmt.Sprintf("%s %d->%d", e.name, int64(e.old), int64(e.new))
		case "ret":
			s = "return"
			if e.val.k == 2 {
				s = fmt.Sprintf("return %v", e.val.b)
			}
		}
		parts = append(parts, strings.TrimSpace(s))
	}
	return strings.Join(parts, ", ")
}

// c31replay enumerates the control paths of a compiled method for a concrete
// initial value of the tracked integers (channel readiness is left open: every
// select alternative is followed).
func c31replay(p *c31prog, b *c31bind, ints map[string]uint64) []*c31path {
	var out []*c31path
	type frame struct {
		pc     int
		ints   map[string]uint64
		locals []c31val
		evs    []c31event
		visits map[int]int
		held   map[string]int
	}
	var run func(fr frame)
	cloneF := func(fr frame) frame {
		n := frame{pc: fr.pc, ints: map[string]uint64{}, locals: append([]c31val(nil), fr.locals...), evs: append([]c31event(nil), fr.evs...), visits: map[int]int{}, held: map[string]int{}}
		for k, v := range fr.ints {
			n.ints[k] = v
		}
		for k, v := range fr.visits {
			n.visits[k] = v
		}
		for k, v := range fr.held {
			n.held[k] = v
		}
		return n
	}
	run = func(fr frame) {
		for {
			if fr.pc >= len(p.ins) {
				out = append(out, &c31path{evs: fr.evs})
				return
			}
			fr.visits[fr.pc]++
			if fr.visits[fr.pc] > 2 {
				out = append(out, &c31path{evs: fr.evs, loop: true})
				return
			}
			in := p.ins[fr.pc]
			anyHeld := false
			for _, v := range fr.held {
				if v > 0 {
					anyHeld = true
				}
			}
			ev := &c31env{info: b.info,
				field: func(v *types.Var) (c31val, bool) {
					if n := c31lookup(b.ints, v); n != "" {
						return c31int(fr.ints[n]), true
					}
					if n := c31lookup(b.flags, v); n != "" {
						return c31bool(true), true
					}
					return c31unknown, false
				},
				local: func(o types.Object) (c31val, bool) {
					for i, x := range p.locals {
						if x == o && i < len(fr.locals) {
							return fr.locals[i], true
						}
					}
					return c31unknown, false
				}}
			noteReads := func(e ast.Expr) {
				if e == nil {
					return
				}
				for n := range b.ints {
					f := b.ints[n]
					if mentionsField(e, b.info, f, true) {
						fr.evs = append(fr.evs, c31event{kind: "read", name: n, muHeld: anyHeld, node: in.node})
					}
				}
			}
			switch in.op {
			case c31Nop:
				fr.pc++
			case c31Jmp:
				fr.pc = in.target
			case c31SetLocal:
				v := in.zero
				if in.expr != nil {
					noteReads(in.expr)
					v = ev.eval(in.expr)
				}
				for len(fr.locals) <= in.local {
					fr.locals = append(fr.locals, c31unknown)
				}
				fr.locals[in.local] = v
				fr.pc++
			case c31If:
				noteReads(in.expr)
				v := ev.eval(in.expr)
				if v.k == 2 {
					if v.b {
						fr.pc++
					} else {
						fr.pc = in.target
					}
					continue
				}
				a := cloneF(fr)
				a.pc++
				run(a)
				fr.pc = in.target
			case c31Set:
				old := fr.ints[in.name]
				nv := old
				switch in.tok {
				case token.INC:
					nv = old + 1
				case token.DEC:
					nv = old - 1
				default:
					noteReads(in.expr)
					v := ev.eval(in.expr)
					if v.k != 1 {
						out = append(out, &c31path{evs: fr.evs, loop: true})
						return
					}
					if in.tok == token.ASSIGN {
						nv = v.u
					} else {
						_, uns := c31width(in.typ)
						nv, _ = c31arith(in.tok, old, v.u, uns)
					}
				}
				nv = c31trunc(nv, in.typ)
				fr.ints[in.name] = nv
				fr.evs = append(fr.evs, c31event{kind: "set", name: in.name, old: old, new: nv, muHeld: anyHeld, node: in.node})
				fr.pc++
			case c31Lock:
				fr.evs = append(fr.evs, c31event{kind: "lock", name: in.name, muHeld: anyHeld, node: in.node})
				fr.held[in.name]++
				fr.pc++
			case c31Unlock:
				fr.evs = append(fr.evs, c31event{kind: "unlock", name: in.name, muHeld: anyHeld, node: in.node})
				fr.held[in.name]--
				fr.pc++
			case c31Recv:
				fr.evs = append(fr.evs, c31event{kind: "recv", name: in.name, blocking: true, muHeld: anyHeld, node: in.node})
				fr.pc++
			case c31Send:
				fr.evs = append(fr.evs, c31event{kind: "send", name: in.name, blocking: true, muHeld: anyHeld, node: in.node})
				fr.pc++
			case c31Select:
				var names []string
				for _, c := range in.cases {
					names = append(names, c.ch)
					a := cloneF(fr)
					k := "recv"
					if c.send {
						k = "send"
					}
					a.evs = append(a.evs, c31event{kind: k, name: c.ch, blocking: in.def < 0, muHeld: anyHeld, node: in.node})
					a.pc = c.target
					run(a)
				}
				if in.def < 0 {
					return
				}
				fr.evs = append(fr.evs, c31event{kind: "default", name: strings.Join(names, ","), muHeld: anyHeld, node: in.node})
				fr.pc = in.def
			case c31Wait, c31Broadcast, c31Signal:
				fr.evs = append(fr.evs, c31event{kind: "cond", name: in.name, muHeld: anyHeld, node: in.node})
				fr.pc++
			case c31Ret:
				v := c31unknown
				if in.expr != nil {
					noteReads(in.expr)
					v = ev.eval(in.expr)
				}
				fr.evs = append(fr.evs, c31event{kind: "ret", val: v, muHeld: anyHeld, node: in.node})
				out = append(out, &c31path{evs: fr.evs})
				return
			case c31Panic:
				fr.evs = append(fr.evs, c31event{kind: "panic", muHeld: anyHeld, node: in.node})
				out = append(out, &c31path{evs: fr.evs})
				return
			}
		}
	}
	fr := frame{ints: map[string]uint64{}, visits: map[int]int{}, held: map[string]int{}, locals: make([]c31val, len(p.locals))}
	for k, v := range ints {
		fr.ints[k] = v
	}
	run(fr)
	return out
}

func (p *c31path) end() c31event {
	if len(p.evs) == 0 {
		return c31event{}
	}
	return p.evs[len(p.evs)-1]
}

// chanEvents returns the recv/send events on a channel.
func (p *c31path) chanEvents(ch string) []c31event {
	var out []c31event
	for _, e := range p.evs {
		if (e.kind == "recv" || e.kind == "send") && e.name == ch {
			out = append(out, e)
		}
	}
	return out
}

func (p *c31path) net(ch string) int {
	n := 0
	for _, e := range p.chanEvents(ch) {
		if e.kind == "recv" {
			n++
		} else {
			n--
		}
	}
	return n
}

func (p *c31path) index(pred func(e c31event) bool) int {
	for i, e := range p.evs {
		if pred(e) {
			return i
		}
	}
	return -1
}

func (p *c31path) count(pred func(e c31event) bool) int {
	n := 0
	for _, e := range p.evs {
		if pred(e) {
			n++
		}
	}
	return n
}

type c31xs struct {
	c    *Ctx
	m    *Module
	pkg  *packages.Package
	decl map[string]*ast.FuncDecl // Type.method, including init
}

func c31xsync(c *Ctx, m *Module) {
	pkg := m.Pkg("xsync")
	if pkg == nil {
		c.Undecided("anchor", "xsync (tags=synctests)", token.NoPos, m, "package not loaded")
		return
	}
	x := &c31xs{c: c, m: m, pkg: pkg, decl: map[string]*ast.FuncDecl{}}
	for _, f := range pkg.Syntax {
		for _, d := range f.Decls {
			if fd, ok := d.(*ast.FuncDecl); ok && fd.Body != nil && fd.Recv != nil && len(fd.Recv.List) > 0 {
				x.decl[recvTypeName(fd.Recv.List[0].Type)+"."+fd.Name.Name] = fd
			}
		}
	}
	// the tag build must define struct types, not aliases
	for _, n := range []string{"Mutex", "RWMutex"} {
		tn, _ := m.Object("xsync", n).(*types.TypeName)
		if tn == nil || tn.IsAlias() {
			c.Undecided("anchor", "xsync."+n+" (tags=synctests)", token.NoPos, m, "the synctests build no longer defines its own "+n+" (build tag renamed?): the channel implementation was not analysed")
			return
		}
	}
	x.mutex()
	x.rwmutex()
}

func (x *c31xs) funcOf(key string) *Func {
	fd := x.decl[key]
	if fd == nil {
		x.c.Undecided("anchor", "xsync."+key, token.NoPos, x.m, "method not found in the synctests build")
		return nil
	}
	obj, _ := x.pkg.TypesInfo.Defs[fd.Name].(*types.Func)
	f := &Func{Key: "xsync." + key, Pkg: x.pkg, Decl: fd, Obj: obj, mod: x.m}
	x.c.Touch(f)
	return f
}

// initOf checks the channel construction in Type.init.
func (x *c31xs) initOf(typ string, want map[string]c31chanSpec, fields map[string]*types.Var) map[string]c31chanSpec {
	c, m := x.c, x.m
	got := map[string]c31chanSpec{}
	fd := x.decl[typ+".init"]
	if fd == nil {
		c.Undecided("token-channel-init", "xsync."+typ+".init", token.NoPos, m, "init method not found")
		return nil
	}
	info := x.pkg.TypesInfo
	// everything must happen inside once.Do(func(){...})
	var lit *ast.FuncLit
	for _, s := range fd.Body.List {
		if es, ok := s.(*ast.ExprStmt); ok {
			if call, ok := es.X.(*ast.CallExpr); ok && calleeName(info, call) == "sync.Once.Do" && len(call.Args) == 1 {
				lit, _ = call.Args[0].(*ast.FuncLit)
			}
		}
	}
	c.Check(lit != nil && len(fd.Body.List) == 1, "token-channel-init", "xsync."+typ+".init#once", fd.Pos(), m, "single once.Do", "init is not a single once.Do(func(){...}): a second initialisation would replace the channel (and its token) under a holder")
	if lit == nil {
		return nil
	}
	for name, fv := range fields {
		cons := "xsync." + typ + "." + name
		st := storesTo(fd.Body, info, fv, true)
		capv := int64(-1)
		if len(st) == 1 && st[0].Kind == "assign" {
			if call, ok := unparen(st[0].RHS).(*ast.CallExpr); ok && len(call.Args) == 2 {
				if id, ok := unparen(call.Fun).(*ast.Ident); ok && id.Name == "make" {
					if v, ok := constInt(info, call.Args[1]); ok {
						capv = v
					}
				}
			}
		}
		sends := 0
		cond := false
		pm := parentMap(lit.Body)
		ast.Inspect(lit.Body, func(n ast.Node) bool {
			if s, ok := n.(*ast.SendStmt); ok && sameField(fieldOfSel(info, s.Chan), fv) {
				sends++
				if _, top := pm[s].(*ast.BlockStmt); !top || pm[pm[s]] != nil {
					cond = true
				}
			}
			return true
		})
		got[name] = c31chanSpec{cap: int(capv), init: sends}
		w := want[name]
		c.Check(int(capv) == w.cap && sends == w.init && !cond, "token-channel-init", cons, fd.Pos(), m, fmt.Sprintf("capacity %d, %d initial token(s)", w.cap, w.init),
			fmt.Sprintf("channel is created with capacity %d and %d initial token(s) (conditional: %v), expected capacity %d and %d: the lock starts held forever / admits two holders", capv, sends, cond, w.cap, w.init))
	}
	return got
}

// accessors: every function of the package that touches the fields is a modelled method.
func (x *c31xs) accessors(typ string, fields map[string]*types.Var, known map[string]bool) {
	info := x.pkg.TypesInfo
	n := 0
	for key, fd := range x.decl {
		touches := false
		for _, fv := range fields {
			if mentionsField(fd.Body, info, fv, true) {
				touches = true
			}
		}
		if !touches {
			continue
		}
		n++
		x.c.Check(known[key], "xsync-accessors-known", "xsync."+key+" ("+typ+" fields)", fd.Pos(), x.m, "modelled method", "a method outside the modelled set touches the "+typ+"'s channels/counter: the token accounting does not cover it")
	}
	// plain functions
	for _, f := range x.pkg.Syntax {
		for _, d := range f.Decls {
			if fd, ok := d.(*ast.FuncDecl); ok && fd.Body != nil && fd.Recv == nil {
				for _, fv := range fields {
					if mentionsField(fd.Body, info, fv, true) {
						x.c.Fail("xsync-accessors-known", "xsync."+fd.Name.Name+" ("+typ+" fields)", fd.Pos(), x.m, "a function touches the "+typ+"'s channels/counter")
					}
				}
			}
		}
	}
	x.c.Floor("xsync-accessors-known("+typ+")", n, len(known))
}

func (x *c31xs) compile(key string, b *c31bind) *c31prog {
	f := x.funcOf(key)
	if f == nil {
		return nil
	}
	p := c31compile(f, b)
	if len(p.errs) > 0 {
		x.c.Undecided("xsync-model", "xsync."+key+"#extract", f.Pos(), x.m, "the method uses constructs the model extractor does not cover: "+strings.Join(p.errs, "; "))
		return nil
	}
	x.c.OK("xsync-model", "xsync."+key+"#extract", f.Pos(), x.m, fmt.Sprintf("%d model instructions", len(p.ins)))
	return p
}

// initFirst: acquiring methods initialise the channels before their first operation.
func (x *c31xs) initFirst(typ, method string) {
	fd := x.decl[typ+"."+method]
	initFd := x.decl[typ+".init"]
	if fd == nil || initFd == nil {
		return
	}
	info := x.pkg.TypesInfo
	ok := false
	if len(fd.Body.List) > 0 {
		if es, isE := fd.Body.List[0].(*ast.ExprStmt); isE {
			if call, isC := es.X.(*ast.CallExpr); isC {
				if fn, _ := calleeObj(info, call).(*types.Func); fn != nil && fn == info.Defs[initFd.Name] {
					ok = true
				}
			}
		}
	}
	x.c.Check(ok, "token-channel-init", "xsync."+typ+"."+method+"#init-first", fd.Pos(), x.m, "calls init first", "the method operates on the channel before init created it: a receive on a nil channel blocks forever on a zero-value "+typ)
}

func (x *c31xs) pathsRule(p *c31prog, b *c31bind, counts []uint64, check func(n0 uint64, pa *c31path) string, rule, cons string, pos token.Pos) {
	npaths := 0
	for _, n0 := range counts {
		ints := map[string]uint64{}
		for k := range b.ints {
			ints[k] = n0
		}
		for _, pa := range c31replay(p, b, ints) {
			npaths++
			if pa.loop {
				x.c.Undecided(rule, cons, pos, x.m, "a path through the method loops or computes a value outside the model: "+pa.String())
				return
			}
			if msg := check(n0, pa); msg != "" {
				pre := ""
				if len(b.ints) > 0 {
					pre = fmt.Sprintf("with readerCount=%d on entry, ", n0)
				}
				x.c.Fail(rule, cons, pos, x.m, pre+"path ["+pa.String()+"]: "+msg)
				return
			}
		}
	}
	c31debug("%s %s: %d replayed paths", rule, cons, npaths)
	x.c.OK(rule, cons, pos, x.m, fmt.Sprintf("%d replayed paths", npaths))
}

func c31isChan(kind, ch string) func(e c31event) bool {
	return func(e c31event) bool { return e.kind == kind && e.name == ch }
}

func (x *c31xs) mutex() {
	c, m := x.c, x.m
	chF := m.Field("xsync", "Mutex", "ch")
	if chF == nil {
		c.Undecided("anchor", "xsync.Mutex.ch", token.NoPos, m, "field not found")
		return
	}
	fields := map[string]*types.Var{"ch": chF}
	specs := x.initOf("Mutex", map[string]c31chanSpec{"ch": {1, 1}}, fields)
	x.accessors("Mutex", fields, map[string]bool{"Mutex.init": true, "Mutex.Lock": true, "Mutex.TryLock": true, "Mutex.Unlock": true})
	b := &c31bind{info: x.pkg.TypesInfo, chans: fields, ints: map[string]*types.Var{}, locks: map[string]*types.Var{}, conds: map[string]*types.Var{}, flags: map[string]*types.Var{}}
	progs := map[string]*c31prog{}
	for _, k := range []string{"Lock", "TryLock", "Unlock"} {
		if p := x.compile("Mutex."+k, b); p != nil {
			progs[k] = p
		}
	}
	if len(progs) != 3 {
		return
	}
	x.initFirst("Mutex", "Lock")
	x.initFirst("Mutex", "TryLock")
	x.initFirst("Mutex", "Unlock")
	one := []uint64{0}
	rule := "token-conservation"
	x.pathsRule(progs["Lock"], b, one, func(_ uint64, pa *c31path) string {
		evs := pa.chanEvents("ch")
		if pa.end().kind != "ret" || len(evs) != 1 || evs[0].kind != "recv" {
			return "Lock must return after receiving exactly one token and must not send one"
		}
		return ""
	}, rule, "xsync.Mutex.Lock", progs["Lock"].fn.Pos())
	x.pathsRule(progs["TryLock"], b, one, func(_ uint64, pa *c31path) string {
		end := pa.end()
		if end.kind != "ret" || end.val.k != 2 {
			return "TryLock must return a constant boolean"
		}
		for _, e := range pa.chanEvents("ch") {
			if e.blocking {
				return "TryLock blocks on the channel"
			}
		}
		if end.val.b && pa.net("ch") != 1 {
			return fmt.Sprintf("returns true holding %d tokens (must hold exactly one): a caller that was told it owns the lock does not, or a second holder gets in", pa.net("ch"))
		}
		if !end.val.b && pa.net("ch") != 0 {
			return "returns false but keeps the token: the mutex stays locked forever (nobody will Unlock it)"
		}
		return ""
	}, rule, "xsync.Mutex.TryLock", progs["TryLock"].fn.Pos())
	x.pathsRule(progs["Unlock"], b, one, func(_ uint64, pa *c31path) string {
		if pa.end().kind == "panic" {
			if pa.net("ch") != 0 {
				return "the panic path changes the token count"
			}
			return ""
		}
		evs := pa.chanEvents("ch")
		if len(evs) != 1 || evs[0].kind != "send" {
			return "Unlock must send exactly one token"
		}
		return ""
	}, rule, "xsync.Mutex.Unlock", progs["Unlock"].fn.Pos())
	if specs == nil {
		return
	}
	// exploration
	full := map[string]*c31prog{}
	for k, p := range progs {
		full[k] = p
	}
	call := func(n string) c31item { return c31item{call: n} }
	gh := func(s string) c31item { return c31item{ghost: s} }
	lock := []c31item{call("Lock"), gh("holders+"), gh("holders-"), call("Unlock")}
	try := []c31item{{call: "TryLock", try: true, skip: 3}, gh("holders+"), gh("holders-"), call("Unlock")}
	seq := c31seq
	inv := func(g map[string]int) string {
		if g["holders"] > 1 {
			return "two goroutines hold the Mutex at the same time"
		}
		return ""
	}
	for _, s := range []struct {
		name string
		thr  [][]c31item
	}{
		{"Lock;Unlock x2 || Lock;Unlock || Lock;Unlock", [][]c31item{seq(lock, lock), lock, lock}},
		{"TryLock x2 || Lock;Unlock x2 || TryLock", [][]c31item{seq(try, try), seq(lock, lock), try}},
	} {
		if !c31modelsEnabled {
			continue
		}
		sc := &c31scenario{name: s.name, threads: s.thr, progs: full, bind: b, chans: specs, ints: map[string]uint64{}, invariant: inv}
		res := c31explore(sc, nil, []string{"holders"}, c31budget(x.c))
		x.report("Mutex scenario: "+s.name, res, chF.Pos())
	}
}

func c31seq(parts ...[]c31item) []c31item {
	var out []c31item
	for _, p := range parts {
		out = append(out, p...)
	}
	return out
}

func (x *c31xs) report(cons string, res c31result, pos token.Pos) {
	c31debug("%s: states=%d err=%s", cons, res.states, res.err)
	switch {
	case res.err == "":
		x.c.OK("xsync-model", cons, pos, x.m, fmt.Sprintf("%d states, mutual exclusion holds, no deadlock", res.states))
	case strings.HasPrefix(res.err, "state space") || strings.Contains(res.err, "not computable"):
		x.c.Undecided("xsync-model", cons, pos, x.m, res.err)
	default:
		x.c.Fail("xsync-model", cons, pos, x.m, res.err+" -- schedule: "+c31traceStr(res.trace))
	}
}

func (x *c31xs) rwmutex() {
	c, m := x.c, x.m
	gate, sig, cnt, mu := m.Field("xsync", "RWMutex", "gate"), m.Field("xsync", "RWMutex", "writerSignal"), m.Field("xsync", "RWMutex", "readerCount"), m.Field("xsync", "RWMutex", "mu")
	if gate == nil || sig == nil || cnt == nil || mu == nil {
		c.Undecided("anchor", "xsync.RWMutex.gate/writerSignal/readerCount/mu", token.NoPos, m, "field not found")
		return
	}
	chans := map[string]*types.Var{"gate": gate, "writerSignal": sig}
	specs := x.initOf("RWMutex", map[string]c31chanSpec{"gate": {1, 1}, "writerSignal": {1, 0}}, chans)
	all := map[string]*types.Var{"gate": gate, "writerSignal": sig, "readerCount": cnt, "mu": mu}
	methods := []string{"RLock", "TryRLock", "RUnlock", "Lock", "TryLock", "Unlock"}
	known := map[string]bool{"RWMutex.init": true}
	for _, k := range methods {
		known["RWMutex."+k] = true
	}
	x.accessors("RWMutex", all, known)
	b := &c31bind{info: x.pkg.TypesInfo, chans: chans, ints: map[string]*types.Var{"readerCount": cnt}, locks: map[string]*types.Var{"mu": mu}, conds: map[string]*types.Var{}, flags: map[string]*types.Var{}}
	progs := map[string]*c31prog{}
	for _, k := range methods {
		if p := x.compile("RWMutex."+k, b); p != nil {
			progs[k] = p
		}
	}
	if len(progs) != len(methods) {
		return
	}
	for _, k := range []string{"RLock", "TryRLock", "Lock", "TryLock"} {
		x.initFirst("RWMutex", k)
	}
	// rlocker forwards
	for k, target := range map[string]string{"rlocker.Lock": "RWMutex.RLock", "rlocker.Unlock": "RWMutex.RUnlock"} {
		fd, tf := x.decl[k], x.decl[target]
		okf := false
		if fd != nil && tf != nil && len(fd.Body.List) == 1 {
			if es, ok := fd.Body.List[0].(*ast.ExprStmt); ok {
				if call, ok := es.X.(*ast.CallExpr); ok {
					okf = calleeObj(x.pkg.TypesInfo, call) == x.pkg.TypesInfo.Defs[tf.Name]
				}
			}
		}
		pos := token.NoPos
		if fd != nil {
			pos = fd.Pos()
		}
		c.Check(okf, "xsync-accessors-known", "xsync."+k+"#forwards", pos, m, "forwards to "+target, "the RLocker adapter does not forward to "+target)
	}

	counts := []uint64{0, 1, 2, 3}
	// common discipline on rw.mu and readerCount
	common := func(pa *c31path) string {
		depth := 0
		for _, e := range pa.evs {
			switch e.kind {
			case "lock":
				if depth != 0 {
					return "rw.mu is locked twice (self-deadlock)"
				}
				depth++
			case "unlock":
				if depth != 1 {
					return "rw.mu is unlocked without being held"
				}
				depth--
			case "set", "read":
				if depth != 1 {
					return "readerCount is " + e.kind + " without rw.mu held: readers and writers race on the count"
				}
			case "recv", "send":
				if e.blocking && depth != 0 {
					return "blocks on " + e.name + " while holding rw.mu: RUnlock needs rw.mu to signal, nobody can make progress"
				}
			case "ret", "panic":
				if depth != 0 {
					return "leaves with rw.mu still locked: every later RLock/RUnlock/Lock blocks forever"
				}
			}
		}
		return ""
	}
	for _, k := range methods {
		x.pathsRule(progs[k], b, counts, func(_ uint64, pa *c31path) string { return common(pa) }, "rwmutex-mu-paired", "xsync.RWMutex."+k, progs[k].fn.Pos())
	}
	rule := "token-conservation"
	isSet := func(e c31event) bool { return e.kind == "set" && e.name == "readerCount" }
	isRead := func(e c31event) bool { return (e.kind == "read" || e.kind == "set") && e.name == "readerCount" }
	reader := func(try bool) func(n0 uint64, pa *c31path) string {
		return func(n0 uint64, pa *c31path) string {
			end := pa.end()
			if end.kind != "ret" {
				return "must return"
			}
			success := true
			if try {
				if end.val.k != 2 {
					return "must return a constant boolean"
				}
				success = end.val.b
				for _, e := range pa.evs {
					if e.kind == "recv" && e.blocking {
						return "TryRLock blocks on " + e.name
					}
				}
			}
			if len(pa.chanEvents("writerSignal")) != 0 {
				return "readers must not touch writerSignal when acquiring"
			}
			if pa.net("gate") != 0 {
				return fmt.Sprintf("returns with %+d gate tokens: a reader must pass through the gate (take the token and put it back), otherwise no writer or reader can ever enter again / a second token admits a writer next to a holder", pa.net("gate"))
			}
			sets := pa.count(isSet)
			if !success {
				if sets != 0 {
					return "a failed TryRLock registers a reader"
				}
				return ""
			}
			ge := pa.chanEvents("gate")
			if len(ge) != 2 || ge[0].kind != "recv" || ge[1].kind != "send" {
				return "a reader must receive the gate token once and then send it back once"
			}
			r, s := pa.index(c31isChan("recv", "gate")), pa.index(c31isChan("send", "gate"))
			i := pa.index(isSet)
			if sets != 1 || pa.evs[i].new != pa.evs[i].old+1 {
				return "a reader must increment readerCount exactly once"
			}
			if !(r < i && i < s) {
				return "the reader is not registered (readerCount++) while it holds the gate token: a writer can take the gate, see readerCount == 0 and enter next to this reader"
			}
			return ""
		}
	}
	x.pathsRule(progs["RLock"], b, counts, reader(false), rule, "xsync.RWMutex.RLock", progs["RLock"].fn.Pos())
	x.pathsRule(progs["TryRLock"], b, counts, reader(true), rule, "xsync.RWMutex.TryRLock", progs["TryRLock"].fn.Pos())
	x.pathsRule(progs["RUnlock"], b, counts, func(n0 uint64, pa *c31path) string {
		if len(pa.chanEvents("gate")) != 0 {
			return "RUnlock must not touch the gate"
		}
		se := pa.chanEvents("writerSignal")
		i := pa.index(isSet)
		if pa.count(isSet) != 1 || pa.evs[i].new != pa.evs[i].old-1 {
			return "RUnlock must decrement readerCount exactly once"
		}
		if n0 == 0 {
			if pa.end().kind != "panic" {
				return "RUnlock of an unlocked RWMutex must panic (count goes negative)"
			}
			if len(se) != 0 {
				return "the underflow path signals a writer"
			}
			return ""
		}
		if pa.end().kind != "ret" {
			return "must return"
		}
		for _, e := range se {
			if e.kind != "send" || e.blocking {
				return "writerSignal must only be signalled with a non-blocking send (a stale signal may already be buffered)"
			}
			if pa.index(func(x c31event) bool { return x.node == e.node && x.kind == "send" }) < i {
				return "signals before decrementing"
			}
		}
		attempted := pa.count(func(e c31event) bool {
			return (e.kind == "send" || e.kind == "default") && strings.Contains(e.name, "writerSignal")
		}) > 0
		if n0 == 1 && !attempted {
			return "the last reader leaves without signalling writerSignal: a writer that holds the gate and waits for the readers to drain sleeps forever"
		}
		if n0 > 1 && attempted {
			return "a reader that is not the last one signals writerSignal: the waiting writer enters while other readers are still active"
		}
		return ""
	}, rule, "xsync.RWMutex.RUnlock", progs["RUnlock"].fn.Pos())
	writer := func(try bool) func(n0 uint64, pa *c31path) string {
		return func(n0 uint64, pa *c31path) string {
			end := pa.end()
			if end.kind != "ret" {
				return "must return"
			}
			success := true
			if try {
				if end.val.k != 2 {
					return "must return a constant boolean"
				}
				success = end.val.b
				for _, e := range pa.evs {
					if (e.kind == "recv" || e.kind == "send") && e.blocking && !(e.kind == "send" && e.name == "gate") {
						return "TryLock blocks on " + e.name
					}
				}
			}
			ge := pa.chanEvents("gate")
			if len(ge) == 0 {
				if success {
					return "returns success without taking the gate token"
				}
				return ""
			}
			if ge[0].kind != "recv" {
				return "the first gate operation must take the token"
			}
			g0 := pa.index(c31isChan("recv", "gate"))
			// drain of a stale writer signal: a non-blocking receive attempt after the gate and before the count is read
			drain := pa.index(func(e c31event) bool {
				return (e.kind == "recv" && e.name == "writerSignal" && !e.blocking) || (e.kind == "default" && strings.Contains(e.name, "writerSignal"))
			})
			rd := pa.index(isRead)
			if rd < 0 {
				return "the writer never reads readerCount after taking the gate"
			}
			if drain < 0 || drain < g0 || drain > rd {
				return "the writer does not discard a stale writerSignal (non-blocking receive) after taking the gate and before reading readerCount: a signal left by readers that drained while no writer was waiting satisfies the wait below while a reader is active (writer and reader inside together)"
			}
			waits := pa.count(func(e c31event) bool { return e.kind == "recv" && e.name == "writerSignal" && e.blocking })
			if pa.count(isSet) != 0 {
				return "a writer changes readerCount"
			}
			if success {
				if pa.net("gate") != 1 || len(ge) != 1 {
					return fmt.Sprintf("returns success holding %d gate tokens after %d gate operations (must keep exactly the one it took)", pa.net("gate"), len(ge))
				}
				if try {
					if n0 > 0 {
						return "TryLock succeeds while readers are active"
					}
					if waits != 0 {
						return "TryLock waits"
					}
					return ""
				}
				if n0 > 0 && waits != 1 {
					return "readers are active but the writer does not wait for writerSignal (exactly once): it enters next to them"
				}
				if n0 == 0 && waits != 0 {
					return "no reader is active but the writer waits for writerSignal: nobody will signal, the writer sleeps forever holding the gate"
				}
				if waits == 1 {
					w := pa.index(func(e c31event) bool { return e.kind == "recv" && e.name == "writerSignal" && e.blocking })
					if w < rd {
						return "waits for the signal before looking at readerCount"
					}
				}
				return ""
			}
			// failure (TryLock only)
			if pa.net("gate") != 0 {
				return "returns false but keeps the gate token: every later RLock/Lock blocks forever"
			}
			if n0 == 0 {
				return "TryLock fails although it took the gate and no reader is active"
			}
			return ""
		}
	}
	x.pathsRule(progs["Lock"], b, counts, writer(false), rule, "xsync.RWMutex.Lock", progs["Lock"].fn.Pos())
	x.pathsRule(progs["TryLock"], b, counts, writer(true), rule, "xsync.RWMutex.TryLock", progs["TryLock"].fn.Pos())
	x.pathsRule(progs["Unlock"], b, counts, func(_ uint64, pa *c31path) string {
		if pa.end().kind == "panic" {
			if pa.net("gate") != 0 {
				return "the panic path changes the token count"
			}
			return ""
		}
		ge := pa.chanEvents("gate")
		if len(ge) != 1 || ge[0].kind != "send" {
			return "Unlock must put exactly one token back into the gate"
		}
		if len(pa.chanEvents("writerSignal")) != 0 || pa.count(isRead) != 0 {
			return "Unlock must not touch writerSignal/readerCount"
		}
		return ""
	}, rule, "xsync.RWMutex.Unlock", progs["Unlock"].fn.Pos())

	if specs == nil {
		return
	}
	call := func(n string) c31item { return c31item{call: n} }
	gh := func(s string) c31item { return c31item{ghost: s} }
	rd := []c31item{call("RLock"), gh("readers+"), gh("readers-"), call("RUnlock")}
	wr := []c31item{call("Lock"), gh("writers+"), gh("writers-"), call("Unlock")}
	tw := []c31item{{call: "TryLock", try: true, skip: 3}, gh("writers+"), gh("writers-"), call("Unlock")}
	tr := []c31item{{call: "TryRLock", try: true, skip: 3}, gh("readers+"), gh("readers-"), call("RUnlock")}
	seq := c31seq
	inv := func(g map[string]int) string {
		if g["writers"] > 1 {
			return "two writers hold the RWMutex at the same time"
		}
		if g["writers"] > 0 && g["readers"] > 0 {
			return "a writer holds the RWMutex while a reader holds it"
		}
		return ""
	}
	for _, s := range []struct {
		name string
		thr  [][]c31item
	}{
		{"R || R || W", [][]c31item{rd, rd, wr}},
		{"R;R || W;W || R", [][]c31item{seq(rd, rd), seq(wr, wr), rd}},
		{"W || W || R;W", [][]c31item{wr, wr, seq(rd, wr)}},
		{"R;W || R || W;R", [][]c31item{seq(rd, wr), rd, seq(wr, rd)}},
		{"TryLock;TryLock || R;R || W", [][]c31item{seq(tw, tw), seq(rd, rd), wr}},
		{"TryRLock;TryRLock || W || R;W", [][]c31item{seq(tr, tr), wr, seq(rd, wr)}},
		{"TryLock;R || TryRLock;W || R || W", [][]c31item{seq(tw, rd), seq(tr, wr), rd, wr}},
		{"thorough: R;R || R;W || W;R || TryLock;TryRLock", [][]c31item{seq(rd, rd), seq(rd, wr), seq(wr, rd), seq(tw, tr)}},
		{"thorough: R || R || R || W || W", [][]c31item{rd, rd, rd, wr, wr}},
	} {
		if !c31modelsEnabled || strings.HasPrefix(s.name, "thorough") && !c.thorough() {
			continue
		}
		sc := &c31scenario{name: s.name, threads: s.thr, progs: progs, bind: b, chans: specs, ints: map[string]uint64{"readerCount": 0}, invariant: inv}
		res := c31explore(sc, nil, []string{"readers", "writers"}, c31budget(x.c))
		x.report("RWMutex scenario: "+s.name, res, gate.Pos())
	}
}
